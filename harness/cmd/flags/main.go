// Command flags: correspondence + oracle stream for C16 (call flags and manifest permissions).
//
// Case layout (every case draws its randomness from prng.ForCase(seed, k)):
//
//	0                 exhaustive permission corpus (kind × method list × callee), incl. the d153840 repro
//	1                 the linked system-call / native-method tables vs the regenerated Lean tables
//	2 .. 2+NP-1       random manifests: Permission.IsAllowed / Manifest.CanCall vs the model (+ JSON and
//	                  stack-item round trips of the permission)
//	then NM cases     random whole manifests (manifest.go): IsValid, stack-item round trip, CanCall on concrete ids
//	then              chain cases (sweep.go / chain.go): effect sweep, call chains, permission pairs
package main

import (
	"crypto/sha256"
	"encoding/json"
	"fmt"
	"sort"
	"strings"

	"github.com/nspcc-dev/neo-go/pkg/config"
	"github.com/nspcc-dev/neo-go/pkg/core"
	"github.com/nspcc-dev/neo-go/pkg/core/interop"
	"github.com/nspcc-dev/neo-go/pkg/core/native"
	"github.com/nspcc-dev/neo-go/pkg/crypto/keys"
	"github.com/nspcc-dev/neo-go/pkg/smartcontract/manifest"
	"github.com/nspcc-dev/neo-go/pkg/util"

	"verif/harness/internal/hx"
	"verif/harness/internal/prng"
)

// ---- abstract permissions (what goes to the model) and their real counterparts -----------------

type aPerm struct {
	kind    byte // 'w', 'h', 'g'
	id      int
	methods []string // nil = wildcard
}

func (p aPerm) String() string {
	d := "w"
	if p.kind != 'w' {
		d = fmt.Sprintf("%c%d", p.kind, p.id)
	}
	m := "*"
	if p.methods != nil {
		m = "-"
		if len(p.methods) > 0 {
			m = strings.Join(p.methods, ",")
		}
	}
	return d + ":" + m
}

func permsString(ps []aPerm) string {
	if len(ps) == 0 {
		return "-"
	}
	s := make([]string, len(ps))
	for i, p := range ps {
		s[i] = p.String()
	}
	return strings.Join(s, ";")
}

func idsString(ids []int) string {
	if len(ids) == 0 {
		return "-"
	}
	s := make([]string, len(ids))
	for i, x := range ids {
		s[i] = fmt.Sprint(x)
	}
	return strings.Join(s, ",")
}

func hashOf(id int) util.Uint160 {
	var u util.Uint160
	u[0], u[1], u[19] = byte(id), byte(id>>8), 0xC1
	return u
}

var keyCache = map[int]*keys.PrivateKey{}

// groupKey derives the deterministic key pair of group id.
func groupKey(id int) *keys.PrivateKey {
	if k, ok := keyCache[id]; ok {
		return k
	}
	for n := 0; ; n++ {
		h := sha256.Sum256([]byte(fmt.Sprintf("verif-c16-group-%d-%d", id, n)))
		k, err := keys.NewPrivateKeyFromBytes(h[:])
		if err == nil {
			keyCache[id] = k
			return k
		}
	}
}

func (p aPerm) real() manifest.Permission {
	var rp *manifest.Permission
	switch p.kind {
	case 'w':
		rp = manifest.NewPermission(manifest.PermissionWildcard)
	case 'h':
		rp = manifest.NewPermission(manifest.PermissionHash, hashOf(p.id))
	default:
		rp = manifest.NewPermission(manifest.PermissionGroup, groupKey(p.id).PublicKey())
	}
	if p.methods != nil {
		rp.Methods.Value = append([]string{}, p.methods...)
	}
	return *rp
}

func calleeManifest(groups []int) *manifest.Manifest {
	m := manifest.NewManifest("callee")
	for _, g := range groups {
		// a fresh key object per use: PublicKey.Equal must compare by value
		pk, _ := keys.NewPublicKeyFromBytes(groupKey(g).PublicKey().Bytes(), groupKey(g).PublicKey().Curve)
		m.Groups = append(m.Groups, manifest.Group{PublicKey: pk})
	}
	return m
}

// specCanCall is the property's own wording, written independently of the code and the model.
func specCanCall(ps []aPerm, hash int, groups []int, method string) bool {
	for _, p := range ps {
		calleeOK := p.kind == 'w' || (p.kind == 'h' && p.id == hash)
		if p.kind == 'g' {
			for _, g := range groups {
				calleeOK = calleeOK || g == p.id
			}
		}
		methodOK := p.methods == nil
		for _, m := range p.methods {
			methodOK = methodOK || m == method
		}
		if calleeOK && methodOK {
			return true
		}
	}
	return false
}

// canCallLine runs the real IsAllowed/CanCall (directly, after a JSON round trip and after a stack-item
// round trip of every permission), writes the op line and checks the spec oracle.
func canCallLine(o *hx.Out, k int, ps []aPerm, hash int, groups []int, method string) {
	caller := manifest.NewManifest("caller")
	for _, p := range ps {
		caller.Permissions = append(caller.Permissions, p.real())
	}
	callee := calleeManifest(groups)
	h := hashOf(hash)
	obs := hx.Safe(func() string {
		res := caller.CanCall(h, callee, method)
		bits := "-"
		if len(ps) > 0 {
			bits = ""
			for i := range caller.Permissions {
				if caller.Permissions[i].IsAllowed(h, callee, method) {
					bits += "1"
				} else {
					bits += "0"
				}
			}
		}
		// round trips: the stored form of a manifest is a stack item, the deployed form JSON
		for i := range caller.Permissions {
			var viaJSON, viaItem manifest.Permission
			b, err := json.Marshal(&caller.Permissions[i])
			if err == nil {
				err = json.Unmarshal(b, &viaJSON)
			}
			if err != nil {
				o.Fail("perm-json-roundtrip", k, "permission %s: %v", ps[i], err)
			} else if viaJSON.IsAllowed(h, callee, method) != caller.Permissions[i].IsAllowed(h, callee, method) {
				o.Fail("perm-json-roundtrip", k, "permission %s decides differently after a JSON round trip (callee %d groups %v method %q)", ps[i], hash, groups, method)
			}
			if err := viaItem.FromStackItem(caller.Permissions[i].ToStackItem()); err != nil {
				o.Fail("perm-item-roundtrip", k, "permission %s: %v", ps[i], err)
			} else if viaItem.IsAllowed(h, callee, method) != caller.Permissions[i].IsAllowed(h, callee, method) {
				o.Fail("perm-item-roundtrip", k, "permission %s decides differently after a stack-item round trip (callee %d groups %v method %q)", ps[i], hash, groups, method)
			}
		}
		if want := specCanCall(ps, hash, groups, method); res != want {
			o.Fail("cancall-spec", k, "CanCall(perms=%s, callee hash %d groups %v, method %q) = %v, the property says %v", permsString(ps), hash, groups, method, res, want)
		}
		o.Count(fmt.Sprintf("cancall:%v", res))
		return fmt.Sprintf("%v %s", res, bits)
	})
	if obs == "panic" {
		o.Fail("cancall-panic", k, "CanCall panicked: perms=%s", permsString(ps))
	}
	o.Line(fmt.Sprintf("cancall %s %d %s %s", permsString(ps), hash, idsString(groups), method), obs)
	if k < 3 {
		o.Sample(fmt.Sprintf("cancall %s %d %s %s -> %s", permsString(ps), hash, idsString(groups), method, obs))
	}
}

func permCorpus(o *hx.Out, k int) {
	// the defect fixed by d153840: {group G, methods [a]} must not allow b
	canCallLine(o, k, []aPerm{{'g', 7, []string{"a"}}}, 1, []int{7}, "b")
	canCallLine(o, k, []aPerm{{'g', 7, []string{"a"}}}, 1, []int{7}, "a")
	descs := []aPerm{{kind: 'w'}, {kind: 'h', id: 1}, {kind: 'h', id: 2}, {kind: 'g', id: 7}, {kind: 'g', id: 9}}
	lists := [][]string{nil, {}, {"m"}, {"x"}, {"x", "m"}, {"mm"}, {"M"}}
	callees := [][]int{{}, {7}, {8, 7}, {8}}
	for _, d := range descs {
		for _, l := range lists {
			for _, g := range callees {
				p := d
				p.methods = l
				canCallLine(o, k, []aPerm{p}, 1, g, "m")
				o.Seen(fmt.Sprintf("corpus/%s/%v", p, g))
			}
		}
	}
	// several permissions: only the conjunction inside one permission counts
	canCallLine(o, k, []aPerm{{'h', 1, []string{"x"}}, {'g', 7, []string{"m"}}}, 1, []int{8}, "m")
	canCallLine(o, k, []aPerm{{'h', 2, []string{"m"}}, {'w', 0, []string{"x"}}}, 1, []int{}, "m")
	canCallLine(o, k, []aPerm{{'h', 2, []string{"m"}}, {'w', 0, []string{"x"}}, {'g', 8, nil}}, 1, []int{8}, "m")
	canCallLine(o, k, nil, 1, []int{7}, "m")
}

var methodPool = []string{"a", "b", "transfer", "m", "mm", "A"}

func genPerm(r *prng.R) aPerm {
	p := aPerm{}
	switch r.Intn(3) {
	case 0:
		p.kind = 'w'
	case 1:
		p.kind, p.id = 'h', r.Range(1, 4)
	default:
		p.kind, p.id = 'g', r.Range(5, 9)
	}
	switch r.Intn(4) {
	case 0: // wildcard
	case 1:
		p.methods = []string{}
	default:
		n := r.Range(1, 3)
		seen := map[string]bool{}
		p.methods = []string{}
		for i := 0; i < n; i++ {
			m := methodPool[r.Intn(len(methodPool))]
			if !seen[m] {
				seen[m] = true
				p.methods = append(p.methods, m)
			}
		}
	}
	return p
}

func permRandom(o *hx.Out, k int, r *prng.R) {
	n := r.Range(0, 4)
	ps := make([]aPerm, n)
	for i := range ps {
		ps[i] = genPerm(r)
	}
	for q := 0; q < 4; q++ {
		hash := r.Range(1, 4)
		var groups []int
		for g := 5; g <= 9; g++ {
			if r.Chance(1, 3) {
				groups = append(groups, g)
			}
		}
		r.U64()
		method := methodPool[r.Intn(len(methodPool))]
		canCallLine(o, k, ps, hash, groups, method)
		o.Seen(fmt.Sprintf("%s/%d/%v/%s", permsString(ps), hash, groups, method))
	}
	o.Count(fmt.Sprintf("perms:%d", n))
}

// ---- linked tables vs regenerated tables --------------------------------------------------------

func hfIndex(hf config.Hardfork) int {
	if hf == config.HFDefault {
		return 0
	}
	for i, h := range config.Hardforks {
		if h == hf {
			return i + 1
		}
	}
	return -1
}

func linkedInterops() []interop.Function {
	ic := &interop.Context{}
	core.SpawnVM(ic)
	fs := append([]interop.Function(nil), ic.Functions...)
	sort.Slice(fs, func(i, j int) bool { return fs[i].Name < fs[j].Name })
	return fs
}

func b01(b bool) string {
	if b {
		return "1"
	}
	return "0"
}

func tableLines(o *hx.Out) {
	for _, f := range linkedInterops() {
		o.Line("sysflags "+f.Name, fmt.Sprintf("%d %d %d", int(f.RequiredFlags), f.Price, hfIndex(f.ActiveFrom)))
		o.Count("table:syscalls")
	}
	o.Line("sysflags System.No.Such", "absent")
	hfs := append([]config.Hardfork{config.HFDefault}, config.Hardforks...)
	for _, c := range native.NewDefaultContracts(config.ProtocolConfiguration{}) {
		md := c.Metadata()
		start := 0
		if a := c.ActiveIn(); a != nil {
			start = hfIndex(*a)
		}
		for i := range hfs {
			if i < start {
				o.Line(fmt.Sprintf("natflags %s %s %d %d", md.Name, "verify", 0, i), "absent")
				continue
			}
			hf := hfs[i]
			for _, m := range md.HFSpecificContractMD(&hf).Methods {
				o.Line(fmt.Sprintf("natflags %s %s %d %d", md.Name, m.MD.Name, len(m.MD.Parameters), i),
					fmt.Sprintf("%d %s %s", int(m.RequiredFlags), b01(m.MD.Safe), b01(m.DeferrableFunc != nil)))
				o.Count("table:native-method@hf")
			}
		}
	}
}

func main() {
	f := hx.ParseFlags()
	o := hx.NewOut(f.Out)
	defer o.Close()
	k := 0
	if f.Want(k) {
		o.Case(k)
		permCorpus(o, k)
		manifestCorpus(o, k)
	}
	k++
	if f.Want(k) {
		o.Case(k)
		tableLines(o)
	}
	k++
	np := f.N(3000, 200000)
	for i := 0; i < np; i, k = i+1, k+1 {
		if !f.Want(k) {
			continue
		}
		o.Case(k)
		permRandom(o, k, prng.ForCase(f.Seed, k))
	}
	nm := f.N(2500, 150000)
	for i := 0; i < nm; i, k = i+1, k+1 {
		if !f.Want(k) {
			continue
		}
		o.Case(k)
		manifestCase(o, k, prng.ForCase(f.Seed, k))
	}
	chainCases(f, o, k)
}
