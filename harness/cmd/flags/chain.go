package main

// Chain-level cases of the stream, per hardfork level L (case numbers continue after the permission cases):
//
//	+0  system-call sweep (16 flag sets × every system call, through the proxy contract)
//	+1  native-method sweep (16 flag sets × every native method, through proxy.fwd)
//	+2  CALLT under 16 flag sets, LoadScript under 16 × 16 (context flags × requested flags)
//	+3  permission pairs: entry → caller.relay → callee.method for all callers × callees × methods
//	+4  dynamic scripts: entry → relay.dyn → LoadScript → callee.method
//	+5  safe-marked methods that write / notify / call, via System.Contract.Call, CALLT tokens and native callbacks (safe.go)
//	+6  permission check of calls made through NEF method tokens (CALLT) for every relay as the caller
//	+7  callers whose manifest was updated / that were destroyed earlier in the same execution (Domovoi: which manifest counts)
//	+8… random call chains through the relay contracts (entry flags, requested flags, safe/non-safe methods)

import (
	"encoding/json"
	"fmt"
	"os"
	"strings"

	"github.com/nspcc-dev/neo-go/pkg/io"
	"github.com/nspcc-dev/neo-go/pkg/smartcontract/callflag"
	"github.com/nspcc-dev/neo-go/pkg/smartcontract/manifest"
	"github.com/nspcc-dev/neo-go/pkg/vm/emit"
	"github.com/nspcc-dev/neo-go/pkg/vm/stackitem"

	"verif/harness/internal/hx"
	"verif/harness/internal/prng"
)

type hop struct {
	rq     int
	id     int
	method string
}

var relayMethods = []struct {
	name string
	safe bool
}{{"relay", false}, {"a", false}, {"b", false}, {"relaySafe", true}, {"s", true}}

func isSafeMethod(m string) bool { return m == "relaySafe" || m == "s" }

// declare writes the `contract` lines of all relays (the model's view of their manifests).
func (w *world) declare(o *hx.Out) {
	for _, r := range w.relays {
		o.Line(fmt.Sprintf("contract %d %s %s", r.id, idsString(r.groups), permsString(r.perms)), "ok")
	}
}

// runChain executes entry(F0) → hops on the real chain; returns the observation line and the flags of the
// entered contexts (nil on fault).
func (w *world) runChain(f0 int, hops []hop) (obs string, entered []int, r runResult) {
	var path []any
	for _, h := range hops[1:] {
		path = append(path, []any{w.relayByID(h.id).c.Hash, h.method, h.rq})
	}
	if path == nil {
		path = []any{}
	}
	bw := io.NewBufBinWriter()
	emit.AppCall(bw.BinWriter, w.relayByID(hops[0].id).c.Hash, hops[0].method, callflag.CallFlag(hops[0].rq), path)
	if bw.Err != nil {
		panic(&Failure{Msg: "emit chain: " + bw.Err.Error()})
	}
	r = w.run(bw.Bytes(), callflag.CallFlag(f0))
	depth := treeDepth(r.tree) - 1 // dummy root → entry
	if depth < 0 {
		depth = 0
	}
	if r.panicky {
		return "panic", nil, r
	}
	if !r.halt {
		switch {
		case denied(r.msg):
			return fmt.Sprintf("fault:flags %d", depth), nil, r
		case strings.Contains(r.msg, "disallowed method call"):
			return fmt.Sprintf("fault:perm %d", depth), nil, r
		}
		return "fault:other " + strings.ReplaceAll(r.msg, " ", "_"), nil, r
	}
	if len(r.result) != 1 {
		return fmt.Sprintf("halt:bad-stack-%d", len(r.result)), nil, r
	}
	arr, ok := r.result[0].Value().([]stackitem.Item)
	if !ok {
		return "halt:not-an-array", nil, r
	}
	for i := len(arr) - 1; i >= 0; i-- { // the leaf's flags come first
		v, err := arr[i].TryInteger()
		if err != nil {
			return "halt:not-an-integer", nil, r
		}
		entered = append(entered, int(v.Int64()))
	}
	return "halt " + idsString(entered), entered, r
}

func hopsString(hops []hop) string {
	s := make([]string, len(hops))
	for i, h := range hops {
		s[i] = fmt.Sprintf("%d:%d:%s:%s", h.rq, h.id, h.method, b01(isSafeMethod(h.method)))
	}
	return strings.Join(s, " ")
}

// chainOracle: the property's direct statements on one real chain execution.
func (w *world) chainOracle(o *hx.Out, k int, f0 int, hops []hop, entered []int, depthEntered int) {
	prev := f0
	for i, fl := range entered {
		if fl&^prev != 0 {
			o.Fail("flags-grew", k, "context %d of chain (entry %d, hops %s) has flags %d, its caller %d", i, f0, hopsString(hops), fl, prev)
		}
		if fl&^hops[i].rq != 0 {
			o.Fail("flags-exceed-requested", k, "context %d of chain (entry %d, hops %s) has flags %d, requested %d", i, f0, hopsString(hops), fl, hops[i].rq)
		}
		if isSafeMethod(hops[i].method) && fl&int(callflag.WriteStates|callflag.AllowNotify) != 0 {
			o.Fail("safe-keeps-write-or-notify", k, "safe method entered with flags %d (entry %d, hops %s)", fl, f0, hopsString(hops))
		}
		prev = fl
	}
	// every entered non-safe hop made from a deployed contract needs a matching permission of that contract
	for i := 1; i < depthEntered && i < len(hops); i++ {
		if isSafeMethod(hops[i].method) {
			continue
		}
		caller, callee := w.relayByID(hops[i-1].id), w.relayByID(hops[i].id)
		if !specCanCall(caller.perms, callee.id, callee.groups, hops[i].method) {
			o.Fail("call-without-permission", k, "relay %d (permissions %s) entered non-safe %s of relay %d (groups %v)", caller.id, permsString(caller.perms), hops[i].method, callee.id, callee.groups)
		}
		// a caller without AllowCall|ReadStates cannot have made the call
		callerFlags := f0
		if i-1 < len(entered) {
			callerFlags = entered[i-1]
		}
		_ = callerFlags
	}
}

func (w *world) chainLine(o *hx.Out, k int, f0 int, hops []hop) string {
	obs, entered, r := w.runChain(f0, hops)
	o.Line(fmt.Sprintf("chain %d %s", f0, hopsString(hops)), obs)
	depthEntered := treeDepth(r.tree) - 1
	w.chainOracle(o, k, f0, hops, entered, depthEntered)
	if obs == "panic" {
		o.Fail("chain-panic", k, "panic outside the VM: %s", r.msg)
	}
	// a call made by a context without ReadStates|AllowCall: the tree shows a context below one that lacks them
	if entered != nil {
		caller := f0
		for i, fl := range entered {
			if caller&5 != 5 {
				o.Fail("call-without-allowcall", k, "context %d was entered from a context with flags %d (entry %d, hops %s)", i, caller, f0, hopsString(hops))
			}
			caller = fl
		}
	}
	cls := strings.SplitN(obs, " ", 2)[0]
	o.Count("chain:" + cls)
	return obs
}

// tokenAndLoadScript: CALLT under the 16 flag sets; LoadScript under 16 × 16.
func (w *world) tokenAndLoadScript(o *hx.Out, k int) {
	for F := 0; F < 16; F++ {
		bw := io.NewBufBinWriter()
		emit.AppCall(bw.BinWriter, w.proxy.Hash, "viaToken", callflag.CallFlag(F))
		r := w.run(bw.Bytes(), callflag.All)
		obs := "passed"
		switch {
		case strings.Contains(r.msg, "invalid call flags"):
			obs = "denied"
		case !r.halt:
			obs = "fault:" + strings.ReplaceAll(r.msg, " ", "_")
		}
		o.Line(fmt.Sprintf("callt %d", F), obs)
		nested := nestedBelow(r.tree, 2)
		if nested > 0 && F&5 != 5 {
			o.Fail("call-without-allowcall", k, "CALLT executed with flags %d started %d nested contexts", F, nested)
		}
		if r.halt && len(r.result) == 1 {
			if arr, ok := r.result[0].Value().([]stackitem.Item); ok && len(arr) == 1 {
				if v, err := arr[0].TryInteger(); err == nil && int(v.Int64())&^F != 0 {
					o.Fail("flags-grew", k, "CALLT callee has flags %d, the caller %d", v.Int64(), F)
				}
			}
		}
		o.Count("callt:" + strings.SplitN(obs, ":", 2)[0])
	}
	for F := 0; F < 16; F++ {
		for rq := 0; rq < 16; rq++ {
			bw := io.NewBufBinWriter()
			emit.AppCall(bw.BinWriter, w.proxy.Hash, "ls", callflag.CallFlag(F), rq)
			r := w.run(bw.Bytes(), callflag.All)
			obs := ""
			switch {
			case denied(r.msg):
				obs = "denied"
			case !r.halt:
				obs = "fault:" + strings.ReplaceAll(r.msg, " ", "_")
			case len(r.result) == 1:
				v, err := r.result[0].TryInteger()
				if err != nil {
					obs = "halt:not-an-integer"
				} else {
					obs = fmt.Sprint(v.Int64())
					if int(v.Int64())&^F != 0 || int(v.Int64())&^rq != 0 {
						o.Fail("flags-grew", k, "LoadScript child has flags %d (context %d, requested %d)", v.Int64(), F, rq)
					}
					if int(v.Int64())&int(callflag.WriteStates|callflag.AllowNotify) != 0 {
						o.Fail("loadscript-child-can-modify", k, "LoadScript child has flags %d (context %d, requested %d)", v.Int64(), F, rq)
					}
				}
			default:
				obs = fmt.Sprintf("halt:bad-stack-%d", len(r.result))
			}
			o.Line(fmt.Sprintf("loadscript %d %d", F, rq), obs)
			if nestedBelow(r.tree, 2) > 0 && F&int(callflag.AllowCall) == 0 {
				o.Fail("call-without-allowcall", k, "LoadScript executed with flags %d started a context", F)
			}
			if obs == "denied" {
				o.Count("loadscript:denied")
			} else {
				o.Count("loadscript:passed")
			}
		}
	}
}

// dynScripts: entry(F0) → relay.dyn (requested All) → LoadScript (requested All) → callee.method (requested All):
// the dynamic script is not a deployed contract, so no permission applies to its call; its flags are at most
// ReadStates|AllowCall.
func (w *world) dynScripts(o *hx.Out, k int) {
	w.declare(o)
	for _, f0 := range []int{15, 5, 7, 13, 4, 1} {
		for _, caller := range w.relays {
			for _, callee := range w.relays {
				for _, m := range []string{"a", "s"} {
					bw := io.NewBufBinWriter()
					emit.AppCall(bw.BinWriter, caller.c.Hash, "dyn", callflag.All, callee.c.Hash, m)
					r := w.run(bw.Bytes(), callflag.CallFlag(f0))
					depth := treeDepth(r.tree) - 1
					obs := ""
					switch {
					case r.panicky:
						obs = "panic"
					case denied(r.msg):
						obs = fmt.Sprintf("fault:flags %d", depth)
					case strings.Contains(r.msg, "disallowed method call"):
						obs = fmt.Sprintf("fault:perm %d", depth)
					case !r.halt:
						obs = "fault:other " + strings.ReplaceAll(r.msg, " ", "_")
					default:
						obs = "halt:bad-result"
						if len(r.result) == 1 {
							if arr, ok := r.result[0].Value().([]stackitem.Item); ok && len(arr) == 1 {
								if v, err := arr[0].TryInteger(); err == nil {
									obs = fmt.Sprintf("halt %d", v.Int64())
									if int(v.Int64())&^(f0&5) != 0 {
										o.Fail("flags-grew", k, "callee of a dynamic script has flags %d (entry %d)", v.Int64(), f0)
									}
								}
							}
						}
					}
					o.Line(fmt.Sprintf("dynchain %d %d %d %s %s", f0, caller.id, callee.id, m, b01(isSafeMethod(m))), obs)
					o.Count("dyn:" + strings.SplitN(obs, " ", 2)[0])
				}
			}
		}
	}
}

// permissionPairs: entry(All) → caller.relay(All) → callee.method(All) for every pair and method.
func (w *world) permissionPairs(o *hx.Out, k int) {
	w.declare(o)
	for _, caller := range w.relays {
		for _, callee := range w.relays {
			for _, m := range relayMethods {
				hops := []hop{{15, caller.id, "relay"}, {15, callee.id, m.name}}
				obs := w.chainLine(o, k, 15, hops)
				o.Seen(fmt.Sprintf("pair/%d/%d/%s", caller.id, callee.id, m.name))
				want := m.safe || specCanCall(caller.perms, callee.id, callee.groups, m.name)
				switch {
				case want && strings.HasPrefix(obs, "halt "):
					o.Count("pairs:allowed")
				case !want && strings.HasPrefix(obs, "fault:perm"):
					o.Count("pairs:refused")
				default:
					o.Count("pairs:other")
				}
			}
		}
	}
}

// tokenPermissions: entry(All) → caller.ta / caller.ts → CALLT (token flags All) → target.a / target.s: the permission
// check of callInternal applies to calls made through NEF method tokens exactly as to System.Contract.Call.
func (w *world) tokenPermissions(o *hx.Out, k int) {
	w.declare(o)
	tgt := w.relayByID(tokenTargetID)
	for _, caller := range w.relays {
		if caller.id == tokenTargetID {
			continue
		}
		for _, m := range []struct {
			via, name string
			safe      bool
		}{{"ta", "a", false}, {"ts", "s", true}} {
			bw := io.NewBufBinWriter()
			emit.AppCall(bw.BinWriter, caller.c.Hash, m.via, callflag.All, []any{})
			r := w.run(bw.Bytes(), callflag.All)
			obs := ""
			switch {
			case r.panicky:
				obs = "panic"
			case strings.Contains(r.msg, "disallowed method call"):
				obs = "fault:perm"
			case strings.Contains(r.msg, "invalid call flags") || denied(r.msg):
				obs = "fault:flags"
			case !r.halt:
				obs = "fault:other " + strings.ReplaceAll(r.msg, " ", "_")
			default:
				obs = "halt:bad-result"
				if len(r.result) == 1 {
					if arr, ok := r.result[0].Value().([]stackitem.Item); ok && len(arr) == 1 {
						if v, err := arr[0].TryInteger(); err == nil {
							obs = fmt.Sprintf("halt %d", v.Int64())
						}
					}
				}
			}
			o.Line(fmt.Sprintf("tokcall %d %d %s %s", caller.id, tgt.id, m.name, b01(m.safe)), obs)
			o.Count("tokcall:" + strings.SplitN(obs, " ", 2)[0])
			entered := treeDepth(r.tree)-1 >= 2
			if entered && !m.safe && !specCanCall(caller.perms, tgt.id, tgt.groups, m.name) {
				o.Fail("call-without-permission", k, "relay %d (permissions %s) entered non-safe %s of contract %d (groups %v) through a method token", caller.id, permsString(caller.perms), m.name, tgt.id, tgt.groups)
			}
			o.Seen(fmt.Sprintf("tokcall/%d/%s", caller.id, m.name))
		}
	}
}

// updatedCallers: entry(All) → caller.upd(nef, manifest', callee, m) / caller.des(callee, m): the caller has
// ContractManagement replace its manifest (other permissions) or destroy it, and then calls callee.m. The executing
// context still carries the old manifest, ContractManagement's storage the new one (or none): callInternal consults
// the former from Domovoi on, the latter before.
func (w *world) updatedCallers(o *hx.Out, k int) {
	w.declare(o)
	legacy := w.hf < 4
	for _, cid := range []int{1, 9} {
		caller := w.relayByID(cid)
		for _, np := range []struct {
			name  string
			perms []aPerm
			gone  bool
		}{{"-", nil, false}, {"w:*", []aPerm{{kind: 'w'}}, false}, {"gone", nil, true}} {
			for _, callee := range []*relayInfo{w.relayByID(2), w.relayByID(6)} {
				for _, m := range []struct {
					name string
					safe bool
				}{{"a", false}, {"s", true}} {
					bw := io.NewBufBinWriter()
					if np.gone {
						emit.AppCall(bw.BinWriter, caller.c.Hash, "des", callflag.All, callee.c.Hash, m.name)
					} else {
						nm := *caller.c.Manifest
						nm.Permissions = []manifest.Permission{}
						for _, p := range np.perms {
							nm.Permissions = append(nm.Permissions, p.real())
						}
						mb, err := json.Marshal(&nm)
						if err != nil {
							panic(&Failure{Msg: "marshal manifest: " + err.Error()})
						}
						nb, _ := caller.c.NEF.Bytes()
						emit.AppCall(bw.BinWriter, caller.c.Hash, "upd", callflag.All, nb, mb, callee.c.Hash, m.name)
					}
					if bw.Err != nil {
						panic(&Failure{Msg: "emit upd: " + bw.Err.Error()})
					}
					r := w.run(bw.Bytes(), callflag.All)
					obs := "halt"
					switch {
					case r.panicky:
						obs = "panic"
					case strings.Contains(r.msg, "disallowed method call"):
						obs = "fault:perm"
					case !r.halt:
						obs = "fault:other " + strings.ReplaceAll(r.msg, " ", "_")
					}
					o.Line(fmt.Sprintf("updcall %d %s %d %s %s", caller.id, np.name, callee.id, m.name, b01(m.safe)), obs)
					o.Count(fmt.Sprintf("updcall:%s:%s", map[bool]string{true: "legacy", false: "domovoi"}[legacy], strings.SplitN(obs, " ", 2)[0]))
					// the property: a non-safe method entered from a deployed contract needs a matching permission of that
					// contract — of the manifest it runs with, or (read charitably) of the one it has just been given
					if obs == "halt" && !m.safe {
						oldOK := specCanCall(caller.perms, callee.id, callee.groups, m.name)
						newOK := !np.gone && specCanCall(np.perms, callee.id, callee.groups, m.name)
						if !oldOK && !newOK {
							key := "call-without-permission:caller-updated"
							if np.gone {
								key = "call-without-permission:destroyed-caller"
							}
							if legacy {
								key += "@legacy-hardforks"
							}
							o.Fail(key, k, "relay %d (permissions %s, new manifest: %s) entered non-safe %s of relay %d at hardfork level %d", caller.id, permsString(caller.perms), np.name, m.name, callee.id, w.hf)
						}
					}
					o.Seen(fmt.Sprintf("updcall/%d/%s/%d/%s", caller.id, np.name, callee.id, m.name))
				}
			}
		}
	}
}

func genChain(r *prng.R, maxDepth int) (int, []hop) {
	f0 := 15
	switch r.Intn(4) {
	case 0:
		f0 = r.Intn(16)
	case 1:
		f0 = 5 | r.Intn(16)
	}
	n := r.Range(1, maxDepth)
	hops := make([]hop, n)
	for i := range hops {
		rq := 15
		switch r.Intn(5) {
		case 0:
			rq = r.Intn(16)
		case 1, 2:
			rq = 5 | r.Intn(16)
		}
		m := relayMethods[r.Intn(len(relayMethods))].name
		if r.Chance(1, 3) {
			m = "relay"
		}
		hops[i] = hop{rq: rq, id: r.Range(1, 8), method: m}
	}
	return f0, hops
}

// chainCases: the chain-level part of the stream.
func chainCases(f *hx.Flags, o *hx.Out, first int) {
	k := first
	levels := []int{7, 8, 6, 5, 4, 3, 2, 1, 0} // 7 = latest stable hardfork (the default configuration) first
	nChains := 1500
	maxDepth := 4
	if f.Tier == "thorough" {
		nChains = 60000
		maxDepth = 6
	}
	for _, hf := range levels {
		span := 8 + nChains
		wanted := false
		for j := k; j < k+span; j++ {
			if f.Want(j) {
				wanted = true
				break
			}
		}
		if !wanted {
			k += span
			continue
		}
		var w *world
		err := Try(func() {
			w = newWorld(hf)
			w.prepareNativeState()
		})
		if err != nil {
			fmt.Fprintln(os.Stderr, "world setup failed:", err)
			o.Fail("world-setup", k, "hardfork level %d: %v", hf, err)
			k += span
			continue
		}
		fixed := []func(k int){
			func(k int) { w.sweepSyscalls(o, k) },
			func(k int) { w.sweepNatives(o, k) },
			func(k int) { w.tokenAndLoadScript(o, k) },
			func(k int) { w.permissionPairs(o, k) },
			func(k int) { w.dynScripts(o, k) },
			func(k int) { w.safeMarked(o, k) },
			func(k int) { w.tokenPermissions(o, k) },
			func(k int) { w.updatedCallers(o, k) },
		}
		for _, fn := range fixed {
			if f.Want(k) {
				o.Case(k)
				o.Line(fmt.Sprintf("hf %d", hf), "ok")
				o.Count(fmt.Sprintf("world:hardfork-level-%d", hf))
				if err := Try(func() { fn(k) }); err != nil {
					o.Fail("chain-harness", k, "%v", err)
				}
			}
			k++
		}
		for i := 0; i < nChains; i, k = i+1, k+1 {
			if !f.Want(k) {
				continue
			}
			o.Case(k)
			o.Line(fmt.Sprintf("hf %d", hf), "ok")
			r := prng.ForCase(f.Seed, k)
			f0, hops := genChain(r, maxDepth)
			if err := Try(func() {
				w.declare(o)
				obs := w.chainLine(o, k, f0, hops)
				o.Seen(fmt.Sprintf("chain/%d/%s", f0, hopsString(hops)))
				o.Count(fmt.Sprintf("chain:depth-%d", len(hops)))
				if k%97 == 0 {
					o.Sample(fmt.Sprintf("chain %d %s -> %s", f0, hopsString(hops), obs))
				}
			}); err != nil {
				o.Fail("chain-harness", k, "%v", err)
			}
		}
		w.done()
	}
}
