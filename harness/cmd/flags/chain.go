package main

import (
	"fmt"
	"os"

	"verif/harness/internal/hx"
)

// chainCases: the chain-level part of the stream (effect sweep, call chains, permission pairs).
func chainCases(f *hx.Flags, o *hx.Out, first int) {
	k := first
	levels := []int{7}
	for _, hf := range levels {
		if !f.Want(k) && !f.Want(k+1) {
			k += 2
			continue
		}
		var w *world
		err := Try(func() {
			w = newWorld(hf)
			w.prepareNativeState()
		})
		if err != nil {
			fmt.Fprintln(os.Stderr, "world setup failed:", err)
			o.Fail("world-setup", k, "hardfork level %d: %v", hf, err)
			k += 2
			continue
		}
		if f.Want(k) {
			o.Case(k)
			if err := Try(func() { w.sweepSyscalls(o, k) }); err != nil {
				o.Fail("sweep-harness", k, "%v", err)
			}
		}
		k++
		if f.Want(k) {
			o.Case(k)
			if err := Try(func() { w.sweepNatives(o, k) }); err != nil {
				o.Fail("sweep-harness", k, "%v", err)
			}
		}
		k++
		w.done()
	}
}
