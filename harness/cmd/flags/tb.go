// testing.TB shim so pkg/neotest can be driven from an ordinary binary (copy of internal/chainx/tb.go).
package main

import (
	"context"
	"fmt"
	"io"
	"os"
	"testing"
)

// Failure is what TB.FailNow panics with.
type Failure struct{ Msg string }

func (f *Failure) Error() string { return f.Msg }

// TB implements testing.TB for use outside `go test`.
type TB struct {
	testing.TB // nil; only here to satisfy the interface's unexported method
	cleanups   []func()
	lastErr    string
	failed     bool
	tmpDirs    []string
	Verbose    bool
}

func NewTB() *TB { return &TB{} }

func (t *TB) Attr(key, value string) {}
func (t *TB) Cleanup(f func())       { t.cleanups = append(t.cleanups, f) }
func (t *TB) Error(args ...any)      { t.lastErr = fmt.Sprint(args...); t.failed = true }
func (t *TB) Errorf(format string, args ...any) {
	t.lastErr = fmt.Sprintf(format, args...)
	t.failed = true
}
func (t *TB) Fail()        { t.failed = true }
func (t *TB) FailNow()     { t.failed = true; panic(&Failure{Msg: t.lastErr}) }
func (t *TB) Failed() bool { return t.failed }
func (t *TB) Fatal(args ...any) {
	t.Error(args...)
	t.FailNow()
}
func (t *TB) Fatalf(format string, args ...any) {
	t.Errorf(format, args...)
	t.FailNow()
}
func (t *TB) Helper() {}
func (t *TB) Log(args ...any) {
	if t.Verbose {
		fmt.Fprintln(os.Stderr, args...)
	}
}
func (t *TB) Logf(format string, args ...any) {
	if t.Verbose {
		fmt.Fprintf(os.Stderr, format+"\n", args...)
	}
}
func (t *TB) Name() string             { return "verif" }
func (t *TB) Setenv(key, value string) { os.Setenv(key, value) }
func (t *TB) Chdir(dir string)         {}
func (t *TB) Skip(args ...any)         { panic(&Failure{Msg: "skip"}) }
func (t *TB) SkipNow()                 { panic(&Failure{Msg: "skip"}) }
func (t *TB) Skipf(string, ...any)     { panic(&Failure{Msg: "skip"}) }
func (t *TB) Skipped() bool            { return false }
func (t *TB) Context() context.Context { return context.Background() }
func (t *TB) Output() io.Writer        { return io.Discard }

// TempDir returns a fresh directory removed by Done.
func (t *TB) TempDir() string {
	d, err := os.MkdirTemp("", "verif-chainx-")
	if err != nil {
		panic(err)
	}
	t.tmpDirs = append(t.tmpDirs, d)
	return d
}

// Done runs the registered cleanups (LIFO) and removes the temp dirs.
func (t *TB) Done() {
	for i := len(t.cleanups) - 1; i >= 0; i-- {
		func() {
			defer func() { _ = recover() }()
			t.cleanups[i]()
		}()
	}
	t.cleanups = nil
	for _, d := range t.tmpDirs {
		os.RemoveAll(d)
	}
	t.tmpDirs = nil
}

// Reset clears the failed flag (after a Try that failed on purpose).
func (t *TB) Reset() { t.failed = false; t.lastErr = "" }

// Try runs f; a TB failure (require.* on the shim) or any other panic becomes an error.
func Try(f func()) (err error) {
	defer func() {
		if r := recover(); r != nil {
			if fl, ok := r.(*Failure); ok {
				err = fl
				return
			}
			err = fmt.Errorf("panic: %v", r)
		}
	}()
	f()
	return nil
}
