package main

// Whole manifests: Manifest.IsValid (every check, in the order of the code), the stack-item round trip
// (ToStackItem → [Serialize → Deserialize →] FromStackItem) and CanCall on concrete hashes / keys, against the
// Lean model Model/Flags/Manifest.lean. Manifests are built as Go values (not through JSON) so that every shape
// the type admits is reachable; the JSON form is cross-checked by the oracle only.
//
// Line format (fields separated by blanks; bytes in hex, `-` = empty; lists: `_` = empty, `nil` = nil slice):
//
//	mvalid <checkHash 0/1> <9 fields>   -> ok | err:<class>            (IsValid(hash, false))
//	mvalidsz <checkHash 0/1> <9 fields> -> ok | err:<class>            (IsValid(hash, true): + the serialisation limits)
//	mitem  <9 fields>                   -> <9 fields of the decoded manifest (groups without verdict)> | err
//	mitemx <n> <item> <9 fields>        -> the decoded manifest | err      (leaf n of the stack item replaced by <item>:
//	                                       n null, t/f, i<int>, x<bytes>, u<buffer>, a/s empty array/struct, m empty map)
//	mcancall <perms> <hash> <callee group keys> <method>  -> true | false
//
//	9 fields = name groups features standards methods events permissions trusts extra
//	group  = key/signature/verdict(0|1 of PublicKey.Verify)       method = name/offset/returntype/safe/params
//	param  = name.type  (joined by +)                               event  = name/params
//	perm   = desc/methods   desc = w | h<20 bytes> | g<33 bytes>    methods = * | _ | m+m
//	trusts = * | nil | _ | desc,desc | *:_ | *:desc,desc   (`*` = the Wildcard flag)

import (
	"encoding/hex"
	"encoding/json"
	"fmt"
	"math/big"
	"strings"
	"unicode/utf8"

	"github.com/nspcc-dev/neo-go/pkg/crypto/hash"
	"github.com/nspcc-dev/neo-go/pkg/crypto/keys"
	"github.com/nspcc-dev/neo-go/pkg/smartcontract"
	"github.com/nspcc-dev/neo-go/pkg/smartcontract/manifest"
	"github.com/nspcc-dev/neo-go/pkg/util"
	"github.com/nspcc-dev/neo-go/pkg/vm/stackitem"

	"verif/harness/internal/hx"
	"verif/harness/internal/prng"
)

func hexOrDash(b []byte) string {
	if len(b) == 0 {
		return "-"
	}
	return hex.EncodeToString(b)
}

func listOr(items []string, sep string) string {
	if len(items) == 0 {
		return "_"
	}
	return strings.Join(items, sep)
}

func encParams(ps []manifest.Parameter) string {
	s := make([]string, len(ps))
	for i, p := range ps {
		s[i] = fmt.Sprintf("%s.%d", hexOrDash([]byte(p.Name)), int(p.Type))
	}
	return listOr(s, "+")
}

func encDesc(d manifest.PermissionDesc) string {
	switch d.Type {
	case manifest.PermissionHash:
		return "h" + hex.EncodeToString(d.Hash().BytesBE())
	case manifest.PermissionGroup:
		return "g" + hex.EncodeToString(d.Group().Bytes())
	}
	return "w"
}

func encPerms(ps []manifest.Permission) string {
	s := make([]string, len(ps))
	for i := range ps {
		ms := "*"
		if ps[i].Methods.Value != nil {
			x := make([]string, len(ps[i].Methods.Value))
			for j, m := range ps[i].Methods.Value {
				x[j] = hexOrDash([]byte(m))
			}
			ms = listOr(x, "+")
		}
		s[i] = encDesc(ps[i].Contract) + "/" + ms
	}
	return listOr(s, ",")
}

// encManifest writes the nine fields; verdicts != nil adds the Verify verdict to every group.
func encManifest(m *manifest.Manifest, verdicts []bool) string {
	groups := "nil"
	if m.Groups != nil {
		s := make([]string, len(m.Groups))
		for i, g := range m.Groups {
			s[i] = hex.EncodeToString(g.PublicKey.Bytes()) + "/" + hexOrDash(g.Signature)
			if verdicts != nil {
				s[i] += "/" + b01(verdicts[i])
			}
		}
		groups = listOr(s, ",")
	}
	std := make([]string, len(m.SupportedStandards))
	for i, x := range m.SupportedStandards {
		std[i] = hexOrDash([]byte(x))
	}
	methods := make([]string, len(m.ABI.Methods))
	for i, x := range m.ABI.Methods {
		methods[i] = fmt.Sprintf("%s/%d/%d/%s/%s", hexOrDash([]byte(x.Name)), x.Offset, int(x.ReturnType), b01(x.Safe), encParams(x.Parameters))
	}
	events := make([]string, len(m.ABI.Events))
	for i, x := range m.ABI.Events {
		events[i] = hexOrDash([]byte(x.Name)) + "/" + encParams(x.Parameters)
	}
	trusts := "nil"
	if m.Trusts.Value != nil {
		s := make([]string, len(m.Trusts.Value))
		for i, d := range m.Trusts.Value {
			s[i] = encDesc(d)
		}
		trusts = listOr(s, ",")
	}
	if m.Trusts.Wildcard { // `*` alone: wildcard with a nil value; `*:<list>`: wildcard flag and a value
		if m.Trusts.Value == nil {
			trusts = "*"
		} else {
			trusts = "*:" + trusts
		}
	}
	return strings.Join([]string{hexOrDash([]byte(m.Name)), groups, hexOrDash(m.Features), listOr(std, ","), listOr(methods, ","),
		listOr(events, ","), encPerms(m.Permissions), trusts, hexOrDash(m.Extra)}, " ")
}

// classifyManifestErr maps the error of Manifest.IsValid to the model's class names.
func classifyManifestErr(err error) string {
	if err == nil {
		return "ok"
	}
	s := err.Error()
	has := func(x string) bool { return strings.Contains(s, x) }
	switch {
	case s == "no name":
		return "err:noName"
	case has("invalid nameless supported standard"):
		return "err:emptyStandard"
	case has("duplicate supported standards"):
		return "err:dupStandards"
	case has("ABI: no methods"):
		return "err:noMethods"
	case has("parameter #") && has("empty or absent name"):
		return "err:paramEmptyName"
	case has("parameter #") && has("void parameter"):
		return "err:paramVoid"
	case has("parameter #") && has("unknown parameter type"):
		return "err:paramBadType"
	case has("duplicate parameter name"):
		return "err:dupParams"
	case has("ABI: method ") && has("empty or absent name"):
		return "err:methodEmptyName"
	case has("ABI: method ") && has("negative offset"):
		return "err:methodNegOffset"
	case has("ABI: method ") && has("unknown parameter type"):
		return "err:methodBadReturn"
	case has("duplicate method specifications"):
		return "err:dupMethods"
	case has("ABI: event ") && has("empty or absent name"):
		return "err:eventEmptyName"
	case has("duplicate event names"):
		return "err:dupEvents"
	case has("invalid features"):
		return "err:badFeatures"
	case has("null groups"):
		return "err:nullGroups"
	case has("incorrect group signature"):
		return "err:badGroupSignature"
	case has("duplicate group keys"):
		return "err:dupGroups"
	case has("invalid (null?) trusts"):
		return "err:nullTrusts"
	case has("duplicate trusted contracts"):
		return "err:dupTrusts"
	case has("empty method name"):
		return "err:permEmptyMethod"
	case has("duplicate method names"):
		return "err:permDupMethods"
	case has("contracts have duplicates"):
		return "err:dupPermissions"
	case has("manifest is not serializable") || has("failed to check manifest serialisation"):
		return "err:notSerializable"
	}
	return "err:other:" + strings.ReplaceAll(s, " ", "_")
}

var (
	mNames   = []string{"a", "b", "transfer", "m", "verify", "onNEP17Payment", "_deploy", "привет"}
	mPNames  = []string{"x", "y", "from", "to", "amount"}
	mTypes   = []smartcontract.ParamType{smartcontract.AnyType, smartcontract.BoolType, smartcontract.IntegerType, smartcontract.ByteArrayType, smartcontract.StringType, smartcontract.Hash160Type, smartcontract.ArrayType, smartcontract.InteropInterfaceType}
	mStds    = []string{"NEP-17", "NEP-11", "NEP-27", "x"}
	mExtras  = [][]byte{nil, []byte("null"), []byte(`{"a":1}`), []byte("{ \"k\" : \"a b\",\n \"n\":[1, 2] }"), []byte(`"str"`), []byte("12")}
	mFeats   = [][]byte{[]byte("{}"), []byte("{}"), []byte("{}"), []byte("{ }"), []byte(" {\n}\t"), []byte(`{"a":1}`), nil, []byte("{}}")}
	badTypes = []int{1, 0x31, 0x7f, 0xfe, 15}
)

func genParams(r *prng.R, n int) []manifest.Parameter {
	ps := make([]manifest.Parameter, n)
	for i := range ps {
		ps[i] = manifest.Parameter{Name: mPNames[i%len(mPNames)], Type: mTypes[r.Intn(len(mTypes))]}
	}
	return ps
}

func groupSig(id int, h util.Uint160) []byte {
	return groupKey(id).Sign(h.BytesBE()) // Sign hashes its argument; Group.IsValid verifies against sha256(hash)
}

func genDesc(r *prng.R) manifest.PermissionDesc {
	switch r.Intn(3) {
	case 0:
		return manifest.PermissionDesc{Type: manifest.PermissionWildcard}
	case 1:
		return manifest.PermissionDesc{Type: manifest.PermissionHash, Value: hashOf(r.Range(1, 4))}
	}
	return manifest.PermissionDesc{Type: manifest.PermissionGroup, Value: groupKey(r.Range(5, 8)).PublicKey()}
}

// genManifest builds a valid manifest for contract hash h, then damages it (0..2 mutations, each aimed at one check).
func genManifest(r *prng.R, h util.Uint160, o *hx.Out) *manifest.Manifest {
	m := manifest.NewManifest(mNames[r.Intn(len(mNames))])
	nm := r.Range(1, 3)
	for i := 0; i < nm; i++ {
		m.ABI.Methods = append(m.ABI.Methods, manifest.Method{Name: mNames[(i+r.Intn(3))%len(mNames)] + fmt.Sprint(i), Offset: i * 3, Parameters: genParams(r, r.Intn(3)),
			ReturnType: []smartcontract.ParamType{smartcontract.VoidType, smartcontract.BoolType, smartcontract.AnyType}[r.Intn(3)], Safe: r.Chance(1, 3)})
	}
	for i := 0; i < r.Intn(3); i++ {
		m.ABI.Events = append(m.ABI.Events, manifest.Event{Name: fmt.Sprintf("E%d", i), Parameters: genParams(r, r.Intn(3))})
	}
	for i, n := 0, r.Intn(3); i < n; i++ {
		id := 5 + i
		m.Groups = append(m.Groups, manifest.Group{PublicKey: groupKey(id).PublicKey(), Signature: groupSig(id, h)})
	}
	for i, n := 0, r.Intn(3); i < n; i++ {
		m.SupportedStandards = append(m.SupportedStandards, mStds[i])
	}
	seen := map[string]bool{}
	for i, n := 0, r.Intn(4); i < n; i++ {
		d := genDesc(r)
		if seen[encDesc(d)] {
			continue
		}
		seen[encDesc(d)] = true
		p := manifest.Permission{Contract: d}
		switch r.Intn(3) {
		case 0:
		case 1:
			p.Methods.Value = []string{}
		default:
			p.Methods.Value = []string{"a", "transfer"}[:r.Range(1, 2)]
		}
		m.Permissions = append(m.Permissions, p)
	}
	switch r.Intn(3) {
	case 0:
		m.Trusts = manifest.WildPermissionDescs{Wildcard: true}
	case 1: // empty, as NewManifest left it
	default:
		m.Trusts.Add(manifest.PermissionDesc{Type: manifest.PermissionHash, Value: hashOf(1)})
		if r.Chance(1, 2) {
			m.Trusts.Add(manifest.PermissionDesc{Type: manifest.PermissionGroup, Value: groupKey(6).PublicKey()})
		}
	}
	m.Extra = mExtras[r.Intn(len(mExtras))]
	m.Features = mFeats[r.Intn(3)]
	nmut := []int{0, 0, 1, 1, 1, 2}[r.Intn(6)]
	for i := 0; i < nmut; i++ {
		mut := r.Intn(30)
		o.Count(fmt.Sprintf("manifest:mutation-%02d", mut))
		mi := r.Intn(len(m.ABI.Methods))
		switch mut {
		case 0:
			m.Name = ""
		case 1:
			m.SupportedStandards = append(m.SupportedStandards, "")
		case 2:
			m.SupportedStandards = append(m.SupportedStandards, "NEP-17", "zz", "NEP-17")
		case 3:
			m.ABI.Methods = nil
			return m
		case 4:
			m.ABI.Methods[mi].Name = ""
		case 5:
			m.ABI.Methods[mi].Offset = -1 - r.Intn(3)
		case 6:
			m.ABI.Methods[mi].ReturnType = smartcontract.ParamType(badTypes[r.Intn(len(badTypes))])
		case 7:
			m.ABI.Methods[mi].Parameters = append(m.ABI.Methods[mi].Parameters, manifest.Parameter{Name: "", Type: smartcontract.IntegerType})
		case 8:
			m.ABI.Methods[mi].Parameters = append(m.ABI.Methods[mi].Parameters, manifest.Parameter{Name: "v", Type: smartcontract.VoidType})
		case 9:
			m.ABI.Methods[mi].Parameters = append(m.ABI.Methods[mi].Parameters, manifest.Parameter{Name: "q", Type: smartcontract.ParamType(badTypes[r.Intn(len(badTypes))])})
		case 10:
			m.ABI.Methods[mi].Parameters = append(genParams(r, 3), manifest.Parameter{Name: "x", Type: smartcontract.BoolType})
		case 11: // same name and parameter count: duplicate; same name, other count: fine
			d := m.ABI.Methods[mi]
			if r.Chance(1, 3) {
				d.Parameters = append(append([]manifest.Parameter{}, d.Parameters...), manifest.Parameter{Name: "extra", Type: smartcontract.AnyType})
			}
			m.ABI.Methods = append(m.ABI.Methods, manifest.Method{Name: "zz", Parameters: []manifest.Parameter{}, ReturnType: smartcontract.VoidType}, d)
		case 12:
			m.ABI.Events = append(m.ABI.Events, manifest.Event{Name: "", Parameters: []manifest.Parameter{}})
		case 13:
			m.ABI.Events = append(m.ABI.Events, manifest.Event{Name: "D", Parameters: []manifest.Parameter{}}, manifest.Event{Name: "C"}, manifest.Event{Name: "D", Parameters: genParams(r, 1)})
		case 14:
			m.ABI.Events = append(m.ABI.Events, manifest.Event{Name: "P", Parameters: []manifest.Parameter{{Name: "", Type: smartcontract.AnyType}}})
		case 15:
			m.ABI.Events = append(m.ABI.Events, manifest.Event{Name: "P", Parameters: []manifest.Parameter{{Name: "a", Type: smartcontract.AnyType}, {Name: "a", Type: smartcontract.BoolType}}})
		case 16:
			m.Features = mFeats[r.Intn(len(mFeats))]
		case 17:
			m.Groups = nil
		case 18:
			if len(m.Groups) > 0 {
				g := &m.Groups[r.Intn(len(m.Groups))]
				g.Signature = append([]byte{}, g.Signature...)
				g.Signature[r.Intn(len(g.Signature))] ^= 1 << uint(r.Intn(8))
			}
		case 19:
			m.Groups = append(m.Groups, manifest.Group{PublicKey: groupKey(9).PublicKey(), Signature: groupSig(9, h)}, manifest.Group{PublicKey: groupKey(8).PublicKey(), Signature: groupSig(8, h)}, manifest.Group{PublicKey: groupKey(9).PublicKey(), Signature: groupSig(9, h)})
		case 20:
			m.Trusts = manifest.WildPermissionDescs{}
		case 21:
			d := manifest.PermissionDesc{Type: manifest.PermissionHash, Value: hashOf(3)}
			m.Trusts.Add(d)
			m.Trusts.Add(manifest.PermissionDesc{Type: manifest.PermissionGroup, Value: groupKey(5).PublicKey()})
			m.Trusts.Add(d)
			if r.Chance(1, 3) {
				m.Trusts.Wildcard = true // the duplicate check looks at Value whatever Wildcard says
			}
		case 22:
			m.Permissions = append(m.Permissions, manifest.Permission{Contract: manifest.PermissionDesc{Type: manifest.PermissionHash, Value: hashOf(9)}, Methods: manifest.WildStrings{Value: []string{"a", ""}}})
		case 23:
			m.Permissions = append(m.Permissions, manifest.Permission{Contract: manifest.PermissionDesc{Type: manifest.PermissionHash, Value: hashOf(9)}, Methods: manifest.WildStrings{Value: []string{"a", "b", "a"}}})
		case 24:
			d := genDesc(r)
			m.Permissions = append(m.Permissions, manifest.Permission{Contract: d}, manifest.Permission{Contract: manifest.PermissionDesc{Type: manifest.PermissionHash, Value: hashOf(7)}}, manifest.Permission{Contract: d, Methods: manifest.WildStrings{Value: []string{"a"}}})
		case 25: // a 63-byte signature: never verifies, and the stack-item form is refused
			if len(m.Groups) > 0 {
				m.Groups[0].Signature = m.Groups[0].Signature[:63]
			}
		case 26: // a name that is not valid UTF-8: IsValid does not care, FromStackItem does
			switch r.Intn(4) {
			case 0:
				m.Name = "n\xff"
			case 1:
				m.ABI.Methods[mi].Name = "\xc3\x28"
			case 2:
				m.SupportedStandards = append(m.SupportedStandards, "\xed\xa0\x80")
			default:
				m.Permissions = append(m.Permissions, manifest.Permission{Contract: manifest.PermissionDesc{Type: manifest.PermissionHash, Value: hashOf(8)}, Methods: manifest.WildStrings{Value: []string{"\xf8"}}})
			}
		case 27: // two permissions with the same group, another order of the groups
			if len(m.Groups) >= 2 {
				m.Groups[0], m.Groups[1] = m.Groups[1], m.Groups[0]
			}
		case 28:
			m.Extra = mExtras[r.Intn(len(mExtras))]
		case 29:
			m.ABI.Methods[mi].Parameters = []manifest.Parameter{{Name: "p", Type: smartcontract.VoidType}, {Name: "", Type: smartcontract.BoolType}}
		}
	}
	return m
}

func leaves(it stackitem.Item, visit func(parent []stackitem.Item, i int)) {
	switch it.Type() {
	case stackitem.ArrayT, stackitem.StructT:
		vs := it.Value().([]stackitem.Item)
		for i := range vs {
			switch vs[i].Type() {
			case stackitem.ArrayT, stackitem.StructT:
				leaves(vs[i], visit)
			default:
				visit(vs, i)
			}
		}
	}
}

func bigOf(s string) *big.Int {
	v, _ := new(big.Int).SetString(s, 10)
	return v
}

// mutatedItemLine: replace the n-th leaf (preorder) of m's stack item and decode.
func mutatedItemLine(o *hx.Out, k int, r *prng.R, m *manifest.Manifest, fields string) {
	it, err := m.ToStackItem()
	if err != nil {
		return
	}
	n := 0
	leaves(it, func([]stackitem.Item, int) { n++ })
	if n == 0 {
		return
	}
	target := r.Intn(n)
	// (no value whose int64 is -1: smartcontract.UnknownType = -1 is in validParamTypes, the model's type codes are
	// the non-negative ones — see props/C16.json)
	ints := []string{"0", "1", "16", "17", "255", "256", "-2", "18446744073709551632", "-18446744073709551600", "-18446744073709551616",
		"9223372036854775807", "9223372036854775808", "-9223372036854775808", "-9223372036854775809", "4294967312", "65536", "32768", "-128", "128"}
	var repl stackitem.Item
	var code string
	switch r.Intn(9) {
	case 0:
		repl, code = stackitem.Null{}, "n"
	case 1:
		b := r.Chance(1, 2)
		repl, code = stackitem.NewBool(b), map[bool]string{true: "t", false: "f"}[b]
	case 2, 3:
		v := ints[r.Intn(len(ints))]
		repl, code = stackitem.NewBigInteger(bigOf(v)), "i"+v
	case 4, 5:
		bs := [][]byte{{}, {0x10}, {0x10, 0}, {0}, {0, 0, 1}, {0xfe}, {0x80}, {0xff, 0x7f}, []byte("name"), make([]byte, 32), make([]byte, 33), append(make([]byte, 31), 0x80), {0x10, 0, 0, 0, 0, 0, 0, 0, 1}, {0xc3, 0x28}}[r.Intn(14)]
		repl, code = stackitem.NewByteArray(bs), "x"+hexOrDash(bs)
	case 6:
		bs := [][]byte{{}, {0x10}, []byte("buf"), make([]byte, 64)}[r.Intn(4)]
		repl, code = stackitem.NewBuffer(bs), "u"+hexOrDash(bs)
	case 7:
		if r.Chance(1, 2) {
			repl, code = stackitem.NewArray(nil), "a"
		} else {
			repl, code = stackitem.NewStruct(nil), "s"
		}
	default:
		repl, code = stackitem.NewMap(), "m"
	}
	i := 0
	leaves(it, func(parent []stackitem.Item, j int) {
		if i == target {
			parent[j] = repl
		}
		i++
	})
	obs := hx.Safe(func() string {
		m2, err := itemManifest(it)
		if err != nil {
			return "err"
		}
		// oracle on the real code: what FromStackItem accepted is a manifest value whose own stack item decodes to itself
		it2, err := m2.ToStackItem()
		if err != nil {
			o.Fail("manifest-decoded-not-stable", k, "FromStackItem accepted a mutated item (leaf %d := %s of %s) whose manifest has no stack item: %v", target, code, fields, err)
		} else if m3, err := itemManifest(it2); err != nil || encNoExtra(m3) != encNoExtra(m2) {
			o.Fail("manifest-decoded-not-stable", k, "FromStackItem accepted a mutated item (leaf %d := %s of %s) whose manifest does not survive its own round trip", target, code, fields)
		}
		return encManifest(m2, nil)
	})
	o.Line(fmt.Sprintf("mitemx %d %s %s", target, code, fields), obs)
	if obs == "panic" {
		o.Fail("manifest-panic", k, "FromStackItem panicked on a mutated item (leaf %d := %s of %s)", target, code, fields)
	}
	if obs == "err" {
		o.Count("manifest:itemx:refused:" + code[:1])
	} else {
		o.Count("manifest:itemx:accepted:" + code[:1])
	}
}

// encNoExtra: the encoding without the `extra` field (FromStackItem takes any bytes for it, ToStackItem re-marshals it
// as JSON: an `extra` that is not JSON does not survive, which no permission or validity decision depends on).
func encNoExtra(m *manifest.Manifest) string {
	c := *m
	c.Extra = nil
	return encManifest(&c, nil)
}

func itemManifest(it stackitem.Item) (*manifest.Manifest, error) {
	m := new(manifest.Manifest)
	if err := m.FromStackItem(it); err != nil {
		return nil, err
	}
	return m, nil
}

// manifestCase: one generated manifest through IsValid, the stack-item round trip and CanCall.
func manifestCase(o *hx.Out, k int, r *prng.R) {
	h := hashOf(r.Range(1, 4))
	checkHash := !r.Chance(1, 4)
	vh := h
	if !checkHash {
		vh = util.Uint160{}
	}
	m := genManifest(r, h, o)
	verdicts := make([]bool, len(m.Groups))
	for i, g := range m.Groups {
		verdicts[i] = g.PublicKey.Verify(g.Signature, hash.Sha256(h.BytesBE()).BytesBE())
	}
	fields := encManifest(m, verdicts)
	// 1. validity
	obs := hx.Safe(func() string { return classifyManifestErr(m.IsValid(vh, false)) })
	o.Line("mvalid "+b01(checkHash)+" "+fields, obs)
	o.Count("manifest:isvalid:" + strings.SplitN(obs, ":other", 2)[0])
	if obs == "panic" {
		o.Fail("manifest-panic", k, "Manifest.IsValid panicked on %s", fields)
	}
	// 1b. the same with the size check (what ContractManagement.deploy / update run)
	obsz := hx.Safe(func() string { return classifyManifestErr(m.IsValid(vh, true)) })
	o.Line("mvalidsz "+b01(checkHash)+" "+fields, obsz)
	if obsz != obs {
		o.Count("manifest:isvalid-size-check-decides")
	}
	valid := obs == "ok"
	if valid { // the duplicate checks, by the property's own reading: no two equal entries anywhere
		dup := func(what string, keys []string) {
			seen := map[string]bool{}
			for _, x := range keys {
				if seen[x] {
					o.Fail("manifest-duplicate-accepted", k, "IsValid accepts a manifest with duplicate %s %q: %s", what, x, fields)
				}
				seen[x] = true
			}
		}
		var ks []string
		for _, p := range m.Permissions {
			ks = append(ks, encDesc(p.Contract))
			dup("permission methods", p.Methods.Value)
		}
		dup("permission contracts", ks)
		ks = nil
		for _, g := range m.Groups {
			ks = append(ks, string(g.PublicKey.Bytes()))
		}
		dup("group keys", ks)
		ks = nil
		for _, d := range m.Trusts.Value {
			ks = append(ks, encDesc(d))
		}
		dup("trusts", ks)
		dup("supported standards", m.SupportedStandards)
		ks = nil
		for _, x := range m.ABI.Methods {
			ks = append(ks, fmt.Sprintf("%s/%d", x.Name, len(x.Parameters)))
			var ps []string
			for _, p := range x.Parameters {
				ps = append(ps, p.Name)
			}
			dup("parameter names", ps)
		}
		dup("methods", ks)
		ks = nil
		for _, x := range m.ABI.Events {
			ks = append(ks, x.Name)
		}
		dup("events", ks)
	}
	// 2. stack-item round trip, directly and through the serialised (stored) form
	var back *manifest.Manifest
	obs2 := hx.Safe(func() string {
		it, err := m.ToStackItem()
		if err != nil {
			return "err"
		}
		m2, err := itemManifest(it)
		ser, serr := stackitem.Serialize(it)
		if serr == nil {
			it2, derr := stackitem.Deserialize(ser)
			if derr != nil {
				o.Fail("manifest-item-roundtrip", k, "the serialised stack item of %s does not deserialise: %v", fields, derr)
			} else {
				m3, err3 := itemManifest(it2)
				if (err == nil) != (err3 == nil) || (err == nil && encManifest(m2, nil) != encManifest(m3, nil)) {
					o.Fail("manifest-item-roundtrip", k, "FromStackItem differs between the item and its serialised form for %s", fields)
				}
			}
		}
		if err != nil {
			return "err"
		}
		back = m2
		return encManifest(m2, nil)
	})
	o.Line("mitem "+fields, obs2)
	if obs2 == "err" {
		o.Count("manifest:item:refused")
	} else {
		o.Count("manifest:item:ok")
	}
	if obs2 == "panic" {
		o.Fail("manifest-panic", k, "the stack-item round trip panicked on %s", fields)
	}
	// 2b. items ToStackItem could NOT have produced: one leaf of the stack item replaced by an item of another type
	// (Integer/Boolean/Buffer where bytes are expected, ByteArray where an integer or boolean is expected, integers
	// around the int64 range, null / containers), then FromStackItem
	for rep := 0; rep < 2; rep++ {
		mutatedItemLine(o, k, r, m, fields)
	}
	// 3. the property's view: a valid manifest stays valid and decides every call the same way after the round trip,
	// after a JSON round trip, and whatever the order of its permissions
	callee := calleeManifest([]int{5, 7})
	queries := []struct {
		h util.Uint160
		m string
	}{{hashOf(1), "a"}, {hashOf(2), "transfer"}, {hashOf(9), "b"}, {hashOf(3), ""}}
	// what JSON decoding guarantees about a manifest value and IsValid does not check (the model's WF): strings are
	// valid UTF-8, signatures have 64 bytes
	wf := utf8.ValidString(m.Name)
	for _, g := range m.Groups {
		wf = wf && len(g.Signature) == keys.SignatureLen
	}
	for _, x := range m.SupportedStandards {
		wf = wf && utf8.ValidString(x)
	}
	for _, x := range m.ABI.Methods {
		wf = wf && utf8.ValidString(x.Name)
	}
	for _, p := range m.Permissions {
		for _, x := range p.Methods.Value {
			wf = wf && utf8.ValidString(x)
		}
	}
	if valid && !wf {
		o.Count("manifest:valid-but-not-wellformed")
	}
	if valid && wf {
		o.Count("manifest:valid-and-wellformed")
		if back == nil {
			o.Fail("manifest-valid-not-storable", k, "a valid manifest is refused by FromStackItem(ToStackItem): %s", fields)
		} else if err := back.IsValid(vh, false); err != nil {
			o.Fail("manifest-roundtrip-invalid", k, "valid manifest %s is invalid after the stack-item round trip: %v", fields, err)
		}
		if js, err := json.Marshal(m); err != nil {
			o.Fail("manifest-json-roundtrip", k, "valid manifest %s does not marshal: %v", fields, err)
		} else {
			mj := new(manifest.Manifest)
			if err := json.Unmarshal(js, mj); err != nil {
				o.Fail("manifest-json-roundtrip", k, "valid manifest %s does not unmarshal: %v", fields, err)
			} else {
				if err := mj.IsValid(vh, false); err != nil {
					o.Fail("manifest-json-roundtrip", k, "valid manifest %s is invalid after a JSON round trip: %v", fields, err)
				}
				for _, q := range queries {
					if mj.CanCall(q.h, callee, q.m) != m.CanCall(q.h, callee, q.m) {
						o.Fail("manifest-json-roundtrip", k, "CanCall differs after a JSON round trip of %s", fields)
					}
				}
			}
		}
	}
	for _, q := range queries {
		want := m.CanCall(q.h, callee, q.m)
		o.Line(fmt.Sprintf("mcancall %s %s %s %s", encPerms(m.Permissions), hex.EncodeToString(q.h.BytesBE()),
			hex.EncodeToString(groupKey(5).PublicKey().Bytes())+","+hex.EncodeToString(groupKey(7).PublicKey().Bytes()), hexOrDash([]byte(q.m))), fmt.Sprint(want))
		if back != nil && back.CanCall(q.h, callee, q.m) != want {
			o.Fail("manifest-roundtrip-cancall", k, "CanCall(%s, %q) differs after the stack-item round trip of %s", q.h.StringLE(), q.m, fields)
		}
		if n := len(m.Permissions); n > 1 { // rotate and reverse the permissions
			sh := *m
			sh.Permissions = make([]manifest.Permission, n)
			for i := range m.Permissions {
				sh.Permissions[(n-1-i+k)%n] = m.Permissions[i]
			}
			if sh.CanCall(q.h, callee, q.m) != want {
				o.Fail("cancall-order-dependent", k, "CanCall(%s, %q) depends on the order of the permissions of %s", q.h.StringLE(), q.m, fields)
			}
		}
	}
	if k%37 == 0 {
		o.Sample("mvalid " + b01(checkHash) + " " + fields + " -> " + obs)
	}
	o.Seen("manifest/" + fields)
}

// bigManifests: manifests around the two limits of stackitem.Serialize (2048 items, 131070 bytes), which
// IsValid(hash, checkSize = true) enforces: n methods without parameters (6 items each), n methods with p parameters
// (6+3p items each), long names.
func bigManifests(o *hx.Out, k int) {
	mk := func(nMethods, nParams, nameLen int) *manifest.Manifest {
		m := manifest.NewManifest("big")
		for i := 0; i < nMethods; i++ {
			name := fmt.Sprintf("m%d", i)
			for len(name) < nameLen {
				name += "x"
			}
			m.ABI.Methods = append(m.ABI.Methods, manifest.Method{Name: name, Offset: i, Parameters: genParams(prng.ForCase(1, i), 0), ReturnType: smartcontract.VoidType})
			for j := 0; j < nParams; j++ {
				m.ABI.Methods[i].Parameters = append(m.ABI.Methods[i].Parameters, manifest.Parameter{Name: fmt.Sprintf("p%d", j), Type: smartcontract.IntegerType})
			}
		}
		return m
	}
	var ms []*manifest.Manifest
	for n := 337; n <= 342; n++ { // 11 + 6n items: 2048 is crossed between n = 339 and n = 340
		ms = append(ms, mk(n, 0, 0))
	}
	for n := 134; n <= 137; n++ { // 11 + 15n items
		ms = append(ms, mk(n, 3, 0))
	}
	for _, l := range []int{370, 380, 384, 385, 386, 390, 400} { // 330 methods with long names: the byte limit
		ms = append(ms, mk(330, 0, l))
	}
	m := mk(200, 0, 0) // offsets and return types of several byte lengths
	for i := range m.ABI.Methods {
		m.ABI.Methods[i].Offset = []int{0, 1, 127, 128, 255, 256, 32767, 32768, 65535, 8388608}[i%10]
		m.ABI.Methods[i].ReturnType = []smartcontract.ParamType{smartcontract.VoidType, smartcontract.BoolType, smartcontract.AnyType, smartcontract.InteropInterfaceType}[i%4]
	}
	ms = append(ms, m)
	for _, m := range ms {
		fields := encManifest(m, nil)
		obs := hx.Safe(func() string { return classifyManifestErr(m.IsValid(util.Uint160{}, true)) })
		o.Line("mvalidsz 0 "+fields, obs)
		o.Count("manifest:big:" + obs)
		// the byte size as a measurement for the report
		if it, err := m.ToStackItem(); err == nil {
			if b, err := stackitem.Serialize(it); err == nil && len(b) > 120000 {
				o.Count("manifest:big:serialised-above-120000-bytes")
			}
		}
	}
}

// manifestCorpus: hand-written nasty manifests (run first).
func manifestCorpus(o *hx.Out, k int) {
	bigManifests(o, k)
	h := hashOf(1)
	key := func(id int) *keys.PublicKey { return groupKey(id).PublicKey() }
	base := func() *manifest.Manifest {
		m := manifest.NewManifest("c")
		m.ABI.Methods = []manifest.Method{{Name: "main", Offset: 0, Parameters: []manifest.Parameter{}, ReturnType: smartcontract.VoidType}}
		return m
	}
	var ms []*manifest.Manifest
	ms = append(ms, base())
	m := base() // the first failing check wins: no name before no methods
	m.Name, m.ABI.Methods = "", nil
	ms = append(ms, m)
	m = base() // ABI before features before groups
	m.ABI.Methods[0].Offset, m.Features, m.Groups = -1, []byte("x"), nil
	ms = append(ms, m)
	m = base() // groups (duplicate keys) before trusts before permissions
	m.Groups = []manifest.Group{{PublicKey: key(5), Signature: groupSig(5, h)}, {PublicKey: key(5), Signature: groupSig(5, h)}}
	m.Trusts = manifest.WildPermissionDescs{}
	ms = append(ms, m)
	m = base() // a bad signature is reported before the duplicate keys
	m.Groups = []manifest.Group{{PublicKey: key(5), Signature: groupSig(6, h)}, {PublicKey: key(5), Signature: groupSig(5, h)}}
	ms = append(ms, m)
	m = base() // exactly two equal elements: sliceHasDups does not sort
	m.SupportedStandards = []string{"b", "b"}
	ms = append(ms, m)
	m = base() // three elements, equal ones not adjacent before sorting
	m.SupportedStandards = []string{"b", "a", "b"}
	ms = append(ms, m)
	m = base() // wildcard twice
	m.Permissions = []manifest.Permission{*manifest.NewPermission(manifest.PermissionWildcard), *manifest.NewPermission(manifest.PermissionHash, hashOf(2)), *manifest.NewPermission(manifest.PermissionWildcard)}
	ms = append(ms, m)
	m = base() // same group key in two permissions
	m.Permissions = []manifest.Permission{*manifest.NewPermission(manifest.PermissionGroup, key(5)), *manifest.NewPermission(manifest.PermissionGroup, key(5))}
	ms = append(ms, m)
	m = base() // hash and group permissions are never equal
	m.Permissions = []manifest.Permission{*manifest.NewPermission(manifest.PermissionGroup, key(5)), *manifest.NewPermission(manifest.PermissionHash, hashOf(2)), *manifest.NewPermission(manifest.PermissionWildcard)}
	ms = append(ms, m)
	m = base() // method overloads by parameter count
	m.ABI.Methods = append(m.ABI.Methods, manifest.Method{Name: "main", Offset: 1, Parameters: []manifest.Parameter{{Name: "a", Type: smartcontract.AnyType}}, ReturnType: smartcontract.VoidType})
	ms = append(ms, m)
	m = base() // Void is a valid return type but not a valid parameter type
	m.ABI.Methods[0].Parameters = []manifest.Parameter{{Name: "a", Type: smartcontract.VoidType}}
	ms = append(ms, m)
	m = base() // wildcard trusts with a nil value; trusts with duplicates hidden behind the wildcard flag
	m.Trusts = manifest.WildPermissionDescs{Wildcard: true}
	ms = append(ms, m)
	m = base()
	d := manifest.PermissionDesc{Type: manifest.PermissionHash, Value: hashOf(3)}
	m.Trusts = manifest.WildPermissionDescs{Wildcard: true, Value: []manifest.PermissionDesc{d, d}}
	ms = append(ms, m)
	for _, m := range ms {
		for _, ch := range []bool{true, false} {
			vh := h
			if !ch {
				vh = util.Uint160{}
			}
			verdicts := make([]bool, len(m.Groups))
			for i, g := range m.Groups {
				verdicts[i] = g.PublicKey.Verify(g.Signature, hash.Sha256(h.BytesBE()).BytesBE())
			}
			fields := encManifest(m, verdicts)
			obs := hx.Safe(func() string { return classifyManifestErr(m.IsValid(vh, false)) })
			o.Line("mvalid "+b01(ch)+" "+fields, obs)
			o.Count("manifest:corpus:" + obs)
		}
		obs2 := hx.Safe(func() string {
			it, err := m.ToStackItem()
			if err != nil {
				return "err"
			}
			m2, err := itemManifest(it)
			if err != nil {
				return "err"
			}
			return encManifest(m2, nil)
		})
		o.Line("mitem "+encManifest(m, make([]bool, len(m.Groups))), obs2)
	}
}
