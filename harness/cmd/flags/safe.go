package main

// Safe-marked methods that really write / notify / call: relay 1 exposes the same code under a safe-marked and a
// non-safe name. They are invoked (a) with System.Contract.Call for every (caller flags, requested flags),
// (b) with CALLT through NEF method tokens for every (caller flags, token flags), (c) as onNEP17Payment callbacks of
// the native tokens (contract.CallFromNative). Oracle: no storage change / notification by a safe-marked method.

import (
	"fmt"
	"strings"

	"github.com/nspcc-dev/neo-go/pkg/core/native/nativenames"
	"github.com/nspcc-dev/neo-go/pkg/io"
	"github.com/nspcc-dev/neo-go/pkg/smartcontract/callflag"
	"github.com/nspcc-dev/neo-go/pkg/vm/emit"
	"github.com/nspcc-dev/neo-go/pkg/vm/stackitem"

	"verif/harness/internal/hx"
)

// flagsResult digs the single integer out of [flags] / [[flags]].
func flagsResult(items []stackitem.Item) (int, bool) {
	if len(items) != 1 {
		return 0, false
	}
	it := items[0]
	for i := 0; i < 3; i++ {
		arr, ok := it.Value().([]stackitem.Item)
		if !ok {
			break
		}
		if len(arr) != 1 {
			return 0, false
		}
		it = arr[0]
	}
	v, err := it.TryInteger()
	if err != nil {
		return 0, false
	}
	return int(v.Int64()), true
}

func (w *world) safeLine(o *hx.Out, k int, via string, F, rq int, method string, script []byte) {
	r := w.run(script, callflag.All)
	entered := treeDepth(r.tree) >= 3 // dummy root → entry → proxy → relay
	outerDenied := !entered && (denied(r.msg) || strings.Contains(r.msg, "invalid call flags"))
	safe, isEffect := isSafeMethod(method), false
	var seq []string
	for _, em := range effectMethods {
		if em.name == method {
			safe, isEffect, seq = em.safe, true, em.seq
		}
	}
	what := fmt.Sprintf("%s of relay method %s (safe-marked: %v) with caller flags %d, requested/token flags %d", map[string]string{"sc": "System.Contract.Call", "ct": "CALLT"}[via], method, safe, F, rq)
	if r.panicky {
		o.Fail("safe-sweep-panic", k, "%s: %s", what, r.msg)
	}
	nested := nestedBelow(r.tree, 3)
	// the property's oracle: nothing a safe-marked method does may change storage or notify
	if safe && entered && (r.writes > 0 || r.notifs > 0) {
		o.Fail("safe-method-modifies:"+via, k, "%s: %d storage keys changed, %d notifications (halt=%v)", what, r.writes, r.notifs, r.halt)
	}
	if !isEffect {
		obs := "fault:" + strings.ReplaceAll(r.msg, " ", "_")
		if outerDenied {
			obs = "denied"
		} else if fl, ok := flagsResult(r.result); r.halt && ok {
			obs = fmt.Sprint(fl)
			if fl&^F != 0 || fl&^rq != 0 {
				o.Fail("flags-grew", k, "%s: callee flags %d", what, fl)
			}
			if safe && fl&int(callflag.WriteStates|callflag.AllowNotify) != 0 {
				o.Fail("safe-keeps-write-or-notify:"+via, k, "%s: the safe method runs with flags %d", what, fl)
			}
		}
		o.Line(fmt.Sprintf("callflags %s %d %d %s", via, F, rq, b01(safe)), obs)
		o.Count("safe:" + via + ":flags")
		return
	}
	verdict := "fault:" + strings.ReplaceAll(r.msg, " ", "_")
	switch {
	case outerDenied:
		verdict = "denied"
	case entered && denied(r.msg):
		verdict = "inner-denied"
	case r.halt:
		verdict = "passed"
	}
	obs := obsEffects(r.writes, r.notifs, nested)
	o.Line(fmt.Sprintf("calleff %s %d %d %s %s %s", via, F, rq, b01(safe), obs, strings.Join(seq, " ")), verdict)
	o.Count("safe:" + via + ":" + verdict)
	if obs != "-" {
		o.Seen(fmt.Sprintf("safe/%s/%s/%s", via, method, obs))
		if safe {
			o.Count("safe:effect-by-safe-marked-method:" + obs)
		} else {
			o.Count("safe:effect-by-non-safe-twin:" + obs)
		}
	}
}

func (w *world) safeMarked(o *hx.Out, k int) {
	target := w.relays[0].c.Hash
	methods := []string{"relay", "s"}
	for _, em := range effectMethods {
		methods = append(methods, em.name)
	}
	// (a) System.Contract.Call: entry(All) → proxy.fwd requested F → relay1.method requested rq
	for _, m := range methods {
		for F := 0; F < 16; F++ {
			for rq := 0; rq < 16; rq++ {
				bw := io.NewBufBinWriter()
				emit.AppCall(bw.BinWriter, w.proxy.Hash, "fwd", callflag.CallFlag(F), target, m, rq, []any{[]any{}})
				w.safeLine(o, k, "sc", F, rq, m, bw.Bytes())
			}
		}
	}
	// (b) CALLT: entry(All) → proxy.t_<method>_<tf> requested F → CALLT token (relay1.method, token flags tf)
	for _, m := range tokenTargets {
		for F := 0; F < 16; F++ {
			for tf := 0; tf < 16; tf++ {
				bw := io.NewBufBinWriter()
				emit.AppCall(bw.BinWriter, w.proxy.Hash, tokenMethod(m, tf), callflag.CallFlag(F))
				w.safeLine(o, k, "ct", F, tf, m, bw.Bytes())
			}
		}
	}
	// (c) native callbacks: GAS/NEO.transfer(acc → relay, 1) runs relay.onNEP17Payment (safe-marked on even relays),
	// which records its call flags in its storage
	for _, tokenName := range []string{nativenames.Gas, nativenames.Neo} {
		token := w.e.NativeHash(w.tb, tokenName)
		for _, rl := range w.relays {
			safe := rl.id%2 == 0
			bw := io.NewBufBinWriter()
			emit.AppCall(bw.BinWriter, w.proxy.Hash, "fwd", callflag.All, token, "transfer", int(callflag.All), []any{w.acc, rl.c.Hash, 1, nil})
			r := w.run(bw.Bytes(), callflag.All)
			cf, ran := r.cfBy[rl.cid]
			obs := "not-run"
			if ran {
				obs = fmt.Sprint(cf)
			}
			o.Line("nativecall 15", obs)
			o.Count(fmt.Sprintf("safe:native-callback:safe-marked=%v:ran=%v", safe, ran))
			if safe && ran && r.halt {
				o.Fail("safe-method-modifies:native-callback", k, "%s.transfer to relay %d ran its safe-marked onNEP17Payment with flags %d: it changed the relay's storage (contract.CallFromNative does not drop WriteStates|AllowNotify for safe methods)", tokenName, rl.id, cf)
			}
		}
	}
}
