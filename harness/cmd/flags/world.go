package main

// The chain the dynamic part of the stream runs on: a single-node neotest chain at a chosen hardfork
// level with hand-assembled contracts (no compiler involved):
//
//	proxy   one method per system call (`s<i>`: dummy arguments, SYSCALL(s), DEPTH PACK RET), `fwd` (forwards a
//	        call with the given flags), `viaToken` (CALLT 0), `ls` (System.Runtime.LoadScript of a script that
//	        returns its own call flags), `onNEP17Payment`, `noop`, `_deploy`
//	relay   `f(path)`: empty path → [own call flags]; otherwise System.Contract.Call(path[0]…, [rest]) and append
//	        own call flags to the callee's result. Exposed as relay/a/b (not safe) and relaySafe/s (safe),
//	        deployed several times with generated manifests (groups, permissions).

import (
	"fmt"
	"sort"

	"github.com/nspcc-dev/neo-go/pkg/config"
	"github.com/nspcc-dev/neo-go/pkg/core"
	"github.com/nspcc-dev/neo-go/pkg/core/interop/interopnames"
	"github.com/nspcc-dev/neo-go/pkg/core/native/nativehashes"
	"github.com/nspcc-dev/neo-go/pkg/core/state"
	"github.com/nspcc-dev/neo-go/pkg/crypto/keys"
	"github.com/nspcc-dev/neo-go/pkg/io"
	"github.com/nspcc-dev/neo-go/pkg/neotest"
	"github.com/nspcc-dev/neo-go/pkg/neotest/chain"
	"github.com/nspcc-dev/neo-go/pkg/smartcontract"
	"github.com/nspcc-dev/neo-go/pkg/smartcontract/callflag"
	"github.com/nspcc-dev/neo-go/pkg/smartcontract/manifest"
	"github.com/nspcc-dev/neo-go/pkg/smartcontract/nef"
	"github.com/nspcc-dev/neo-go/pkg/util"
	"github.com/nspcc-dev/neo-go/pkg/vm/emit"
	"github.com/nspcc-dev/neo-go/pkg/vm/opcode"
	"go.uber.org/zap"
)

type sysMethod struct {
	method string   // proxy method name
	seq    []string // system calls executed, in order (preamble + the one under test)
}

type relayInfo struct {
	cid    int32 // contract id on the chain
	id     int   // abstract id used on the op lines (hash = id in the model)
	c      *neotest.Contract
	groups []int
	perms  []aPerm
}

type world struct {
	tb      *TB
	hf      int // hardfork level: index into [Default]+config.Hardforks of the latest enabled hardfork
	bc      *core.Blockchain
	e       *neotest.Executor
	acc     util.Uint160    // the committee = validator 1-of-1 multisig account (holds the NEO and GAS)
	pub     *keys.PublicKey // its key
	proxy   *neotest.Contract
	proxyID int32
	sys     map[string]sysMethod // system call name -> proxy method
	probes  map[string][]string  // system call unknown to the harness -> proxy methods trying every known argument template
	relays  []relayInfo
	other   util.Uint160 // an ordinary account without funds
	genesis util.Uint256
}

func (w *world) done() { w.tb.Done() }

func hardforksUpTo(level int) map[string]uint32 {
	m := map[string]uint32{}
	if level > 0 {
		m[config.Hardforks[level-1].String()] = 0
	}
	return m
}

// sysArgs pushes the dummy arguments of one system call (the syscall itself is emitted by the caller) and
// names the preamble system calls it uses. self is the proxy's own hash (known only after assembly, so the
// proxy uses GetExecutingScriptHash where it needs itself).
func sysArgs(pub []byte) map[string]struct {
	pre  []string
	push func(bw *io.BinWriter)
} {
	type spec = struct {
		pre  []string
		push func(bw *io.BinWriter)
	}
	none := func(*io.BinWriter) {}
	sc := func(bw *io.BinWriter, n string) { emit.Syscall(bw, n) }
	getCtx := interopnames.SystemStorageGetContext
	m := map[string]spec{}
	for _, n := range []string{
		interopnames.SystemContractGetCallFlags, interopnames.SystemContractNativeOnPersist, interopnames.SystemContractNativePostPersist,
		interopnames.SystemRuntimeCurrentSigners, interopnames.SystemRuntimeGasLeft, interopnames.SystemRuntimeGetAddressVersion,
		interopnames.SystemRuntimeGetCallingScriptHash, interopnames.SystemRuntimeGetEntryScriptHash, interopnames.SystemRuntimeGetExecutingScriptHash,
		interopnames.SystemRuntimeGetInvocationCounter, interopnames.SystemRuntimeGetNetwork, interopnames.SystemRuntimeGetRandom,
		interopnames.SystemRuntimeGetScriptContainer, interopnames.SystemRuntimeGetTime, interopnames.SystemRuntimeGetTrigger,
		interopnames.SystemRuntimePlatform, interopnames.SystemStorageGetContext, interopnames.SystemStorageGetReadOnlyContext,
	} {
		m[n] = spec{nil, none}
	}
	// System.Contract.Call(self, "noop", All, [])
	m[interopnames.SystemContractCall] = spec{[]string{interopnames.SystemRuntimeGetExecutingScriptHash}, func(bw *io.BinWriter) {
		emit.Opcodes(bw, opcode.NEWARRAY0)
		emit.Int(bw, int64(callflag.All))
		emit.String(bw, "noop")
		sc(bw, interopnames.SystemRuntimeGetExecutingScriptHash)
	}}
	m[interopnames.SystemContractCallNative] = spec{nil, func(bw *io.BinWriter) { emit.Int(bw, 0) }}
	m[interopnames.SystemContractCreateMultisigAccount] = spec{nil, func(bw *io.BinWriter) {
		emit.Bytes(bw, pub)
		emit.Opcodes(bw, opcode.PUSH1, opcode.PACK)
		emit.Int(bw, 1)
	}}
	m[interopnames.SystemContractCreateStandardAccount] = spec{nil, func(bw *io.BinWriter) { emit.Bytes(bw, pub) }}
	m[interopnames.SystemCryptoCheckSig] = spec{nil, func(bw *io.BinWriter) {
		emit.Bytes(bw, make([]byte, 64))
		emit.Bytes(bw, pub)
	}}
	m[interopnames.SystemCryptoCheckMultisig] = spec{nil, func(bw *io.BinWriter) {
		emit.Bytes(bw, make([]byte, 64))
		emit.Opcodes(bw, opcode.PUSH1, opcode.PACK)
		emit.Bytes(bw, pub)
		emit.Opcodes(bw, opcode.PUSH1, opcode.PACK)
	}}
	find := func(bw *io.BinWriter) { // Storage.Find(ctx, "k", 0)
		emit.Int(bw, 0)
		emit.Bytes(bw, []byte("k"))
		sc(bw, getCtx)
		sc(bw, interopnames.SystemStorageFind)
	}
	m[interopnames.SystemIteratorNext] = spec{[]string{getCtx, interopnames.SystemStorageFind}, find}
	m[interopnames.SystemIteratorValue] = spec{[]string{getCtx, interopnames.SystemStorageFind, interopnames.SystemIteratorNext}, func(bw *io.BinWriter) {
		find(bw)
		emit.Opcodes(bw, opcode.DUP)
		sc(bw, interopnames.SystemIteratorNext)
		emit.Opcodes(bw, opcode.DROP)
	}}
	m[interopnames.SystemRuntimeBurnGas] = spec{nil, func(bw *io.BinWriter) { emit.Int(bw, 1) }}
	m[interopnames.SystemRuntimeCheckWitness] = spec{nil, func(bw *io.BinWriter) { emit.Bytes(bw, make([]byte, 20)) }}
	m[interopnames.SystemRuntimeGetNotifications] = spec{nil, func(bw *io.BinWriter) { emit.Opcodes(bw, opcode.PUSHNULL) }}
	// LoadScript([PUSH1 RET], All, [])
	m[interopnames.SystemRuntimeLoadScript] = spec{nil, func(bw *io.BinWriter) {
		emit.Opcodes(bw, opcode.NEWARRAY0)
		emit.Int(bw, int64(callflag.All))
		emit.Bytes(bw, []byte{byte(opcode.PUSH1), byte(opcode.RET)})
	}}
	m[interopnames.SystemRuntimeLog] = spec{nil, func(bw *io.BinWriter) { emit.String(bw, "x") }}
	m[interopnames.SystemRuntimeNotify] = spec{nil, func(bw *io.BinWriter) {
		emit.Opcodes(bw, opcode.NEWARRAY0)
		emit.String(bw, "E")
	}}
	m[interopnames.SystemStorageAsReadOnly] = spec{[]string{getCtx}, func(bw *io.BinWriter) { sc(bw, getCtx) }}
	m[interopnames.SystemStorageDelete] = spec{[]string{getCtx}, func(bw *io.BinWriter) {
		emit.Bytes(bw, []byte("k0"))
		sc(bw, getCtx)
	}}
	m[interopnames.SystemStorageFind] = spec{[]string{getCtx}, func(bw *io.BinWriter) {
		emit.Int(bw, 0)
		emit.Bytes(bw, []byte("k"))
		sc(bw, getCtx)
	}}
	m[interopnames.SystemStorageGet] = spec{[]string{getCtx}, func(bw *io.BinWriter) {
		emit.Bytes(bw, []byte("k0"))
		sc(bw, getCtx)
	}}
	m[interopnames.SystemStoragePut] = spec{[]string{getCtx}, func(bw *io.BinWriter) {
		emit.Bytes(bw, []byte("v"))
		emit.Bytes(bw, []byte("k1"))
		sc(bw, getCtx)
	}}
	m[interopnames.SystemStorageLocalDelete] = spec{nil, func(bw *io.BinWriter) { emit.Bytes(bw, []byte("k0")) }}
	m[interopnames.SystemStorageLocalFind] = spec{nil, func(bw *io.BinWriter) {
		emit.Int(bw, 0)
		emit.Bytes(bw, []byte("k"))
	}}
	m[interopnames.SystemStorageLocalGet] = spec{nil, func(bw *io.BinWriter) { emit.Bytes(bw, []byte("k0")) }}
	m[interopnames.SystemStorageLocalPut] = spec{nil, func(bw *io.BinWriter) {
		emit.Bytes(bw, []byte("v"))
		emit.Bytes(bw, []byte("k1"))
	}}
	return m
}

// buildProxy assembles the proxy. tokenTarget is the contract `viaToken` calls through CALLT.
func buildProxy(sender util.Uint160, pub []byte, tokenTarget util.Uint160, tokenFlags callflag.CallFlag) (*neotest.Contract, map[string]sysMethod, map[string][]string) {
	config.Version = "verif"
	w := io.NewBufBinWriter()
	bw := w.BinWriter
	m := manifest.DefaultManifest("verif-c16-proxy")
	anyT := smartcontract.AnyType
	add := func(name string, ret smartcontract.ParamType, safe bool, params ...smartcontract.ParamType) {
		ps := make([]manifest.Parameter, len(params))
		for i, p := range params {
			ps[i] = manifest.Parameter{Name: fmt.Sprintf("a%d", i), Type: p}
		}
		m.ABI.Methods = append(m.ABI.Methods, manifest.Method{Name: name, Offset: w.Len(), Parameters: ps, ReturnType: ret, Safe: safe})
	}
	m.ABI.Events = append(m.ABI.Events, manifest.Event{Name: "E", Parameters: []manifest.Parameter{}})
	args := sysArgs(pub)
	sys := map[string]sysMethod{}
	probes := map[string][]string{}
	var templates []string
	for n := range args {
		templates = append(templates, n)
	}
	sort.Strings(templates)
	for i, f := range linkedInterops() {
		a, ok := args[f.Name]
		if !ok {
			// a system call this harness does not know: try it on the stack prepared for every known one
			for j, tn := range templates {
				name := fmt.Sprintf("u%d_%d", i, j)
				add(name, anyT, false)
				args[tn].push(bw)
				emit.Syscall(bw, f.Name)
				emit.Opcodes(bw, opcode.DEPTH, opcode.PACK, opcode.RET)
				probes[f.Name] = append(probes[f.Name], name)
			}
			continue
		}
		name := fmt.Sprintf("s%d", i)
		add(name, anyT, false)
		a.push(bw)
		emit.Syscall(bw, f.Name)
		emit.Opcodes(bw, opcode.DEPTH, opcode.PACK, opcode.RET)
		sys[f.Name] = sysMethod{method: name, seq: append(append([]string{}, a.pre...), f.Name)}
	}
	// fwd(hash, method, flags, args) any: System.Contract.Call with the given flags
	add("fwd", anyT, false, smartcontract.Hash160Type, smartcontract.StringType, smartcontract.IntegerType, smartcontract.ArrayType)
	emit.InitSlot(bw, 0, 4)
	emit.Opcodes(bw, opcode.LDARG3, opcode.LDARG2, opcode.LDARG1, opcode.LDARG0)
	emit.Syscall(bw, interopnames.SystemContractCall)
	emit.Opcodes(bw, opcode.DEPTH, opcode.PACK, opcode.RET)
	// viaToken() any: CALLT 0  (token: tokenTarget.f([]) with tokenFlags)
	add("viaToken", anyT, false)
	emit.Opcodes(bw, opcode.NEWARRAY0)
	emit.Instruction(bw, opcode.CALLT, []byte{0, 0})
	emit.Opcodes(bw, opcode.RET)
	// t_<target>_<tf>() any: CALLT of the token (relay 1, target, 1 parameter, token flags tf)
	var moreTokens []nef.MethodToken
	for _, tgt := range tokenTargets {
		for tf := 0; tf < 16; tf++ {
			add(tokenMethod(tgt, tf), anyT, false)
			emit.Opcodes(bw, opcode.NEWARRAY0)
			idx := 1 + len(moreTokens)
			emit.Instruction(bw, opcode.CALLT, []byte{byte(idx), byte(idx >> 8)})
			emit.Opcodes(bw, opcode.RET)
			moreTokens = append(moreTokens, nef.MethodToken{Hash: tokenTarget, Method: tgt, ParamCount: 1, HasReturn: true, CallFlag: callflag.CallFlag(tf)})
		}
	}
	// ls(requested) any: LoadScript([SYSCALL GetCallFlags; RET], requested, [])
	add("ls", anyT, false, smartcontract.IntegerType)
	{
		inner := io.NewBufBinWriter()
		emit.Syscall(inner.BinWriter, interopnames.SystemContractGetCallFlags)
		emit.Opcodes(inner.BinWriter, opcode.RET)
		emit.InitSlot(bw, 0, 1)
		emit.Opcodes(bw, opcode.NEWARRAY0, opcode.LDARG0)
		emit.Bytes(bw, inner.Bytes())
		emit.Syscall(bw, interopnames.SystemRuntimeLoadScript)
		emit.Opcodes(bw, opcode.RET)
	}
	add("noop", anyT, false)
	emit.Opcodes(bw, opcode.PUSH1, opcode.RET)
	// onNEP17Payment(from, amount, data): Put(ctx, "cf", GetCallFlags()) — records the flags the native callback runs with
	add("onNEP17Payment", smartcontract.VoidType, false, smartcontract.Hash160Type, smartcontract.IntegerType, anyT)
	emit.Opcodes(bw, opcode.DROP, opcode.DROP, opcode.DROP)
	emit.Syscall(bw, interopnames.SystemContractGetCallFlags)
	emit.Bytes(bw, []byte("cf"))
	emit.Syscall(bw, interopnames.SystemStorageGetContext)
	emit.Syscall(bw, interopnames.SystemStoragePut)
	emit.Opcodes(bw, opcode.RET)
	add("_deploy", smartcontract.VoidType, false, anyT, smartcontract.BoolType)
	// Put(ctx, "k0", "v0") so that Get/Delete/Find have something to see
	emit.Opcodes(bw, opcode.DROP, opcode.DROP)
	emit.Bytes(bw, []byte("v0"))
	emit.Bytes(bw, []byte("k0"))
	emit.Syscall(bw, interopnames.SystemStorageGetContext)
	emit.Syscall(bw, interopnames.SystemStoragePut)
	emit.Opcodes(bw, opcode.RET)
	if w.Err != nil {
		panic(w.Err)
	}
	ne, err := nef.NewFile(w.Bytes())
	if err != nil {
		panic(err)
	}
	ne.Tokens = []nef.MethodToken{{Hash: tokenTarget, Method: "relay", ParamCount: 1, HasReturn: true, CallFlag: tokenFlags}}
	ne.Tokens = append(ne.Tokens, moreTokens...)
	ne.Checksum = ne.CalculateChecksum()
	return &neotest.Contract{Hash: state.CreateContractHash(sender, ne.Checksum, m.Name), NEF: ne, Manifest: m}, sys, probes
}

// effectMethods of the relay: what the code does (kind, the system calls it runs) and what the manifest claims (safe).
var effectMethods = []struct {
	name, kind string
	safe       bool
	seq        []string
}{
	{"put", "put", false, []string{interopnames.SystemStorageGetContext, interopnames.SystemStoragePut}},
	{"sput", "put", true, []string{interopnames.SystemStorageGetContext, interopnames.SystemStoragePut}},
	{"notify", "notify", false, []string{interopnames.SystemRuntimeNotify}},
	{"snotify", "notify", true, []string{interopnames.SystemRuntimeNotify}},
	{"docall", "docall", false, []string{interopnames.SystemRuntimeGetExecutingScriptHash, interopnames.SystemContractCall}},
	{"scall", "docall", true, []string{interopnames.SystemRuntimeGetExecutingScriptHash, interopnames.SystemContractCall}},
}

// tokenTargets are the relay-1 methods the proxy reaches through NEF method tokens: 16 tokens (one per flag set) each.
var tokenTargets = []string{"relay", "s", "put", "sput", "snotify", "scall"}

// tokenMethod is the proxy method that executes CALLT of the token (target, flags).
func tokenMethod(target string, tf int) string { return fmt.Sprintf("t_%s_%d", target, tf) }

// buildRelay assembles relay number n with the given groups and permissions (relays maps abstract ids of
// already known relays to hashes, for hash permissions; unknown ids map to a synthetic hash).
// tokenTarget (nil: none) is the contract the relay's two NEF method tokens point at: token 0 = tokenTarget.a (not
// safe), token 1 = tokenTarget.s (safe), both with flags All; `ta`/`ts` execute CALLT 0 / CALLT 1. `upd` / `des`
// have ContractManagement update / destroy the relay itself and then call another contract.
func buildRelay(sender util.Uint160, n int, groups []int, perms []aPerm, hashOfID func(int) util.Uint160, tokenTarget *util.Uint160) *neotest.Contract {
	config.Version = "verif"
	w := io.NewBufBinWriter()
	bw := w.BinWriter
	// f(path)
	emit.InitSlot(bw, 1, 1)
	emit.Opcodes(bw, opcode.LDARG0, opcode.SIZE, opcode.PUSH0, opcode.NUMEQUAL)
	jmpPos := w.Len()
	emit.Instruction(bw, opcode.JMPIFNOT, []byte{0})
	emit.Syscall(bw, interopnames.SystemContractGetCallFlags)
	emit.Opcodes(bw, opcode.PUSH1, opcode.PACK, opcode.RET)
	callPos := w.Len()
	emit.Opcodes(bw, opcode.LDARG0, opcode.PUSH0, opcode.PICKITEM, opcode.STLOC0)
	emit.Opcodes(bw, opcode.LDARG0, opcode.PUSH0, opcode.REMOVE)
	emit.Opcodes(bw, opcode.LDARG0, opcode.PUSH1, opcode.PACK)
	emit.Opcodes(bw, opcode.LDLOC0, opcode.PUSH2, opcode.PICKITEM)
	emit.Opcodes(bw, opcode.LDLOC0, opcode.PUSH1, opcode.PICKITEM)
	emit.Opcodes(bw, opcode.LDLOC0, opcode.PUSH0, opcode.PICKITEM)
	emit.Syscall(bw, interopnames.SystemContractCall)
	emit.Opcodes(bw, opcode.DUP)
	emit.Syscall(bw, interopnames.SystemContractGetCallFlags)
	emit.Opcodes(bw, opcode.APPEND, opcode.RET)
	// dyn(hash, method): LoadScript(inner, All, [hash, method]); inner = System.Contract.Call(hash, method, All, [[]])
	dynOff := w.Len()
	{
		inner := io.NewBufBinWriter()
		emit.InitSlot(inner.BinWriter, 0, 2)
		emit.Opcodes(inner.BinWriter, opcode.NEWARRAY0, opcode.PUSH1, opcode.PACK, opcode.PUSH15, opcode.LDARG1, opcode.LDARG0)
		emit.Syscall(inner.BinWriter, interopnames.SystemContractCall)
		emit.Opcodes(inner.BinWriter, opcode.RET)
		emit.InitSlot(bw, 0, 2)
		emit.Opcodes(bw, opcode.LDARG1, opcode.LDARG0, opcode.PUSH2, opcode.PACK, opcode.PUSH15)
		emit.Bytes(bw, inner.Bytes())
		emit.Syscall(bw, interopnames.SystemRuntimeLoadScript)
		emit.Opcodes(bw, opcode.RET)
	}
	// effect methods, each exposed under a safe-marked and a non-safe name (the manifest, not the code, says "safe"):
	// put/sput(path): Storage.Put(ctx, "sp", "v")
	putOff := w.Len()
	emit.Opcodes(bw, opcode.DROP)
	emit.Bytes(bw, []byte("v"))
	emit.Bytes(bw, []byte("sp"))
	emit.Syscall(bw, interopnames.SystemStorageGetContext)
	emit.Syscall(bw, interopnames.SystemStoragePut)
	emit.Opcodes(bw, opcode.NEWARRAY0, opcode.RET)
	// notify/snotify(path): Runtime.Notify("E", [])
	notifyOff := w.Len()
	emit.Opcodes(bw, opcode.DROP, opcode.NEWARRAY0)
	emit.String(bw, "E")
	emit.Syscall(bw, interopnames.SystemRuntimeNotify)
	emit.Opcodes(bw, opcode.NEWARRAY0, opcode.RET)
	// docall/scall(path): System.Contract.Call(self, "relay", All, [[]])
	docallOff := w.Len()
	emit.Opcodes(bw, opcode.DROP, opcode.NEWARRAY0, opcode.PUSH1, opcode.PACK, opcode.PUSH15)
	emit.String(bw, "relay")
	emit.Syscall(bw, interopnames.SystemRuntimeGetExecutingScriptHash)
	emit.Syscall(bw, interopnames.SystemContractCall)
	emit.Opcodes(bw, opcode.RET)
	// onNEP17Payment(from, amount, data): Storage.Put(ctx, "cf", GetCallFlags()) — marked safe on even relays
	payOff := w.Len()
	emit.Opcodes(bw, opcode.DROP, opcode.DROP, opcode.DROP)
	emit.Syscall(bw, interopnames.SystemContractGetCallFlags)
	emit.Bytes(bw, []byte("cf"))
	emit.Syscall(bw, interopnames.SystemStorageGetContext)
	emit.Syscall(bw, interopnames.SystemStoragePut)
	emit.Opcodes(bw, opcode.RET)
	// ta(path) / ts(path): CALLT 0 / CALLT 1 with the path argument handed on
	taOff := w.Len()
	emit.Instruction(bw, opcode.CALLT, []byte{0, 0})
	emit.Opcodes(bw, opcode.RET)
	tsOff := w.Len()
	emit.Instruction(bw, opcode.CALLT, []byte{1, 0})
	emit.Opcodes(bw, opcode.RET)
	mgmt := nativehashes.ContractManagement
	// upd(nef, manifest, target, method): ContractManagement.update(nef, manifest); System.Contract.Call(target, method, All, [[]])
	updOff := w.Len()
	emit.InitSlot(bw, 0, 4)
	emit.Opcodes(bw, opcode.LDARG1, opcode.LDARG0, opcode.PUSH2, opcode.PACK, opcode.PUSH15)
	emit.String(bw, "update")
	emit.Bytes(bw, mgmt.BytesBE())
	emit.Syscall(bw, interopnames.SystemContractCall)
	emit.Opcodes(bw, opcode.DROP) // a dynamic call of a void method leaves Null
	emit.Opcodes(bw, opcode.NEWARRAY0, opcode.PUSH1, opcode.PACK, opcode.PUSH15, opcode.LDARG3, opcode.LDARG2)
	emit.Syscall(bw, interopnames.SystemContractCall)
	emit.Opcodes(bw, opcode.RET)
	// des(target, method): ContractManagement.destroy(); System.Contract.Call(target, method, All, [[]])
	desOff := w.Len()
	emit.InitSlot(bw, 0, 2)
	emit.Opcodes(bw, opcode.NEWARRAY0, opcode.PUSH15)
	emit.String(bw, "destroy")
	emit.Bytes(bw, mgmt.BytesBE())
	emit.Syscall(bw, interopnames.SystemContractCall)
	emit.Opcodes(bw, opcode.DROP)
	emit.Opcodes(bw, opcode.NEWARRAY0, opcode.PUSH1, opcode.PACK, opcode.PUSH15, opcode.LDARG1, opcode.LDARG0)
	emit.Syscall(bw, interopnames.SystemContractCall)
	emit.Opcodes(bw, opcode.RET)
	if w.Err != nil {
		panic(w.Err)
	}
	script := w.Bytes()
	script[jmpPos+1] = byte(int8(callPos - jmpPos))
	ne, err := nef.NewFile(script)
	if err != nil {
		panic(err)
	}
	if tokenTarget != nil {
		ne.Tokens = []nef.MethodToken{
			{Hash: *tokenTarget, Method: "a", ParamCount: 1, HasReturn: true, CallFlag: callflag.All},
			{Hash: *tokenTarget, Method: "s", ParamCount: 1, HasReturn: true, CallFlag: callflag.All},
		}
		ne.Checksum = ne.CalculateChecksum()
	}
	m := manifest.NewManifest(fmt.Sprintf("verif-c16-relay-%d", n))
	for _, md := range []struct {
		name string
		safe bool
	}{{"relay", false}, {"a", false}, {"b", false}, {"relaySafe", true}, {"s", true}} {
		m.ABI.Methods = append(m.ABI.Methods, manifest.Method{Name: md.name, Offset: 0, Safe: md.safe, ReturnType: smartcontract.ArrayType,
			Parameters: []manifest.Parameter{{Name: "path", Type: smartcontract.ArrayType}}})
	}
	for _, md := range effectMethods {
		off := map[string]int{"put": putOff, "notify": notifyOff, "docall": docallOff}[md.kind]
		m.ABI.Methods = append(m.ABI.Methods, manifest.Method{Name: md.name, Offset: off, Safe: md.safe, ReturnType: smartcontract.ArrayType,
			Parameters: []manifest.Parameter{{Name: "path", Type: smartcontract.ArrayType}}})
	}
	m.ABI.Methods = append(m.ABI.Methods, manifest.Method{Name: "onNEP17Payment", Offset: payOff, Safe: n%2 == 0, ReturnType: smartcontract.VoidType,
		Parameters: []manifest.Parameter{{Name: "from", Type: smartcontract.Hash160Type}, {Name: "amount", Type: smartcontract.IntegerType}, {Name: "data", Type: smartcontract.AnyType}}})
	m.ABI.Events = append(m.ABI.Events, manifest.Event{Name: "E", Parameters: []manifest.Parameter{}})
	m.ABI.Methods = append(m.ABI.Methods, manifest.Method{Name: "dyn", Offset: dynOff, ReturnType: smartcontract.AnyType,
		Parameters: []manifest.Parameter{{Name: "hash", Type: smartcontract.Hash160Type}, {Name: "method", Type: smartcontract.StringType}}})
	for _, md := range []struct {
		name string
		off  int
	}{{"ta", taOff}, {"ts", tsOff}} {
		m.ABI.Methods = append(m.ABI.Methods, manifest.Method{Name: md.name, Offset: md.off, ReturnType: smartcontract.ArrayType,
			Parameters: []manifest.Parameter{{Name: "path", Type: smartcontract.ArrayType}}})
	}
	m.ABI.Methods = append(m.ABI.Methods, manifest.Method{Name: "upd", Offset: updOff, ReturnType: smartcontract.ArrayType,
		Parameters: []manifest.Parameter{{Name: "nef", Type: smartcontract.ByteArrayType}, {Name: "manifest", Type: smartcontract.ByteArrayType}, {Name: "hash", Type: smartcontract.Hash160Type}, {Name: "method", Type: smartcontract.StringType}}})
	m.ABI.Methods = append(m.ABI.Methods, manifest.Method{Name: "des", Offset: desOff, ReturnType: smartcontract.ArrayType,
		Parameters: []manifest.Parameter{{Name: "hash", Type: smartcontract.Hash160Type}, {Name: "method", Type: smartcontract.StringType}}})
	h := state.CreateContractHash(sender, ne.Checksum, m.Name)
	for _, g := range groups {
		k := groupKey(g)
		m.Groups = append(m.Groups, manifest.Group{PublicKey: k.PublicKey(), Signature: k.Sign(h.BytesBE())})
	}
	for _, p := range perms {
		rp := p.real()
		if p.kind == 'h' {
			rp = *manifest.NewPermission(manifest.PermissionHash, hashOfID(p.id))
			if p.methods != nil {
				rp.Methods.Value = append([]string{}, p.methods...)
			}
		}
		m.Permissions = append(m.Permissions, rp)
	}
	return &neotest.Contract{Hash: h, NEF: ne, Manifest: m}
}

// relayPlan is the fixed set of relay manifests (ids 1..): kinds × method lists, chosen so that every
// permission kind occurs with wildcard, explicit and empty method lists, and hash permissions point both at
// existing relays and nowhere.
func relayPlan() []relayInfo {
	return []relayInfo{
		{id: 1, groups: nil, perms: []aPerm{{kind: 'w'}}},
		{id: 2, groups: []int{7}, perms: []aPerm{{kind: 'w', methods: []string{"a", "relay"}}}},
		{id: 3, groups: []int{7, 8}, perms: []aPerm{{kind: 'h', id: 1}, {kind: 'h', id: 2, methods: []string{"a"}}}},
		{id: 4, groups: []int{8}, perms: []aPerm{{kind: 'g', id: 7, methods: []string{"a"}}}},
		{id: 5, groups: nil, perms: []aPerm{{kind: 'g', id: 8}, {kind: 'h', id: 9, methods: []string{"relay"}}}},
		{id: 6, groups: []int{9}, perms: nil},
		{id: 7, groups: nil, perms: []aPerm{{kind: 'w', methods: []string{}}, {kind: 'g', id: 9, methods: []string{"relay", "b"}}}},
		{id: 8, groups: []int{7}, perms: []aPerm{{kind: 'h', id: 4, methods: []string{"relay", "a", "b"}}, {kind: 'g', id: 8, methods: []string{"b"}}, {kind: 'h', id: 8}}},
		{id: 9, groups: nil, perms: []aPerm{{kind: 'h', id: mgmtID}}}, // may call ContractManagement only
		{id: tokenTargetID, groups: []int{7, 9}, perms: nil},          // the contract the relays' method tokens point at (built without tokens)
	}
}

// abstract ids of ContractManagement (in hash permissions) and of the method tokens' target.
const (
	mgmtID        = 1000
	tokenTargetID = 10
)

// newWorld builds the chain at hardfork level hf and deploys the contracts. Any failure panics with *Failure
// (caught by the caller).
func newWorld(hf int) *world {
	w := &world{tb: NewTB(), hf: hf}
	bc, signer := chain.NewSingleWithOptions(w.tb, &chain.Options{
		Logger:               zap.NewNop(),
		BlockchainConfigHook: func(c *config.Blockchain) { c.Hardforks = hardforksUpTo(hf) },
	})
	w.bc = bc
	w.e = neotest.NewExecutor(w.tb, bc, signer, signer)
	w.acc = signer.ScriptHash()
	w.pub = signer.(neotest.MultiSigner).Single(0).Account().PublicKey()
	w.other = hashOf(200)
	w.genesis = bc.GetHeaderHash(0)
	// relays first (the proxy's token points at relay 1)
	plan := relayPlan()
	ids := map[int]util.Uint160{mgmtID: nativehashes.ContractManagement}
	hashOfID := func(id int) util.Uint160 {
		if h, ok := ids[id]; ok {
			return h
		}
		return hashOf(id)
	}
	// two passes: hashes do not depend on permissions (only sender, NEF checksum, name)
	tgt := buildRelay(w.acc, tokenTargetID, []int{7, 9}, nil, hashOfID, nil).Hash
	tokenTargetOf := func(id int) *util.Uint160 {
		if id == tokenTargetID {
			return nil
		}
		return &tgt
	}
	for i := range plan {
		ids[plan[i].id] = buildRelay(w.acc, plan[i].id, plan[i].groups, nil, hashOfID, tokenTargetOf(plan[i].id)).Hash
	}
	for i := range plan {
		plan[i].c = buildRelay(w.acc, plan[i].id, plan[i].groups, plan[i].perms, hashOfID, tokenTargetOf(plan[i].id))
		w.e.DeployContract(w.tb, plan[i].c, nil)
		if cs := bc.GetContractState(plan[i].c.Hash); cs != nil {
			plan[i].cid = cs.ID
		}
	}
	w.relays = plan
	w.proxy, w.sys, w.probes = buildProxy(w.acc, w.pub.Bytes(), ids[1], callflag.All)
	w.e.DeployContract(w.tb, w.proxy, nil)
	if cs := bc.GetContractState(w.proxy.Hash); cs != nil {
		w.proxyID = cs.ID
	}
	return w
}

func (w *world) relayByID(id int) *relayInfo {
	for i := range w.relays {
		if w.relays[i].id == id {
			return &w.relays[i]
		}
	}
	return nil
}
