package main

// Effect sweep: every system call (through the proxy contract) and every native method (through
// proxy.fwd) under each of the 16 call-flag sets, observing storage changes, notifications and nested
// calls of the real execution.

import (
	"encoding/binary"
	"encoding/json"
	"fmt"
	"sort"
	"strings"

	"github.com/nspcc-dev/neo-go/pkg/config"
	"github.com/nspcc-dev/neo-go/pkg/core/native"
	"github.com/nspcc-dev/neo-go/pkg/core/native/nativenames"
	"github.com/nspcc-dev/neo-go/pkg/core/transaction"
	"github.com/nspcc-dev/neo-go/pkg/encoding/bigint"
	"github.com/nspcc-dev/neo-go/pkg/io"
	"github.com/nspcc-dev/neo-go/pkg/neotest"
	"github.com/nspcc-dev/neo-go/pkg/smartcontract"
	"github.com/nspcc-dev/neo-go/pkg/smartcontract/callflag"
	"github.com/nspcc-dev/neo-go/pkg/smartcontract/manifest"
	"github.com/nspcc-dev/neo-go/pkg/smartcontract/nef"
	"github.com/nspcc-dev/neo-go/pkg/smartcontract/trigger"
	"github.com/nspcc-dev/neo-go/pkg/util"
	"github.com/nspcc-dev/neo-go/pkg/vm/emit"
	"github.com/nspcc-dev/neo-go/pkg/vm/invocations"
	"github.com/nspcc-dev/neo-go/pkg/vm/opcode"
	"github.com/nspcc-dev/neo-go/pkg/vm/stackitem"
	"github.com/nspcc-dev/neo-go/pkg/wallet"

	"verif/harness/internal/hx"
)

type runResult struct {
	cf      int           // call flags recorded by proxy.onNEP17Payment in this execution (-1: not run)
	cfBy    map[int32]int // the same for every contract that recorded "cf" in this execution, by contract id
	halt    bool
	msg     string // fault message
	writes  int    // keys put or deleted in the execution's private store
	notifs  int
	tree    *invocations.Tree
	result  []stackitem.Item
	panicky bool
}

// run executes script as the entry script of a test invocation (trigger Application, signers: the
// committee account and extra accounts, all Global) with the given entry flags.
func (w *world) run(script []byte, entry callflag.CallFlag, extraSigners ...util.Uint160) (res runResult) {
	tx := transaction.New(script, 0)
	tx.Signers = []transaction.Signer{{Account: w.acc, Scopes: transaction.Global}}
	for _, s := range extraSigners {
		tx.Signers = append(tx.Signers, transaction.Signer{Account: s, Scopes: transaction.Global})
	}
	tx.ValidUntilBlock = w.bc.BlockHeight() + 1
	ic, err := w.bc.GetTestVM(trigger.Application, tx, nil)
	if err != nil {
		panic(&Failure{Msg: "GetTestVM: " + err.Error()})
	}
	defer ic.Finalize()
	defer func() {
		if r := recover(); r != nil {
			res.panicky = true
			res.msg = fmt.Sprint(r)
		}
	}()
	ic.VM.EnableInvocationTree()
	ic.VM.LoadScriptWithFlags(script, entry)
	err = ic.VM.Run()
	res.halt = err == nil && !ic.VM.HasFailed()
	if err != nil {
		res.msg = err.Error()
	}
	b := ic.DAO.Store.GetBatch()
	res.writes = len(b.Put) + len(b.Deleted)
	res.notifs = len(ic.Notifications)
	res.tree = ic.VM.GetInvocationTree()
	res.cf = -1
	res.cfBy = map[int32]int{}
	for _, kv := range b.Put { // only a value written by THIS execution counts (storage key = prefix, id LE, "cf")
		if len(kv.Key) == 7 && string(kv.Key[5:]) == "cf" {
			id := int32(binary.LittleEndian.Uint32(kv.Key[1:5]))
			res.cfBy[id] = int(bigint.FromBytes(kv.Value).Int64())
			if id == w.proxyID && w.proxyID != 0 {
				res.cf = res.cfBy[id]
			}
		}
	}
	if res.halt {
		res.result = ic.VM.Estack().ToArray()
	}
	return res
}

// nestedBelow counts the contexts loaded below depth d (the tree root is a dummy node, the entry script is at depth 1).
func nestedBelow(t *invocations.Tree, d int) int {
	if t == nil {
		return 0
	}
	if d == 0 {
		n := 0
		var cnt func(x *invocations.Tree)
		cnt = func(x *invocations.Tree) {
			for _, c := range x.Calls {
				n++
				cnt(c)
			}
		}
		cnt(t)
		return n
	}
	n := 0
	for _, c := range t.Calls {
		n += nestedBelow(c, d-1)
	}
	return n
}

func treeDepth(t *invocations.Tree) int {
	if t == nil {
		return 0
	}
	d := 0
	for _, c := range t.Calls {
		if x := 1 + treeDepth(c); x > d {
			d = x
		}
	}
	return d
}

func obsEffects(writes, notifs, nested int) string {
	s := ""
	if writes > 0 {
		s += "w"
	}
	if notifs > 0 {
		s += "n"
	}
	if nested > 0 {
		s += "c"
	}
	if s == "" {
		return "-"
	}
	return s
}

func denied(msg string) bool { return strings.Contains(msg, "missing call flags") }

// effectOracle is the property's direct oracle on one execution: f = flags of the context that ran the
// primitive. Only successful executions count (a faulted one is discarded as a whole).
func effectOracle(o *hx.Out, k int, what, keySuffix string, f callflag.CallFlag, r runResult, nested int) {
	if r.panicky {
		o.Fail("sweep-panic", k, "%s flags=%d: panic outside the VM: %s", what, f, r.msg)
		return
	}
	if !r.halt {
		return
	}
	if r.writes > 0 && !f.Has(callflag.WriteStates) {
		o.Fail("write-without-writestates"+keySuffix, k, "%s executed with flags %d changed %d storage keys", what, f, r.writes)
	}
	if r.notifs > 0 && !f.Has(callflag.AllowNotify) {
		o.Fail("notify-without-allownotify"+keySuffix, k, "%s executed with flags %d emitted %d notifications", what, f, r.notifs)
	}
	if nested > 0 && !f.Has(callflag.AllowCall) {
		o.Fail("call-without-allowcall"+keySuffix, k, "%s executed with flags %d started %d nested contexts", what, f, nested)
	}
}

// sweepSyscalls: entry(All) → proxy.s<i> requested F, for all F.
func (w *world) sweepSyscalls(o *hx.Out, k int) {
	var unknown []string
	for name := range w.probes {
		unknown = append(unknown, name)
	}
	sort.Strings(unknown)
	for _, name := range unknown {
		// not in the harness's argument table (so not in the expectation table either): the model line says so, and
		// the oracle probes it on every known argument template
		o.Count("sweep:syscall-unknown-to-harness")
		o.Line("sysflags "+name, "no-dummy-arguments-in-harness")
		for _, method := range w.probes[name] {
			for F := 0; F < 16; F++ {
				bw := io.NewBufBinWriter()
				emit.AppCall(bw.BinWriter, w.proxy.Hash, method, callflag.CallFlag(F))
				r := w.run(bw.Bytes(), callflag.All)
				effectOracle(o, k, "unclassified syscall "+name+" (probe "+method+")", "", callflag.CallFlag(F), r, nestedBelow(r.tree, 2))
			}
		}
	}
	for _, f := range linkedInterops() {
		sm, ok := w.sys[f.Name]
		if !ok {
			continue
		}
		if f.ActiveFrom != config.HFDefault && hfIndex(f.ActiveFrom) > w.hf {
			continue
		}
		for F := 0; F < 16; F++ {
			bw := io.NewBufBinWriter()
			emit.AppCall(bw.BinWriter, w.proxy.Hash, sm.method, callflag.CallFlag(F))
			r := w.run(bw.Bytes(), callflag.All)
			nested := nestedBelow(r.tree, 2)
			obs := obsEffects(r.writes, r.notifs, nested)
			verdict := "passed"
			if denied(r.msg) {
				verdict = "denied"
			}
			o.Line(fmt.Sprintf("sysseq %d %s %s", F, obs, strings.Join(sm.seq, " ")), verdict+" within")
			effectOracle(o, k, "syscall "+f.Name, "", callflag.CallFlag(F), r, nested)
			o.Count("sweep:syscall:" + verdict)
			if r.halt {
				o.Count("sweep:syscall:halt")
				if obs != "-" {
					o.Seen("sys/" + f.Name + "/" + obs)
				}
			}
			if F == 15 && obs != "-" {
				o.Count("sweep:syscall-with-observed-effect")
			}
		}
	}
}

// nativeArgs builds type-correct dummy arguments for a native method; overrides make the interesting
// methods actually perform their effects.
func (w *world) nativeArgs(contract, method string, params []manifest.Parameter) []any {
	h := w.bc.BlockHeight()
	key := fmt.Sprintf("%s.%s/%d", contract, method, len(params))
	k2 := groupKey(100).PublicKey()
	switch key {
	case "ContractManagement.deploy/2", "ContractManagement.deploy/3":
		ne, mf := tinyContract("verif-c16-tiny")
		if len(params) == 3 {
			return []any{ne, mf, nil}
		}
		return []any{ne, mf}
	case "ContractManagement.update/2", "ContractManagement.update/3":
		ne, _ := w.proxy.NEF.Bytes()
		mf, _ := json.Marshal(w.proxy.Manifest)
		if len(params) == 3 {
			return []any{ne, mf, nil}
		}
		return []any{ne, mf}
	case "NeoToken.transfer/4", "GasToken.transfer/4":
		return []any{w.acc, w.proxy.Hash, 1, nil}
	case "NeoToken.vote/2":
		return []any{w.proxy.Hash, nil}
	case "NeoToken.registerCandidate/1":
		return []any{w.pub.Bytes()}
	case "NeoToken.unregisterCandidate/1", "NeoToken.getCandidateVote/1":
		return []any{k2.Bytes()}
	case "NeoToken.unclaimedGas/2":
		return []any{w.acc, int64(h + 1)}
	case "PolicyContract.blockAccount/1":
		return []any{w.proxy.Hash} // holds NEO: blocking revokes its vote and pays its GAS reward
	case "PolicyContract.unblockAccount/1", "PolicyContract.isBlocked/1":
		return []any{hashOf(201)}
	case "PolicyContract.setAttributeFee/2":
		return []any{int64(transaction.NotValidBeforeT), 1}
	case "PolicyContract.getAttributeFee/1":
		return []any{int64(transaction.NotValidBeforeT)}
	case "PolicyContract.setExecFeeFactor/1":
		return []any{30}
	case "PolicyContract.setStoragePrice/1", "PolicyContract.setFeePerByte/1", "PolicyContract.setMillisecondsPerBlock/1":
		return []any{1000}
	case "PolicyContract.setMaxTraceableBlocks/1":
		return []any{800}
	case "PolicyContract.setMaxValidUntilBlockIncrement/1":
		return []any{100}
	case "PolicyContract.setWhitelistFeeContract/4":
		return []any{w.proxy.Hash, "noop", 0, 0}
	case "PolicyContract.removeWhitelistFeeContract/3":
		return []any{w.relays[0].c.Hash, "relay", 1}
	case "PolicyContract.recoverFund/2":
		return []any{hashOf(201), w.e.NativeHash(w.tb, nativenames.Gas)}
	case "RoleManagement.designateAsRole/2":
		return []any{8, []any{w.pub.Bytes()}}
	case "RoleManagement.getDesignatedByRole/2":
		return []any{8, int64(h)}
	case "OracleContract.request/5":
		return []any{"https://x.y", nil, "noop", nil, 10000000}
	case "OracleContract.setPrice/1":
		return []any{1000}
	case "Notary.lockDepositUntil/2":
		return []any{w.acc, int64(h + 500)}
	case "Notary.withdraw/2":
		return []any{w.acc, w.acc}
	case "Notary.setMaxNotValidBeforeDelta/1":
		return []any{20}
	case "Notary.onNEP17Payment/3":
		return []any{w.acc, 1, []any{nil, int64(h + 100)}}
	case "LedgerContract.getBlock/1":
		return []any{0}
	case "StdLib.jsonDeserialize/1":
		return []any{[]byte("[1]")}
	case "StdLib.deserialize/1":
		return []any{[]byte{0x21, 0x01, 0x01}}
	}
	args := make([]any, len(params))
	for i, p := range params {
		switch p.Type {
		case smartcontract.Hash160Type:
			args[i] = w.acc
		case smartcontract.Hash256Type:
			args[i] = w.genesis
		case smartcontract.IntegerType:
			args[i] = 1
		case smartcontract.ByteArrayType:
			args[i] = []byte{1, 2, 3}
		case smartcontract.StringType:
			args[i] = "1"
		case smartcontract.BoolType:
			args[i] = true
		case smartcontract.PublicKeyType:
			args[i] = w.pub.Bytes()
		case smartcontract.SignatureType:
			args[i] = make([]byte, 64)
		case smartcontract.ArrayType:
			args[i] = []any{}
		default:
			args[i] = nil
		}
	}
	return args
}

// tinyContract: NEF and manifest bytes of a contract with `_deploy` and one method.
func tinyContract(name string) ([]byte, []byte) {
	config.Version = "verif"
	bw := io.NewBufBinWriter()
	emit.Opcodes(bw.BinWriter, opcode.RET, opcode.DROP, opcode.DROP, opcode.RET)
	ne, err := nef.NewFile(bw.Bytes())
	if err != nil {
		panic(err)
	}
	m := manifest.DefaultManifest(name)
	m.ABI.Methods = []manifest.Method{
		{Name: "_deploy", Offset: 1, ReturnType: smartcontract.VoidType, Parameters: []manifest.Parameter{{Name: "data", Type: smartcontract.AnyType}, {Name: "isUpdate", Type: smartcontract.BoolType}}},
		{Name: "x", Offset: 0, ReturnType: smartcontract.VoidType, Parameters: []manifest.Parameter{}},
	}
	nb, _ := ne.Bytes()
	mb, _ := json.Marshal(m)
	return nb, mb
}

// prepareNativeState makes the chain state interesting for the native sweep: the proxy holds NEO (so that a
// vote pays it a GAS reward), a second key is a registered candidate, one account is blocked, the committee
// account has a Notary deposit.
func (w *world) prepareNativeState() {
	e, t := w.e, w.tb
	neo := e.CommitteeInvoker(e.NativeHash(t, nativenames.Neo))
	gas := e.CommitteeInvoker(e.NativeHash(t, nativenames.Gas))
	neo.Invoke(t, true, "transfer", w.acc, w.proxy.Hash, 1000, nil)
	k2 := neotest.NewSingleSigner(wallet.NewAccountFromPrivateKey(groupKey(100)))
	gas.Invoke(t, true, "transfer", w.acc, k2.ScriptHash(), 3000_0000_0000, nil)
	neo.WithSigners(k2).Invoke(t, true, "registerCandidate", groupKey(100).PublicKey().Bytes())
	pol := e.CommitteeInvoker(e.NativeHash(t, nativenames.Policy))
	pol.Invoke(t, true, "blockAccount", hashOf(201))
	if w.hf >= 6 {
		pol.Invoke(t, nil, "setWhitelistFeeContract", w.relays[0].c.Hash, "relay", 1, 0)
	}
	if w.hf >= 5 { // Notary is active from Echidna
		gas.Invoke(t, true, "transfer", w.acc, e.NativeHash(t, nativenames.Notary), 10_0000_0000, []any{nil, int64(w.bc.BlockHeight() + 300)})
	}
	e.GenerateNewBlocks(t, 3)
}

// sweepNatives: entry(All) → proxy.fwd(All) → native.method requested F, for all F.
func (w *world) sweepNatives(o *hx.Out, k int) {
	hfs := append([]config.Hardfork{config.HFDefault}, config.Hardforks...)
	hf := hfs[w.hf]
	k2acc := groupKey(100).PublicKey().GetScriptHash()
	single := w.pub.GetScriptHash()
	legacy := ""
	if w.hf < 5 {
		legacy = "@legacy-hardforks"
	}
	for _, nc := range native.NewDefaultContracts(config.ProtocolConfiguration{}) {
		hash := nc.Metadata().Hash
		name := nc.Metadata().Name
		if a := nc.ActiveIn(); a != nil && hfIndex(*a) > w.hf {
			continue
		}
		for _, m := range nc.Metadata().HFSpecificContractMD(&hf).Methods {
			np := len(m.MD.Parameters)
			args := w.nativeArgs(name, m.MD.Name, m.MD.Parameters)
			sawEffect := ""
			for F := 0; F < 16; F++ {
				bw := io.NewBufBinWriter()
				emit.AppCall(bw.BinWriter, w.proxy.Hash, "fwd", callflag.All, hash, m.MD.Name, F, args)
				if bw.Err != nil {
					o.Fail("sweep-setup", k, "cannot emit arguments of %s.%s: %v", name, m.MD.Name, bw.Err)
					break
				}
				r := w.run(bw.Bytes(), callflag.All, k2acc, single)
				nested := nestedBelow(r.tree, 3)
				obs := obsEffects(r.writes, r.notifs, nested)
				feff := callflag.CallFlag(F)
				if m.MD.Safe {
					feff &^= callflag.WriteStates | callflag.AllowNotify
				}
				verdict := "passed"
				if denied(r.msg) {
					verdict = "denied"
				}
				o.Line(fmt.Sprintf("nat %s %s %d %d %d %s", name, m.MD.Name, np, w.hf, int(feff), obs), verdict+" within")
				what := fmt.Sprintf("native %s.%s/%d (hardfork level %d)", name, m.MD.Name, np, w.hf)
				effectOracle(o, k, what, ":"+name+"."+m.MD.Name+legacy, feff, r, nested)
				if m.MD.Safe && r.halt && (r.writes > 0 || r.notifs > 0) {
					o.Fail("safe-method-modifies", k, "%s is safe and changed %d keys / emitted %d notifications (requested flags %d)", what, r.writes, r.notifs, F)
				}
				if r.cf >= 0 && nested > 0 {
					// the reward / payment callback ran in the proxy: its flags are the native context's flags & All
					o.Line(fmt.Sprintf("nativecall %d", int(feff)), fmt.Sprint(r.cf))
					o.Count("sweep:native-callback-flags-observed")
					if r.cf&^int(feff) != 0 {
						o.Fail("flags-grew", k, "%s: callback context has flags %d, the native context %d", what, r.cf, feff)
					}
				}
				o.Count("sweep:native:" + verdict)
				if r.halt {
					o.Count("sweep:native:halt")
					if F == 15 {
						o.Count("sweep:native-halts-under-All")
					}
				}
				if obs != "-" {
					sawEffect = obs
					o.Seen(fmt.Sprintf("nat/%s.%s/%d/%s", name, m.MD.Name, np, obs))
				}
			}
			if !m.MD.Safe {
				if sawEffect != "" {
					o.Count("sweep:nonsafe-native-with-observed-effect")
				} else {
					o.Count("sweep:nonsafe-native-no-effect-observed")
				}
			}
		}
	}
}
