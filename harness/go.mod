module verif/harness

go 1.25.0

require github.com/nspcc-dev/neo-go v0.0.0

replace github.com/nspcc-dev/neo-go => /repo
