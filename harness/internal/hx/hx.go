// Package hx is the common output side of every harness command.
//
// A harness writes four files into its -out directory:
//
//	ops.txt    one operation per line, the input of the Lean driver
//	impl.txt   one observation of the real implementation per ops line
//	oracle.txt one line per failure of the property's direct oracle on the real code:
//	           FAIL key=<stable shape key> case=<n> <free text>
//	stats.json counters describing the input distribution, samples, totals
//
// The check pipes ops.txt to the driver and diffs its output with impl.txt.
package hx

import (
	"bufio"
	"encoding/hex"
	"encoding/json"
	"flag"
	"fmt"
	"os"
	"path/filepath"
	"sort"
	"strings"
)

type Flags struct {
	Seed  uint64
	Tier  string
	Out   string
	Cases int // 0 = tier default
	Only  int // -1 = all cases
}

func ParseFlags() *Flags {
	f := &Flags{}
	flag.Uint64Var(&f.Seed, "seed", 1, "run seed")
	flag.StringVar(&f.Tier, "tier", "quick", "quick|thorough")
	flag.StringVar(&f.Out, "out", "", "output directory")
	flag.IntVar(&f.Cases, "cases", 0, "number of cases (0 = tier default)")
	flag.IntVar(&f.Only, "only", -1, "generate only this case index")
	flag.Parse()
	if f.Out == "" {
		fmt.Fprintln(os.Stderr, "missing -out")
		os.Exit(2)
	}
	return f
}

// N returns the number of cases to run given tier defaults.
func (f *Flags) N(quick, thorough int) int {
	if f.Cases > 0 {
		return f.Cases
	}
	if f.Tier == "thorough" {
		return thorough
	}
	return quick
}

// Want tells whether case k is to be generated.
func (f *Flags) Want(k int) bool { return f.Only < 0 || f.Only == k }

type Out struct {
	ops, impl, oracle *bufio.Writer
	files             []*os.File
	dir               string
	Counters          map[string]int
	Samples           []string
	Distinct          map[string]struct{}
	nOps, nFail       int
	Cases             int
	maxSamples        int
}

func NewOut(dir string) *Out {
	if err := os.MkdirAll(dir, 0o755); err != nil {
		panic(err)
	}
	o := &Out{dir: dir, Counters: map[string]int{}, Distinct: map[string]struct{}{}, maxSamples: 5}
	open := func(n string) *bufio.Writer {
		f, err := os.Create(filepath.Join(dir, n))
		if err != nil {
			panic(err)
		}
		o.files = append(o.files, f)
		return bufio.NewWriterSize(f, 1<<16)
	}
	o.ops, o.impl, o.oracle = open("ops.txt"), open("impl.txt"), open("oracle.txt")
	return o
}

func oneLine(s string) string {
	s = strings.ReplaceAll(s, "\n", "\\n")
	return strings.ReplaceAll(s, "\r", "\\r")
}

// Line writes one operation line for the model and the implementation's observation of it.
func (o *Out) Line(op, obs string) {
	o.ops.WriteString(oneLine(op))
	o.ops.WriteByte('\n')
	o.impl.WriteString(oneLine(obs))
	o.impl.WriteByte('\n')
	o.nOps++
}

// Case writes a case marker line (both streams carry it, the driver resets its state on it).
func (o *Out) Case(k int) {
	o.Line(fmt.Sprintf("case %d", k), fmt.Sprintf("case %d", k))
	o.Cases++
}

// Fail records a failure of the property's oracle on the real implementation.
func (o *Out) Fail(key string, k int, format string, a ...any) {
	fmt.Fprintf(o.oracle, "FAIL key=%s case=%d %s\n", key, k, oneLine(fmt.Sprintf(format, a...)))
	o.nFail++
}

func (o *Out) Count(name string)      { o.Counters[name]++ }
func (o *Out) Add(name string, n int) { o.Counters[name] += n }
func (o *Out) Sample(s string) {
	if len(o.Samples) < o.maxSamples {
		o.Samples = append(o.Samples, oneLine(s))
	}
}

// Seen registers a canonical description of a non-trivial case for the distinct count.
func (o *Out) Seen(canon string) { o.Distinct[canon] = struct{}{} }

func (o *Out) Close() {
	for _, w := range []*bufio.Writer{o.ops, o.impl, o.oracle} {
		w.Flush()
	}
	for _, f := range o.files {
		f.Close()
	}
	keys := make([]string, 0, len(o.Counters))
	for k := range o.Counters {
		keys = append(keys, k)
	}
	sort.Strings(keys)
	st := map[string]any{
		"cases":               o.Cases,
		"ops":                 o.nOps,
		"oracle_failures":     o.nFail,
		"distinct_nontrivial": len(o.Distinct),
		"counters":            o.Counters,
		"samples":             o.Samples,
	}
	b, _ := json.MarshalIndent(st, "", " ")
	if err := os.WriteFile(filepath.Join(o.dir, "stats.json"), b, 0o644); err != nil {
		panic(err)
	}
}

// Hex encodes bytes the way the Lean side expects: lower-case hex, "-" for empty.
func Hex(b []byte) string {
	if len(b) == 0 {
		return "-"
	}
	return hex.EncodeToString(b)
}

// Safe runs f and converts a panic into an observation string.
func Safe(f func() string) (res string) {
	defer func() {
		if r := recover(); r != nil {
			res = "panic"
		}
	}()
	return f()
}
