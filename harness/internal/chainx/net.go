package chainx

import (
	"encoding/hex"
	"fmt"
	"os"
	"path/filepath"
	"slices"
	"time"

	"github.com/nspcc-dev/neo-go/pkg/config"
	"github.com/nspcc-dev/neo-go/pkg/config/netmode"
	"github.com/nspcc-dev/neo-go/pkg/core"
	"github.com/nspcc-dev/neo-go/pkg/core/storage"
	"github.com/nspcc-dev/neo-go/pkg/core/storage/dbconfig"
	"github.com/nspcc-dev/neo-go/pkg/crypto/keys"
	"github.com/nspcc-dev/neo-go/pkg/neotest"
	"github.com/nspcc-dev/neo-go/pkg/smartcontract"
	"github.com/nspcc-dev/neo-go/pkg/util"
	"github.com/nspcc-dev/neo-go/pkg/wallet"
	"go.uber.org/zap"

	"verif/harness/internal/prng"
)

// Net is a protocol definition with a standby committee of keys the harness holds.
// Keys[0:Committee] is the StandbyCommittee (in config order), Keys[0:Validators] the standby
// validators; the remaining keys are spare (candidates / ordinary users).
type Net struct {
	Keys       []*keys.PrivateKey
	Committee  int
	Validators int
	byPub      map[string]*keys.PrivateKey
}

// NewNet derives committee+extra private keys from r (deterministic).
func NewNet(r *prng.R, committee, validators, extra int) *Net {
	n := &Net{Committee: committee, Validators: validators, byPub: map[string]*keys.PrivateKey{}}
	for len(n.Keys) < committee+extra {
		b := r.Bytes(32)
		b[0] &= 0x7f // keep it below the group order
		k, err := keys.NewPrivateKeyFromBytes(b)
		if err != nil {
			continue
		}
		n.Keys = append(n.Keys, k)
		n.byPub[string(k.PublicKey().Bytes())] = k
	}
	return n
}

// Pub returns the public key of key i.
func (n *Net) Pub(i int) *keys.PublicKey { return n.Keys[i].PublicKey() }

// IndexOf returns the index of the key with the given public key, or -1.
func (n *Net) IndexOf(p *keys.PublicKey) int {
	for i, k := range n.Keys {
		if k.PublicKey().Equal(p) {
			return i
		}
	}
	return -1
}

// StandbyCommittee returns the config strings.
func (n *Net) StandbyCommittee() []string {
	res := make([]string, n.Committee)
	for i := range res {
		res[i] = hex.EncodeToString(n.Pub(i).Bytes())
	}
	return res
}

// Single returns the single-signature signer (account) of key i.
func (n *Net) Single(i int) neotest.SingleSigner {
	return neotest.NewSingleSigner(wallet.NewAccountFromPrivateKey(n.Keys[i]))
}

// Account returns the script hash of the single-signature account of key i.
func (n *Net) Account(i int) util.Uint160 { return n.Pub(i).GetScriptHash() }

// Multi returns an m-of-len(pubs) multisignature signer for the given public keys, all of which
// must be keys of the net.
func (n *Net) Multi(m int, pubs keys.PublicKeys) neotest.Signer {
	pubs = pubs.Copy()
	accs := make([]*wallet.Account, len(pubs))
	for i, p := range pubs {
		k, ok := n.byPub[string(p.Bytes())]
		if !ok {
			panic("chainx: key not held: " + p.StringCompressed())
		}
		accs[i] = wallet.NewAccountFromPrivateKey(k)
		if err := accs[i].ConvertMultisig(m, pubs.Copy()); err != nil {
			panic(err)
		}
	}
	return neotest.NewMultiSigner(accs...)
}

// ValidatorsSigner is the default (BFT honest count) multisig of the given validator keys.
func (n *Net) ValidatorsSigner(pubs keys.PublicKeys) neotest.Signer {
	return n.Multi(smartcontract.GetDefaultHonestNodeCount(len(pubs)), pubs)
}

// CommitteeSigner is the majority multisig of the given committee keys (= NEO.getCommitteeAddress).
func (n *Net) CommitteeSigner(pubs keys.PublicKeys) neotest.Signer {
	return n.Multi(smartcontract.GetMajorityHonestNodeCount(len(pubs)), pubs)
}

// StandbyValidatorsSigner signs for the genesis NextConsensus / initial NEO+GAS holder.
func (n *Net) StandbyValidatorsSigner() neotest.Signer {
	pubs := make(keys.PublicKeys, n.Validators)
	for i := range pubs {
		pubs[i] = n.Pub(i)
	}
	return n.ValidatorsSigner(pubs)
}

// StandbyCommitteeSigner signs for the genesis committee address.
func (n *Net) StandbyCommitteeSigner() neotest.Signer {
	pubs := make(keys.PublicKeys, n.Committee)
	for i := range pubs {
		pubs[i] = n.Pub(i)
	}
	return n.CommitteeSigner(pubs)
}

// BaseConfig is the protocol configuration of the net (same shape as neotest/chain.NewSingle's),
// with `more` applied last.
func (n *Net) BaseConfig(more func(*config.Blockchain)) config.Blockchain {
	cfg := config.Blockchain{
		ProtocolConfiguration: config.ProtocolConfiguration{
			Magic:                       netmode.UnitTestNet,
			MaxTraceableBlocks:          1000,
			MaxBlockSystemFee:           900000000000,
			MaxValidUntilBlockIncrement: 500,
			TimePerBlock:                time.Second,
			Genesis:                     config.Genesis{TimePerBlock: time.Second},
			StandbyCommittee:            n.StandbyCommittee(),
			ValidatorsCount:             uint32(n.Validators),
			VerifyTransactions:          true,
		},
	}
	if more != nil {
		more(&cfg)
	}
	return cfg
}

// ---------------------------------------------------------------------------------------------
// Re-openable stores.

// StoreKind selects a backend.
type StoreKind int

const (
	Memory StoreKind = iota
	Bolt
	Level
)

func (k StoreKind) String() string { return [...]string{"memory", "bolt", "leveldb"}[k] }

// Backend is a database that survives Close of the store handle (restart simulation).
type Backend struct {
	Kind StoreKind
	dir  string
	mem  *storage.MemoryStore
}

// NewBackend creates a backend; disk ones live in a fresh temp dir removed by Remove.
func NewBackend(kind StoreKind) *Backend {
	b := &Backend{Kind: kind}
	if kind == Memory {
		b.mem = storage.NewMemoryStore()
	} else {
		d, err := os.MkdirTemp("", "verif-db-")
		if err != nil {
			panic(err)
		}
		b.dir = d
	}
	return b
}

type noClose struct{ storage.Store }

func (noClose) Close() error { return nil }

// Open returns a store handle on the backend's data.
func (b *Backend) Open() (storage.Store, error) {
	switch b.Kind {
	case Memory:
		return noClose{b.mem}, nil
	case Bolt:
		return storage.NewBoltDBStore(dbconfig.BoltDBOptions{FilePath: filepath.Join(b.dir, "chain.bolt")})
	case Level:
		return storage.NewLevelDBStore(dbconfig.LevelDBOptions{DataDirectoryPath: filepath.Join(b.dir, "chain.ldb")})
	}
	return nil, fmt.Errorf("unknown backend kind %d", b.Kind)
}

// Remove deletes the backend's files.
func (b *Backend) Remove() {
	if b.dir != "" {
		os.RemoveAll(b.dir)
	}
}

// ---------------------------------------------------------------------------------------------
// Node: a running core.Blockchain on a Backend.

// Node is one replica.
type Node struct {
	BC      *core.Blockchain
	Cfg     config.Blockchain
	Backend *Backend
	Log     *zap.Logger
	running bool
}

// StartNode opens the backend and starts a Blockchain on it (genesis is created on an empty
// backend, otherwise the stored chain is restored). Run() is started: AddBlock needs the
// notification dispatcher, and the production 1 s persist timer is therefore live too.
func StartNode(cfg config.Blockchain, be *Backend) (*Node, error) {
	n := &Node{Cfg: cfg, Backend: be, Log: zap.NewNop()}
	if err := n.start(); err != nil {
		return nil, err
	}
	return n, nil
}

func (n *Node) start() error {
	st, err := n.Backend.Open()
	if err != nil {
		return err
	}
	cfg := n.Cfg
	if cfg.Hardforks != nil { // NewBlockchain mutates the map it is given
		m := make(map[string]uint32, len(cfg.Hardforks))
		for k, v := range cfg.Hardforks {
			m[k] = v
		}
		cfg.Hardforks = m
	}
	bc, err := core.NewBlockchain(st, cfg, n.Log)
	if err != nil {
		_ = st.Close()
		return err
	}
	go bc.Run()
	n.BC = bc
	n.running = true
	return nil
}

// Flush forces one flush of the write cache to the backend (verif hook).
func (n *Node) Flush() error { return n.BC.VerifPersist() }

// Stop is a clean shutdown: flush + close of the store handle.
func (n *Node) Stop() {
	if n.running {
		n.BC.Close()
		n.running = false
	}
}

// Restart = Stop, then a new Blockchain object on the same backend (caches rebuilt from storage).
func (n *Node) Restart() error {
	n.Stop()
	return n.start()
}

// RestartWith = Restart with node-local configuration changes applied in between (only settings the
// stored version record does not pin may change: GC, verification options, ...).
func (n *Node) RestartWith(change func(*config.Blockchain)) error {
	n.Stop()
	if change != nil {
		change(&n.Cfg)
	}
	return n.start()
}

// SortedPubs returns a sorted copy.
func SortedPubs(p keys.PublicKeys) keys.PublicKeys {
	p = p.Copy()
	slices.SortFunc(p, (*keys.PublicKey).Cmp)
	return p
}
