package chainx

import (
	"encoding/json"
	"fmt"

	"github.com/nspcc-dev/neo-go/pkg/config"
	"github.com/nspcc-dev/neo-go/pkg/core/interop/interopnames"
	"github.com/nspcc-dev/neo-go/pkg/core/native/nativehashes"
	"github.com/nspcc-dev/neo-go/pkg/core/state"
	"github.com/nspcc-dev/neo-go/pkg/io"
	"github.com/nspcc-dev/neo-go/pkg/smartcontract"
	"github.com/nspcc-dev/neo-go/pkg/smartcontract/callflag"
	"github.com/nspcc-dev/neo-go/pkg/smartcontract/manifest"
	"github.com/nspcc-dev/neo-go/pkg/smartcontract/nef"
	"github.com/nspcc-dev/neo-go/pkg/util"
	"github.com/nspcc-dev/neo-go/pkg/vm/emit"
	"github.com/nspcc-dev/neo-go/pkg/vm/opcode"
)

// KV is a tiny hand-assembled key-value contract (no compiler involved).
//
//	put(key,value)            Storage.Put
//	del(key)                  Storage.Delete
//	get(key) any              Storage.Get
//	putAbort(key,value)       Storage.Put, then ABORT            (uncatchable fault after a write)
//	putThrow(key,value)       Storage.Put, then THROW "boom"     (catchable by the caller's TRY)
//	fill(n,seed)              for i=n-1..0: Put(seed||i, seed)   (storage-heavy)
//	ver() int                 the variant byte
//	update(nef,manifest,data) ContractManagement.update
//	destroy()                 ContractManagement.destroy
//	_deploy(data,isUpdate)    Put(0xff 'd', data)
//	onNEP17Payment(f,a,d)     Put(0xff 'p', amount)
type KV struct {
	Name     string
	Variant  byte
	NEF      *nef.File
	Manifest *manifest.Manifest
	NEFBytes []byte
	ManBytes []byte
}

// NewKV assembles variant v of the contract with the given manifest name.
func NewKV(name string, v byte) *KV {
	config.Version = "verif" // nef.NewFile embeds it in the compiler field
	w := io.NewBufBinWriter()
	bw := w.BinWriter
	m := manifest.DefaultManifest(name)
	bytesT, intT, anyT, voidT := smartcontract.ByteArrayType, smartcontract.IntegerType, smartcontract.AnyType, smartcontract.VoidType
	add := func(name string, ret smartcontract.ParamType, params ...smartcontract.ParamType) {
		ps := make([]manifest.Parameter, len(params))
		for i, p := range params {
			ps[i] = manifest.Parameter{Name: fmt.Sprintf("a%d", i), Type: p}
		}
		m.ABI.Methods = append(m.ABI.Methods, manifest.Method{Name: name, Offset: w.Len(), Parameters: ps, ReturnType: ret})
	}
	getCtx := func() { emit.Syscall(bw, interopnames.SystemStorageGetContext) }

	add("put", voidT, bytesT, bytesT)
	getCtx()
	emit.Syscall(bw, interopnames.SystemStoragePut)
	emit.Opcodes(bw, opcode.RET)

	add("del", voidT, bytesT)
	getCtx()
	emit.Syscall(bw, interopnames.SystemStorageDelete)
	emit.Opcodes(bw, opcode.RET)

	add("get", anyT, bytesT)
	getCtx()
	emit.Syscall(bw, interopnames.SystemStorageGet)
	emit.Opcodes(bw, opcode.RET)

	add("putAbort", voidT, bytesT, bytesT)
	getCtx()
	emit.Syscall(bw, interopnames.SystemStoragePut)
	emit.Opcodes(bw, opcode.ABORT)

	add("putThrow", voidT, bytesT, bytesT)
	getCtx()
	emit.Syscall(bw, interopnames.SystemStoragePut)
	emit.String(bw, "boom")
	emit.Opcodes(bw, opcode.THROW)

	add("fill", voidT, intT, bytesT)
	emit.InitSlot(bw, 0, 2)
	loop := w.Len()
	emit.Opcodes(bw, opcode.LDARG0, opcode.PUSH0)
	jmpPos := w.Len()
	emit.Instruction(bw, opcode.JMPLE, []byte{0}) // patched below
	emit.Opcodes(bw, opcode.LDARG0, opcode.DEC, opcode.STARG0)
	emit.Opcodes(bw, opcode.LDARG1)                            // value
	emit.Opcodes(bw, opcode.LDARG1, opcode.LDARG0, opcode.CAT) // key = seed || i
	getCtx()
	emit.Syscall(bw, interopnames.SystemStoragePut)
	back := loop - w.Len()
	emit.Instruction(bw, opcode.JMP, []byte{byte(int8(back))})
	end := w.Len()
	emit.Opcodes(bw, opcode.RET)

	add("ver", intT)
	emit.Int(bw, int64(v))
	emit.Opcodes(bw, opcode.RET)

	add("update", voidT, bytesT, bytesT, anyT)
	emit.Opcodes(bw, opcode.PUSH3, opcode.PACK)
	emit.AppCallNoArgs(bw, nativehashes.ContractManagement, "update", callflag.All)
	emit.Opcodes(bw, opcode.DROP, opcode.RET)

	add("destroy", voidT)
	emit.Opcodes(bw, opcode.NEWARRAY0)
	emit.AppCallNoArgs(bw, nativehashes.ContractManagement, "destroy", callflag.All)
	emit.Opcodes(bw, opcode.DROP, opcode.RET)

	add("_deploy", voidT, anyT, smartcontract.BoolType)
	// stack: data, isUpdate  -> Put(ctx, ff64, data)
	emit.Opcodes(bw, opcode.SWAP, opcode.DROP)
	emit.Bytes(bw, []byte{0xff, 'd'})
	getCtx()
	emit.Syscall(bw, interopnames.SystemStoragePut)
	emit.Opcodes(bw, opcode.RET)

	add("onNEP17Payment", voidT, smartcontract.Hash160Type, intT, anyT)
	// stack: from, amount, data -> Put(ctx, ff70, amount)
	emit.Opcodes(bw, opcode.DROP)
	emit.Bytes(bw, []byte{0xff, 'p'})
	getCtx()
	emit.Syscall(bw, interopnames.SystemStoragePut)
	emit.Opcodes(bw, opcode.DROP, opcode.RET)

	if w.Err != nil {
		panic(w.Err)
	}
	script := w.Bytes()
	script[jmpPos+1] = byte(int8(end - jmpPos))
	ne, err := nef.NewFile(script)
	if err != nil {
		panic(err)
	}
	k := &KV{Name: name, Variant: v, NEF: ne, Manifest: m}
	if k.NEFBytes, err = ne.Bytes(); err != nil {
		panic(err)
	}
	if k.ManBytes, err = json.Marshal(m); err != nil {
		panic(err)
	}
	return k
}

// Hash is the hash the contract gets when deployed by sender.
func (k *KV) Hash(sender util.Uint160) util.Uint160 {
	return state.CreateContractHash(sender, k.NEF.Checksum, k.Name)
}

// DeployScript is the entry script deploying the contract (data must not be nil: _deploy stores it).
func (k *KV) DeployScript(data []byte) []byte {
	w := io.NewBufBinWriter()
	emit.AppCall(w.BinWriter, nativehashes.ContractManagement, "deploy", callflag.All, k.NEFBytes, k.ManBytes, data)
	if w.Err != nil {
		panic(w.Err)
	}
	return w.Bytes()
}

// Call is one contract call inside an entry script.
type Call struct {
	Hash   util.Uint160
	Method string
	Args   []any
	Try    bool // wrap into TRY/CATCH (the exception, if any, is dropped)
	Drop   bool // method returns a value (or void via Contract.Call -> Null): drop it
}

// Script assembles an entry script from calls; if abort, the script ends with ABORT.
func Script(abort bool, calls ...Call) []byte {
	w := io.NewBufBinWriter()
	bw := w.BinWriter
	for _, c := range calls {
		body := io.NewBufBinWriter()
		emit.AppCall(body.BinWriter, c.Hash, c.Method, callflag.All, c.Args...)
		if c.Drop {
			emit.Opcodes(body.BinWriter, opcode.DROP)
		}
		b := body.Bytes()
		if !c.Try {
			bw.WriteBytes(b)
			continue
		}
		// TRY_L catch=+(9+len(b)+5) finally=0 ; body ; ENDTRY_L +(5+1+5) ; DROP ; ENDTRY_L +5
		tryLen, endLen := 9, 5
		catchOff := tryLen + len(b) + endLen
		emit.Instruction(bw, opcode.TRYL, append(le32(int32(catchOff)), le32(0)...))
		bw.WriteBytes(b)
		emit.Instruction(bw, opcode.ENDTRYL, le32(int32(endLen+1+endLen)))
		emit.Opcodes(bw, opcode.DROP)
		emit.Instruction(bw, opcode.ENDTRYL, le32(int32(endLen)))
	}
	if abort {
		emit.Opcodes(bw, opcode.ABORT)
	}
	if w.Err != nil {
		panic(w.Err)
	}
	return w.Bytes()
}

func le32(v int32) []byte {
	return []byte{byte(v), byte(v >> 8), byte(v >> 16), byte(v >> 24)}
}
