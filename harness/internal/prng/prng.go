// Package prng is the single source of randomness of all harnesses: splitmix64.
// Every case derives its own generator from (seed, case index) so that one case
// can be regenerated alone (`-only K`).
package prng

type R struct{ s uint64 }

func New(seed uint64) *R { return &R{s: seed} }

// ForCase returns the generator of case k under the given run seed. Seed and case index are
// mixed through the splitmix64 finaliser twice, so that the streams of different cases are
// unrelated (deriving the state as seed ^ C*(k+1) made case k+2 the same stream as case k shifted
// by two draws, because the generator itself advances by C per draw).
func ForCase(seed uint64, k int) *R {
	a := New(seed).U64()
	b := New(a ^ ((uint64(k) + 1) * 0xd1342543de82ef95)).U64()
	return New(b)
}

func (r *R) U64() uint64 {
	r.s += 0x9e3779b97f4a7c15
	z := r.s
	z = (z ^ (z >> 30)) * 0xbf58476d1ce4e5b9
	z = (z ^ (z >> 27)) * 0x94d049bb133111eb
	return z ^ (z >> 31)
}

// Intn returns a number in [0,n). n must be > 0.
func (r *R) Intn(n int) int { return int(r.U64() % uint64(n)) }

// Range returns a number in [lo,hi].
func (r *R) Range(lo, hi int) int { return lo + r.Intn(hi-lo+1) }

// Bool is true with probability num/den.
func (r *R) Chance(num, den int) bool { return r.Intn(den) < num }

func (r *R) Bool() bool { return r.U64()&1 == 1 }

func (r *R) Bytes(n int) []byte {
	b := make([]byte, n)
	for i := range b {
		b[i] = byte(r.U64())
	}
	return b
}

// Pick returns a random element index weighted by w.
func (r *R) Weighted(w []int) int {
	t := 0
	for _, x := range w {
		t += x
	}
	k := r.Intn(t)
	for i, x := range w {
		if k < x {
			return i
		}
		k -= x
	}
	return len(w) - 1
}
