/-
C06 — the GAS budget of the k-th witness: the limit minus the cost of ALL witnesses before it
(Blockchain.verifyTxWitnesses: `gasLimit -= gasConsumed` inside the loop). Seeded change C06-m8 charged only the
previous one.
-/
import NeoModel.Proofs.AddBlockTxVerify
namespace NeoModel.AddBlock

theorem verifyWitnesses_append (c : Chain) (gas : Nat) (pre rest : List Witness) :
    verifyWitnesses c gas (pre ++ rest) =
      (match verifyWitnesses c gas pre with
       | some g => verifyWitnesses c g rest
       | none => none) := by
  induction pre generalizing gas with
  | nil => rfl
  | cons w r ih =>
    simp only [List.cons_append, verifyWitnesses]
    cases verifyOne c gas w with
    | none => rfl
    | some u => exact ih _

/-- C06: the GAS available to witness number k is the limit minus the sum of the costs of ALL witnesses
before it (not only of the previous one): if the script witnesses `pre ++ w :: post` all verify within `gas`,
then `w` was verified with exactly `gas − Σ cost pre`, and that covers its own cost. -/
theorem gas_for_witness_k (c : Chain) (gas : Nat) (pre post : List Witness) (w : Witness) (left : Nat)
    (hs : ∀ x ∈ pre ++ w :: post, x.isScript = true)
    (h : verifyWitnesses c gas (pre ++ w :: post) = some left) :
    verifyWitnesses c gas pre = some (gas - sumCost pre) ∧
      verifyOne c (gas - sumCost pre) w = some w.cost ∧
      sumCost pre + w.cost ≤ gas := by
  have hpre : ∀ x ∈ pre, x.isScript = true := fun x hx => hs x (by simp [hx])
  rw [verifyWitnesses_append] at h
  cases hp : verifyWitnesses c gas pre with
  | none => rw [hp] at h; cases h
  | some g =>
    rw [hp] at h
    obtain ⟨_, hle, hg⟩ := (verifyWitnesses_scripts c gas pre hpre g).mp hp
    subst hg
    simp only [verifyWitnesses] at h
    cases ho : verifyOne c (gas - sumCost pre) w with
    | none => rw [ho] at h; cases h
    | some u =>
      have hw := hs w (by simp)
      obtain ⟨_, h2, _, h4⟩ := (verifyOne_script c _ w hw u).mp ho
      subst h4
      exact ⟨rfl, rfl, by omega⟩

/-- a chain view for the example: MaxVerificationGas 50 -/
def sumChain : Chain :=
  { height := 0
    maxVUBInc := 0
    maxBlockSysFee := 0
    feePerByte := 0
    maxVerGas := 50
    mtb := 0
    p2pSigExt := false
    reservedAttrs := false
    notaryActive := false
    attrFee := fun _ => 0
    blocked := fun _ => false
    lookup := fun _ => .none
    committee := 0
    oracleHash := none
    notary := 0 }

-- non-vacuity: three witnesses costing 20 each; with 59 the THIRD one fails although it would pass if only
-- the second one's cost were deducted (59 − 20 = 39 ≥ 20); with 60 all pass
example : verifyWitnesses sumChain 59
      [.script true false true true 20, .script true false true true 20, .script true false true true 20] = none ∧
    verifyWitnesses sumChain 60
      [.script true false true true 20, .script true false true true 20, .script true false true true 20] = some 0 := by decide

end NeoModel.AddBlock
