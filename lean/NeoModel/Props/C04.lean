/-
C04 — failed execution leaves no trace. Property theorems only (helper lemmas: Proofs/Exec*.lean).
Model: NeoModel/Model/Exec.lean (`sp` = transactional specification, `im` = the code as written).
-/
import NeoModel.Model.Exec
namespace NeoModel.Exec

deriving instance DecidableEq for Outcome

/-- A transaction that faults under the implementation model leaves the block cache exactly as
    it was and delivers no notification. -/
theorem fault_leaves_store (pre : Log) (t : Tree) (h : (implRun pre t).halt = false) :
    (implRun pre t).store = pre ∧ (implRun pre t).events = [] := by
  unfold implRun at *
  split <;> simp_all

-- non-vacuity: a transaction that writes, notifies, moves into a callee and then aborts
example : (implRun [.set (0, 1) 5] (.call 0 Flags.all (.seq (.put 1 7) (.seq (.notify 2) .abort)))).halt = false := by decide

/-- C04, first sentence, "in any block position": if a transaction of a block faults (on the state
    it meets), the block's result is that of burning every fee (its own included) and executing
    only the other transactions. -/
theorem fault_only_fees (σ : Log) (pre post : List Tx) (tx : Tx)
    (hf : (implRun (execAll (burnAll σ (pre ++ tx :: post)) pre) tx.tree).halt = false) :
    blockRun σ (pre ++ tx :: post) = execAll (execAll (burnAll σ (pre ++ tx :: post)) pre) post := by
  have h1 : stepTx (execAll (burnAll σ (pre ++ tx :: post)) pre) tx = execAll (burnAll σ (pre ++ tx :: post)) pre :=
    (fault_leaves_store _ _ hf).1
  unfold blockRun
  unfold execAll at *
  rw [List.foldl_append, List.foldl_cons, h1]

-- non-vacuity: a faulting transaction between two halting ones
example :
    let good1 : Tx := ⟨3, .call 0 Flags.all (.put 1 1)⟩
    let bad : Tx := ⟨5, .call 0 Flags.all (.seq (.put 1 9) .abort)⟩
    let good2 : Tx := ⟨2, .call 1 Flags.all (.put 2 2)⟩
    (implRun (execAll (burnAll [.set (gasTab, senderAcc) 100] ([good1] ++ bad :: [good2])) [good1]) bad.tree).halt = false := by
  decide

end NeoModel.Exec
