/-
C04 — failed execution leaves no trace. Property theorems only (helper lemmas: Proofs/ExecSim.lean,
Proofs/ExecSpec.lean). Model: NeoModel/Model/Exec.lean — `sp`/`specRun` is the transactional
specification, `im`/`implRun` the code as written (lazy DAO layering of contract/call.go, the
unload/commit rule and exception unwinding of vm.go, the per-transaction layer of blockchain.go).
-/
import NeoModel.Model.Exec
import NeoModel.Proofs.ExecSim
import NeoModel.Proofs.ExecSpec
import NeoModel.Proofs.ExecFacts
import NeoModel.Proofs.ExecFrame
import NeoModel.Proofs.ExecSimK
import NeoModel.Proofs.ExecNoDev
import NeoModel.Proofs.ExecCache
import NeoModel.Proofs.ExecCacheCopy
import NeoModel.Proofs.ExecExc
import NeoModel.Proofs.ExecDrop
import NeoModel.Proofs.ExecSafeDev
import NeoModel.Proofs.ExecLimit
import NeoModel.Proofs.ExecCacheDeep
import NeoModel.Proofs.ExecBlocked
import NeoModel.Proofs.ExecStoreImm
import NeoModel.Proofs.ExecCacheReach
import NeoModel.Generated.ExcFacts
namespace NeoModel.Exec

deriving instance DecidableEq for Outcome

/-! ### 1. The lazy layering is sound

Full statement (DESIGN C04.1):  `∀ pre t, (implRun pre t).eff = (specRun pre t).eff`.
It does NOT hold for the code as written, see `impl_refines_spec_fails` below. What is proved is the
statement for every tree in which no FINALLY block makes a contract or native call (`safe`): any
nesting of calls, internal calls, try/catch/finally, reads, native transfers with payment callbacks
and setters, any call flags, throw/abort anywhere, any pre-state. Missing for the full statement:
nothing that can be proved — the remaining trees are exactly where the commit rule of
`unloadContext` (`commit = uncaughtException == nil`) differs from the specification. -/

theorem impl_refines_spec_partial (pre : Log) (t : Tree) (hs : safe t = true) :
    (implRun pre t).eff = (specRun pre t).eff := by
  have hR : R ⟨[], [pre], [], false⟩ ⟨pre, [], false⟩ := ⟨by simp [ISt.view, flatten], rfl, rfl⟩
  have h := sim t rootCtx ⟨[], [pre], [], false⟩ ⟨pre, [], false⟩ hs hR (Or.inl rfl)
  unfold implRun specRun
  simp only [rootCtx] at h
  cases hr : im t rootCtx ⟨[], [pre], [], false⟩ with
  | norm s' =>
    simp only [rootCtx] at hr
    rw [hr] at h
    obtain ⟨S', e1, e2, _⟩ := h
    simp only [entryId] at e1 ⊢
    rw [e1]
    simp [Outcome.eff, e2.1, e2.2.1]
  | thrown s' =>
    simp only [rootCtx] at hr
    rw [hr] at h
    exact absurd h.1 (by simp)
  | fault s' =>
    simp only [rootCtx] at hr
    rw [hr] at h
    simp only [entryId] at h ⊢
    rcases h with ⟨S', e1⟩ | ⟨_, S', e1⟩ <;> rw [e1] <;> simp [Outcome.eff]

/-- a tree with everything in it: a caller with TRY whose callee writes, notifies, moves GAS to a
    contract whose payment callback writes, calls a third contract and throws; catch + finally
    (without calls); a read-only call; a setter; the hypothesis `safe` holds and the run halts. -/
def demoTree : Tree :=
  .call 0 Flags.all (.seq (.put 1 2) (.seq (.notify 1)
    (.seq (.try_ (.call 1 Flags.all (.seq (.put 1 3) (.seq (.notify 2)
              (.seq (.native false (.transfer 0 2 3 true) Flags.all (.put 0 7) .skip)
              (.seq (.call 2 Flags.all (.put 0 9)) .throw)))))
            true (.seq (.notify 3) (.call 3 (Flags.ofNat 5) (.ifp 1 .throw)))
            true (.put 3 3))
    (.seq (.native false (.setFee 777) Flags.all .skip .skip) (.put 2 2)))))

def demoPre : Log := [.set (gasTab, 1) 10, .set (3, 0) 1, .set (policyTab, 0) 1000]

example : safe demoTree = true := by decide
example : (implRun demoPre demoTree).eff = (specRun demoPre demoTree).eff :=
  impl_refines_spec_partial _ _ (by decide)
example : (specRun demoPre demoTree).halt = true := by decide
example : (specRun demoPre demoTree).events = [(0, 1), (0, 3)] := by decide

/-- The full statement fails on the code as written (known finding `finally-call-rollback`):
    a callee that completes inside a FINALLY block which runs for a pending exception is unloaded
    with `commit = false`; its write (1,3) and its notification (1,7) are lost although the
    exception is caught later and the finally block's own write (0,3) is kept. -/
def finallyCallWitness : Tree :=
  .call 0 Flags.all (.try_ (.try_ .throw false .skip true (.seq (.call 1 Flags.all (.seq (.put 3 3) (.notify 7))) (.put 3 4)))
    true (.notify 8) false .skip)

theorem impl_refines_spec_fails : ∃ pre t, (implRun pre t).eff ≠ (specRun pre t).eff :=
  ⟨[], finallyCallWitness, by decide⟩

example : (implRun [] finallyCallWitness).eff = (true, [.set (0, 3) 4], [(0, 8)]) := by decide
example : (specRun [] finallyCallWitness).eff = (true, [.set (0, 3) 4, .set (1, 3) 3], [(1, 7), (0, 8)]) := by decide

/-! ### 1b. The exclusion narrowed to exactly the known finding's shape

`spK`/`specKRun` is the specification with ONE rule changed: a callee that has its own DAO layer
(or a native payment callback) and completes normally while an exception is pending is not
committed — the commit rule of `unloadContext`. Its second component tells whether that rule was
ever applied in the run. The implementation model equals it for EVERY tree, and it equals the
transactional specification whenever the rule was not applied. So the only trees on which the
code as written deviates from the transactional specification are those whose run applies that
rule: known finding `finally-call-rollback`, nothing else. -/

/-- for EVERY pre-state and EVERY tree. -/
theorem impl_refines_specK (pre : Log) (t : Tree) : (implRun pre t).eff = (specKRun pre t).1.eff := by
  have hR : RK ⟨[], [pre], [], false⟩ ⟨pre, [], false, false⟩ := ⟨by simp [ISt.view, flatten, KSt.st], rfl, rfl⟩
  have h := simK t rootCtx ⟨[], [pre], [], false⟩ ⟨pre, [], false, false⟩ hR
  unfold implRun specKRun
  simp only [rootCtx] at h
  cases hr : im t rootCtx ⟨[], [pre], [], false⟩ with
  | norm s' =>
    simp only [rootCtx] at hr
    rw [hr] at h
    obtain ⟨K', e1, e2, _⟩ := h
    simp only [entryId] at e1 ⊢
    rw [e1]
    have h1 : s'.view = K'.σ := e2.1
    have h2 : s'.ev = K'.ev := e2.2.1
    simp [Outcome.eff, h1, h2]
  | thrown s' =>
    simp only [rootCtx] at hr
    rw [hr] at h
    exact absurd h.1 (by simp)
  | fault s' =>
    simp only [rootCtx] at hr
    rw [hr] at h
    simp only [entryId] at h ⊢
    rcases h with ⟨K', e1⟩ | ⟨_, K', e1⟩ <;> rw [e1] <;> simp [Outcome.eff]

/-- the deviating rule not applied => `spK` is the transactional specification. -/
theorem specK_exact (pre : Log) (t : Tree) (hd : (specKRun pre t).2 = false) :
    (specKRun pre t).1.eff = (specRun pre t).eff := by
  have h := nodev t entryId Flags.all false ⟨pre, [], false, false⟩
  unfold NoDev at h
  unfold specKRun at hd ⊢
  unfold specRun
  cases hr : spK t entryId Flags.all false ⟨pre, [], false, false⟩ with
  | norm s =>
    rw [hr] at h hd
    simp only [Res.st, Res.map, KSt.st] at h hd
    obtain ⟨_, h2⟩ := h hd
    rw [h2]
  | thrown s =>
    rw [hr] at h hd
    simp only [Res.st, Res.map, KSt.st] at h hd
    obtain ⟨_, h2⟩ := h hd
    rw [h2]
  | fault s =>
    rw [hr] at h hd
    simp only [Res.st, Res.map, KSt.st] at h hd
    obtain ⟨_, h2⟩ := h hd
    rw [h2]

/-- the refinement theorem with the exclusion narrowed to the known shape (a dynamic condition on
    the run, decidable by running `specKRun`). -/
theorem impl_refines_spec_unless_finally_commit (pre : Log) (t : Tree) (hd : (specKRun pre t).2 = false) :
    (implRun pre t).eff = (specRun pre t).eff := by
  rw [impl_refines_specK, specK_exact pre t hd]

/-- a call inside a finally block that runs on the NORMAL path is not `safe`, but the deviating rule
    is not applied, so the narrowed theorem covers it; on `finallyCallWitness` the rule is applied. -/
def finallyNormalPath : Tree :=
  .call 0 Flags.all (.try_ (.put 0 1) true .skip true (.seq (.call 1 Flags.all (.seq (.put 1 1) (.notify 3)))
    (.native false (.transfer 0 1 2 true) Flags.all (.put 2 2) .skip)))

example : safe finallyNormalPath = false := by decide
example : (specKRun [.set (gasTab, 0) 5] finallyNormalPath).2 = false := by decide
example : (implRun [.set (gasTab, 0) 5] finallyNormalPath).eff = (specRun [.set (gasTab, 0) 5] finallyNormalPath).eff :=
  impl_refines_spec_unless_finally_commit _ _ (by decide)
/-- the stage-4 natives in one tree: NEO transfer with a payment program and the deferred GAS reward
    (in the frame of the native method, as the driver builds it), a vote, a Notary deposit, a role designation, a whitelisted fee,
    a contract update, all in a callee that throws (rolled back), then again committed, then the
    callee destroys itself. -/
def nativesTree : Tree :=
  let n (o : NOp) : Tree := .native false o Flags.all .skip .skip
  let ops (tag : Nat) : Tree :=
    -- NEO.transfer: the method proper with its payment program, then (inside the same frame) the
    -- deferred GAS minting for sender and receiver; NEO.vote likewise
    .seq (.native false (.neoXfer 1 2 true tag) Flags.all (.put 3 3)
      (.seq (.native true (.mint 99 tag) Flags.all .skip .skip) (.native true (.mint 1 tag) Flags.all .skip .skip)))
    (.seq (.native false (.vote true (tag + 1)) Flags.all .skip (.native true (.mint 99 (tag + 1)) Flags.all .skip .skip))
    (.seq (n (.transfer 0 notaryAcc minDeposit false)) (.seq (n (.designate 8 1)) (.seq (n (.setWl 3 77)) (n (.update 1))))))
  .call 0 Flags.all (.seq (.try_ (.call 3 Flags.all (.seq (ops 1) .throw)) true (.notify 1) false .skip)
    (.seq (.call 3 Flags.all (ops 3)) (.call 3 Flags.all (.seq (.put 0 1) (.native false .destroy Flags.all .skip .skip)))))

def nativesPre : Log := [.set (neoTab, 3) 10, .set (rewardTab, 3) 5, .set (gasTab, 3) 100000000, .set (mgmtTab, 99) 5]

example : (specKRun nativesPre nativesTree).2 = false ∧ (specKRun nativesPre nativesTree).1.halt = true := by decide
example : (implRun nativesPre nativesTree).eff = (specRun nativesPre nativesTree).eff :=
  impl_refines_spec_unless_finally_commit _ _ (by decide)
/-- the natives added in the deepening phase in one tree: candidate unregistration / registration, an
    Oracle request, Notary lockDepositUntil and withdraw (a native-to-native call in a frame of its own),
    an update with a new NEF — all in a callee that throws (rolled back), then committed — and the
    destruction of a contract that holds NEO and votes (votes revoked, GAS reward paid to the contract
    that is about to disappear, then erased and blocked). -/
def nativesTree2 : Tree :=
  let n (o : NOp) : Tree := .native false o Flags.all .skip .skip
  let ops (lockFirst : Bool) : Tree :=
    .seq (n (.unregCand true)) (.seq (n .regCand) (.seq (n (.oracleReq 1))
      (.seq (if lockFirst then n (.lock 11) else n (.withdraw 6)) (.seq (n (.withdraw 1)) (n (.update 2))))))
  .call 0 Flags.all (.seq (.try_ (.call 2 Flags.all (.seq (ops true) .throw)) true (.notify 1) false .skip)
    (.seq (.call 2 Flags.all (ops false))
      (.call 3 Flags.all (.native false (.revoke 99 5) Flags.all .skip
        (.seq (.native true (.mint 99 5) Flags.all .skip .skip) (.native true .destroy Flags.all .skip .skip))))))

def nativesPre2 : Log := [.set (heightTab, 0) 10, .set (notaryTab, 2) 20000001, .set (tillTab, 2) 5,
  .set (gasTab, notaryAcc) 20000001, .set (neoTab, 3) 10, .set (voteTab, 3) 1, .set (candTab, 0) 10,
  .set (votersTab, 0) 10, .set (regTab, 0) 1, .set (rewardTab, 3) 7]

example : (specKRun nativesPre2 nativesTree2).2 = false ∧ (specKRun nativesPre2 nativesTree2).1.halt = true := by decide
example : (implRun nativesPre2 nativesTree2).eff = (specRun nativesPre2 nativesTree2).eff :=
  impl_refines_spec_unless_finally_commit _ _ (by decide)
example : (specRun nativesPre2 nativesTree2).events =
    [(0, 1), (regTab, 0), (regTab, 1), (gasTab, responseGas), (oracleTab, 0), (gasTab, 20000001), (mgmtTab, 202), (voteTab, 3), (gasTab, 7), (mgmtTab, 103)] := by decide
example : (specKRun [] finallyCallWitness).2 = true := by decide
example : (implRun [] finallyCallWitness).eff = (specKRun [] finallyCallWitness).1.eff := impl_refines_specK _ _


/-! ### 1c. Exactly when a COMPLETED call is dropped, and the syntactic class as a corollary -/

/-- THE COMMIT RULE of vm.go unloadContext + contract/call.go as coded, for EVERY tree, context and
    state of the implementation model. A contract call that completed:
    * caller has an active TRY ∧ callee flags allow writing or notifying ∧ an exception is pending when
      the callee returns  ⇒  every effect of the callee is dropped (own layer, lower layers, notification
      list exactly as before the call);
    * in every other case everything the callee did is kept (the caller sees exactly the ledger view and
      the notification list the callee's run ended with). -/
theorem completed_call_effects (c' : Nat) (fl : Flags) (body : Tree) (x : Ctx) (s s' : ISt)
    (h : im (.call c' fl body) x s = .norm s') :
    ∃ s1, im body ⟨c', x.f.and fl, false, x.h⟩ (if (x.inTry && (x.f.and fl).mut) = true then s.push else s) = .norm s1 ∧
      s'.exc = s1.exc ∧
      (if (x.inTry && (x.f.and fl).mut && s1.exc) = true then
        s'.top = s.top ∧ s'.below = s.below ∧ s'.ev = s.ev
      else
        s'.view = s1.view ∧ s'.ev = s1.ev ∧ s'.below = s.below) :=
  im_completed_call c' fl body x s s' h

/-- ... and an exception can be pending at the callee's return only if it was pending when the call was
    made: a completed call made while NO exception is pending is always kept in full (and leaves none
    pending). So the only place where the code drops a successful callee is a call made from a FINALLY
    block that runs because of an exception (or from something such a block calls). -/
theorem completed_call_kept (c' : Nat) (fl : Flags) (body : Tree) (x : Ctx) (s s' : ISt)
    (he : s.exc = false) (h : im (.call c' fl body) x s = .norm s') :
    ∃ s1, im body ⟨c', x.f.and fl, false, x.h⟩ (if (x.inTry && (x.f.and fl).mut) = true then s.push else s) = .norm s1 ∧
      s'.view = s1.view ∧ s'.ev = s1.ev ∧ s'.below = s.below ∧ s'.exc = false :=
  im_completed_call_kept c' fl body x s s' he h

-- non-vacuity: the same completed callee (a write and a notification) under a pending exception with
-- the caller's TRY active (dropped), without pending exception (kept), under a pending exception with
-- read-only-or-nothing flags... (kept: no layer), and without TRY (kept)
example : im (.call 1 Flags.all (.seq (.put 3 3) (.notify 7))) ⟨0, Flags.all, true, true⟩ ⟨[.set (0, 0) 1], [[]], [(0, 5)], true⟩ =
    .norm ⟨[.set (0, 0) 1], [[]], [(0, 5)], true⟩ := rfl
example : im (.call 1 Flags.all (.seq (.put 3 3) (.notify 7))) ⟨0, Flags.all, true, true⟩ ⟨[.set (0, 0) 1], [[]], [(0, 5)], false⟩ =
    .norm ⟨[.set (1, 3) 3, .set (0, 0) 1], [[]], [(0, 5), (1, 7)], false⟩ := rfl
example : im (.call 1 Flags.all (.seq (.put 3 3) (.notify 7))) ⟨0, Flags.all, false, true⟩ ⟨[.set (0, 0) 1], [[]], [(0, 5)], true⟩ =
    .norm ⟨[.set (1, 3) 3, .set (0, 0) 1], [[]], [(0, 5), (1, 7)], true⟩ := rfl

/-- the syntactic class of `impl_refines_spec_partial` is a sufficient condition for the dynamic one of
    `impl_refines_spec_unless_finally_commit`: on a tree whose FINALLY blocks make no calls the
    deviating rule is never applied. (So the former theorem is a corollary of the latter.) -/
theorem safe_never_deviates (pre : Log) (t : Tree) (hs : safe t = true) : (specKRun pre t).2 = false := by
  have h := (safe_dev t entryId Flags.all false ⟨pre, [], false, false⟩ hs rfl).1
  unfold specKRun
  cases hr : spK t entryId Flags.all false ⟨pre, [], false, false⟩ <;> rw [hr] at h <;> exact h

example : (specKRun demoPre demoTree).2 = false := safe_never_deviates _ _ (by decide)
example : (implRun demoPre demoTree).eff = (specRun demoPre demoTree).eff :=
  impl_refines_spec_unless_finally_commit _ _ (safe_never_deviates _ _ (by decide))

/-- The replay of the defect this check found and /repo fixed in db399c7 (a call made from a CATCH
    block whose TRY also has a FINALLY was not isolated in a layer, so the finally block ran on the
    failed callee's writes and aborted): the tree is `safe`, so the theorem now covers it. With the
    old rule (`inTry` unchanged in the catch block) `implRun` faults here while `specRun` halts. -/
def catchFinallyWitness : Tree :=
  .try_ (.call 0 Flags.all (.seq (.del 0) (.try_ .throw true (.call 1 Flags.all (.seq (.call 0 Flags.all (.put 0 1)) .throw))
    true (.ifp 0 .abort)))) true .skip false .skip

example : (implRun [] catchFinallyWitness).eff = (specRun [] catchFinallyWitness).eff :=
  impl_refines_spec_partial _ _ (by decide)
example : (implRun [] catchFinallyWitness).halt = true := by decide

/-! ### 2. A faulting transaction changes nothing but the fees -/

/-- A transaction that faults under the implementation model leaves the block cache exactly as
    it was and delivers no notification. -/
theorem fault_leaves_store (pre : Log) (t : Tree) (h : (implRun pre t).halt = false) :
    (implRun pre t).store = pre ∧ (implRun pre t).events = [] := by
  unfold implRun at *
  split <;> simp_all

-- non-vacuity: a transaction that writes, notifies, moves into a callee and then aborts
example : (implRun [.set (0, 1) 5] (.call 0 Flags.all (.seq (.put 1 7) (.seq (.notify 2) .abort)))).halt = false := by decide

/-- C04, first sentence, "in any block position": if a transaction of a block faults (on the state
    it meets), the block's result is that of burning every fee (its own included) and executing
    only the other transactions. -/
theorem fault_only_fees (σ : Log) (pre post : List Tx) (tx : Tx)
    (hf : (implRun (execAll (burnAll σ (pre ++ tx :: post)) pre) tx.tree).halt = false) :
    blockRun σ (pre ++ tx :: post) = execAll (execAll (burnAll σ (pre ++ tx :: post)) pre) post := by
  have h1 : stepTx (execAll (burnAll σ (pre ++ tx :: post)) pre) tx = execAll (burnAll σ (pre ++ tx :: post)) pre :=
    (fault_leaves_store _ _ hf).1
  unfold blockRun
  unfold execAll at *
  rw [List.foldl_append, List.foldl_cons, h1]

-- non-vacuity: a faulting transaction between two halting ones
example :
    let good1 : Tx := ⟨3, .call 0 Flags.all (.put 1 1)⟩
    let bad : Tx := ⟨5, .call 0 Flags.all (.seq (.put 1 9) .abort)⟩
    let good2 : Tx := ⟨2, .call 1 Flags.all (.put 2 2)⟩
    (implRun (execAll (burnAll [.set (gasTab, senderAcc) 100] ([good1] ++ bad :: [good2])) [good1]) bad.tree).halt = false := by
  decide

/-- and a transaction that halts has all of its effects applied: the block cache after it is the
    specification's final state. -/
theorem halt_applies_all (pre : Log) (t : Tree) (hs : safe t = true) (S : St)
    (h : sp t entryId Flags.all ⟨pre, [], false⟩ = .norm S) :
    (implRun pre t).eff = (true, S.σ, S.ev) := by
  rw [impl_refines_spec_partial _ _ hs]
  unfold specRun
  rw [h]
  rfl

example : (implRun demoPre demoTree).halt = true := by
  have := impl_refines_spec_partial demoPre demoTree (by decide)
  have h2 : (specRun demoPre demoTree).halt = true := by decide
  simp only [Outcome.eff, Prod.mk.injEq] at this
  rw [this.1]; exact h2

/-! ### 2b. Whole blocks: the block cache after a block is the transactional one -/

/-- the transactional specification of a block: fees burnt first, then every transaction all-or-nothing. -/
def specStepTx (σ : Log) (tx : Tx) : Log := (specRun σ tx.tree).store
def specBlockRun (σ : Log) (txs : List Tx) : Log := txs.foldl specStepTx (burnAll σ txs)

/-- no transaction of the list, run on the state it meets, applies the deviating commit rule. -/
def NoDevAll : Log → List Tx → Prop
  | _, [] => True
  | σ, tx :: rest => (specKRun σ tx.tree).2 = false ∧ NoDevAll (stepTx σ tx) rest

theorem exec_refines_spec (txs : List Tx) : ∀ σ, NoDevAll σ txs → execAll σ txs = txs.foldl specStepTx σ := by
  induction txs with
  | nil => intro σ _; rfl
  | cons tx rest ih =>
    intro σ h
    obtain ⟨h1, h2⟩ := h
    have e : stepTx σ tx = specStepTx σ tx := by
      have := impl_refines_spec_unless_finally_commit σ tx.tree h1
      simp only [Outcome.eff, Prod.mk.injEq] at this
      exact this.2.1
    unfold execAll at ih ⊢
    simp only [List.foldl_cons]
    rw [← e]
    exact ih (stepTx σ tx) h2

/-- C04 over histories: for EVERY block (any number of transactions, any trees, any pre-state) in which no
    transaction applies the deviating commit rule on the state it meets, the block cache after the block is
    the one of the transactional specification. -/
theorem block_refines_spec (σ : Log) (txs : List Tx) (h : NoDevAll (burnAll σ txs) txs) :
    blockRun σ txs = specBlockRun σ txs :=
  exec_refines_spec txs _ h

theorem noDevAll_of_safe (txs : List Tx) : ∀ σ, (∀ tx ∈ txs, safe tx.tree = true) → NoDevAll σ txs := by
  induction txs with
  | nil => intro σ _; trivial
  | cons tx rest ih =>
    intro σ h
    exact ⟨safe_never_deviates σ tx.tree (h tx (List.mem_cons_self)),
      ih _ (fun t ht => h t (List.mem_cons_of_mem _ ht))⟩

/-- ... in particular for every block all of whose trees keep calls out of FINALLY blocks. -/
theorem block_refines_spec_safe (σ : Log) (txs : List Tx) (h : ∀ tx ∈ txs, safe tx.tree = true) :
    blockRun σ txs = specBlockRun σ txs :=
  block_refines_spec σ txs (noDevAll_of_safe txs _ h)

-- non-vacuity: a halting transaction, a faulting one (its writes vanish, its fee stays burnt), the big demo tree
example : blockRun ([.set (gasTab, senderAcc) 100] ++ demoPre)
    [⟨3, .call 0 Flags.all (.put 1 1)⟩, ⟨5, .call 0 Flags.all (.seq (.put 1 9) .abort)⟩, ⟨2, demoTree⟩] =
    specBlockRun ([.set (gasTab, senderAcc) 100] ++ demoPre)
    [⟨3, .call 0 Flags.all (.put 1 1)⟩, ⟨5, .call 0 Flags.all (.seq (.put 1 9) .abort)⟩, ⟨2, demoTree⟩] :=
  block_refines_spec_safe _ _ (by decide)
example : (specBlockRun [.set (gasTab, senderAcc) 100]
    [⟨3, .call 0 Flags.all (.put 1 1)⟩, ⟨5, .call 0 Flags.all (.seq (.put 1 9) .abort)⟩]).get (gasTab, senderAcc) = some 92 ∧
    (specBlockRun [.set (gasTab, senderAcc) 100]
    [⟨3, .call 0 Flags.all (.put 1 1)⟩, ⟨5, .call 0 Flags.all (.seq (.put 1 9) .abort)⟩]).get (0, 1) = some 1 := by decide


/-! ### 3. A caught exception rolls back exactly the callee -/

/-- Second sentence of C04. In a contract `c0` that does `a`, then calls `c1` inside try/catch,
    then `d`: if the callee (and whatever it called) ends with an exception, the transaction has
    exactly the effect of the program without the call — every storage change, token movement,
    setting and notification of the callee is undone, `a` (before) and `cat`, `d` (after) are kept.
    `hthrow` says that the callee throws on the state `a` leaves (in the specification, where a
    callee is just a function of the caller's state). -/
theorem catch_rolls_back_callee (pre : Log) (c0 c1 : Nat) (fl0 fl1 : Flags) (a body cat d : Tree) (Sa S' : St)
    (hs : safe (.call c0 fl0 (.seq a (.seq (.try_ (.call c1 fl1 body) true cat false .skip) d))) = true)
    (hf : ((Flags.all.and fl0).r && (Flags.all.and fl0).c && alive Sa.σ.get c1) = true)
    (ha : sp a c0 (Flags.all.and fl0) ⟨pre, [], false⟩ = .norm Sa)
    (hthrow : sp body c1 ((Flags.all.and fl0).and fl1) Sa = .thrown S') :
    (implRun pre (.call c0 fl0 (.seq a (.seq (.try_ (.call c1 fl1 body) true cat false .skip) d)))).eff =
      (implRun pre (.call c0 fl0 (.seq a (.seq cat d)))).eff := by
  have hs2 : safe (.call c0 fl0 (.seq a (.seq cat d))) = true := by
    simp only [safe, Bool.and_eq_true] at hs ⊢
    exact ⟨hs.1, hs.2.1.1.1.2, hs.2.2⟩
  rw [impl_refines_spec_partial _ _ hs, impl_refines_spec_partial _ _ hs2]
  have hexc : Sa.exc = false := sp_norm_exc a _ _ _ _ rfl ha
  have ht := sp_try_call_thrown c1 fl1 body cat c0 (Flags.all.and fl0) Sa S' hf hexc hthrow
  have : sp (.call c0 fl0 (.seq a (.seq (.try_ (.call c1 fl1 body) true cat false .skip) d))) entryId Flags.all ⟨pre, [], false⟩ =
      sp (.call c0 fl0 (.seq a (.seq cat d))) entryId Flags.all ⟨pre, [], false⟩ := by
    apply sp_call_congr
    rw [sp_seq_norm ha, sp_seq_norm ha]
    exact sp_seq_congr ht
  unfold specRun
  rw [this]

/-- The same, with the kept effects spelled out: the final ledger state and notification list are
    those of `a`, then `cat`, then `d`, computed without the failed callee. -/
theorem before_after_kept (pre : Log) (c0 c1 : Nat) (fl0 fl1 : Flags) (a body cat d : Tree) (Sa S' Sc Sd : St)
    (hs : safe (.call c0 fl0 (.seq a (.seq (.try_ (.call c1 fl1 body) true cat false .skip) d))) = true)
    (hf : ((Flags.all.and fl0).r && (Flags.all.and fl0).c && alive Sa.σ.get c1) = true)
    (h0 : alive pre.get c0 = true)
    (ha : sp a c0 (Flags.all.and fl0) ⟨pre, [], false⟩ = .norm Sa)
    (hthrow : sp body c1 ((Flags.all.and fl0).and fl1) Sa = .thrown S')
    (hcat : sp cat c0 (Flags.all.and fl0) Sa = .norm Sc) (hd : sp d c0 (Flags.all.and fl0) Sc = .norm Sd) :
    (implRun pre (.call c0 fl0 (.seq a (.seq (.try_ (.call c1 fl1 body) true cat false .skip) d)))).eff =
      (true, Sd.σ, Sd.ev) := by
  rw [catch_rolls_back_callee pre c0 c1 fl0 fl1 a body cat d Sa S' hs hf ha hthrow]
  have hs2 : safe (.call c0 fl0 (.seq a (.seq cat d))) = true := by
    simp only [safe, Bool.and_eq_true] at hs ⊢
    exact ⟨hs.1, hs.2.1.1.1.2, hs.2.2⟩
  apply halt_applies_all _ _ hs2
  apply sp_call_norm (by simpa [Flags.all] using h0)
  rw [sp_seq_norm ha, sp_seq_norm hcat]
  exact hd

-- non-vacuity: before = put/notify, callee = write + notify + GAS transfer with a writing payment
-- callback + nested call + throw, catch = notify, after = put
example :
    let a : Tree := .seq (.put 1 2) (.notify 1)
    let body : Tree := .seq (.put 1 3) (.seq (.notify 2) (.seq (.native false (.transfer 0 2 3 true) Flags.all (.put 0 7) .skip)
      (.seq (.call 2 Flags.all (.put 0 9)) .throw)))
    (implRun demoPre (.call 0 Flags.all (.seq a (.seq (.try_ (.call 1 Flags.all body) true (.notify 3) false .skip) (.put 2 2))))).eff =
      (true, [.set (0, 2) 2, .set (0, 1) 2] ++ demoPre, [(0, 1), (0, 3)]) :=
  before_after_kept demoPre 0 1 Flags.all Flags.all _ _ _ _
    ⟨.set (0, 1) 2 :: demoPre, [(0, 1)], false⟩
    ⟨[.set (2, 0) 9, .set (2, 0) 7, .set (gasTab, 2) 3, .set (gasTab, 1) 7, .set (1, 1) 3, .set (0, 1) 2] ++ demoPre,
      [(0, 1), (1, 2), (gasTab, 3)], true⟩
    ⟨.set (0, 1) 2 :: demoPre, [(0, 1), (0, 3)], false⟩
    ⟨[.set (0, 2) 2, .set (0, 1) 2] ++ demoPre, [(0, 1), (0, 3)], false⟩
    (by decide) rfl rfl rfl rfl rfl rfl

/-! ### 3b. The same guarantee for EVERY tree, stated on the implementation model alone -/

/-- For EVERY tree, context and state: a contract call made while a TRY of the calling contract
    is active and whose callee ends with an exception leaves the caller's DAO (own layer and all
    lower ones) and the notification list exactly as they were before the call. -/
theorem callee_exception_undone (c' : Nat) (fl : Flags) (body : Tree) (x : Ctx) (s s' : ISt)
    (hT : x.inTry = true) (h : im (.call c' fl body) x s = .thrown s') :
    s'.top = s.top ∧ s'.below = s.below ∧ s'.ev = s.ev := by
  simp only [im] at h
  split at h
  · cases hm : (x.f.and fl).mut with
    | true =>
      simp only [hT, hm, Bool.and_self, if_true] at h
      have hf := im_frame body ⟨c', x.f.and fl, false, x.h⟩ s.push
      cases hr : im body ⟨c', x.f.and fl, false, x.h⟩ s.push with
      | norm s1 => rw [hr] at h; cases h
      | fault s1 => rw [hr] at h; cases h
      | thrown s1 =>
        rw [hr] at h hf
        simp only [Res.thrown.injEq] at h
        obtain ⟨⟨hb, hp⟩, he⟩ := hf
        simp only [ISt.push] at hb hp
        subst h
        have hu : s1.unload true s.ev.length = { s1 with top := s.top, below := s.below, ev := s.ev } := by
          simp [ISt.unload, he, ISt.drop, hb, take_prefix hp]
        rw [hu]
        exact ⟨rfl, rfl, rfl⟩
    | false =>
      simp only [hT, hm, Bool.and_false, Bool.false_eq_true, if_false] at h
      have hro := ro body ⟨c', x.f.and fl, false, x.h⟩ s hm
      cases hr : im body ⟨c', x.f.and fl, false, x.h⟩ s with
      | norm s1 => rw [hr] at h; cases h
      | fault s1 => rw [hr] at h; cases h
      | thrown s1 =>
        rw [hr] at h hro
        simp only [ISt.unload, Bool.false_eq_true, if_false, Res.thrown.injEq] at h
        subst h
        exact hro
  · cases h


-- non-vacuity: the caller is inside a TRY, has own uncommitted writes and one notification; the
-- callee writes, notifies, moves GAS, calls a third contract and throws
example :
    let s : ISt := ⟨[.set (0, 1) 2], [[.set (gasTab, 1) 10]], [(0, 1)], false⟩
    let body : Tree := .seq (.put 1 3) (.seq (.notify 2) (.seq (.native false (.transfer 0 7 3 false) Flags.all .skip .skip)
      (.seq (.call 2 Flags.all (.put 0 9)) .throw)))
    im (.call 1 Flags.all body) ⟨0, Flags.all, true, true⟩ s = .thrown { s with exc := true } := rfl

/-! ### 3c. Native caches are copy-on-write over the DAO layers (DESIGN C04.4)

Heap model `CStack` of dao.go (`GetPrivate`, `getCache`, `persistNativeCache`): cache objects are
cells, layers hold references. Assumption (stated, tied by the harness): a native's `Copy()`
returns a cell that shares nothing with the original. -/

/-- A layer is made, caches are updated through it any number of times, the layer is dropped:
    every cache shows exactly what it showed before (no update leaked into a cell reachable from a
    surviving layer) and no two (layer, native) slots alias. For every stack and update sequence. -/
theorem native_cache_cow (st : CStack) (hi : st.inv) (ws : List (Nat × Nat)) :
    (st.push.writes ws).inv ∧ ∀ id, (st.push.writes ws).drop.read id = st.read id :=
  cache_cow st hi ws

/-- ... and if the layer is persisted instead, every cache keeps showing what ic.DAO showed. -/
theorem native_cache_persist (st : CStack) (hi : st.inv) :
    st.persist.inv ∧ ∀ id, st.persist.read id = st.read id :=
  cache_persist st hi

-- non-vacuity: three layers (block cache with Policy=11 and NEO=22; a transaction layer that already
-- copied Policy; a wrapped callee's layer), updates of both natives in the callee, then drop / persist
def demoCaches : CStack := ⟨fun r => if r = 0 then 11 else if r = 1 then 22 else if r = 2 then 33 else 0, 3,
  [[], [(7, 2)], [(7, 0), (5, 1)]]⟩
example : demoCaches.inv := by
  unfold CStack.inv CInv demoCaches; decide
example : (demoCaches.writes [(7, 40), (5, 50), (7, 41)]).read 7 = some 41 := by decide
example : (demoCaches.writes [(7, 40), (5, 50), (7, 41)]).drop.read 7 = some 33 ∧
    (demoCaches.writes [(7, 40), (5, 50), (7, 41)]).drop.read 5 = some 22 := by decide
example : (demoCaches.writes [(7, 40), (5, 50)]).persist.read 5 = some 50 := by decide

/-- the hypothesis `st.inv` of the two theorems above is an invariant of every reachable stack of DAO layers:
    from the empty stack, any sequence of SetCache on the lowest DAO / GetPrivate / cache update / Persist / drop. -/
theorem native_cache_invariant_reachable (ops : List COp) : (CStack.empty.run ops).inv :=
  run_inv ops _ empty_inv

/-- copy-on-write without hypothesis: in EVERY reachable stack, a layer is made, caches are updated through it any
    number of times, the layer is dropped — every cache shows exactly what it showed before. -/
theorem native_cache_cow_reachable (ops : List COp) (ws : List (Nat × Nat)) :
    ∀ id, (((CStack.empty.run ops).push.writes ws).drop).read id = (CStack.empty.run ops).read id :=
  (cache_cow _ (run_inv ops _ empty_inv) ws).2

example : ((CStack.empty.run [.setCache 7 11, .setCache 5 22, .push, .write 7 33, .push]).writes [(7, 40), (5, 50)]).drop.read 7 = some 33 := by decide

/-! ### 3d. Transactions of a block are isolated from their predecessors -/

/-- Whatever a previous transaction of the block left in the reused VM and its interop context —
    layers still pushed after an unhandled THROW, a pending exception, notifications, after ABORT or
    running out of gas at any point — the block's result is the same as on a fresh VM. -/
theorem tx_isolated_in_block (left : ISt) (σ : Log) (txs : List Tx) :
    blockRunVM left σ txs = blockRun σ txs := by
  unfold blockRunVM blockRun execAll
  generalize burnAll σ txs = σ0
  induction txs generalizing left σ0 with
  | nil => rfl
  | cons tx rest ih =>
    simp only [List.foldl_cons]
    have : (stepTxVM (σ0, left) tx).1 = stepTx σ0 tx := by
      unfold stepTxVM stepTx implRun txStart
      cases im tx.tree rootCtx ⟨[], [σ0], [], false⟩ <;> rfl
    rw [← this]
    exact ih (stepTxVM (σ0, left) tx).2 (stepTxVM (σ0, left) tx).1

/-- the reset of the pending-exception register is load-bearing: without it a transaction that
    halts on a fresh VM faults after a predecessor that died with an unhandled exception. -/
theorem exc_reset_needed : ∃ (left : ISt) (σ : Log) (t : Tree),
    (match im t rootCtx (txStart left σ) with | .norm _ => true | _ => false) = true ∧
    (match im t rootCtx (txStartNoReset left σ) with | .norm _ => true | _ => false) = false :=
  ⟨⟨[], [], [], true⟩, [], .try_ (.call 0 Flags.all (.put 1 1)) false .skip true .skip, by decide⟩

-- non-vacuity of tx_isolated_in_block: the leftover of a transaction that died in a callee's callee
example : blockRunVM ⟨[.set (1, 1) 9], [[.set (0, 0) 9], []], [(0, 1)], true⟩ [.set (gasTab, senderAcc) 100]
    [⟨3, .call 0 Flags.all (.put 1 1)⟩] = blockRun [.set (gasTab, senderAcc) 100] [⟨3, .call 0 Flags.all (.put 1 1)⟩] :=
  tx_isolated_in_block _ _ _

/-! ### 4. The facts the model contains literally, re-read from the source on every run -/

open NeoModel.Generated in
/-- the flag conditions of the model (`f.r && f.w` for a storage write, ... , `Flags.mut` for the
    layer decision) are the RequiredFlags of the system calls / native methods and the mask of
    contract/call.go as they are in the source now. -/
theorem facts_required_flags (f : Flags) :
    (f.r && f.w) = f.has (need "SystemStorageGetContext" ||| need "SystemStoragePut") ∧
    (f.r && f.w) = f.has (need "SystemStorageGetContext" ||| need "SystemStorageDelete") ∧
    f.n = f.has (need "SystemRuntimeNotify") ∧
    f.r = f.has (need "SystemStorageGetContext" ||| need "SystemStorageGet") ∧
    (f.r && f.c) = f.has (need "SystemContractCall") ∧
    (f.r && f.w && f.c && f.n) = f.has (need "GasToken.transfer") ∧
    (f.r && f.w) = f.has (need "PolicyContract.setFeePerByte") ∧
    (f.r && f.w && f.n) = f.has (need "PolicyContract.blockAccount") ∧
    (f.r && f.w) = f.has (need "PolicyContract.unblockAccount") ∧
    (f.r && f.w && f.c && f.n) = f.has (need "ContractManagement.deploy") ∧
    (f.r && f.w && f.c && f.n) = f.has (need "ContractManagement.update") ∧
    (f.r && f.w && f.n) = f.has (need "ContractManagement.destroy") ∧
    (f.r && f.w && f.n) = f.has (need "RoleManagement.designateAsRole") ∧
    (f.r && f.w && f.n) = f.has (need "PolicyContract.setWhitelistFeeContract") ∧
    (f.r && f.w && f.n) = f.has (need "PolicyContract.removeWhitelistFeeContract") ∧
    (f.r && f.w && f.c && f.n) = f.has (need "NeoToken.transfer") ∧
    (f.r && f.w && f.n) = f.has (need "NeoToken.vote") ∧
    (f.r && f.w && f.n) = f.has (need "NeoToken.registerCandidate") ∧
    (f.r && f.w && f.n) = f.has (need "NeoToken.unregisterCandidate") ∧
    (f.r && f.w && f.n) = f.has (need "OracleContract.request") ∧
    (f.r && f.w) = f.has (need "Notary.lockDepositUntil") ∧
    (f.r && f.w) = f.has (need "NeoToken.setGasPerBlock") ∧
    (f.r && f.w && f.c && f.n) = f.has (need "Notary.withdraw") ∧
    f.mut = decide (f.toNat &&& ExecFacts.wrapMask ≠ 0) := by
  obtain ⟨r, w, c, n⟩ := f
  cases r <;> cases w <;> cases c <;> cases n <;> decide


open NeoModel.Generated in
/-- the expressions the implementation model mirrors: the wrap condition of callExFromNative, the
    commit flag of unloadContext, the states ContractHasTryBlock counts, the frames handleException
    skips / catches with, the condition under which blockchain.go persists a transaction's layer. -/
theorem facts_mechanism :
    ExecFacts.wrapUsesHasTryBlock = true ∧
    ExecFacts.commitExpr = "v.uncaughtException == nil" ∧
    ExecFacts.hasTryConds = ["e.State == eTry || (e.State == eCatch && e.HasFinally())"] ∧
    ExecFacts.handlerConds = ["e.State == eFinally || (e.State == eCatch && !e.HasFinally())",
      "e.State == eTry && e.HasCatch()"] ∧
    ExecFacts.persistConds = ["!v.HasFailed()"] := by decide


open NeoModel.Generated in
/-- DESIGN C04.4 (syntactic half): no statement of pkg/core/native writes through a cache object
    obtained with GetROCache (the scan found accessor sites, so it is not vacuous). -/
theorem native_ro_cache_never_written :
    ExecFacts.roCacheWrites = [] ∧ 0 < ExecFacts.roCacheSites ∧ 0 < ExecFacts.rwCacheSites := by decide


/-! ### 5. What is catchable (regenerated from source + the model-side counterpart) -/

open NeoModel.Generated in
/-- vm.go as it is now: only the opcode cases THROW, PICKITEM, SETITEM raise a catchable exception (call
    v.throw); only ENDFINALLY re-raises a pending one; the functions that can reach handleException are
    `execute` and `throw`, both unexported; pkg/core/interop and pkg/core/native contain NO reference to
    the exception machinery (no system call or native method can raise a catchable exception) but do
    panic / return errors; the only recover() of vm + interop + native is the one of vm.execute and it
    puts the VM into the FAULT state; an error returned by a system call handler and an error of the
    context-unload callback are re-panicked; the native continuation `onUnloaded` is guarded by a panic
    when an exception is pending (an exception may not cross a native frame); ABORT/ABORTMSG panic. -/
theorem facts_exceptions :
    ExcFacts.throwOpcodes = ["PICKITEM", "SETITEM", "THROW"] ∧
    ExcFacts.rethrowOpcodes = ["ENDFINALLY"] ∧
    ExcFacts.abortOpcodes = ["ABORT", "ABORTMSG"] ∧
    ExcFacts.raisers = [("execute", false), ("throw", false)] ∧
    ExcFacts.excAssigns = [("Reset", "nil"), ("handleException", "nil"), ("throw", "item")] ∧
    ExcFacts.recoverHandlers = [("pkg/vm/vm.go", "execute", true)] ∧
    ExcFacts.syscallErr = ["panic", "panic"] ∧
    ExcFacts.unloadErr = "panic(errors.New(errMessage))" ∧
    ExcFacts.onUnloadedGuard = "if v.uncaughtException != nil { panic(v.uncaughtException) }" ∧
    ExcFacts.coreExcRefs = [] ∧ 0 < ExcFacts.corePanicSites ∧ 0 < ExcFacts.coreErrReturns := by decide

/-- the model-side counterpart, for EVERY tree, context and state: without a THROW instruction no
    exception is ever raised — whatever system calls without the required flags, natives that fail
    their checks, calls of destroyed contracts, ABORT do, the run ends normally with the register
    empty or FAULTs, it never unwinds to a handler. -/
theorem only_throw_is_catchable (t : Tree) (x : Ctx) (s : ISt) (ht : throwFree t = true) (he : s.exc = false) :
    match im t x s with
    | .norm s' => s'.exc = false
    | .thrown _ => False
    | .fault _ => True := by
  have := im_no_throw t x s ht he
  unfold NoExc at this
  exact this

/-- so a catch block guarding code without THROW is dead code. -/
theorem catch_dead_without_throw (body cat cat' fin : Tree) (hasF : Bool) (x : Ctx) (s : ISt)
    (ht : throwFree body = true) (he : s.exc = false) :
    im (.try_ body true cat hasF fin) x s = im (.try_ body true cat' hasF fin) x s :=
  im_catch_dead body cat cat' fin hasF x s ht he

-- non-vacuity: a guarded Policy setter under ReadOnly flags, a guarded write under ReadOnly, a guarded
-- GAS transfer whose payment callback aborts: FAULT, the catch block's notification is not delivered
example : throwFree (.seq (.native false (.setFee 5) (Flags.ofNat 5) .skip .skip)
    (.native false (.transfer 0 1 0 true) Flags.all .abort .skip)) = true := by decide
example : (implRun [] (.call 0 Flags.all (.try_ (.native false (.setFee 5) (Flags.ofNat 5) .skip .skip) true (.notify 1) false .skip))).halt = false := by decide
example : (implRun [] (.call 0 Flags.all (.try_ (.call 1 (Flags.ofNat 5) (.put 1 1)) true (.notify 1) false .skip))).halt = false := by decide
example : (implRun [] (.call 0 Flags.all (.try_ (.native false (.transfer 0 1 0 true) Flags.all .abort .skip) true (.notify 1) false .skip))).halt = false := by decide
-- ... whereas THROW at the same place is caught
example : (implRun [] (.call 0 Flags.all (.try_ (.call 1 (Flags.ofNat 5) .throw) true (.notify 1) false .skip))).eff = (true, [], [(0, 1)]) := by decide

/-! ### 5b. The notification count limit respects rollbacks -/

/-- the notification list of an execution never exceeds interop.MaxNotificationCount: the delivered
    events of a HALTed transaction and the raw list stored for a FAULTed one. For every tree. -/
theorem notification_limit (pre : Log) (t : Tree) :
    (implRun pre t).events.length ≤ maxNotifications ∧ (implRun pre t).raw.length ≤ maxNotifications := by
  have h := im_ev_bound t rootCtx ⟨[], [pre], [], false⟩ (Nat.zero_le _)
  unfold implRun
  cases hr : im t rootCtx ⟨[], [pre], [], false⟩ <;> rw [hr] at h <;> simp only [EvBound, Res.st] at h <;>
    simp [h]

/-- `n` notifications in a row. -/
def notifyN (e : Nat) : Nat → Tree
  | 0 => .skip
  | n + 1 => .seq (.notify e) (notifyN e n)

set_option maxRecDepth 100000 in
-- the limit counts what is IN the list: 510 notifications of a callee that throws are rolled back and free
-- their room (1 + 511 more are accepted, the transaction HALTs with 512 events) ...
example : ((implRun [] (.call 0 Flags.all (.seq (.try_ (.call 1 Flags.all (.seq (notifyN 1 510) .throw)) true (.notify 2) false .skip)
    (notifyN 3 511)))).halt, (implRun [] (.call 0 Flags.all (.seq (.try_ (.call 1 Flags.all (.seq (notifyN 1 510) .throw)) true (.notify 2) false .skip)
    (notifyN 3 511)))).events.length) = (true, 512) := by decide
set_option maxRecDepth 100000 in
-- ... one more is refused: the transaction FAULTs (not catchable), with the full list as raw events
example : ((implRun [] (.call 0 Flags.all (.seq (.try_ (.call 1 Flags.all (.seq (notifyN 1 510) .throw)) true (.notify 2) false .skip)
    (.try_ (notifyN 3 512) true .skip false .skip)))).halt, (implRun [] (.call 0 Flags.all (.seq (.try_ (.call 1 Flags.all (.seq (notifyN 1 510) .throw)) true (.notify 2) false .skip)
    (.try_ (notifyN 3 512) true .skip false .skip)))).raw.length) = (false, 512) := by decide

/-! ### 6. Native caches: Copy() is deep where it matters, nobody writes through GetROCache -/

open NeoModel.Generated CacheFacts in
set_option maxRecDepth 100000 in
/-- regenerated from source (go/types over pkg/core/native): the cache types are the six reviewed ones;
    every reference-typed field of every cache is cloned by Copy() or is shared and NEVER modified in
    place anywhere in the package (only re-bound); the shared and the shallowly cloned fields are exactly
    the ones reviewed in Proofs/ExecCacheCopy.lean; nothing is assigned through a pointer to an object a
    cache container points to. This is the assumption "Copy() returns a cell that shares nothing" of
    `native_cache_cow`. -/
theorem native_cache_copy_is_deep :
    CacheCopy.cacheTypes = reviewedTypes ∧ CacheCopy.fields.all copyOK = true ∧ sharedFields = sharedReviewed ∧
    shallowFields = shallowReviewed ∧ CacheCopy.pointeeWrites = [] :=
  CacheFacts.native_cache_copy_is_deep

open NeoModel.Generated CacheFacts in
/-- regenerated from source: no statement modifies an object obtained through GetROCache; no read-only
    cache is handed to a function that modifies its parameter (closure over the package's call rows) or
    to an unreviewed function of another package; the two reviewed exceptions (NEO.PostPersist) are
    literally guarded by a re-binding to GetRWCache; every object written through has a known origin. -/
theorem native_ro_cache_not_written_through :
    CacheCopy.writes.all writeOK = true ∧ CacheCopy.calls.all callOK = true ∧
    paramWritersStep paramWriters = paramWriters ∧
    (CacheCopy.writes.all fun w => w.src.all knownSources.contains) = true ∧
    (CacheCopy.calls.all fun c => c.src.all knownSources.contains) = true ∧
    0 < CacheCopy.roSites ∧ 0 < CacheCopy.rwSites :=
  CacheFacts.native_ro_cache_not_written_through


open NeoModel.Generated CacheFacts in
/-- regenerated from source (taint analysis inside every function of pkg/core/native + a scan of pkg/core,
    pkg/core/interop/**, stateroot, mempool): nothing stored in a cache is modified through a LOCAL ALIAS (no
    in-place arithmetic on a *big.Int read out of a cache, no element write through a copied slice header, no
    hand-over to an unreviewed function) except into containers the layer owns, and no user of the exported
    getters (native.GetContract hands out the cached *state.Contract) assigns through such a pointer. -/
theorem native_cache_aliases_read_only :
    CacheCopy.aliasWrites.all aliasOK = true ∧ CacheCopy.externalPointeeWrites = [] ∧ 100 ≤ CacheCopy.externalFuncsScanned :=
  CacheFacts.native_cache_aliases_read_only

/-! ### 6b. Why the shared containers are harmless: a two-level heap model of a cache object

`Deep.H`: objects hold references to containers; `share f` = Copy() copies the reference of field f instead
of cloning the container (column `action = assign` of the table). If in-place writes happen only on fields
that Copy() clones — which is what `copyOK` decides over the table — every object is independent of every
other one, so abstracting a cache object to one value in one cell (`CStack`) loses nothing. -/

/-- Copy(): the new object shows what the original shows, nobody else changes, the invariant (containers of
    cloned fields have exactly one owner) is kept. For every heap, sharing pattern and object. -/
theorem cache_copy_independent (share : Nat → Bool) (nf : Nat) (h : Deep.H) (o : Nat)
    (hi : Deep.Inv share nf h) (ho : o < h.nobj) :
    Deep.Inv share nf (Deep.copy share nf h o) ∧
    (∀ f, f < nf → Deep.deep (Deep.copy share nf h o) h.nobj f = Deep.deep h o f) ∧
    (∀ o' f, o' < h.nobj → f < nf → Deep.deep (Deep.copy share nf h o) o' f = Deep.deep h o' f) :=
  Deep.copy_spec share nf h o hi ho

-- non-vacuity: a cache of two fields (field 1 shared by Copy, like NeoCache.committee; field 0 cloned, like
-- NeoCache.gasPerVoteCache): the copy of object 0 shows the same contents
example : Deep.deep (Deep.copy (fun f => f == 1) 2 ⟨fun _ f => f, fun c => 10 + c, 1, 2⟩ 0) 1 0 = 10 ∧
    Deep.deep (Deep.copy (fun f => f == 1) 2 ⟨fun _ f => f, fun c => 10 + c, 1, 2⟩ 0) 1 1 = 11 := by decide

/-- re-binding a field (write kind `whole`) — of ANY field, shared or not — and modifying in place a field
    that Copy() clones change exactly that slot of that object. -/
theorem cache_write_independent (share : Nat → Bool) (nf : Nat) (h : Deep.H) (o f v : Nat)
    (hi : Deep.Inv share nf h) (ho : o < h.nobj) (hf : f < nf) :
    (Deep.Inv share nf (Deep.writeWhole h o f v) ∧ Deep.deep (Deep.writeWhole h o f v) o f = v ∧
      ∀ o' f', o' < h.nobj → f' < nf → (o' ≠ o ∨ f' ≠ f) → Deep.deep (Deep.writeWhole h o f v) o' f' = Deep.deep h o' f') ∧
    (share f = false →
      Deep.Inv share nf (Deep.writeInPlace h o f v) ∧ Deep.deep (Deep.writeInPlace h o f v) o f = v ∧
      ∀ o' f', o' < h.nobj → f' < nf → (o' ≠ o ∨ f' ≠ f) → Deep.deep (Deep.writeInPlace h o f v) o' f' = Deep.deep h o' f') :=
  ⟨Deep.writeWhole_spec share nf h o f v hi, fun hs => Deep.writeInPlace_spec share nf h o f v hi ho hf hs⟩

/-- and the condition is needed: an in-place write to a shared field is seen through the original. -/
theorem cache_shared_inplace_leaks :
    let share : Nat → Bool := fun f => f == 1
    let h0 : Deep.H := ⟨fun _ f => f, fun c => 10 + c, 1, 2⟩
    let h1 := Deep.copy share 2 h0 0
    Deep.deep (Deep.writeInPlace h1 1 1 99) 0 1 = 99 ∧ Deep.deep h1 0 1 = 11 ∧ Deep.deep (Deep.writeWhole h1 1 1 99) 0 1 = 11 :=
  Deep.writeInPlace_shared_leaks


/-! ### 7. The sorted blocked-accounts cache of Policy (finding blocked-list-stale-index, fixed by cf4871f)

A HALTed transaction that blocks an account (Policy.blockAccount, ContractManagement.destroy) must leave the
node answering `isBlocked = true` for it. Storage does (the Exec model's `blockTab`); the Policy CACHE is a
sorted slice searched by binary search (Model/ExecBlocked.lean). Revoking the account's votes pays its GAS
reward with a payment callback — contract code that may change the list — before the account is inserted.
This check found that the insertion position was computed before the callback; /repo now computes it in the
continuation (cf4871f), and the full statement holds. -/

/-- for EVERY sorted cache, account and reward callback that leaves the cache sorted (whatever it blocks or
    unblocks: `blocked_cache_ops_keep_sorted`), blocking as coded keeps the cache sorted and makes isBlocked
    answer exactly what storage says. -/
theorem blocked_cache_matches_storage (cb : List Nat → List Nat) (l : List Nat) (x : Nat)
    (hs : Blocked.Sorted l) (hcb : Blocked.Sorted (cb l)) :
    Blocked.Sorted (Blocked.blockCoded cb l x) ∧
    ∀ y, Blocked.isBlocked (Blocked.blockCoded cb l x) y = true ↔ y ∈ Blocked.blockStore cb l x :=
  Blocked.blockCoded_ok cb l x hs hcb

/-- the hypothesis on the callback is an invariant of the operations themselves. -/
theorem blocked_cache_ops_keep_sorted (l : List Nat) (x : Nat) (hs : Blocked.Sorted l) :
    Blocked.Sorted (Blocked.unblockCoded l x) ∧
    ∀ cb : List Nat → List Nat, Blocked.Sorted (cb l) → Blocked.Sorted (Blocked.blockCoded cb l x) :=
  ⟨Blocked.unblockCoded_sorted l x hs, fun cb hcb => (Blocked.blockCoded_ok cb l x hs hcb).1⟩

-- non-vacuity: a sorted list of three accounts; account 7 is blocked while its callback blocks 3 and unblocks 9
example : Blocked.Sorted [2, 5, 9] := by unfold Blocked.Sorted; decide
example : Blocked.blockCoded (fun l => Blocked.unblockCoded (Blocked.blockCoded id l 3) 9) [2, 5, 9] 7 = [2, 3, 5, 7] ∧
    Blocked.isBlocked (Blocked.blockCoded (fun l => Blocked.unblockCoded (Blocked.blockCoded id l 3) 9) [2, 5, 9] 7) 7 = true := by decide

/-- regression example about the rule BEFORE cf4871f (the replay is corpus case `c1{ put 4 1; destroy }` of
    stream exec): empty cache, account 7 is blocked, its reward callback blocks account 3 — with the position
    computed before the callback (`blockStale`) the cache ends as [7, 3] and answers `false` for BOTH accounts
    while storage has both; as coded now it is [3, 7] and answers `true`. -/
theorem blocked_cache_stale_index :
    let cb : List Nat → List Nat := fun l => Blocked.blockCoded id l 3
    Blocked.blockStale cb [] 7 = [7, 3] ∧
    Blocked.isBlocked (Blocked.blockStale cb [] 7) 7 = false ∧ Blocked.isBlocked (Blocked.blockStale cb [] 7) 3 = false ∧
    (7 ∈ Blocked.blockStore cb [] 7 ∧ 3 ∈ Blocked.blockStore cb [] 7) ∧
    Blocked.blockCoded cb [] 7 = [3, 7] ∧
    Blocked.isBlocked (Blocked.blockCoded cb [] 7) 7 = true ∧ Blocked.isBlocked (Blocked.blockCoded cb [] 7) 3 = true :=
  Blocked.blockStale_witness

/-! ### 8. Stored values are immutable

Nothing but System.Storage.Put / Delete and the native methods changes what the DAO shows: a value read from
storage and whatever the VM does with those bytes afterwards (the harness: CAT / SUBSTR / LEFT / RIGHT / CONVERT /
MEMCPY / PACK of it, then SETITEM / REVERSEITEMS / MEMCPY on the result — the driver reads such an `ED` node as a
plain read), calls, internal calls, notifications, exception handling leave the ledger view exactly as it was. -/

/-- for EVERY tree without put / delete / native call, every context and state (any stack of DAO layers):
    the view after the run — at a normal end and at an exception — is the view before it. -/
theorem only_put_del_native_change_store (t : Tree) (x : Ctx) (s : ISt) (h : writeFree t = true) :
    match im t x s with
    | .norm s' => s'.view = s.view
    | .thrown s' => s'.view = s.view
    | .fault _ => True := by
  have := im_store_immutable t x s h
  unfold ViewKept at this
  exact this

/-- ... so a transaction without writes leaves the block cache as it was, whether it HALTs or FAULTs. -/
theorem write_free_tx_keeps_store (pre : Log) (t : Tree) (h : writeFree t = true) : (implRun pre t).store = pre := by
  have := im_store_immutable t rootCtx ⟨[], [pre], [], false⟩ h
  unfold implRun
  cases hr : im t rootCtx ⟨[], [pre], [], false⟩ with
  | norm s' => rw [hr] at this; simp only [ViewKept] at this; simpa [ISt.view, flatten] using this
  | thrown s' => rfl
  | fault s' => rfl

-- non-vacuity: reads (edit nodes) in a callee under TRY that throws, in a committed callee, notifications: HALT, store unchanged
example : writeFree (.call 0 Flags.all (.seq (.try_ (.call 1 Flags.all (.seq (.ifp 1 .skip) (.seq (.notify 2) .throw))) true (.notify 1) false .skip)
    (.call 1 Flags.all (.ifp 1 .skip)))) = true := by decide
example : (implRun [.set (1, 1) 7] (.call 0 Flags.all (.seq (.try_ (.call 1 Flags.all (.seq (.ifp 1 .skip) (.seq (.notify 2) .throw))) true (.notify 1) false .skip)
    (.call 1 Flags.all (.ifp 1 .skip))))).eff = (true, [.set (1, 1) 7], [(0, 1)]) := by decide

/-! ### 9. Emitted notifications are immutable (finding native-notification-rewritten, fixed by 0aa93d2)

Whatever runs later in the same execution, the notifications already in the list stay what they are — later code
can only append, and a rollback removes a suffix. In the real VM every stored event is a read-only item: Notify
deep-copies its argument as immutable, and since 0aa93d2 interop.Context.AddNotification does the same for the
mutable arrays natives pass (this check found that System.Runtime.GetNotifications handed those out editable).
The probe `notifprobe.go` of stream exec keeps trying the rewrite on every run. -/

/-- for EVERY tree, context and state: the notifications present when a (sub)tree starts are a prefix of the list
    when it ends normally or with an exception. -/
theorem emitted_notifications_immutable (t : Tree) (x : Ctx) (s : ISt) :
    match im t x s with
    | .norm s' => s.ev <+: s'.ev
    | .thrown s' => s.ev <+: s'.ev
    | .fault _ => True := by
  have := im_frame t x s
  cases hr : im t x s with
  | norm s' => rw [hr] at this; exact this.2
  | thrown s' => rw [hr] at this; exact this.1.2
  | fault s' => trivial

example : im (.seq (.notify 2) (.call 1 Flags.all (.notify 3))) ⟨0, Flags.all, false, false⟩ ⟨[], [[]], [(0, 1)], false⟩ =
    .norm ⟨[], [[]], [(0, 1), (0, 2), (1, 3)], false⟩ := rfl

end NeoModel.Exec
