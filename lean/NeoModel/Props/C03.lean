/-
C03 — the state root of every height commits exactly to contract storage.
Property theorems (generic in the trie implementation; instantiated with the C10 MPT model below
once `NeoModel.Model.Mpt` provides `lookup_putBatch`).
-/
import NeoModel.Model.StateCommit
import NeoModel.Proofs.StateCommit
import NeoModel.Props.C10
import NeoModel.Model.Mpt.Traverse
import NeoModel.Proofs.MptLookup
namespace NeoModel.StateCommit

theorem applyBatch_append (s : Storage) (a b : List Change) :
    applyBatch s (a ++ b) = applyBatch (applyBatch s a) b := by
  simp [applyBatch, List.foldl_append]

/-- keys not mentioned by a batch are untouched. -/
theorem applyBatch_not_mem (s : Storage) (b : List Change) (k : Key) (h : ∀ c ∈ b, c.1 ≠ k) :
    applyBatch s b k = s k := by
  induction b generalizing s with
  | nil => rfl
  | cons c rest ih =>
    have hc : c.1 ≠ k := h c (by simp)
    have : applyBatch s (c :: rest) = applyBatch (applyChange s c) rest := rfl
    rw [this, ih _ (fun d hd => h d (by simp [hd]))]
    simp [applyChange, Ne.symm hc]

/-- generalisation of `root_commits` to an arbitrary starting pair (trie, storage) that agree. -/
theorem root_commits_from {T : Type} (M : AuthMap T) (bs : List (List Change))
    (hok : ∀ b ∈ bs, M.okBatch b) (t : T) (s : Storage) (hts : ∀ k, M.lookup t k = s k) (k : Key) :
    M.lookup (bs.foldl M.putBatch t) k = bs.foldl applyBatch s k := by
  induction bs generalizing t s k with
  | nil => simpa using hts k
  | cons b rest ih =>
    simp only [List.foldl_cons]
    apply ih (fun c hc => hok c (by simp [hc]))
    intro k'
    rw [M.lookup_putBatch t b (hok b (by simp))]
    have : M.lookup t = s := funext hts
    rw [this]

/-- **root_commits** (C03.1): for every block history `bs` (each block's batch satisfying the
    trie's precondition) and every key, the trie of height `|bs|` holds exactly what contract
    storage holds — nothing missing, nothing extra. By induction over the history. -/
theorem root_commits {T : Type} (M : AuthMap T) (bs : List (List Change))
    (hok : ∀ b ∈ bs, M.okBatch b) (k : Key) :
    M.lookup (trieAt M bs) k = storageAt bs k :=
  root_commits_from M bs hok M.empty (fun _ => none) M.lookup_empty k

/-- every prefix of the history (= every retained height) is committed by its own root. -/
theorem root_commits_every_height {T : Type} (M : AuthMap T) (bs : List (List Change))
    (hok : ∀ b ∈ bs, M.okBatch b) (h : Nat) (k : Key) :
    M.lookup (trieAt M (bs.take h)) k = storageAt (bs.take h) k :=
  root_commits M (bs.take h) (fun b hb => hok b (List.mem_of_mem_take hb)) k

/-- reading a key the block did not touch gives the previous height's value (no spurious change). -/
theorem untouched_key_stable {T : Type} (M : AuthMap T) (bs : List (List Change)) (b : List Change)
    (hok : ∀ c ∈ bs ++ [b], M.okBatch c) (k : Key) (hk : ∀ c ∈ b, c.1 ≠ k) :
    M.lookup (trieAt M (bs ++ [b])) k = M.lookup (trieAt M bs) k := by
  rw [root_commits M _ hok, root_commits M bs (fun c hc => hok c (by simp [hc]))]
  simp only [storageAt, List.foldl_append, List.foldl_cons, List.foldl_nil]
  exact applyBatch_not_mem _ _ _ hk

/-- **batch_is_net_effect** (C03, the `GetStorageChanges` → `MapToMPTBatch` step): the batch handed
    to the trie — one entry per key of the block's private layer, in sorted order — has exactly the
    effect on storage of the block's whole write sequence `ws`, whatever order the entries are in. -/
theorem batch_is_net_effect (s : Storage) (ws sortedBatch : List Change)
    (hd : DistinctKeys sortedBatch) (hsame : ∀ c, c ∈ sortedBatch ↔ c ∈ netOf ws) :
    applyBatch s sortedBatch = applyBatch s ws := by
  rw [← applyBatch_netOf s ws]
  exact applyBatch_same_entries s _ _ hd (netOf_distinct ws) hsame

-- non-vacuity: a two-block history over the trivial `AuthMap` (functions themselves)
def funMap : AuthMap Storage where
  empty := fun _ => none
  lookup := fun s k => s k
  putBatch := applyBatch
  okBatch := fun _ => True
  lookup_empty := fun _ => rfl
  lookup_putBatch := fun _ _ _ _ => rfl

example : funMap.lookup (trieAt funMap [[([1], some [7])], [([1], none), ([2], some [])]]) [2] = some [] := by
  rw [root_commits funMap _ (fun _ _ => trivial)]; decide

/-! ### Instance: the MPT model of C10 -/
section instance_mpt
open NeoModel.Mpt

theorem toNibbles_inj : ∀ (a b : Bytes), toNibbles a = toNibbles b → a = b := by
  intro a
  induction a with
  | nil => intro b h; cases b with
    | nil => rfl
    | cons y ys => simp [toNibbles] at h
  | cons x xs ih =>
    intro b h
    cases b with
    | nil => simp [toNibbles] at h
    | cons y ys =>
      simp only [toNibbles, List.cons.injEq, Fin.mk.injEq] at h
      obtain ⟨h1, h2, h3⟩ := h
      have : x = y := by
        apply UInt8.toNat_inj.mp
        omega
      rw [this, ih ys h3]

def toKV (c : Change) : KV := (toNibbles c.1, c.2)

theorem mpt_distinct (b : List Change) (hd : DistinctKeys b) : Mpt.DistinctKeys (b.map toKV) := by
  unfold Mpt.DistinctKeys
  induction b with
  | nil => simp
  | cons c rest ih =>
    simp only [DistinctKeys, List.pairwise_cons] at hd
    simp only [List.map_cons, List.nodup_cons, List.mem_map]
    refine ⟨?_, ih hd.2⟩
    rintro ⟨kv, ⟨d, hd', rfl⟩, e⟩
    exact hd.1 d hd' (toNibbles_inj _ _ e).symm

theorem lookup_eq_lastWrite (b : List Change) (hd : DistinctKeys b) (k : Key) :
    (b.map toKV).lookup (toNibbles k) = lastWrite b k := by
  induction b with
  | nil => rfl
  | cons c rest ih =>
    simp only [DistinctKeys, List.pairwise_cons] at hd
    simp only [List.map_cons, toKV, List.lookup_cons, lastWrite]
    by_cases hk : c.1 = k
    · have hnone : lastWrite rest k = none :=
        (lastWrite_none_iff rest k).mpr (fun d hd' e => hd.1 d hd' (hk.trans e.symm))
      simp [hk, hnone]
    · have hne : (toNibbles k == toNibbles c.1) = false := by
        simp only [beq_eq_false_iff_ne, ne_eq]
        intro e; exact hk (toNibbles_inj _ _ e).symm
      have ih' := ih hd.2
      rw [hne]; simp only [hk, ↓reduceIte]
      rw [ih']
      cases lastWrite rest k <;> rfl

/-- the MPT model of C10 as an `AuthMap`: keys are byte strings (id‖key) turned into nibble paths,
    a block's batch goes through `MapToMPTBatch` (sort) and `PutBatch`. -/
def mptMap : AuthMap Mpt.Node where
  empty := .empty
  lookup := fun t k => Mpt.lookup t (toNibbles k)
  putBatch := fun t b => Mpt.putBatch t (mapToBatch (b.map toKV))
  okBatch := DistinctKeys
  lookup_empty := fun _ => rfl
  lookup_putBatch := by
    intro t b hb k
    rw [Mpt.lookup_putBatch_map t (b.map toKV) (mpt_distinct b hb)]
    unfold Mpt.applyBatch
    rw [lookup_eq_lastWrite b hb k, applyBatch_eq_lastWrite]
    cases lastWrite b k <;> rfl

/-- **root_commits for the real trie model** (C03.1 instantiated): after any history of per-block
    change sets (one entry per key each), the MPT of C10 — built by sorting each block's change set
    and applying PutBatch — holds exactly the storage of that height under every key. -/
theorem mpt_root_commits (bs : List (List Change)) (hok : ∀ b ∈ bs, DistinctKeys b) (k : Key) :
    Mpt.lookup (trieAt mptMap bs) (toNibbles k) = storageAt bs k :=
  root_commits mptMap bs hok k

example : Mpt.lookup (trieAt mptMap [[([0x12], some [7])], [([0x12], none), ([0x13, 0x01], some [])]]) (toNibbles [0x13, 0x01]) = some [] := by
  rw [mpt_root_commits _ (by intro b hb; simp at hb; rcases hb with rfl | rfl <;> simp [DistinctKeys])]; decide
/-! ### Historic range search -/

/-- membership form of C10's `seek_spec`. -/
theorem seek_mem (t : Mpt.Node) (pre fromP : Path) (back : Bool) (r : Path) (v : Val) :
    (r, v) ∈ seek t pre fromP back ↔ Mpt.lookup t (pre ++ r) = some v ∧ inRange back fromP r = true := by
  rw [NeoModel.C10.seek_spec]
  have hdir : ∀ (l : List (Path × Val)), (r, v) ∈ dir back l ↔ (r, v) ∈ l := by
    intro l; unfold dir; split <;> simp
  rw [hdir, List.mem_filter]
  unfold under
  simp only [List.mem_filterMap, Option.map_eq_some_iff, Prod.mk.injEq]
  constructor
  · rintro ⟨⟨e, he, r', hr', rfl, rfl⟩, hin⟩
    refine ⟨?_, hin⟩
    have := stripPre_eq_some.mp hr'
    rw [← this]
    exact (NeoModel.C10.mem_entries t e.1 e.2).mp he
  · rintro ⟨hl, hin⟩
    refine ⟨⟨(pre ++ r, v), (NeoModel.C10.mem_entries t _ _).mpr hl, r, stripPre_append pre r, rfl, rfl⟩, hin⟩

/-- **historic_seek** (C03.2): a range search over the trie named by the state root of any height
    (`TrieStore.Seek`: any prefix, start, direction) returns a pair exactly if contract storage of
    that height holds it under a key with the prefix whose remainder is in range of the start —
    for keys given as bytes (`toNibbles`). Order and uniqueness of the answer are C10's `seek_spec`
    (ascending / descending by key, `entries_sorted`). -/
theorem historic_seek (bs : List (List Change)) (hok : ∀ b ∈ bs, DistinctKeys b)
    (pre fromP : Path) (back : Bool) (r : Path) (v : Val) (k : Key) (hk : pre ++ r = toNibbles k) :
    (r, v) ∈ seek (trieAt mptMap bs) pre fromP back ↔ storageAt bs k = some v ∧ inRange back fromP r = true := by
  rw [seek_mem, hk, mpt_root_commits bs hok k]

/-- nothing extra: every pair a historic range search returns is a pair of that height's storage
    (no hypothesis on how the key is written). -/
theorem historic_seek_sound (bs : List (List Change))
    (pre fromP : Path) (back : Bool) (r : Path) (v : Val) (h : (r, v) ∈ seek (trieAt mptMap bs) pre fromP back) :
    Mpt.lookup (trieAt mptMap bs) (pre ++ r) = some v := ((seek_mem _ _ _ _ _ _).mp h).1

example : ([(0:Nib),3], ([9] : Val)) ∈ seek (trieAt mptMap [[([0x12,0x03], some [9]), ([0x13], some [1])]]) (toNibbles [0x12]) [] false :=
  (historic_seek _ (by intro b hb; simp at hb; subst hb; simp [DistinctKeys]) (toNibbles [0x12]) [] false [0,3] [9] [0x12,0x03] (by decide)).mpr
    ⟨by decide, by decide⟩
end instance_mpt

end NeoModel.StateCommit
