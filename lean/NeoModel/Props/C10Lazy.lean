/-
C10, lazy loading — the trie as the code really holds it (HashNodes loaded from the node store on
demand, Flush / Collapse / reopening from a root) refines the expanded trie that the theorems of
Props/C10.lean are about. Property theorems only (model: Model/Mpt/Lazy*.lean, helper lemmas:
Proofs/MptLazy*.lean).
-/
import NeoModel.Props.C10
import NeoModel.Proofs.MptLazyRun
import NeoModel.Proofs.MptLazyLimits
import NeoModel.Proofs.MptIterate
import NeoModel.Proofs.MptFind
import NeoModel.Proofs.MptLazySeek
namespace NeoModel.C10
open NeoModel.Mpt

variable {H : Bytes → Bytes} {S : LStore}

/-! ## 8. the write paths through HashNodes -/

/-- C10.8a: `Put` on an in-memory trie `l` (any mixture of expanded nodes and HashNodes) that
represents the expanded trie `t` over the store `S` — i.e. every HashNode carries the hash of the
sub-trie it stands for and all nodes of that sub-trie can be loaded from `S` — returns no error, and
the new root represents `put t p v`, with the same state root. (`F` = fuel of the model; any
`F ≥ 2·height t + 3` will do.) -/
theorem lazy_put (F : Nat) (l : LNode) (t : Node) (p : Path) (v : Val) (hr : LRep H S l t)
    (hF : 2 * height t + 3 ≤ F) :
    ∃ l', lput S F l p v = (l', false) ∧ LRep H S l' (put t p v) ∧
      lrootHash H l' = rootHash H (put t p v) := by
  obtain ⟨l', h1, h2⟩ := lput_rep F l t p v hr (Nat.le_trans (need_le l t) hF)
  exact ⟨l', h1, h2, lrootHash_rep h2⟩

/-- C10.8b: `Delete`, including the loading of the remaining sibling when a branch is left with a
single child (trie.go:324-329) and the HashNode that `deleteFromExtension` keeps without loading
(trie.go:361-362: it can only stand for a leaf). -/
theorem lazy_delete (F : Nat) (l : LNode) (t : Node) (p : Path) (hr : LRep H S l t)
    (hF : 2 * height t + 3 ≤ F) :
    ∃ l', ldel S F l p = (l', false) ∧ LRep H S l' (delete t p) ∧
      lrootHash H l' = rootHash H (delete t p) := by
  obtain ⟨l', h1, h2, _⟩ := ldel_rep F l t p hr (Nat.le_trans (need_le l t) hF)
  exact ⟨l', h1, h2, lrootHash_rep h2⟩

/-- C10.8c: `PutBatch` (the batch path with `stripBranch` / `mergeExtension` loading HashNodes). -/
theorem lazy_putBatch (F : Nat) (l : LNode) (t : Node) (kv : Batch) (hr : LRep H S l t)
    (hF : 2 * height t + 3 ≤ F) :
    ∃ l', lputBatch S F l kv = (l', false) ∧ LRep H S l' (putBatch t kv) ∧
      lrootHash H l' = rootHash H (putBatch t kv) := by
  obtain ⟨l', h1, h2⟩ := lputBatch_rep F l t kv hr (Nat.le_trans (need_le l t) hF)
  exact ⟨l', h1, h2, lrootHash_rep h2⟩

/-- C10.8d: `Get` reads what the represented trie holds, and the root it leaves behind (the
HashNodes on the path replaced by the loaded nodes) represents the same trie. -/
theorem lazy_get (F : Nat) (l : LNode) (t : Node) (p : Path) (hr : LRep H S l t)
    (hF : 2 * height t + 3 ≤ F) :
    (∀ v, lookup t p = some v → ∃ l', lget S F l p = some (l', v) ∧ LRep H S l' t) ∧
    (lookup t p = none → lget S F l p = none) :=
  lget_rep F l t p hr (Nat.le_trans (need_le l t) hF)

/-- C10.8e: the state root of the in-memory trie is the root of the trie it represents. -/
theorem lazy_root (l : LNode) (t : Node) (hr : LRep H S l t) : lrootHash H l = rootHash H t :=
  lrootHash_rep hr

/-- C10.8f: a node that cannot be loaded makes the operation return an error (Get: not found); a
failed `Put` leaves the trie exactly as it was — for every store and every in-memory trie. -/
theorem lazy_missing (S : LStore) (f : Nat) (h : Bytes) (hm : resolve S h = none) (p : Path) (v : Val)
    (kv : Batch) :
    lput S (f + 1) (.hash h) p v = (.hash h, true) ∧ ldel S (f + 1) (.hash h) p = (.hash h, true) ∧
    lputBatchNode S (f + 1) (.hash h) kv = (.hash h, true) ∧ lget S (f + 1) (.hash h) p = none := by
  simp [lput, ldel, lputBatchNode, lget, hm]

theorem lazy_put_error_atomic (S : LStore) (F : Nat) (l : LNode) (p : Path) (v : Val)
    (he : (lput S F l p v).2 = true) : (lput S F l p v).1 = l :=
  lput_err S F l p v he

/-! ## 9. Flush, Collapse, reopening from the root -/

/-- C10.9a: after `Flush` every node of the represented trie can be loaded from the store (those in
memory were written, the others could be loaded before), and the in-memory trie still represents
it. Needed of `H`: 32-byte output and no collision among this one trie's node encodings. -/
theorem lazy_flush (h32 : ∀ b, (H b).length = 32) (l : LNode) (t : Node) (hr : LRep H S l t)
    (hb : Bounded t) (hcf : CollFree H (nodeEncs H t)) :
    Stored H (lflush H S l) t ∧ LRep H (lflush H S l) l t :=
  ⟨stored_lflush h32 hr hb hcf, rep_of_stored l t hr (stored_lflush h32 hr hb hcf)⟩

/-- C10.9b: `Collapse(d)` and reopening from the root hash, when all of the trie can be loaded
(i.e. after a Flush, as trie.go:547-549 demands), give a trie that represents the same contents. -/
theorem lazy_collapse (l : LNode) (t : Node) (d : Nat) (hr : LRep H S l t) (hs : Stored H S t) :
    LRep H S (lcollapse H d l) t ∧ LRep H S (lreopen H l) t :=
  ⟨lcollapse_rep l d t hr hs, lreopen_rep hr hs⟩

/-! ## 10. any interleaving -/

/-- C10.10a: every schedule of Put / Delete / PutBatch / Get / GetProof / Find / StateRoot / TrieStore.Seek / Flush / Collapse(d) /
reopen-from-root in which Collapse and reopen happen only while nothing was changed since the last
Flush, started on a fresh trie over ANY store: the real representation returns exactly what the
expanded trie returns — no errors, the same values, the same state roots. Side conditions on the
expanded tries the history passes through (`GoodRun`): contents within the size limits of `Put`, no
hash collision among one trie's own node encodings, height within the fuel. -/
theorem lazy_run (h32 : ∀ b, (H b).length = 32) (F : Nat) (S₀ : LStore) (ops : List LOp)
    (hok : okSched false ops = true) (hg : GoodRun H F .empty ops) :
    (lrun H F ⟨.empty, S₀⟩ ops).2 = (erun H .empty ops).2 ∧
    LRep H (lrun H F ⟨.empty, S₀⟩ ops).1.store (lrun H F ⟨.empty, S₀⟩ ops).1.root (erun H .empty ops).1 :=
  lrun_erun h32 ops ⟨.empty, S₀⟩ .empty false (by simp [LRep]) (fun _ => trivial) hok hg

def exStore0 : LStore := fun _ => none
def exOps : List LOp := [.put [1,2] [7], .put [1,3] [8], .flush, .reopen, .put [1,2] [9], .get [1,3], .root]

def exT3 : Node := put exT [1,2] [9]

-- the model really runs (a put through the HashNode of a reopened root, then a read and the root):
example : (lrun toyH 20 ⟨.empty, exStore0⟩ exOps).2 =
    [.ok, .ok, .ok, .ok, .ok, .val (some [8]), .root (rootHash toyH exT3)] := by decide

/-- the expanded tries this history passes through. -/
def exT1 : Node := put .empty [1,2] [7]
theorem exT1_good : Good toyH 20 exT1 := by
  refine ⟨by simp [exT1, put, newSub, Bounded, maxPathLength, maxValueLength], by decide, by decide⟩

theorem exT_good : Good toyH 20 exT := ⟨exT_bounded, by decide, by decide⟩

theorem exT3_good : Good toyH 20 exT3 := by
  refine ⟨?_, by decide, by decide⟩
  simp [exT3, exT, put, lcpSplit, mkExt, newSub, upd, noKids, Bounded]
  refine ⟨by decide, fun i => ?_⟩
  split <;> (try split) <;> simp [Bounded, maxValueLength]

theorem exOps_good : GoodRun toyH 20 .empty exOps :=
  ⟨⟨trivial, by decide, by decide⟩, exT1_good, exT_good, exT_good, exT_good, exT3_good, exT3_good, exT3_good⟩

-- the hypotheses of `lazy_run` are met by this history:
example : (lrun toyH 20 ⟨.empty, exStore0⟩ exOps).2 = (erun toyH .empty exOps).2 :=
  (lazy_run toyH_len 20 exStore0 exOps (by decide) exOps_good).1

/-! A missing node: `Delete` is not atomic on a storage failure (unlike `Put`). The trie
{12 ↦ 07, 13 ↦ 08} is flushed and reopened, the path to key 12 is loaded by a Get, and the record
of the sibling leaf (key 13) is removed from the store. `Delete(12)` then returns an error
(trie.go:324-328: the remaining sibling cannot be loaded) — but key 12 is gone from the in-memory
trie all the same (trie.go:306 replaced the child before the sibling was loaded). -/
def exLS : LState :=
  (lrun toyH 20 ⟨.empty, exStore0⟩ [.put [1,2] [7], .put [1,3] [8], .flush, .reopen, .get [1,2]]).1

def exLStore : LStore := fun h => if h = toyH (encLeaf [8]) then none else exLS.store h

example : (lget exLStore 20 exLS.root [1,2]).map (·.2) = some [7] ∧
    (ldel exLStore 20 exLS.root [1,2]).2 = true ∧
    lget exLStore 20 (ldel exLStore 20 exLS.root [1,2]).1 [1,2] = none := by decide

-- … while a failed Put changes nothing (`lazy_put_error_atomic`): e.g. Put(13) over the same store
example : (lput exLStore 20 exLS.root [1,3] [9]).2 = true := by decide


/-- C10.10b (the property's first sentence, on the real representation): two schedules — any
interleaving of flushes, collapses and reloads, over any two stores — whose mutating operations end
in the same contents end with the same state root; in particular the root of a fresh trie built
from the final contents. -/
theorem lazy_root_history_independent (h32 : ∀ b, (H b).length = 32) (F : Nat) (S₁ S₂ : LStore)
    (ops₁ ops₂ : List LOp) (hok₁ : okSched false ops₁ = true) (hok₂ : okSched false ops₂ = true)
    (hg₁ : GoodRun H F .empty ops₁) (hg₂ : GoodRun H F .empty ops₂)
    (hd₁ : ∀ o ∈ mutOps ops₁, o.ok) (hd₂ : ∀ o ∈ mutOps ops₂, o.ok)
    (hc : ∀ q, contents (mutOps ops₁) q = contents (mutOps ops₂) q) :
    lrootHash H (lrun H F ⟨.empty, S₁⟩ ops₁).1.root = lrootHash H (lrun H F ⟨.empty, S₂⟩ ops₂).1.root := by
  rw [lazy_root _ _ (lazy_run h32 F S₁ ops₁ hok₁ hg₁).2, lazy_root _ _ (lazy_run h32 F S₂ ops₂ hok₂ hg₂).2,
    erun_state, erun_state]
  exact (root_history_independent H _ _ hd₁ hd₂ hc).2

/-- C10.10c: the same with the side conditions reduced to what the caller controls — the size limits
of `Put` on the operations (keys ≤ 136 nibbles, values ≤ MaxValueLength), batches with distinct
keys — plus the one assumption on the hash: no collision among the node encodings of any single
trie the history passes through. `Bounded` and the fuel bound are consequences (a well-formed trie
is at most twice as high as its longest key: fuel 549 is enough). -/
theorem lazy_run_limits (h32 : ∀ b, (H b).length = 32) (S₀ : LStore) (ops : List LOp)
    (hok : okSched false ops = true)
    (hd : ∀ o ∈ mutOps ops, o.ok) (hl : ∀ o ∈ mutOps ops, o.lim)
    (hcf : ∀ pre, pre <+: ops → CollFree H (nodeEncs H (run (mutOps pre)))) :
    (lrun H 549 ⟨.empty, S₀⟩ ops).2 = (erun H .empty ops).2 ∧
    LRep H (lrun H 549 ⟨.empty, S₀⟩ ops).1.store (lrun H 549 ⟨.empty, S₀⟩ ops).1.root (erun H .empty ops).1 :=
  lazy_run h32 549 S₀ ops hok (goodRun_of_limits H ops hd hl hcf)

-- non-vacuity: the history `exOps` above meets these hypotheses
set_option maxRecDepth 8000 in
example : (lrun toyH 549 ⟨.empty, exStore0⟩ exOps).2 = (erun toyH .empty exOps).2 := by
  refine (lazy_run_limits toyH_len exStore0 exOps (by decide) ?_ ?_ ?_).1
  · intro o ho; simp [exOps, mutOps] at ho; rcases ho with rfl | rfl | rfl <;> trivial
  · intro o ho; simp [exOps, mutOps] at ho
    rcases ho with rfl | rfl | rfl <;> simp [Op.lim, maxPathLength, maxValueLength]
  · intro pre hp
    have hall : ∀ n, n ≤ 7 → CollFree toyH (nodeEncs toyH (run (mutOps (exOps.take n)))) := by decide
    have hlen : pre.length ≤ 7 := hp.length_le
    rw [List.prefix_iff_eq_take.mp hp]
    exact hall _ hlen

/-! ## 11. the batch iteration of the code = the per-child selection of the model -/

/-- C10.11a: on a batch sorted by key (`SortedKV`), `iterateBatch` + `getLastIndex` as written
(batch.go:204-219, 277-288: runs of equal first nibble, the empty key first as a run of its own,
each run stripped of the nibble and put into its child, one after the other) computes, for every
child `c`, `rec (cs c) (sub c kv)` when the model's selection `sub c kv` is non-empty and leaves the
child alone otherwise, and for the 17th child `slot kv v` — for any `rec` that turns the one-entry
run of the empty key into that entry's value (as `putBatchIntoNode` does). -/
theorem iterate_eq_model (rec : Node → Batch → Node)
    (hslot : ∀ v ov, slotOf (rec (slotNode v) [([], ov)]) = ov)
    (kv : Batch) (hs : SortedKV kv) (cs : Nib → Node) (v : Option Val) :
    iterBranch rec (iterGroups kv.length kv) (cs, v) =
      (fun c => if sub c kv = [] then cs c else rec (cs c) (sub c kv), slot kv v) :=
  iterBranch_groups rec hslot kv.length kv (Nat.le_refl _) hs cs v

/-- C10.11b: hence the branch case of the batch model is `addToBranch` as the code runs it, for
every batch `MapToMPTBatch` can produce. -/
theorem putBatch_branch_as_iterated (cs : Nib → Node) (v : Option Val) (m : List KV) (hd : DistinctKeys m) :
    putBatchNode (.branch cs v) (mapToBatch m) =
      stripBranch (iterBranch putBatchNode (iterGroups (mapToBatch m).length (mapToBatch m)) (cs, v)).1
        (iterBranch putBatchNode (iterGroups (mapToBatch m).length (mapToBatch m)) (cs, v)).2 :=
  putBatchNode_branch_iterate cs v _ (sorted_of_mapToBatch m hd).1

-- non-vacuity: the runs of a sorted batch with the empty key, two entries under nibble 1, one under 2
example : iterGroups 4 [([], some [1]), ([1,2], none), ([1,3], some []), ([2], none)] =
    [(none, [([], some [1])]), (some 1, [([2], none), ([3], some [])]), (some 2, [([], none)])] := by decide

example : SortedKV [([], some [1]), ([1,2], none), ([1,3], some []), ([2], none)] := by
  simp [SortedKV, pathLt]

/-! ## 12. membership proofs presented with extra items -/

/-- C10.6 completeness, strengthened: the proof of a present key verifies to its value also when it
is presented reordered and mixed with any extra byte strings (nodes of other tries, junk) — as long
as `H` has no collision among the presented strings. Together with `proof_sound` (which holds for
arbitrary lists): extra or irrelevant items can neither break an honest proof nor forge a value. -/
theorem proof_complete_extras (H : Bytes → Bytes) (h32 : ∀ b, (H b).length = 32)
    (t : Node) (hb : Bounded t) (key : Bytes) (v : Val) (hv : lookup t (toNibbles key) = some v)
    (proof extra ps : List Bytes) (hp : getProof H t (toNibbles key) = some proof)
    (hperm : ps.Perm (proof ++ extra)) (hcf : CollFree H ps) :
    verifyProof H (rootHash H t) key ps = .found v := by
  have hne : t.isEmpty = false := by
    cases ht : t.isEmpty with
    | false => rfl
    | true => rw [isEmpty_iff.mp ht] at hv; simp [lookup] at hv
  have hlen : proof.length ≤ ps.length + 1 := by
    have := hperm.length_eq
    simp at this; omega
  obtain ⟨x, hx, hw⟩ := walk_complete hcf h32 t (ps.length + 1) (toNibbles key) proof hb hp
    (fun e he => hperm.mem_iff.mpr (by simp [he])) hlen
  rw [hv] at hx; cases hx
  simpa [verifyProof, rootHash, hne] using hw

-- non-vacuity: the proof of key 12 in `exT`, reversed and with two foreign items in between
example : verifyProof toyH (rootHash toyH exT) [0x12]
    ([[2, 1, 9]] ++ ((getProof toyH exT [1,2]).getD []).reverse ++ [[0xff]]) = .found [7] := by decide

/-! ## 13. Trie.Find with its stop condition as written -/

/-- C10.5c, every `maxNum`: `findX` is `Trie.Find` with `process` called on every visited node and the
traversal stopped as soon as `count >= maxNum` (trie.go:625-636). When it succeeds it returns the
first `k` keys under the prefix strictly after `from`, ascending, where `k = maxNum` if `maxNum ≥ 1`
and `k ≤ 1` if `maxNum = 0` (the stop test fires after the first node, which is reported if it is a
leaf); it fails only if no key has the prefix. -/
theorem find_exact_spec (t : Node) (pre : Path) (frm : Option Path) (maxNum : Nat) :
    (∀ l, findX t pre frm maxNum = some l →
      ∃ k, (1 ≤ maxNum → k = maxNum) ∧ (maxNum = 0 → k ≤ 1) ∧
        l = ((under t pre).filter (fun e => after frm e.1)).take k) ∧
    (findX t pre frm maxNum = none → under t pre = []) := by
  by_cases hm : 1 ≤ maxNum
  · rw [findX_eq_find t pre frm maxNum hm]
    exact ⟨fun l h => ⟨maxNum, fun _ => rfl, fun h0 => by omega, Mpt.find_some t pre frm maxNum l h⟩,
      Mpt.find_none t pre frm maxNum⟩
  · have h0 : maxNum = 0 := by omega
    subst h0
    obtain ⟨k, hk, he⟩ := findX_zero t pre frm
    rw [he]
    exact ⟨fun l h => ⟨k, fun h1 => by omega, fun _ => hk, Mpt.find_some t pre frm k l h⟩,
      Mpt.find_none t pre frm k⟩

-- non-vacuity (keys 12, 1205, 1207, 1230, 11): with maxNum = 0 the first visited node decides —
-- under prefix 12 it is the branch (nothing reported), from 1206 on it is the leaf 1207, from 1205 the leaf 1205 itself (filtered out)
example : findX exS [1,2] none 0 = some [] := by decide
example : findX exS [1,2] (some [0,6]) 0 = some [([0,7], [3])] := by decide
example : findX exS [1,2] (some [0,5]) 0 = some [] := by decide
example : findX exS [1,2] (some [0,5]) 1 = some [([0,7], [3])] := by decide

/-! ## 14. GetProof on the real representation -/

/-- C10.8g: `GetProof` on an in-memory trie with HashNodes returns exactly the byte strings
`getProof` returns on the trie it represents (or fails exactly when that fails), and leaves a root
that represents the same trie. -/
theorem lazy_getProof (F : Nat) (l : LNode) (t : Node) (p : Path) (hr : LRep H S l t)
    (hF : 2 * height t + 3 ≤ F) :
    (∀ ps, getProof H t p = some ps → ∃ l', lgetProof H S F l p = some (l', ps) ∧ LRep H S l' t) ∧
    (getProof H t p = none → lgetProof H S F l p = none) :=
  lgetProof_rep F l t p hr (Nat.le_trans (need_le l t) hF)

/-- C10.6 on the real representation: for a present key, what `GetProof` returns on a collapsed /
reopened trie verifies against that trie's `StateRoot` to the stored value. -/
theorem lazy_proof_complete (h32 : ∀ b, (H b).length = 32) (F : Nat) (l : LNode) (t : Node)
    (hr : LRep H S l t) (hF : 2 * height t + 3 ≤ F) (hcf : CollFree H (nodeEncs H t)) (hb : Bounded t)
    (key : Bytes) (v : Val) (hv : lookup t (toNibbles key) = some v) :
    ∃ l' ps, lgetProof H S F l (toNibbles key) = some (l', ps) ∧
      verifyProof H (lrootHash H l) key ps = .found v := by
  obtain ⟨ps, hps, hver⟩ := proof_complete H h32 t hcf hb key v hv
  obtain ⟨l', hl', _⟩ := (lazy_getProof F l t _ hr hF).1 ps hps
  exact ⟨l', ps, hl', by rw [lazy_root l t hr]; exact hver⟩

-- non-vacuity: the reopened trie of the example above (root = one HashNode) proves key 13
example : (lgetProof toyH exLS.store 20 (lreopen toyH exLS.root) [1,3]).map (·.2) = getProof toyH exT [1,3] := by
  decide

/-! ## 15. TrieStore.Seek on the real representation -/

/-- C10.5b on the real representation: `TrieStore.Seek` runs on `HashNode(root)` over the node store
and loads every node it visits. On any in-memory trie `l` that represents `t` (in particular
`lreopen` of a flushed trie) it meets no storage error and reports exactly `seek t …`, hence
(`seek_spec`) the keys under the prefix in range of `Start`, ascending or descending. -/
theorem lazy_seek (F : Nat) (l : LNode) (t : Node) (pre fromP : Path) (back : Bool)
    (hr : LRep H S l t) (hF : 2 * height t + 3 ≤ F) :
    lseek S F l pre fromP back =
      some (dir back ((under t pre).filter (fun e => inRange back fromP e.1))) := by
  rw [lseek_rep F l t pre fromP back hr hF, seek_spec]

-- non-vacuity: a seek from the single HashNode of the reopened example trie {12 ↦ 07, 13 ↦ 08}
example : lseek exLS.store 20 (lreopen toyH exLS.root) [1] [3] true = some [([3], [8]), ([2], [7])] := by decide

/-! ## 16. Trie.Find on the real representation -/

/-- C10.5c on the real representation: `Trie.Find` as it runs — the start node found through HashNodes
with the prefix path loaded in place, then the forward traversal from that node of the trie itself,
loading what it goes through in place and stopping as soon as `count >= maxNum` — meets no storage
error, returns exactly what `findX` returns on the represented trie (hence `find_exact_spec`: the
first `k` keys under the prefix strictly after `from`), and the root it leaves behind, with whatever it
loaded, still represents the same trie. -/
theorem lazy_find (F : Nat) (l : LNode) (t : Node) (pre : Path) (frm : Option Path) (maxNum : Nat)
    (hr : LRep H S l t) (hF : 2 * height t + 3 ≤ F) :
    (lfind S F l pre frm maxNum).2 = findX t pre frm maxNum ∧ LRep H S (lfind S F l pre frm maxNum).1 t :=
  lfind_rep F l t pre frm maxNum hr hF

-- non-vacuity: Find on the reopened example trie {12 ↦ 07, 13 ↦ 08} (root = one HashNode), stopping
-- after the first result
example : (lfind exLS.store 20 (lreopen toyH exLS.root) [1] none 1).2 = some [([2], [7])] := by decide

end NeoModel.C10
