/-
C03 — the historic RPC methods resolve the contract id from the Management record of the SAME state
root: property theorems over `Model/StateCommit/RpcId.lean`.
-/
import NeoModel.Props.C03Rpc
import NeoModel.Model.StateCommit.RpcId
namespace NeoModel.StateCommit.Rpc

/-- C03.P6: at the root of any height of any history the id an RPC method works with is decoded from
what contract storage of THAT height holds under Management's record key of the hash (not from the
live contract table): a contract deployed, destroyed or redeployed later does not change it. -/
theorem contractId_commits (bs : List (List Change)) (hok : ∀ b ∈ bs, DistinctKeys b) (mgmt : Nat) (hash : Bytes) :
    contractId (trieAt mptMap bs) mgmt hash = (storageAt bs (contractKey mgmt hash)).bind decodeContractId := by
  unfold contractId
  rw [mpt_root_commits bs hok]

/-- C03.P7: `getstate` addressed by contract hash at the root of a height returns what storage of that
height holds under `uint32(id) ‖ key`, `id` being the one recorded for the hash at that height. -/
theorem getstate_by_hash_commits (bs : List (List Change)) (hok : ∀ b ∈ bs, DistinctKeys b)
    (mgmt : Nat) (hash key : Bytes) (hlen : key.length ≤ 64) :
    getStateByHash (trieAt mptMap bs) mgmt hash key =
      ((storageAt bs (contractKey mgmt hash)).bind decodeContractId).bind
        fun id => storageAt bs (makeStorageKey id key) := by
  unfold getStateByHash
  rw [contractId_commits bs hok]
  congr 1
  funext id
  exact getstate_commits bs hok id key hlen

-- non-vacuity: Management (id -1 = 0xffffffff) records contract hash ab.. with id 5 at height 1; the
-- contract writes 01 ↦ 07 at height 2; at height 0 the hash is unknown
def idBs : List (List Change) :=
  [[([9], some [1])],
   [(contractKey 0xffffffff [0xab, 0xcd], some [0x40, 5, 0x21, 1, 5, 0x21, 0, 0x28, 0, 0x28, 0, 0x28, 0])],
   [([5,0,0,0,1], some [7])]]

theorem idOk : ∀ b ∈ idBs, DistinctKeys b := by
  intro b hb; simp [idBs] at hb; rcases hb with rfl | rfl | rfl <;> simp [DistinctKeys]

example : getStateByHash (trieAt mptMap idBs) 0xffffffff [0xab, 0xcd] [1] = some [7] ∧
    contractId (trieAt mptMap (idBs.take 1)) 0xffffffff [0xab, 0xcd] = none ∧
    contractId (trieAt mptMap (idBs.take 2)) 0xffffffff [0xab, 0xcd] = some 5 := by
  decide +kernel

end NeoModel.StateCommit.Rpc
