/-
C09 (third part) — the model's constants, its System.Storage.Find option check and its DAO key
construction against the table `Generated/StoreConsts.lean`, which harness/cmd/extract/storeconsts.go
regenerates from the linked /repo code on every check run (by calling istorage.Find, dao.PutStorageItem,
statesync.TemporaryPrefix). `lake build` re-checks these equalities against what the code does now.
-/
import NeoModel.Model.Store.Dao
import NeoModel.Generated.StoreConsts
namespace NeoModel.Store.C09
open NeoModel.Generated

/-- the two storage prefixes of `chooseMap` / `isStor` and the 0x70 ↔ 0x71 swap are the code's. -/
theorem gen_storage_prefixes :
    isStor [UInt8.ofNat StoreConsts.stStorage] = true ∧ isStor [UInt8.ofNat StoreConsts.stTempStorage] = true ∧
    (∀ b : UInt8, isStor [b] = true → b = UInt8.ofNat StoreConsts.stStorage ∨ b = UInt8.ofNat StoreConsts.stTempStorage) ∧
    temporaryPrefix (UInt8.ofNat StoreConsts.stStorage) = some (UInt8.ofNat StoreConsts.temporaryOfStorage) ∧
    temporaryPrefix (UInt8.ofNat StoreConsts.stTempStorage) = some (UInt8.ofNat StoreConsts.temporaryOfTemp) := by
  refine ⟨by decide, by decide, ?_, by decide, by decide⟩
  intro b h
  simp only [isStor, Bool.or_eq_true, beq_iff_eq] at h
  rcases h with h | h
  · left; rw [h]; decide
  · right; rw [h]; decide

/-- the Find option bits of the model are the code's. -/
theorem gen_find_bits :
    findKeysOnly = StoreConsts.findKeysOnly ∧ findRemovePrefix = StoreConsts.findRemovePrefix ∧
    findValuesOnly = StoreConsts.findValuesOnly ∧ findDeserialize = StoreConsts.findDeserialize ∧
    findPick0 = StoreConsts.findPick0 ∧ findPick1 = StoreConsts.findPick1 ∧
    findBackwards = StoreConsts.findBackwards ∧ findAll = StoreConsts.findAll := by decide

set_option maxRecDepth 20000 in
/-- the model's option check agrees with what `istorage.Find` accepts, for every option word 0..511 … -/
theorem gen_find_accepts_table :
    (List.range 512).all (fun o => findOptsOK o == StoreConsts.findAccepts.getD o false) = true ∧
    StoreConsts.findAccepts.length = 512 ∧ StoreConsts.highBitsRefused = true := by decide

/-- … and refuses every word with a bit outside `FindAll`, so the table covers all accepted words. -/
theorem findOptsOK_small (o : Nat) (h : findOptsOK o = true) : o ≤ 191 := by
  unfold findOptsOK at h
  by_cases hc : (o &&& findAll != o) = true
  · rw [if_pos hc] at h; cases h
  · have : o &&& findAll = o := by simpa using hc
    rw [← this]
    exact Nat.and_le_right

/-- for EVERY option word: the model accepts it iff the linked code accepted it when the table was generated. -/
theorem gen_find_accepts (o : Nat) : findOptsOK o = (decide (o < 512) && StoreConsts.findAccepts.getD o false) := by
  by_cases ho : o < 512
  · have h := gen_find_accepts_table.1
    rw [List.all_eq_true] at h
    have := h o (List.mem_range.mpr ho)
    simp only [beq_iff_eq] at this
    simp [ho, this]
  · simp only [ho, decide_false, Bool.false_and]
    cases hf : findOptsOK o with
    | false => rfl
    | true => have := findOptsOK_small o hf; omega

set_option maxRecDepth 20000 in
/-- the model's key construction produces, for every sampled contract id (negative ids, ids with
0x05 / 0x70 bytes, the int32 extremes) under both prefix bytes, exactly the raw store key
`dao.PutStorageItem` wrote. -/
theorem gen_key_samples :
    StoreConsts.keySamples.all (fun s =>
      makeStorageItemKey (UInt8.ofNat s.2.1) s.1 [0xab, 0xcd] == s.2.2.map UInt8.ofNat) = true ∧
    StoreConsts.keySamples.length ≥ 30 := by decide

-- non-vacuity: accepted and refused words, a native contract's key
example : findOptsOK 3 = true ∧ findOptsOK 6 = false ∧ StoreConsts.findAccepts.getD 3 false = true ∧
    makeStorageItemKey 0x71 (-11) [0xab, 0xcd] = [0x71, 0xf5, 0xff, 0xff, 0xff, 0xab, 0xcd] := by decide

end NeoModel.Store.C09
