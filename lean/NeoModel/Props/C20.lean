/-
C20 — syncing converges to the same chain and state. Property theorems only
(helper lemmas and the definitions `Inv`, `Calm`, `Fresh`, `Retained`, `Filled`, `Active`, `Good`
live in Proofs/Queue*.lean; the model is Model/Queue.lean).

Part (a): the block queue `pkg/network/bqueue`. All theorems quantify over every capacity, start
height and every interleaving (`List Act`) of the model's atomic steps: producer puts with arbitrarily
stale heights, single steps of the `Run` goroutine, blocks added to the chain by another writer,
`Discard`. "Calm" interleavings exclude `Discard` and one specific race (an external addition between
`Run`'s unlocked height read and its lock section); the race and two further defects of the code as
written are proved on concrete witnesses below (`…_witness`), they are the replays of the findings.
-/
import NeoModel.Model.Queue
import NeoModel.Proofs.QueueChain
import NeoModel.Proofs.QueueReach
import NeoModel.Proofs.QueueCounters
import NeoModel.Proofs.QueueFair
import NeoModel.Model.StateSync
import NeoModel.Proofs.StateSyncRestore
import NeoModel.Proofs.StateSyncRebuild
import NeoModel.Proofs.StateSyncMerkle
import NeoModel.Proofs.StateSyncItems
namespace NeoModel.Queue

private def el (i t : Nat) : Elem := { idx := i, tag := t, ok := true }

/-- C20 (queue, order/once): for every capacity, start height and every interleaving of producer puts
(with arbitrarily stale heights), steps of `Run`, blocks added by other writers and `Discard`, the
indices applied to the chain (successful `AddItem`s of the queue and external additions, in order of
application) are exactly `h0+1, h0+2, …, height`: strictly in index order, each once, no gap. -/
theorem queue_in_order_once (cap h0 : Nat) (as : List Act) :
    let s := exec (init cap h0) as
    h0 ≤ s.height ∧ applied s.log = List.range' (h0 + 1) (s.height - h0) :=
  chainInv_exec h0 _ as ⟨Nat.le_refl _, by simp [init, applied]⟩

-- non-vacuity: a schedule with a duplicate, an out-of-order put and an external block applies 1,2,3
example :
    let s := exec (init 4 0)
      [.run, .put (el 2 0) 0, .put (el 1 1) 0, .put (el 1 2) 0, .run, .run, .run, .run, .adv, .run, .run, .run, .run,
       .put (el 3 3) 2, .run, .run, .run, .run, .run]
    applied s.log = [1, 2, 3] ∧ s.height = 3 := by decide

/-- C20 (queue, ring): in every reachable state (any interleaving, races included) a `Put` — whatever
element, whatever stale height its producer read — never overwrites a slot holding an element above the
chain height (a not-yet-applied block). -/
theorem ring_no_overwrite (cap h0 : Nat) (hc : 0 < cap) (as : List Act) (e : Elem) (hr p : Nat) (x : Elem) :
    let s := exec (init cap h0) as
    s.ring p = some x → s.height < x.idx → (apply s (.put e hr)).ring p = some x := by
  intro s hx hl
  exact put_keeps s (inv_exec _ as (inv_init cap h0 hc)) e _ (Nat.min_le_right _ _) p x hx hl

-- non-vacuity: slot 1 holds block 5; a put of 9 (same slot, outside the window) and of 5' leave it there
example :
    let s := exec (init 4 3) [.put (el 5 0) 3]
    s.ring 1 = some (el 5 0) ∧ s.height < 5 ∧
    (apply s (.put (el 9 1) 3)).ring 1 = some (el 5 0) ∧ (apply s (.put (el 5 2) 3)).ring 1 = some (el 5 0) := by
  decide

/-- C20 (queue): in calm interleavings `Run` never offers the chain an element above `height+1`
(so a failed `AddItem` of a valid element means its index is already on the chain). -/
theorem queue_offers_only_next (cap h0 : Nat) (hc : 0 < cap) (as : List Act)
    (hcalm : Calm (init cap h0) as) (b : Elem) (pos : Nat) :
    let s := exec (init cap h0) as
    s.pc = .holding b pos → b.idx ≤ s.height + 1 := by
  intro s hp
  exact (fresh_exec _ as (inv_init cap h0 hc) (fresh_init cap h0) hcalm).holding b pos hp

example : Calm (init 4 0) [.run, .put (el 1 0) 0, .run, .run, .run] ∧
    (exec (init 4 0) [.run, .put (el 1 0) 0, .run, .run, .run]).pc = .holding (el 1 0) 1 := by
  exact ⟨(calm_iff _ _).2 (by decide), by decide⟩

/-- C20 (queue, no loss): in calm interleavings a valid element that sits in the ring stays `Retained`
for ever after: its index is on the chain, or it is still in its slot, or `Run` is holding it for
`AddItem`. -/
theorem queue_no_loss (cap h0 : Nat) (hc : 0 < cap) (pre post : List Act) (x : Elem) (hok : x.ok = true)
    (hcalm : Calm (init cap h0) (pre ++ post))
    (hin : (exec (init cap h0) pre).ring (posOf cap x.idx) = some x) :
    Retained (exec (init cap h0) (pre ++ post)) x := by
  have hexec : ∀ (s : State) (as bs : List Act), exec s (as ++ bs) = exec (exec s as) bs := by
    intro s as bs; induction as generalizing s with
    | nil => rfl
    | cons a r ih => exact ih _
  rw [calm_append] at hcalm
  rw [hexec]
  have hi := inv_exec _ pre (inv_init cap h0 hc)
  have hcap : (exec (init cap h0) pre).cap = cap := by
    have : ∀ (s : State) (as : List Act), (exec s as).cap = s.cap := by
      intro s as; induction as generalizing s with
      | nil => rfl
      | cons a r ih =>
        rw [exec, ih]
        cases a with
        | put e hr => exact (put_frame s e _).2.2.1
        | adv => rfl
        | disc => simp only [apply, discard]; split <;> rfl
        | run =>
          simp only [apply, runStep]; split <;> try rfl
          unfold wake; split
          · rfl
          · split <;> rfl
    exact this _ _
  exact retained_exec _ post x hi (fresh_exec _ pre (inv_init cap h0 hc) (fresh_init cap h0) hcalm.1) hok hcalm.2
    (.inr (.inl (by rw [hcap]; exact hin)))

/-- C20 (queue, progress): take any state reached by a calm interleaving in which every index in
`(height, m]` has a valid element in its slot and `Run` is inside its loop or has a signal pending.
Then `Run`, executed alone, brings the chain to height `m` (or beyond). -/
theorem queue_reaches (cap h0 : Nat) (hc : 0 < cap) (as : List Act) (hcalm : Calm (init cap h0) as) (m : Nat) :
    let s := exec (init cap h0) as
    Filled s m → Active s → ∃ n, m ≤ (runN n s).height := by
  intro s hf ha
  have hnd : ∀ (t : State) (bs : List Act), Calm t bs → t.discarded = false → (exec t bs).discarded = false := by
    intro t bs; induction bs generalizing t with
    | nil => intro _ h; exact h
    | cons a r ih => intro hc' h; exact ih _ hc'.2.2 (nd_apply t a hc'.2.1 h)
  exact reaches s m
    ⟨inv_exec _ as (inv_init cap h0 hc), fresh_exec _ as (inv_init cap h0 hc) (fresh_init cap h0) hcalm,
     hnd _ as hcalm rfl, fun _ => ⟨hf, ha⟩⟩

/-- C20 (queue, progress is not lost by interference): the premise of `queue_reaches` survives every
further calm step of every party (puts, external additions, `Run` itself) until height `m` is reached. -/
theorem queue_reaches_stable (cap h0 : Nat) (hc : 0 < cap) (as bs : List Act)
    (hcalm : Calm (init cap h0) (as ++ bs)) (m : Nat) :
    let s := exec (init cap h0) as
    let s' := exec (init cap h0) (as ++ bs)
    Filled s m → Active s → s'.height < m → Filled s' m ∧ Active s' := by
  intro s s' hf ha
  have hexec : ∀ (s : State) (as bs : List Act), exec s (as ++ bs) = exec (exec s as) bs := by
    intro s as bs; induction as generalizing s with
    | nil => rfl
    | cons a r ih => exact ih _
  have hnd : ∀ (t : State) (bs : List Act), Calm t bs → t.discarded = false → (exec t bs).discarded = false := by
    intro t bs; induction bs generalizing t with
    | nil => intro _ h; exact h
    | cons a r ih => intro hc' h; exact ih _ hc'.2.2 (nd_apply t a hc'.2.1 h)
  rw [calm_append] at hcalm
  have g : Good s m :=
    ⟨inv_exec _ as (inv_init cap h0 hc), fresh_exec _ as (inv_init cap h0 hc) (fresh_init cap h0) hcalm.1,
     hnd _ as hcalm.1 rfl, fun _ => ⟨hf, ha⟩⟩
  have gs : ∀ (t : State) (bs : List Act), Calm t bs → Good t m → Good (exec t bs) m := by
    intro t bs; induction bs generalizing t with
    | nil => intro _ h; exact h
    | cons a r ih => intro hc' h; exact ih _ hc'.2.2 (good_apply t m a hc'.1 hc'.2.1 h)
  have g' : Good s' m := by
    show Good (exec (init cap h0) (as ++ bs)) m
    rw [hexec]; exact gs s bs hcalm.2 g
  exact g'.go

/-- C20 (queue, fair progress under interference): take any state reached by a calm interleaving in which
every index in `(height, m]` has a valid element in its slot and `Run` is inside its loop or has a signal
pending. Let the parties go on in ANY calm way — producers putting anything with any stale height, other
writers adding blocks (outside `Run`'s read-to-lock window), `Run` stepping whenever it is scheduled. As soon
as `Run` has been scheduled for `5·(m − height) + 7` steps, whatever happened in between, the chain is at
height `m` or beyond. (No assumption on the order or number of the other parties' steps: the only fairness
needed is that `Run` gets its steps.) -/
theorem queue_reaches_fair (cap h0 : Nat) (hc : 0 < cap) (as bs : List Act)
    (hcalm : Calm (init cap h0) (as ++ bs)) (m : Nat) :
    let s := exec (init cap h0) as
    Filled s m → Active s → 5 * (m - s.height) + 7 ≤ bs.count .run →
    m ≤ (exec (init cap h0) (as ++ bs)).height := by
  intro s hf ha hn
  have hexec : ∀ (s : State) (as bs : List Act), exec s (as ++ bs) = exec (exec s as) bs := by
    intro s as bs; induction as generalizing s with
    | nil => rfl
    | cons a r ih => exact ih _
  have hnd : ∀ (t : State) (bs : List Act), Calm t bs → t.discarded = false → (exec t bs).discarded = false := by
    intro t bs; induction bs generalizing t with
    | nil => intro _ h; exact h
    | cons a r ih => intro hc' h; exact ih _ hc'.2.2 (nd_apply t a hc'.2.1 h)
  rw [calm_append] at hcalm
  have g : Good s m :=
    ⟨inv_exec _ as (inv_init cap h0 hc), fresh_exec _ as (inv_init cap h0 hc) (fresh_init cap h0) hcalm.1,
     hnd _ as hcalm.1 rfl, fun _ => ⟨hf, ha⟩⟩
  rw [hexec]
  exact reaches_fair s m bs g hcalm.2 hn

-- non-vacuity: 12 and 13 queued, 11 arrives late, producers and another writer interfere; 22 Run steps
example :
    let as : List Act := [.run, .put (el 12 0) 10, .put (el 13 1) 10, .put (el 11 2) 10]
    let bs : List Act := [.run, .put (el 14 3) 10, .run, .run, .adv, .run, .run, .put (el 11 4) 10, .run, .run,
      .run, .run, .run, .put (el 30 5) 11, .run, .run, .run, .run, .run, .run, .run, .run, .run, .run, .run, .run, .run, .run]
    Calm (init 4 10) (as ++ bs) ∧ 5 * (13 - (exec (init 4 10) as).height) + 7 ≤ bs.count .run ∧
    13 ≤ (exec (init 4 10) (as ++ bs)).height := by
  refine ⟨(calm_iff _ _).2 (by decide), by decide, by decide⟩

-- non-vacuity of `queue_reaches`/`queue_reaches_stable`: 11,12,13 queued behind a sleeping `Run` with a signal
example :
    let as : List Act := [.run, .put (el 12 0) 10, .put (el 13 1) 10, .put (el 11 2) 10]
    let s := exec (init 4 10) as
    Calm (init 4 10) as ∧ Filled s 13 ∧ Active s ∧ (runN 14 s).height = 13 := by
  refine ⟨(calm_iff _ _).2 (by decide), ?_, .inl (by decide), by decide⟩
  intro i h1 h2
  have h1' : 10 < i := h1
  have : i = 11 ∨ i = 12 ∨ i = 13 := by omega
  rcases this with rfl | rfl | rfl
  · exact ⟨el 11 2, by decide, rfl, rfl⟩
  · exact ⟨el 12 0, by decide, rfl, rfl⟩
  · exact ⟨el 13 1, by decide, rfl, rfl⟩

/-- C20 (queue): the clean-up loop of `Run` (queue.go:105-111) is dead code for every capacity ≥ 2: in
every reachable state it leaves the ring and `len` untouched, whatever range of heights it is run over. -/
theorem queue_cleanup_dead (cap h0 : Nat) (hc : 2 ≤ cap) (as : List Act) (n i : Nat) :
    let s := exec (init cap h0) as
    cleanup s.cap n i s.ring s.len = (s.ring, s.len) := by
  intro s
  have hi := inv_exec _ as (inv_init cap h0 (by omega))
  have hcap : s.cap = cap := by
    have : ∀ (s : State) (as : List Act), (exec s as).cap = s.cap := by
      intro s as; induction as generalizing s with
      | nil => rfl
      | cons a r ih =>
        rw [exec, ih]
        cases a with
        | put e hr => exact (put_frame s e _).2.2.1
        | adv => rfl
        | disc => simp only [apply, discard]; split <;> rfl
        | run =>
          simp only [apply, runStep]; split <;> try rfl
          unfold wake; split
          · rfl
          · split <;> rfl
    exact this _ _
  exact cleanup_dead s.cap n i s.ring s.len (by omega) hi.slot

/-- C20 (queue, what the drift of `len`/`lastQ` can and cannot affect): the queue never reads `len` or
`lastQ` for a decision. Two runs of the same interleaving started from states that differ only in these two
fields agree, step for step, on the ring, on `Run`'s position, on the chain and on its whole event log. So
the drift proved in `queue_len_drift_witness` is confined to what `LastQueued` reports (and, outside the
model, to what `Server.requestBlocks` does with it); ordering, at-most-once, retention and progress are
unaffected. -/
theorem queue_counters_write_only (s t : State) (as : List Act) (h : SameButCounters s t) :
    SameButCounters (exec s as) (exec t as) :=
  sameButCounters_exec s t as h

example : SameButCounters (init 4 7) { init 4 7 with len := -3, lastQ := 99 } ∧
    (exec { init 4 7 with len := -3, lastQ := 99 } [.run, .put (el 8 0) 7, .run, .run, .run, .run]).height = 8 := by
  refine ⟨⟨rfl, rfl, rfl, rfl, rfl, rfl, rfl, rfl⟩, by decide⟩

/-! ### The code as written violates the property outside calm interleavings (and drifts inside) -/

theorem runN_blocked (n : Nat) (s : State) (h1 : s.pc = .wait) (h2 : s.signal = false)
    (h3 : s.discarded = false) : runN n s = s := by
  induction n with
  | zero => rfl
  | succ n ih =>
    have : runStep s = s := by simp [runStep, h1, wake, h2, h3]
    simp only [runN, this, ih]

/-- FINDING (stuck-ext). Blocks 12, 13 are queued, `Run` sleeps because 11 is missing; another writer of
the chain adds 11. Nobody signals `Run`: 12 and 13 are contiguous with the chain and valid, yet no number
of `Run` steps applies them (until some later in-window `Put`). Negation of "reaches the highest
contiguous block it was given" for interleavings with an external writer. -/
theorem queue_stuck_after_external_add_witness :
    let s := exec (init 4 10) [.run, .put (el 12 0) 10, .put (el 13 1) 10, .run, .run, .run, .adv]
    s.height = 11 ∧ s.ring (posOf 4 12) = some (el 12 0) ∧ s.ring (posOf 4 13) = some (el 13 1) ∧
    ∀ n, (runN n s).height = 11 := by
  refine ⟨by decide, by decide, by decide, ?_⟩
  intro n
  rw [runN_blocked n _ (by decide) (by decide) (by decide)]
  decide

/-- FINDING (additem-ahead-ext). `Run` reads height 5 outside the lock; another writer adds block 6; a
producer puts block 10 = 6 + cap (inside the window, same slot as 6); `Run`'s lock section takes it,
`AddItem(10)` fails at height 6 and the slot is cleared: a valid in-window block is lost unapplied.
Negation of `queue_no_loss` without the calmness hypothesis. -/
theorem queue_drops_window_top_on_race_witness :
    let pre : List Act := [.run, .put (el 7 0) 5, .run, .run, .adv, .put (el 10 1) 6]
    let s := exec (init 4 5) pre
    let s' := exec (init 4 5) (pre ++ [.run, .run, .run])
    s.ring (posOf 4 10) = some (el 10 1) ∧ s.height < 10 ∧ 10 ≤ s.height + 4 ∧
    ¬ Retained s' (el 10 1) ∧ s'.log = [.ext 6, .add (el 10 1) false] := by
  refine ⟨by decide, by decide, by decide, ?_, by decide⟩
  intro h
  rcases h with h | h | ⟨p, h⟩
  · revert h; decide
  · revert h; decide
  · have hpc : (exec (init 4 5) ([.run, .put (el 7 0) 5, .run, .run, .adv, .put (el 10 1) 6] ++ [.run, .run, .run])).pc = .top := by
      decide
    rw [hpc] at h; cases h

/-- FINDING (len-drift). Two producers deliver block 1, the second one read the height before the first
copy was applied; the stale copy stays in slot 1 (the clean-up loop never removes anything) and is counted
again when block 5 replaces it. After everything is applied the ring is empty, `Run` sleeps, and
`LastQueued` reports 3 free slots of 4. The interleaving is calm (no external writer at all). -/
theorem queue_len_drift_witness :
    let as : List Act := [.run, .put (el 1 0) 0, .run, .run, .run, .run, .run, .run, .run,
      .put (el 1 1) 0, .run, .run, .run,
      .put (el 5 2) 1, .put (el 2 3) 1, .put (el 3 4) 1, .put (el 4 5) 1] ++ List.replicate 24 .run
    let s := exec (init 4 0) as
    Calm (init 4 0) as ∧ s.height = 5 ∧ s.pc = .wait ∧ (∀ p, p < 4 → s.ring p = none) ∧
    lastQueued s = (5, 3) := by
  exact ⟨(calm_iff _ _).2 (by decide), by decide, by decide, by decide, by decide⟩

end NeoModel.Queue

namespace NeoModel.StateSync

/-! ## Part (b): state synchronisation (MPT-based mode), model `Model/StateSync.lean` -/

/-- What a peer sends: a decodable node (the receiver computes its hash with `H`) or undecodable bytes. -/
def recv (H : SNode → Hash) : Option SNode → Item
  | some n => .node (H n) n
  | none => .garbage

/-- What happens to the module over its lifetime: `AddMPTNodes` calls with whatever peers send, and
restarts (module re-created from the DB). -/
def recvEv (H : SNode → Hash) : Option (List (Option SNode)) → Ev
  | some items => .batch (items.map (recv H))
  | none => .restart

/-- C20 (state sync, exactness — every delivery order × batching × duplication × wrong data × restart
point). `db` is the node table of the source trie (well-formed as every MPT is, `wf`; acyclic, `hrk`),
`H` a collision-free hash under which `db` is keyed, `fuel` above the depth of the trie (the Go code
recurses without a bound). Feed the module ANY sequence of events: batches of ANY items — trie nodes in
any order, duplicated, not yet requested, foreign nodes, undecodable bytes — and restarts, at which the
pool is rebuilt from the store by `defineSyncStage`'s traversal (`rebuild`). Then
(1) every `(hash, path)` ever restored is a position of the trie, each at most once; the reference counter
of a hash is the number of its restored positions; the temporary storage holds exactly the leaf values of
the restored positions; and no pending position has its node in the store already;
(2) once the pool is empty, the restored positions are exactly the positions of the trie: every node of the
trie is in the store, the counter of `h` equals the number of positions of `h`, and the temporary storage is
exactly the key-value content of the trie.
(`Billet.RestoreHashNode`'s walk through the in-memory billet is represented by its contract, see
Model/StateSync.lean; its agreement with the real billet is what the `sync` stream checks.) -/
theorem billet_restore_exact (H : SNode → Hash) (hinj : ∀ a b, H a = H b → a = b)
    (db : Hash → Option SNode) (root : Hash) (hkey : ∀ h m, db h = some m → H m = h)
    (wf : WF db root) (rk : Hash → Nat) (hrk : Ranked db rk) (fuel : Nat)
    (hfuel : ∀ h m, db h = some m → rk h < fuel) (evs : List (Option (List (Option SNode)))) :
    let s := runEvs db fuel root (MS.init root) (evs.map (recvEv H))
    (∀ x ∈ s.done, Pos db root x.1 x.2) ∧ s.done.Nodup ∧
    (∀ h, s.refs h = (s.done.filter (fun x => x.1 == h)).length) ∧
    (∀ p v, (p, v) ∈ s.temp ↔ ∃ h n, (h, p) ∈ s.done ∧ db h = some n ∧ n.val = some v) ∧
    (∀ x ∈ s.pool, s.refs x.1 = 0) ∧
    (s.pool = [] →
      (∀ h p, Pos db root h p ↔ (h, p) ∈ s.done) ∧
      (∀ h p, Pos db root h p → 0 < s.refs h) ∧
      (∀ p v, (p, v) ∈ s.temp ↔ ∃ h n, Pos db root h p ∧ db h = some n ∧ n.val = some v)) := by
  intro s
  have hok : ∀ e ∈ evs.map (recvEv H), EvOk db e := by
    intro e he
    simp only [List.mem_map] at he
    obtain ⟨e0, _, rfl⟩ := he
    cases e0 with
    | none => trivial
    | some items =>
      intro it hit
      simp only [List.mem_map] at hit
      obtain ⟨x, _, rfl⟩ := hit
      cases x with
      | none => trivial
      | some n => intro m hm; exact hinj _ _ (hkey _ m hm).symm
  obtain ⟨hi, hcl⟩ := inv_runEvs db root wf rk hrk fuel hfuel _ _ (inv_init db root) (clean_init root) hok
  refine ⟨hi.donePos, hi.doneNodup, hi.refsEq, hi.tempEq, hcl, ?_⟩
  intro he
  have hall : ∀ h p, Pos db root h p ↔ (h, p) ∈ s.done :=
    fun h p => ⟨complete db root s hi he h p, fun hd => hi.donePos _ hd⟩
  refine ⟨hall, ?_, ?_⟩
  · intro h p hp
    rw [hi.refsEq]
    apply List.length_pos_of_mem (a := (h, p))
    have hm : (h, p) ∈ s.done := (hall h p).1 hp
    simp only [List.mem_filter, beq_self_eq_true, and_true]
    exact hm
  · intro p v
    rw [hi.tempEq]
    constructor
    · rintro ⟨h, n, hd, hn, hv⟩; exact ⟨h, n, (hall h p).2 hd, hn, hv⟩
    · rintro ⟨h, n, hp, hn, hv⟩; exact ⟨h, n, (hall h p).1 hp, hn, hv⟩

/-- C20 (state sync, restart points): at every point of every such history, the pool that
`defineSyncStage` reconstructs from the store (Billet.Traverse over the stored nodes with the callback as
fixed in 0dd24d5) is exactly the pool the uninterrupted module holds — the same set, without duplicates.
A restart therefore loses nothing and asks for nothing twice. -/
theorem rebuild_exact (H : SNode → Hash) (hinj : ∀ a b, H a = H b → a = b)
    (db : Hash → Option SNode) (root : Hash) (hkey : ∀ h m, db h = some m → H m = h)
    (wf : WF db root) (rk : Hash → Nat) (hrk : Ranked db rk) (fuel : Nat)
    (hfuel : ∀ h m, db h = some m → rk h < fuel) (evs : List (Option (List (Option SNode)))) :
    let s := runEvs db fuel root (MS.init root) (evs.map (recvEv H))
    (∀ x, x ∈ (rebuild db fuel root s).pool ↔ x ∈ s.pool) ∧ (rebuild db fuel root s).pool.Nodup := by
  intro s
  have hok : ∀ e ∈ evs.map (recvEv H), EvOk db e := by
    intro e he
    simp only [List.mem_map] at he
    obtain ⟨e0, _, rfl⟩ := he
    cases e0 with
    | none => trivial
    | some items =>
      intro it hit
      simp only [List.mem_map] at hit
      obtain ⟨x, _, rfl⟩ := hit
      cases x with
      | none => trivial
      | some n => intro m hm; exact hinj _ _ (hkey _ m hm).symm
  obtain ⟨hi, hcl⟩ := inv_runEvs db root wf rk hrk fuel hfuel _ _ (inv_init db root) (clean_init root) hok
  exact rebuild_pool db root wf rk hrk fuel s hi hcl hfuel

/-- C20 (state sync, wrong data is rejected and harmless): a node whose hash the module does not ask for
(foreign, not yet requested, already restored — whatever its content) changes nothing at all; undecodable
bytes end the batch with an error and leave the state as the preceding items made it. -/
theorem wrong_data_rejected_harmless (db : Hash → Option SNode) (fuel : Nat) (s : MS) (h : Hash) (n : SNode)
    (rest : List Item) (hu : ∀ q, (h, q) ∉ s.pool) :
    restoreNode db fuel s h n = s ∧
    deliver db fuel s (.node h n :: rest) = deliver db fuel s rest ∧
    deliver db fuel s (.garbage :: rest) = (s, false) := by
  refine ⟨restoreNode_unrequested db fuel s h n hu, ?_, rfl⟩
  simp only [deliver, restoreNode_unrequested db fuel s h n hu]

/-! a small trie for the examples: root 0 = branch {0 ↦ 1, 1 ↦ 2, 2 ↦ 2}; 1, 2 leaves -/
def exDb : Hash → Option SNode
  | 0 => some { val := none, kids := [([0], 1), ([1], 2), ([2], 2)] }
  | 1 => some { val := some 11, kids := [] }
  | 2 => some { val := some 22, kids := [] }
  | _ => none

-- non-vacuity: out of order, duplicated, with a foreign node and garbage in between: completes exactly
example :
    let n (i : Nat) : Item := match exDb i with | some x => .node i x | none => .garbage
    let s := batches exDb 5 (MS.init 0) [[n 2, n 0, .garbage, n 1], [.node 77 { val := some 1, kids := [] }, n 2, n 2], [n 1]]
    s.pool = [] ∧ s.done = [(0, []), (2, [1]), (2, [2]), (1, [0])] ∧ s.refs 2 = 2 ∧
    s.temp = [([1], 22), ([2], 22), ([0], 11)] := by decide

-- The repro of the restart panic fixed by 0dd24d5: root and leaf 2 are stored, leaf 1 is still missing;
-- the traversal meets leaf 2 at two positions. As fixed, the reconstruction returns the pending set.
example :
    let n (i : Nat) : Item := match exDb i with | some x => .node i x | none => .garbage
    let s := batches exDb 5 (MS.init 0) [[n 0, n 2]]
    s.pool = [(1, [0])] ∧ (rebuild exDb 5 0 s).pool = [(1, [0])] := by decide

-- non-vacuity of `billet_restore_exact` with restarts: restart, root, restart, leaf 2 twice, garbage, restart, leaf 1
example :
    let n (i : Nat) : Item := match exDb i with | some x => .node i x | none => .garbage
    let s := runEvs exDb 5 0 (MS.init 0)
      [.restart, .batch [n 0], .restart, .batch [n 2, n 2, .garbage, n 1], .restart, .batch [n 1]]
    s.pool = [] ∧ s.done = [(0, []), (2, [1]), (2, [2]), (1, [0])] ∧ s.refs 2 = 2 := by decide

-- the example table meets the shape hypotheses (rank: root 1, leaves 0)
example : Ranked exDb (fun h => if h = 0 then 1 else 0) := by
  intro h n k hn hk
  match h, hn with
  | 0, hn => cases hn; simp at hk; rcases hk with rfl | rfl | rfl <;> decide
  | 1, hn => cases hn; cases hk
  | 2, hn => cases hn; cases hk

/-! ### Storage-item mode (raw contract storage items, checkpoint + intermediate root)

Over the C10 trie model `NeoModel.Mpt` (local trie = `Mpt.Node`, MapToMPTBatch + PutBatch, StateRoot).
`hcommit` is the collision-freeness of the state-root commitment on well-formed tries (different tries have
different roots); `Mpt.canonical`, `Mpt.lookup_putBatch_map`, `Mpt.wf_putBatch` are C10's theorems. -/

/-- C20 (storage-item mode, exactness). `t0` is the state trie at the sync point and `rootHash H t0` the root
the module was given. After ANY sequence of `AddContractStorageItems` batches — any items, any order, keys
repeated within and across batches, wrong values — and restarts (stage recomputed from the persisted
checkpoint, a no-op as shown in `restartItems_id`): the local trie is well-formed and has exactly the
contents of the temporary storage, and — once a batch was stored — the module reports "in sync"
(`computedRoot = root`) iff the temporary storage is exactly the content of `t0`. A wrong or missing item
therefore never ends in "in sync", and a complete correct set always does. -/
theorem storage_mode_exact (H : Bytes → Bytes) (t0 : Mpt.Node) (hw : Mpt.WF t0)
    (hcommit : ∀ a b, Mpt.WF a → Mpt.WF b → Mpt.rootHash H a = Mpt.rootHash H b → a = b)
    (evs : List ItemEv) :
    let s := runItemEvs H (Mpt.rootHash H t0) (ItemSt.init Mpt.Node.empty) evs
    Mpt.WF s.trie ∧ (∀ q, Mpt.lookup s.trie q = s.temp q) ∧ restartItems s = s ∧
    (s.synced = true → s.ckpt ≠ none) ∧
    (s.ckpt ≠ none → (s.synced = true ↔ ∀ q, s.temp q = Mpt.lookup t0 q)) := by
  intro s
  have hi : ItemInv H (Mpt.rootHash H t0) s := itemInv_run H _ _ evs (itemInv_init H _)
  exact ⟨hi.wf, hi.same, restartItems_id H _ s hi, fun h => (hi.stage.1 h).1,
    fun hc => synced_iff H t0 hw hcommit s hi hc⟩

-- non-vacuity: for any commitment-collision-free `H`, a restart and then the two items of a two-key state
-- (in the "wrong" order, one of them twice) end in sync
example (H : Bytes → Bytes)
    (hcommit : ∀ a b, Mpt.WF a → Mpt.WF b → Mpt.rootHash H a = Mpt.rootHash H b → a = b) :
    let t0 := Mpt.put (Mpt.put .empty [1, 2] [7]) [1, 3] [8]
    (runItemEvs H (Mpt.rootHash H t0) (ItemSt.init Mpt.Node.empty)
      [.restart, .batch [([1, 3], [9]), ([1, 3], [8]), ([1, 2], [7])]]).synced = true := by
  intro t0
  have hw : Mpt.WF t0 := Mpt.wf_put _ _ _ (Mpt.wf_put _ _ _ (by simp [Mpt.WF]))
  have h := storage_mode_exact H t0 hw hcommit [.restart, .batch [([1, 3], [9]), ([1, 3], [8]), ([1, 2], [7])]]
  refine (h.2.2.2.2 ?_).2 ?_
  · simp [runItemEvs, runItemEv, restartItems, addItems, ItemSt.init]
  · intro q
    have ht : (runItemEvs H (Mpt.rootHash H t0) (ItemSt.init Mpt.Node.empty)
        [.restart, .batch [([1, 3], [9]), ([1, 3], [8]), ([1, 2], [7])]]).temp q =
        ((goMap [(([1, 3] : Mpt.Path), ([9] : Mpt.Val)), ([1, 3], [8]), ([1, 2], [7])]).lookup q).or none := by
      simp [runItemEvs, runItemEv, restartItems, addItems, ItemSt.init]
    rw [ht]
    simp only [t0, Mpt.lookup_put]
    by_cases h1 : q = [1, 3]
    · subst h1; decide
    · by_cases h2 : q = [1, 2]
      · subst h2; decide
      · have e1 : (q == [1, 3]) = false := by simpa using h1
        have e2 : (q == [1, 2]) = false := by simpa using h2
        simp [goMap, List.lookup, e1, e2, h1, h2, Mpt.lookup]

/-- C20 (storage-item mode, key order with restarts). The NeoFS state fetcher streams the items of the state
object in their order (`items`, pairwise different keys), in batches of any sizes, and after every restart
resumes behind the last stored key. For every such run: (1) "in sync" implies the temporary storage is
exactly the content of `t0`; (2) if the object's content is the content of `t0`, then once the stream is
exhausted the module is in sync — however the stream was cut into batches and wherever the restarts fell;
equivalently, if the module is not in sync at the end of the stream, the object was wrong. -/
theorem storage_mode_ordered (H : Bytes → Bytes) (t0 : Mpt.Node) (hw : Mpt.WF t0)
    (hcommit : ∀ a b, Mpt.WF a → Mpt.WF b → Mpt.rootHash H a = Mpt.rootHash H b → a = b)
    (items : List (Mpt.Path × Mpt.Val)) (hne : items ≠ []) (hnd : (items.map (·.1)).Nodup)
    (evs : List StreamEv) :
    let f := streamRun H (Mpt.rootHash H t0) items evs
    (f.s.synced = true → ∀ q, f.s.temp q = Mpt.lookup t0 q) ∧
    (f.pending = [] → (∀ q, items.lookup q = Mpt.lookup t0 q) → f.s.synced = true) := by
  intro f
  have hi := streamInv_run H (Mpt.rootHash H t0) items hnd evs
  constructor
  · intro hs
    exact (synced_iff H t0 hw hcommit f.s hi.inv ((hi.inv.stage.1 hs).1)).1 hs
  · intro hp hall
    cases hs : f.s.synced with
    | true => rfl
    | false =>
      obtain ⟨pos, h1, _, h3, h4⟩ := hi.pos hs
      have hp' : items.drop pos = [] := by rw [← h1]; exact hp
      have hlen : items.length ≤ pos := List.drop_eq_nil_iff.1 hp'
      have htake : items.take pos = items := List.take_of_length_le hlen
      rw [htake] at h3 h4
      have := (synced_iff H t0 hw hcommit f.s hi.inv (h4 hne)).2 (fun q => by rw [h3 q, hall q])
      rw [hs] at this; exact this

/-- C20 (state sync, blocks stage): only the block's own transaction list is accepted. `txh i` is the hash
of transaction `i`, `h2 l r` the hash of an inner Merkle node, `z` the zero hash; collision-freeness of
these hashes (different Merkle terms have different values) is the hypothesis `hcf`. For a block whose
transactions `orig` are pairwise different, `AddBlock`'s body check — `CalcMerkleRoot` of the delivered
transaction hashes (with its duplication of the last element of an odd level) equals the header's root,
and no transaction hash occurs twice — passes for `body` iff `body = orig`. So under the genuine header a
stripped, shortened, extended, reordered, partly or wholly foreign list is rejected, and so is the list with
a repeated tail whose Merkle root coincides with the header's. -/
theorem acceptsBody_iff (txh : Nat → Nat) (h2 : Nat → Nat → Nat) (z : Nat) (hcf : CollisionFree txh h2 z)
    (orig body : List Nat) (ho : orig.Nodup) : acceptsBodyH txh h2 z orig body = true ↔ body = orig :=
  acceptsBodyH_iff' txh h2 z hcf orig body ho

-- non-vacuity: the collision-freeness hypothesis is satisfiable, and then e.g. the dropped-transaction body fails
example : acceptsBodyH (fun i => 2 * i + 1) (fun a b => 2 * Nat.pair a b + 2) 0 [0, 1, 2] [0, 1] = false := by
  have := (acceptsBody_iff _ _ 0 collisionFree_example [0, 1, 2] [0, 1] (by decide)).not.2 (by decide)
  simpa using this

-- Regression example for the defect fixed by 6817c0b (found by this check as tampered-block-accepted-dup-last):
-- `CalcMerkleRoot` duplicates the last hash of an odd level, so for a block `[0,1,2]` the list `[0,1,2,2]`
-- has the same Merkle root (first conjunct); statesync's `AddBlock` used to accept it under the genuine
-- header. With the repeated-transaction check it is rejected, like stripped, shortened, reordered and
-- foreign lists; only the block's own list passes.
example :
    merkleMatches [0, 1, 2] [0, 1, 2, 2] = true ∧ acceptsBody [0, 1, 2] [0, 1, 2, 2] = false ∧
    acceptsBody [0, 1, 2] [] = false ∧ acceptsBody [0, 1, 2] [0, 1] = false ∧
    acceptsBody [0, 1, 2] [0, 2, 1] = false ∧ acceptsBody [0, 1, 2] [0, 1, 2, 1000] = false ∧
    acceptsBody [0, 1, 2, 3] [0, 1, 2, 3, 3] = false ∧ acceptsBody [0, 1, 2] [0, 1, 2] = true := by decide

end NeoModel.StateSync
