/-
C20 — syncing converges to the same chain and state. Property theorems only
(helper lemmas and the definitions `Inv`, `Calm`, `Fresh`, `Retained`, `Filled`, `Active`, `Good`
live in Proofs/Queue*.lean; the model is Model/Queue.lean).

Part (a): the block queue `pkg/network/bqueue`. All theorems quantify over every capacity, start
height and every interleaving (`List Act`) of the model's atomic steps: producer puts with arbitrarily
stale heights, single steps of the `Run` goroutine, blocks added to the chain by another writer,
`Discard`. "Calm" interleavings exclude `Discard` and one specific race (an external addition between
`Run`'s unlocked height read and its lock section); the race and two further defects of the code as
written are proved on concrete witnesses below (`…_witness`), they are the replays of the findings.
-/
import NeoModel.Model.Queue
import NeoModel.Proofs.QueueChain
import NeoModel.Proofs.QueueReach
import NeoModel.Proofs.QueueCounters
import NeoModel.Proofs.QueueFair
import NeoModel.Proofs.QueueNoExt
import NeoModel.Proofs.QueueDrift
import NeoModel.Proofs.QueueWake
import NeoModel.Proofs.QueueNotify
import NeoModel.Proofs.ChainAdd
import NeoModel.Model.StateSync
import NeoModel.Proofs.StateSyncRestore
import NeoModel.Proofs.StateSyncRebuild
import NeoModel.Proofs.StateSyncMerkle
import NeoModel.Proofs.StateSyncItems
import NeoModel.Proofs.BilletProgress
import NeoModel.Proofs.SyncStageInv
namespace NeoModel.Queue

private def el (i t : Nat) : Elem := { idx := i, tag := t, ok := true }

/-- C20 (queue, order/once): for every capacity, start height and every interleaving of producer puts
(with arbitrarily stale heights), steps of `Run`, blocks added by other writers and `Discard`, the
indices applied to the chain (successful `AddItem`s of the queue and external additions, in order of
application) are exactly `h0+1, h0+2, …, height`: strictly in index order, each once, no gap. -/
theorem queue_in_order_once (cap h0 : Nat) (as : List Act) :
    let s := exec (init cap h0) as
    h0 ≤ s.height ∧ applied s.log = List.range' (h0 + 1) (s.height - h0) :=
  chainInv_exec h0 _ as ⟨Nat.le_refl _, by simp [init, applied]⟩

-- non-vacuity: a schedule with a duplicate, an out-of-order put and an external block applies 1,2,3
example :
    let s := exec (init 4 0)
      [.run, .put (el 2 0) 0, .put (el 1 1) 0, .put (el 1 2) 0, .run, .run, .run, .run, .adv, .run, .run, .run, .run,
       .put (el 3 3) 2, .run, .run, .run, .run, .run]
    applied s.log = [1, 2, 3] ∧ s.height = 3 := by decide

/-- C20 (queue, ring): in every reachable state (any interleaving, races included) a `Put` — whatever
element, whatever stale height its producer read — never overwrites a slot holding an element above the
chain height (a not-yet-applied block). -/
theorem ring_no_overwrite (cap h0 : Nat) (hc : 0 < cap) (as : List Act) (e : Elem) (hr p : Nat) (x : Elem) :
    let s := exec (init cap h0) as
    s.ring p = some x → s.height < x.idx → (apply s (.put e hr)).ring p = some x := by
  intro s hx hl
  exact put_keeps s (inv_exec _ as (inv_init cap h0 hc)) e _ (Nat.min_le_right _ _) p x hx hl

-- non-vacuity: slot 1 holds block 5; a put of 9 (same slot, outside the window) and of 5' leave it there
example :
    let s := exec (init 4 3) [.put (el 5 0) 3]
    s.ring 1 = some (el 5 0) ∧ s.height < 5 ∧
    (apply s (.put (el 9 1) 3)).ring 1 = some (el 5 0) ∧ (apply s (.put (el 5 2) 3)).ring 1 = some (el 5 0) := by
  decide

/-- C20 (queue): in EVERY interleaving — producers with stale heights, external chain additions at any moment
(also between `Run`'s height read and its lock section), Discard — `Run` never offers the chain an element
above `height+1` (so a failed `AddItem` of a valid element means its index is already on the chain). Since the
guard `b.GetIndex() > h+1 → continue` of `Run` no calmness is needed. -/
theorem queue_offers_only_next (cap h0 : Nat) (hc : 0 < cap) (as : List Act) (b : Elem) (pos : Nat) :
    let s := exec (init cap h0) as
    s.pc = .holding b pos → b.idx ≤ s.height + 1 := by
  intro s hp
  exact (offer_exec _ as (inv_init cap h0 hc) (offer_init cap h0)).holding b pos hp

-- non-vacuity: the schedule of the former finding additem-ahead-ext (external addition between read and lock, then
-- a put of the new window's top into that slot): `Run` does not take block 10 at height 6, it re-reads the height
example :
    let as : List Act := [.run, .put (el 7 0) 5, .run, .run, .adv, .put (el 10 1) 6, .run]
    (exec (init 4 5) as).pc = .top ∧ (exec (init 4 5) (as ++ [.run, .run])).pc = .holding (el 7 0) (posOf 4 7) := by
  decide

/-- C20 (queue, no loss — every schedule without Discard): a valid element that sits in the ring stays `Retained`
for ever after — its index is on the chain, or it is still in its slot, or `Run` is holding it for `AddItem` —
whatever producers (any stale heights), `Run` and external writers of the chain do, external additions between
`Run`'s height read and its lock section included: `Run` never drops an in-window, not yet applied element. -/
theorem queue_no_loss (cap h0 : Nat) (hc : 0 < cap) (pre post : List Act) (x : Elem) (hok : x.ok = true)
    (hnd : ∀ a ∈ post, a ≠ .disc)
    (hin : (exec (init cap h0) pre).ring (posOf cap x.idx) = some x) :
    Retained (exec (init cap h0) (pre ++ post)) x := by
  have hexec : ∀ (s : State) (as bs : List Act), exec s (as ++ bs) = exec (exec s as) bs := by
    intro s as bs; induction as generalizing s with
    | nil => rfl
    | cons a r ih => exact ih _
  rw [hexec]
  have hi := inv_exec _ pre (inv_init cap h0 hc)
  have hcap : (exec (init cap h0) pre).cap = cap := exec_cap _ _
  exact retained_exec_all _ post x hi (offer_exec _ pre (inv_init cap h0 hc) (offer_init cap h0)) hok hnd
    (.inr (.inl (by rw [hcap]; exact hin)))

-- non-vacuity / regression for additem-ahead-ext: block 10 is put into the slot `Run` is about to read with a stale
-- height; after any number of further steps (here: `Run` applies 7, another writer adds 8 and 9) it is still there
example :
    let pre : List Act := [.run, .put (el 7 0) 5, .run, .run, .adv, .put (el 10 1) 6]
    let post : List Act := [.run, .run, .run, .run, .run, .run, .adv, .adv, .run, .run]
    (exec (init 4 5) pre).ring (posOf 4 10) = some (el 10 1) ∧
    (exec (init 4 5) (pre ++ post)).ring (posOf 4 10) = some (el 10 1) ∧ (exec (init 4 5) (pre ++ post)).height = 9 := by
  decide

/-- C20 (queue, progress): take any state reached by a calm interleaving in which every index in
`(height, m]` has a valid element in its slot and `Run` is inside its loop or has a signal pending.
Then `Run`, executed alone, brings the chain to height `m` (or beyond). -/
theorem queue_reaches (cap h0 : Nat) (hc : 0 < cap) (as : List Act) (hcalm : Calm (init cap h0) as) (m : Nat) :
    let s := exec (init cap h0) as
    Filled s m → Active s → ∃ n, m ≤ (runN n s).height := by
  intro s hf ha
  have hnd : ∀ (t : State) (bs : List Act), Calm t bs → t.discarded = false → (exec t bs).discarded = false := by
    intro t bs; induction bs generalizing t with
    | nil => intro _ h; exact h
    | cons a r ih => intro hc' h; exact ih _ hc'.2.2 (nd_apply t a hc'.2.1 h)
  exact reaches s m
    ⟨inv_exec _ as (inv_init cap h0 hc), fresh_exec _ as (inv_init cap h0 hc) (fresh_init cap h0) hcalm,
     hnd _ as hcalm rfl, fun _ => ⟨hf, ha⟩⟩

/-- C20 (queue, progress is not lost by interference): the premise of `queue_reaches` survives every
further calm step of every party (puts, external additions, `Run` itself) until height `m` is reached. -/
theorem queue_reaches_stable (cap h0 : Nat) (hc : 0 < cap) (as bs : List Act)
    (hcalm : Calm (init cap h0) (as ++ bs)) (m : Nat) :
    let s := exec (init cap h0) as
    let s' := exec (init cap h0) (as ++ bs)
    Filled s m → Active s → s'.height < m → Filled s' m ∧ Active s' := by
  intro s s' hf ha
  have hexec : ∀ (s : State) (as bs : List Act), exec s (as ++ bs) = exec (exec s as) bs := by
    intro s as bs; induction as generalizing s with
    | nil => rfl
    | cons a r ih => exact ih _
  have hnd : ∀ (t : State) (bs : List Act), Calm t bs → t.discarded = false → (exec t bs).discarded = false := by
    intro t bs; induction bs generalizing t with
    | nil => intro _ h; exact h
    | cons a r ih => intro hc' h; exact ih _ hc'.2.2 (nd_apply t a hc'.2.1 h)
  rw [calm_append] at hcalm
  have g : Good s m :=
    ⟨inv_exec _ as (inv_init cap h0 hc), fresh_exec _ as (inv_init cap h0 hc) (fresh_init cap h0) hcalm.1,
     hnd _ as hcalm.1 rfl, fun _ => ⟨hf, ha⟩⟩
  have gs : ∀ (t : State) (bs : List Act), Calm t bs → Good t m → Good (exec t bs) m := by
    intro t bs; induction bs generalizing t with
    | nil => intro _ h; exact h
    | cons a r ih => intro hc' h; exact ih _ hc'.2.2 (good_apply t m a hc'.1 hc'.2.1 h)
  have g' : Good s' m := by
    show Good (exec (init cap h0) (as ++ bs)) m
    rw [hexec]; exact gs s bs hcalm.2 g
  exact g'.go

/-- C20 (queue, fair progress under interference): take any state reached by a calm interleaving in which
every index in `(height, m]` has a valid element in its slot and `Run` is inside its loop or has a signal
pending. Let the parties go on in ANY calm way — producers putting anything with any stale height, other
writers adding blocks (outside `Run`'s read-to-lock window), `Run` stepping whenever it is scheduled. As soon
as `Run` has been scheduled for `5·(m − height) + 7` steps, whatever happened in between, the chain is at
height `m` or beyond. (No assumption on the order or number of the other parties' steps: the only fairness
needed is that `Run` gets its steps.) -/
theorem queue_reaches_fair (cap h0 : Nat) (hc : 0 < cap) (as bs : List Act)
    (hcalm : Calm (init cap h0) (as ++ bs)) (m : Nat) :
    let s := exec (init cap h0) as
    Filled s m → Active s → 5 * (m - s.height) + 7 ≤ bs.count .run →
    m ≤ (exec (init cap h0) (as ++ bs)).height := by
  intro s hf ha hn
  have hexec : ∀ (s : State) (as bs : List Act), exec s (as ++ bs) = exec (exec s as) bs := by
    intro s as bs; induction as generalizing s with
    | nil => rfl
    | cons a r ih => exact ih _
  have hnd : ∀ (t : State) (bs : List Act), Calm t bs → t.discarded = false → (exec t bs).discarded = false := by
    intro t bs; induction bs generalizing t with
    | nil => intro _ h; exact h
    | cons a r ih => intro hc' h; exact ih _ hc'.2.2 (nd_apply t a hc'.2.1 h)
  rw [calm_append] at hcalm
  have g : Good s m :=
    ⟨inv_exec _ as (inv_init cap h0 hc), fresh_exec _ as (inv_init cap h0 hc) (fresh_init cap h0) hcalm.1,
     hnd _ as hcalm.1 rfl, fun _ => ⟨hf, ha⟩⟩
  rw [hexec]
  exact reaches_fair s m bs g hcalm.2 hn

-- non-vacuity: 12 and 13 queued, 11 arrives late, producers and another writer interfere; 22 Run steps
example :
    let as : List Act := [.run, .put (el 12 0) 10, .put (el 13 1) 10, .put (el 11 2) 10]
    let bs : List Act := [.run, .put (el 14 3) 10, .run, .run, .adv, .run, .run, .put (el 11 4) 10, .run, .run,
      .run, .run, .run, .put (el 30 5) 11, .run, .run, .run, .run, .run, .run, .run, .run, .run, .run, .run, .run, .run, .run]
    Calm (init 4 10) (as ++ bs) ∧ 5 * (13 - (exec (init 4 10) as).height) + 7 ≤ bs.count .run ∧
    13 ≤ (exec (init 4 10) (as ++ bs)).height := by
  refine ⟨(calm_iff _ _).2 (by decide), by decide, by decide⟩

-- non-vacuity of `queue_reaches`/`queue_reaches_stable`: 11,12,13 queued behind a sleeping `Run` with a signal
example :
    let as : List Act := [.run, .put (el 12 0) 10, .put (el 13 1) 10, .put (el 11 2) 10]
    let s := exec (init 4 10) as
    Calm (init 4 10) as ∧ Filled s 13 ∧ Active s ∧ (runN 14 s).height = 13 := by
  refine ⟨(calm_iff _ _).2 (by decide), ?_, .inl (by decide), by decide⟩
  intro i h1 h2
  have h1' : 10 < i := h1
  have : i = 11 ∨ i = 12 ∨ i = 13 := by omega
  rcases this with rfl | rfl | rfl
  · exact ⟨el 11 2, by decide, rfl, rfl⟩
  · exact ⟨el 12 0, by decide, rfl, rfl⟩
  · exact ⟨el 13 1, by decide, rfl, rfl⟩

/-- C20 (queue, what the drift of `len`/`lastQ` can and cannot affect): the queue never reads `len` or
`lastQ` for a decision. Two runs of the same interleaving started from states that differ only in these two
fields agree, step for step, on the ring, on `Run`'s position, on the chain and on its whole event log. So
a mis-count of `len` (the former findings len-drift, len-undercount) is confined to what `LastQueued` reports (and, outside the
model, to what `Server.requestBlocks` does with it); ordering, at-most-once, retention and progress are
unaffected. -/
theorem queue_counters_write_only (s t : State) (as : List Act) (h : SameButCounters s t) :
    SameButCounters (exec s as) (exec t as) :=
  sameButCounters_exec s t as h

example : SameButCounters (init 4 7) { init 4 7 with len := -3, lastQ := 99 } ∧
    (exec { init 4 7 with len := -3, lastQ := 99 } [.run, .put (el 8 0) 7, .run, .run, .run, .run]).height = 8 := by
  refine ⟨⟨rfl, rfl, rfl, rfl, rfl, rfl, rfl, rfl⟩, by decide⟩

/-! ### The code as written violates the property outside calm interleavings (and drifts inside) -/

theorem runN_blocked (n : Nat) (s : State) (h1 : s.pc = .wait) (h2 : s.signal = false)
    (h3 : s.discarded = false) : runN n s = s := by
  induction n with
  | zero => rfl
  | succ n ih =>
    have : runStep s = s := by simp [runStep, h1, wake, h2, h3]
    simp only [runN, this, ih]

-- Regression for stuck-ext (fixed by aea938c). Under the OLD rule (nobody told the queue about blocks other writers
-- add) this state was final: 12, 13 queued, `Run` asleep because 11 was missing, another writer adds 11, and no
-- number of `Run` steps applies 12 and 13. That still is what the queue does UNTIL the server's notification of
-- block 11 arrives (`Queue.Notify`, called by relayBlocksLoop for every block the ledger reports); with it `Run`
-- wakes up and applies both.
example :
    let s := exec (init 4 10) [.run, .put (el 12 0) 10, .put (el 13 1) 10, .run, .run, .run, .adv]
    s.height = 11 ∧ s.ring (posOf 4 12) = some (el 12 0) ∧ s.ring (posOf 4 13) = some (el 13 1) ∧
    (∀ n, (runN n s).height = 11) ∧ (runN 12 (apply s .notify)).height = 13 := by
  refine ⟨by decide, by decide, by decide, ?_, by decide⟩
  intro n
  rw [runN_blocked n _ (by decide) (by decide) (by decide)]
  decide

/-- C20 (queue, never stuck — every schedule in which the server's notifications arrive). For every capacity,
start height and EVERY interleaving without Discard — producers with any stale heights, duplicates, invalid
elements, external additions to the chain at any moment (consensus, RPC, another queue), `Run` anywhere in its
loop — in which the last external addition has been followed by a `Notify` (Server.relayBlocksLoop calls it for
every block the ledger reports; it may come arbitrarily late): whenever every index in `(height, m]` has a valid
element in its slot, `Run` alone brings the chain to `m`. It is never asleep without a pending signal while the
next block is queued. (`queue_no_external_writer_never_stuck` is the special case without external additions;
before aea938c there was no `Notify` and the state of the regression example above was final: finding stuck-ext.) -/
theorem queue_never_stuck_when_notified (cap h0 : Nat) (hc : 0 < cap) (as : List Act)
    (hnd : ∀ a ∈ as, a ≠ .disc) (hp : pendAfter false as = false) (m : Nat) :
    let s := exec (init cap h0) as
    Filled s m → ∃ n, m ≤ (runN n s).height := by
  intro s hf
  have hk := sleepy2_exec (init cap h0) false as (inv_init cap h0 hc) (sleepy2_init cap h0) hnd
  rw [hp] at hk
  exact reaches_of_sleepy2 s m (inv_exec _ as (inv_init cap h0 hc))
    (offer_exec _ as (inv_init cap h0 hc) (offer_init cap h0)) hk hf

-- non-vacuity: an external addition while `Run` sleeps, puts racing with it, the notification arriving late
example :
    let as : List Act := [.run, .put (el 12 0) 10, .put (el 13 1) 10, .run, .run, .run, .adv, .put (el 30 2) 11, .notify]
    let s := exec (init 4 10) as
    (∀ a ∈ as, a ≠ .disc) ∧ pendAfter false as = false ∧ Filled s 13 ∧ (runN 12 s).height = 13 := by
  refine ⟨by decide, by decide, ?_, by decide⟩
  intro i h1 h2
  have h1' : 11 < i := h1
  have : i = 12 ∨ i = 13 := by omega
  rcases this with rfl | rfl
  · exact ⟨el 12 0, by decide, rfl, rfl⟩
  · exact ⟨el 13 1, by decide, rfl, rfl⟩

-- Regression for additem-ahead-ext (fixed by the guard `b.GetIndex() > h+1 → continue`): `Run` reads height 5 outside
-- the lock; another writer adds block 6; a producer puts block 10 = 6 + cap (inside the window, same slot as 6).
-- `Run`'s lock section used to take it, `AddItem(10)` failed at height 6 and the slot was cleared. Now the only
-- chain event is the external addition, block 10 stays in its slot and `Run` goes back to read the height.
example :
    let pre : List Act := [.run, .put (el 7 0) 5, .run, .run, .adv, .put (el 10 1) 6]
    let s' := exec (init 4 5) (pre ++ [.run, .run, .run])
    s'.ring (posOf 4 10) = some (el 10 1) ∧ s'.log = [.ext 6] ∧ Retained s' (el 10 1) := by
  refine ⟨by decide, by decide, .inr (.inl (by decide))⟩

-- Regression for len-drift (fixed by 3d50aab). Under the OLD rule (Put counted `len++` also when it replaced a
-- stale element, and the clean-up loop compared the slot's index with `i` instead of `i+1`, so it never removed
-- anything) this schedule — two producers deliver block 1, the second read the height before the first copy was
-- applied; the stale copy is replaced by block 5 — ended with an empty ring and `LastQueued = (5, 3)`. Now the
-- replacement is not counted again: the ring is empty and all 4 slots are reported free.
example :
    let as : List Act := [.run, .put (el 1 0) 0, .run, .run, .run, .run, .run, .run, .run,
      .put (el 1 1) 0, .run, .run, .run,
      .put (el 5 2) 1, .put (el 2 3) 1, .put (el 3 4) 1, .put (el 4 5) 1] ++ List.replicate 24 .run
    let s := exec (init 4 0) as
    Calm (init 4 0) as ∧ s.height = 5 ∧ s.pc = .wait ∧ (∀ p, p < 4 → s.ring p = none) ∧
    lastQueued s = (5, 4) := by
  exact ⟨(calm_iff _ _).2 (by decide), by decide, by decide, by decide, by decide⟩

/-- C20 (queue, `len` is exact — every schedule). For every capacity, start height and EVERY interleaving of puts
(any elements, any stale heights, duplicates, re-inserts of passed indices, puts into the slot of the element
`Run` is applying), `Run` steps, external chain additions and Discard: `len` is exactly the number of occupied
slots, i.e. `LastQueued` reports exactly the free capacity. (After 3d50aab — Put counts an element only when its
slot was empty, the clean-up loop removes what others applied — and 6d1ab5f — Run counts down only when its slot
still holds the applied element. The two findings len-drift and len-undercount were the two ways this failed.) -/
theorem queue_len_exact (cap h0 : Nat) (hc : 0 < cap) (as : List Act) :
    let s := exec (init cap h0) as
    s.len = (occupied s : Nat) ∧ (lastQueued s).2 = (cap : Int) - (occupied s : Nat) := by
  intro s
  have hx : NoOver s := noOver_exec (init cap h0) as (inv_init cap h0 hc) (by simp [NoOver, init, occN_none])
  have hcap : s.cap = cap := exec_cap _ _
  unfold NoOver at hx
  rw [← occupied_eq] at hx
  refine ⟨hx, ?_⟩
  simp only [lastQueued, hcap]; omega

-- non-vacuity: a stale duplicate, an external addition and a put into the slot of the element being applied:
-- 2 of 4 slots occupied, `len` = 2
example :
    let s := exec (init 4 0) [.run, .put (el 1 0) 0, .run, .run, .run, .run, .put (el 1 1) 0, .adv, .put (el 5 2) 2,
      .put (el 4 3) 1, .run, .run, .run]
    occupied s = 2 ∧ s.len = 2 := by decide

-- Regression for len-undercount (fixed by 6d1ab5f). Under the rule of 3d50aab alone (Run's second lock section
-- counted `len--` unconditionally) this schedule — `Run` has applied block 1, a producer puts block 5 = 1 + cap
-- into the same slot before `Run`'s second lock section — ended with block 5 in the ring and `LastQueued = (1, 4)`,
-- all 4 slots reported free. Now the replaced element is not counted down: 3 of 4 free.
example :
    let as : List Act := [.run, .put (el 1 0) 0, .run, .run, .run, .run, .put (el 5 1) 1, .run, .run, .run, .run,
      .run, .run]
    let s := exec (init 4 0) as
    NoExt as ∧ s.pc = .wait ∧ s.ring (posOf 4 5) = some (el 5 1) ∧ occupied s = 1 ∧ lastQueued s = (1, 3) := by
  refine ⟨by simp [NoExt], by decide, by decide, by decide, by decide⟩

/-- C20 (queue, the schedule classes of the three findings). (1) `stuck-ext` needs an external writer: in
every interleaving WITHOUT an external addition and without Discard (every block goes through `Put`, from any
number of producers with arbitrarily stale heights, duplicates, invalid elements), whenever every index in
`(height, m]` has a valid element in its slot, `Run` alone brings the chain to `m` — it is never asleep
without a pending signal while the next block is queued. (2) the former finding `additem-ahead-ext`
is excluded for every schedule: `queue_offers_only_next`, `queue_no_loss`. (3) `len` is exact for every schedule now (`queue_len_exact`, after 3d50aab and 6d1ab5f). The harness keys a failure as the known finding only inside its class;
the same symptom outside it is reported as a new defect (`stuck`, `additem-ahead`, `len-drift-fresh`). -/
theorem queue_no_external_writer_never_stuck (cap h0 : Nat) (hc : 0 < cap) (as : List Act) (hn : NoExt as)
    (m : Nat) :
    let s := exec (init cap h0) as
    Filled s m → ∃ n, m ≤ (runN n s).height := by
  intro s hf
  by_cases hlt : s.height < m
  · obtain ⟨hk, _, _⟩ := sleepy_exec (init cap h0) as (inv_init cap h0 hc) (fresh_init cap h0) (sleepy_init cap h0) hn
    obtain ⟨x, hx, _, _⟩ := hf (s.height + 1) (by omega) (by omega)
    exact queue_reaches cap h0 hc as (calm_of_noExt _ as hn) m hf (active_of_sleepy s hk x hx)
  · exact ⟨0, by simp only [runN]; omega⟩

-- non-vacuity: three producers, out of order, a duplicate with a stale height, no external writer
example :
    let as : List Act := [.put (el 2 0) 0, .run, .put (el 3 1) 0, .run, .run, .run, .put (el 1 2) 0, .put (el 1 3) 0]
    let s := exec (init 4 0) as
    NoExt as ∧ Filled s 3 ∧ (runN 17 s).height = 3 := by
  refine ⟨by simp [NoExt], ?_, by decide⟩
  intro i h1 h2
  have h1' : 0 < i := h1
  have : i = 1 ∨ i = 2 ∨ i = 3 := by omega
  rcases this with rfl | rfl | rfl
  · exact ⟨el 1 2, by decide, rfl, rfl⟩
  · exact ⟨el 2 0, by decide, rfl, rfl⟩
  · exact ⟨el 3 1, by decide, rfl, rfl⟩

/-- C20 (queue, which Puts wake `Run` and what a wake-up achieves — every schedule). A `Put` signals `checkBlocks`
iff it passes the two window tests (`height_read < index ≤ height_read + cacheSize`, queue not discarded): the
element may be stored, replace a stale one, or be thrown away as a duplicate of what is queued — it signals all
the same (`put_signals`, `put_silent` in Proofs/QueueWake.lean). For EVERY interleaving without Discard — producers
with stale heights, external chain additions at any moment, `Run` anywhere in its loop, also holding a stale
height — : if after such a `Put` the indices `(height, m]` are queued with valid elements, `Run` alone brings the
chain to `m`. So the former finding `stuck-ext` was exactly the remaining case: an external addition makes the
queued blocks contiguous with the chain while `Run` sleeps, and NO window-passing `Put` (not even a duplicate)
follows; since aea938c the server's `Notify` covers it (`queue_never_stuck_when_notified`). (Seeded change C20-m7 removes the signal from the duplicate case and thereby widens that case.) -/
theorem queue_put_wakes_run (cap h0 : Nat) (hc : 0 < cap) (as : List Act) (hnd : ∀ a ∈ as, a ≠ .disc)
    (e : Elem) (hr m : Nat) :
    let s := exec (init cap h0) as
    let s' := apply s (.put e hr)
    min hr s.height < e.idx → e.idx ≤ min hr s.height + cap → Filled s' m → ∃ n, m ≤ (runN n s').height := by
  intro s s' h1 h2 hf
  have hi : Inv s := inv_exec _ as (inv_init cap h0 hc)
  have ho : Offer s := offer_exec _ as (inv_init cap h0 hc) (offer_init cap h0)
  have hd : s.discarded = false := nd_exec _ as hnd rfl
  have hcap : s.cap = cap := exec_cap _ _
  have hpc : s.pc ≠ .done := by
    intro e'
    have := done_exec (init cap h0) as (by intro e; simp [init] at e) e'
    rw [hd] at this; cases this
  obtain ⟨f1, _, _, f4⟩ := put_frame s e (min hr s.height)
  refine reaches_of_signal s' m (inv_apply s _ hi) (offer_apply s _ hi ho) ?_ hf ?_ ?_
  · show (put s e (min hr s.height)).discarded = false
    rw [f4]; exact hd
  · exact put_signals s e _ hd h1 (by rw [hcap]; exact h2)
  · show (put s e (min hr s.height)).pc ≠ .done
    rw [f1]; exact hpc

-- non-vacuity: the schedule of `queue_stuck_after_external_add_witness` (12, 13 queued, `Run` asleep, another writer
-- adds 11) followed by a duplicate of 13: the duplicate is thrown away, but it wakes `Run`, which applies 12 and 13
example :
    let as : List Act := [.run, .put (el 12 0) 10, .put (el 13 1) 10, .run, .run, .run, .adv]
    let s' := apply (exec (init 4 10) as) (.put (el 13 7) 11)
    (exec (init 4 10) as).pc = .wait ∧ (exec (init 4 10) as).signal = false ∧
    s'.ring (posOf 4 13) = some (el 13 1) ∧ (runN 12 s').height = 13 := by decide

/-- `Put` as seeded change C20-m7 makes it: the "already queued" case returns before the `checkBlocks` signal. -/
def putM7 (s : State) (e : Elem) (hr : Nat) : State :=
  if s.discarded then s
  else if e.idx ≤ hr then s
  else if hr + s.cap < e.idx then s
  else if keepsOld (s.ring (posOf s.cap e.idx)) e then s
  else insert s e

/-- Seeded change C20-m7 as a model, next to `queue_put_wakes_run`: in the state of the finding `stuck-ext` (12, 13
queued, `Run` asleep, 11 added by another writer) a duplicate of 13 wakes `Run` with the code as it is (13 is
reached), and leaves it asleep for ever when the duplicate case does not signal. -/
theorem queue_duplicate_must_signal_witness :
    let s := exec (init 4 10) [.run, .put (el 12 0) 10, .put (el 13 1) 10, .run, .run, .run, .adv]
    (runN 12 (put s (el 13 7) 11)).height = 13 ∧ ∀ n, (runN n (putM7 s (el 13 7) 11)).height = 11 := by
  refine ⟨by decide, fun n => ?_⟩
  rw [runN_blocked n _ (by decide) (by decide) (by decide)]
  decide

end NeoModel.Queue

namespace NeoModel.ChainAdd

/-! ## Part (a'): the chain's `AddItem` is an atomic check-and-apply — several producers on one Blockchain.
Tied by the `concurrent producers` phase of the sync stream: a real core.Blockchain fed by a real bqueue.Queue and
2-4 goroutines calling AddBlock with the same and the adjacent blocks at once, compared with the source. -/

/-- C20 (concurrent producers, every interleaving). Any number of producers (the block queue's `Run`, consensus,
RPC submitblock, a second queue) call `Blockchain.AddBlock` with any blocks — the same index several times,
adjacent ones, stale and future ones — and their three steps (take `addLock`; compare the index with the
height; store the block and release the lock) interleave in ANY way. The blocks applied are exactly
`h0+1, h0+2, …, height`, in order, each once: a duplicate is refused whenever it arrives. This is what lets the
queue model (and `queue_in_order_once`) treat the chain's `AddItem` / an external addition as one atomic step. -/
theorem chain_add_atomic (h0 : Nat) (as : List Act) :
    let s := run (St.init h0) as
    h0 ≤ s.height ∧ s.applied = List.range' (h0 + 1) (s.height - h0) :=
  (inv_run h0 as _ (inv_init h0)).log

-- non-vacuity: three producers, block 1 offered three times, block 2 too early and again later
example :
    let s := run (St.init 0) [.lock 0 1, .lock 1 1, .check 0, .store 0, .lock 1 1, .lock 2 2, .check 1, .check 2,
      .store 2, .lock 1 1, .check 1, .lock 0 2, .check 0, .store 0]
    s.applied = [1, 2] ∧ s.height = 2 := by decide

/-- Seeded change C20-m6 as a model: with the index check made BEFORE the lock is taken, two producers offering
block 1 both pass the check against height 0, then both store it: block 1 is applied twice (the negation of
`chain_add_atomic` for `racyStep`). The `concurrent producers` phase reports exactly this on the patched code
(`block-applied-twice` / `producers-state-diverged`). -/
theorem chain_add_check_outside_lock_witness :
    (racyRun (St.init 0) [.lock 0 1, .lock 1 1, .store 0, .store 1]).applied = [1, 1] := by decide

end NeoModel.ChainAdd

namespace NeoModel.StateSync

/-! ## Part (b): state synchronisation (MPT-based mode), model `Model/StateSync.lean` -/

/-- What a peer sends: a decodable node (the receiver computes its hash with `H`) or undecodable bytes. -/
def recv (H : SNode → Hash) : Option SNode → Item
  | some n => .node (H n) n
  | none => .garbage

/-- What happens to the module over its lifetime: `AddMPTNodes` calls with whatever peers send, and
restarts (module re-created from the DB). -/
def recvEv (H : SNode → Hash) : Option (List (Option SNode)) → Ev
  | some items => .batch (items.map (recv H))
  | none => .restart

/-- C20 (state sync, exactness — every delivery order × batching × duplication × wrong data × restart
point). `db` is the node table of the source trie (well-formed as every MPT is, `wf`; acyclic, `hrk`),
`H` a collision-free hash under which `db` is keyed, `fuel` above the depth of the trie (the Go code
recurses without a bound). Feed the module ANY sequence of events: batches of ANY items — trie nodes in
any order, duplicated, not yet requested, foreign nodes, undecodable bytes — and restarts, at which the
pool is rebuilt from the store by `defineSyncStage`'s traversal (`rebuild`). Then
(1) every `(hash, path)` ever restored is a position of the trie, each at most once; the reference counter
of a hash is the number of its restored positions; the temporary storage holds exactly the leaf values of
the restored positions; and no pending position has its node in the store already;
(2) once the pool is empty, the restored positions are exactly the positions of the trie: every node of the
trie is in the store, the counter of `h` equals the number of positions of `h`, and the temporary storage is
exactly the key-value content of the trie.
(Here `Billet.RestoreHashNode` is represented by its contract, Model/StateSync.lean; Part (b') below proves the
same for the module over the billet itself, `billet_module_exact`.) -/
theorem billet_restore_exact (H : SNode → Hash) (hinj : ∀ a b, H a = H b → a = b)
    (db : Hash → Option SNode) (root : Hash) (hkey : ∀ h m, db h = some m → H m = h)
    (wf : WF db root) (rk : Hash → Nat) (hrk : Ranked db rk) (fuel : Nat)
    (hfuel : ∀ h m, db h = some m → rk h < fuel) (evs : List (Option (List (Option SNode)))) :
    let s := runEvs db fuel root (MS.init root) (evs.map (recvEv H))
    (∀ x ∈ s.done, Pos db root x.1 x.2) ∧ s.done.Nodup ∧
    (∀ h, s.refs h = (s.done.filter (fun x => x.1 == h)).length) ∧
    (∀ p v, (p, v) ∈ s.temp ↔ ∃ h n, (h, p) ∈ s.done ∧ db h = some n ∧ n.val = some v) ∧
    (∀ x ∈ s.pool, s.refs x.1 = 0) ∧
    (s.pool = [] →
      (∀ h p, Pos db root h p ↔ (h, p) ∈ s.done) ∧
      (∀ h p, Pos db root h p → 0 < s.refs h) ∧
      (∀ p v, (p, v) ∈ s.temp ↔ ∃ h n, Pos db root h p ∧ db h = some n ∧ n.val = some v)) := by
  intro s
  have hok : ∀ e ∈ evs.map (recvEv H), EvOk db e := by
    intro e he
    simp only [List.mem_map] at he
    obtain ⟨e0, _, rfl⟩ := he
    cases e0 with
    | none => trivial
    | some items =>
      intro it hit
      simp only [List.mem_map] at hit
      obtain ⟨x, _, rfl⟩ := hit
      cases x with
      | none => trivial
      | some n => intro m hm; exact hinj _ _ (hkey _ m hm).symm
  obtain ⟨hi, hcl⟩ := inv_runEvs db root wf rk hrk fuel hfuel _ _ (inv_init db root) (clean_init root) hok
  refine ⟨hi.donePos, hi.doneNodup, hi.refsEq, hi.tempEq, hcl, ?_⟩
  intro he
  have hall : ∀ h p, Pos db root h p ↔ (h, p) ∈ s.done :=
    fun h p => ⟨complete db root s hi he h p, fun hd => hi.donePos _ hd⟩
  refine ⟨hall, ?_, ?_⟩
  · intro h p hp
    rw [hi.refsEq]
    apply List.length_pos_of_mem (a := (h, p))
    have hm : (h, p) ∈ s.done := (hall h p).1 hp
    simp only [List.mem_filter, beq_self_eq_true, and_true]
    exact hm
  · intro p v
    rw [hi.tempEq]
    constructor
    · rintro ⟨h, n, hd, hn, hv⟩; exact ⟨h, n, (hall h p).2 hd, hn, hv⟩
    · rintro ⟨h, n, hp, hn, hv⟩; exact ⟨h, n, (hall h p).1 hp, hn, hv⟩

/-- C20 (state sync, restart points): at every point of every such history, the pool that
`defineSyncStage` reconstructs from the store (Billet.Traverse over the stored nodes with the callback as
fixed in 0dd24d5) is exactly the pool the uninterrupted module holds — the same set, without duplicates.
A restart therefore loses nothing and asks for nothing twice. -/
theorem rebuild_exact (H : SNode → Hash) (hinj : ∀ a b, H a = H b → a = b)
    (db : Hash → Option SNode) (root : Hash) (hkey : ∀ h m, db h = some m → H m = h)
    (wf : WF db root) (rk : Hash → Nat) (hrk : Ranked db rk) (fuel : Nat)
    (hfuel : ∀ h m, db h = some m → rk h < fuel) (evs : List (Option (List (Option SNode)))) :
    let s := runEvs db fuel root (MS.init root) (evs.map (recvEv H))
    (∀ x, x ∈ (rebuild db fuel root s).pool ↔ x ∈ s.pool) ∧ (rebuild db fuel root s).pool.Nodup := by
  intro s
  have hok : ∀ e ∈ evs.map (recvEv H), EvOk db e := by
    intro e he
    simp only [List.mem_map] at he
    obtain ⟨e0, _, rfl⟩ := he
    cases e0 with
    | none => trivial
    | some items =>
      intro it hit
      simp only [List.mem_map] at hit
      obtain ⟨x, _, rfl⟩ := hit
      cases x with
      | none => trivial
      | some n => intro m hm; exact hinj _ _ (hkey _ m hm).symm
  obtain ⟨hi, hcl⟩ := inv_runEvs db root wf rk hrk fuel hfuel _ _ (inv_init db root) (clean_init root) hok
  exact rebuild_pool db root wf rk hrk fuel s hi hcl hfuel

/-- C20 (state sync, wrong data is rejected and harmless): a node whose hash the module does not ask for
(foreign, not yet requested, already restored — whatever its content) changes nothing at all; undecodable
bytes end the batch with an error and leave the state as the preceding items made it. -/
theorem wrong_data_rejected_harmless (db : Hash → Option SNode) (fuel : Nat) (s : MS) (h : Hash) (n : SNode)
    (rest : List Item) (hu : ∀ q, (h, q) ∉ s.pool) :
    restoreNode db fuel s h n = s ∧
    deliver db fuel s (.node h n :: rest) = deliver db fuel s rest ∧
    deliver db fuel s (.garbage :: rest) = (s, false) := by
  refine ⟨restoreNode_unrequested db fuel s h n hu, ?_, rfl⟩
  simp only [deliver, restoreNode_unrequested db fuel s h n hu]

/-! a small trie for the examples: root 0 = branch {0 ↦ 1, 1 ↦ 2, 2 ↦ 2}; 1, 2 leaves -/
def exDb : Hash → Option SNode
  | 0 => some { val := none, kids := [([0], 1), ([1], 2), ([2], 2)] }
  | 1 => some { val := some 11, kids := [] }
  | 2 => some { val := some 22, kids := [] }
  | _ => none

-- non-vacuity: out of order, duplicated, with a foreign node and garbage in between: completes exactly
example :
    let n (i : Nat) : Item := match exDb i with | some x => .node i x | none => .garbage
    let s := batches exDb 5 (MS.init 0) [[n 2, n 0, .garbage, n 1], [.node 77 { val := some 1, kids := [] }, n 2, n 2], [n 1]]
    s.pool = [] ∧ s.done = [(0, []), (2, [1]), (2, [2]), (1, [0])] ∧ s.refs 2 = 2 ∧
    s.temp = [([1], 22), ([2], 22), ([0], 11)] := by decide

-- The repro of the restart panic fixed by 0dd24d5: root and leaf 2 are stored, leaf 1 is still missing;
-- the traversal meets leaf 2 at two positions. As fixed, the reconstruction returns the pending set.
example :
    let n (i : Nat) : Item := match exDb i with | some x => .node i x | none => .garbage
    let s := batches exDb 5 (MS.init 0) [[n 0, n 2]]
    s.pool = [(1, [0])] ∧ (rebuild exDb 5 0 s).pool = [(1, [0])] := by decide

-- non-vacuity of `billet_restore_exact` with restarts: restart, root, restart, leaf 2 twice, garbage, restart, leaf 1
example :
    let n (i : Nat) : Item := match exDb i with | some x => .node i x | none => .garbage
    let s := runEvs exDb 5 0 (MS.init 0)
      [.restart, .batch [n 0], .restart, .batch [n 2, n 2, .garbage, n 1], .restart, .batch [n 1]]
    s.pool = [] ∧ s.done = [(0, []), (2, [1]), (2, [2]), (1, [0])] ∧ s.refs 2 = 2 := by decide

-- the example table meets the shape hypotheses (rank: root 1, leaves 0)
theorem exDb_ranked : Ranked exDb (fun h => if h = 0 then 1 else 0) := by
  intro h n k hn hk
  match h, hn with
  | 0, hn => cases hn; simp at hk; rcases hk with rfl | rfl | rfl <;> decide
  | 1, hn => cases hn; cases hk
  | 2, hn => cases hn; cases hk

/-! ### Storage-item mode (raw contract storage items, checkpoint + intermediate root)

Over the C10 trie model `NeoModel.Mpt` (local trie = `Mpt.Node`, MapToMPTBatch + PutBatch, StateRoot).
`hcommit` is the collision-freeness of the state-root commitment on well-formed tries (different tries have
different roots); `Mpt.canonical`, `Mpt.lookup_putBatch_map`, `Mpt.wf_putBatch` are C10's theorems. -/

/-- C20 (storage-item mode, exactness). `t0` is the state trie at the sync point and `rootHash H t0` the root
the module was given. After ANY sequence of `AddContractStorageItems` batches — any items, any order, keys
repeated within and across batches, wrong values — and restarts (stage recomputed from the persisted
checkpoint, a no-op as shown in `restartItems_id`): the local trie is well-formed and has exactly the
contents of the temporary storage, and — once a batch was stored — the module reports "in sync"
(`computedRoot = root`) iff the temporary storage is exactly the content of `t0`. A wrong or missing item
therefore never ends in "in sync", and a complete correct set always does. -/
theorem storage_mode_exact (H : Bytes → Bytes) (t0 : Mpt.Node) (hw : Mpt.WF t0)
    (hcommit : ∀ a b, Mpt.WF a → Mpt.WF b → Mpt.rootHash H a = Mpt.rootHash H b → a = b)
    (evs : List ItemEv) :
    let s := runItemEvs H (Mpt.rootHash H t0) (ItemSt.init Mpt.Node.empty) evs
    Mpt.WF s.trie ∧ (∀ q, Mpt.lookup s.trie q = s.temp q) ∧ restartItems s = s ∧
    (s.synced = true → s.ckpt ≠ none) ∧
    (s.ckpt ≠ none → (s.synced = true ↔ ∀ q, s.temp q = Mpt.lookup t0 q)) := by
  intro s
  have hi : ItemInv H (Mpt.rootHash H t0) s := itemInv_run H _ _ evs (itemInv_init H _)
  exact ⟨hi.wf, hi.same, restartItems_id H _ s hi, fun h => (hi.stage.1 h).1,
    fun hc => synced_iff H t0 hw hcommit s hi hc⟩

-- non-vacuity: for any commitment-collision-free `H`, a restart and then the two items of a two-key state
-- (in the "wrong" order, one of them twice) end in sync
example (H : Bytes → Bytes)
    (hcommit : ∀ a b, Mpt.WF a → Mpt.WF b → Mpt.rootHash H a = Mpt.rootHash H b → a = b) :
    let t0 := Mpt.put (Mpt.put .empty [1, 2] [7]) [1, 3] [8]
    (runItemEvs H (Mpt.rootHash H t0) (ItemSt.init Mpt.Node.empty)
      [.restart, .batch [([1, 3], [9]), ([1, 3], [8]), ([1, 2], [7])]]).synced = true := by
  intro t0
  have hw : Mpt.WF t0 := Mpt.wf_put _ _ _ (Mpt.wf_put _ _ _ (by simp [Mpt.WF]))
  have h := storage_mode_exact H t0 hw hcommit [.restart, .batch [([1, 3], [9]), ([1, 3], [8]), ([1, 2], [7])]]
  refine (h.2.2.2.2 ?_).2 ?_
  · simp [runItemEvs, runItemEv, restartItems, addItems, ItemSt.init]
  · intro q
    have ht : (runItemEvs H (Mpt.rootHash H t0) (ItemSt.init Mpt.Node.empty)
        [.restart, .batch [([1, 3], [9]), ([1, 3], [8]), ([1, 2], [7])]]).temp q =
        ((goMap [(([1, 3] : Mpt.Path), ([9] : Mpt.Val)), ([1, 3], [8]), ([1, 2], [7])]).lookup q).or none := by
      simp [runItemEvs, runItemEv, restartItems, addItems, ItemSt.init]
    rw [ht]
    simp only [t0, Mpt.lookup_put]
    by_cases h1 : q = [1, 3]
    · subst h1; decide
    · by_cases h2 : q = [1, 2]
      · subst h2; decide
      · have e1 : (q == [1, 3]) = false := by simpa using h1
        have e2 : (q == [1, 2]) = false := by simpa using h2
        simp [goMap, List.lookup, e1, e2, h1, h2, Mpt.lookup]

/-- C20 (storage-item mode, key order with restarts). The NeoFS state fetcher streams the items of the state
object in their order (`items`, pairwise different keys), in batches of any sizes, and after every restart
resumes behind the last stored key. For every such run: (1) "in sync" implies the temporary storage is
exactly the content of `t0`; (2) if the object's content is the content of `t0`, then once the stream is
exhausted the module is in sync — however the stream was cut into batches and wherever the restarts fell;
equivalently, if the module is not in sync at the end of the stream, the object was wrong. -/
theorem storage_mode_ordered (H : Bytes → Bytes) (t0 : Mpt.Node) (hw : Mpt.WF t0)
    (hcommit : ∀ a b, Mpt.WF a → Mpt.WF b → Mpt.rootHash H a = Mpt.rootHash H b → a = b)
    (items : List (Mpt.Path × Mpt.Val)) (hne : items ≠ []) (hnd : (items.map (·.1)).Nodup)
    (evs : List StreamEv) :
    let f := streamRun H (Mpt.rootHash H t0) items evs
    (f.s.synced = true → ∀ q, f.s.temp q = Mpt.lookup t0 q) ∧
    (f.pending = [] → (∀ q, items.lookup q = Mpt.lookup t0 q) → f.s.synced = true) := by
  intro f
  have hi := streamInv_run H (Mpt.rootHash H t0) items hnd evs
  constructor
  · intro hs
    exact (synced_iff H t0 hw hcommit f.s hi.inv ((hi.inv.stage.1 hs).1)).1 hs
  · intro hp hall
    cases hs : f.s.synced with
    | true => rfl
    | false =>
      obtain ⟨pos, h1, _, h3, h4⟩ := hi.pos hs
      have hp' : items.drop pos = [] := by rw [← h1]; exact hp
      have hlen : items.length ≤ pos := List.drop_eq_nil_iff.1 hp'
      have htake : items.take pos = items := List.take_of_length_le hlen
      rw [htake] at h3 h4
      have := (synced_iff H t0 hw hcommit f.s hi.inv (h4 hne)).2 (fun q => by rw [h3 q, hall q])
      rw [hs] at this; exact this

/-- C20 (state sync, blocks stage): only the block's own transaction list is accepted. `txh i` is the hash
of transaction `i`, `h2 l r` the hash of an inner Merkle node, `z` the zero hash; collision-freeness of
these hashes (different Merkle terms have different values) is the hypothesis `hcf`. For a block whose
transactions `orig` are pairwise different, `AddBlock`'s body check — `CalcMerkleRoot` of the delivered
transaction hashes (with its duplication of the last element of an odd level) equals the header's root,
and no transaction hash occurs twice — passes for `body` iff `body = orig`. So under the genuine header a
stripped, shortened, extended, reordered, partly or wholly foreign list is rejected, and so is the list with
a repeated tail whose Merkle root coincides with the header's. -/
theorem acceptsBody_iff (txh : Nat → Nat) (h2 : Nat → Nat → Nat) (z : Nat) (hcf : CollisionFree txh h2 z)
    (orig body : List Nat) (ho : orig.Nodup) : acceptsBodyH txh h2 z orig body = true ↔ body = orig :=
  acceptsBodyH_iff' txh h2 z hcf orig body ho

-- non-vacuity: the collision-freeness hypothesis is satisfiable, and then e.g. the dropped-transaction body fails
example : acceptsBodyH (fun i => 2 * i + 1) (fun a b => 2 * Nat.pair a b + 2) 0 [0, 1, 2] [0, 1] = false := by
  have := (acceptsBody_iff _ _ 0 collisionFree_example [0, 1, 2] [0, 1] (by decide)).not.2 (by decide)
  simpa using this

-- Regression example for the defect fixed by 6817c0b (found by this check as tampered-block-accepted-dup-last):
-- `CalcMerkleRoot` duplicates the last hash of an odd level, so for a block `[0,1,2]` the list `[0,1,2,2]`
-- has the same Merkle root (first conjunct); statesync's `AddBlock` used to accept it under the genuine
-- header. With the repeated-transaction check it is rejected, like stripped, shortened, reordered and
-- foreign lists; only the block's own list passes.
example :
    merkleMatches [0, 1, 2] [0, 1, 2, 2] = true ∧ acceptsBody [0, 1, 2] [0, 1, 2, 2] = false ∧
    acceptsBody [0, 1, 2] [] = false ∧ acceptsBody [0, 1, 2] [0, 1] = false ∧
    acceptsBody [0, 1, 2] [0, 2, 1] = false ∧ acceptsBody [0, 1, 2] [0, 1, 2, 1000] = false ∧
    acceptsBody [0, 1, 2, 3] [0, 1, 2, 3, 3] = false ∧ acceptsBody [0, 1, 2] [0, 1, 2] = true := by decide

end NeoModel.StateSync

namespace NeoModel.StateSync

/-! ## Part (b'): `mpt.Billet` itself — the walk of RestoreHashNode with hash validation and collapse, the
traversal on restart — model `Model/Billet.lean`, tied to the real Billet by the `bput/btrav/bdump` lines of
the sync stream and to the real module by its `deliver` lines. -/

/-- What a peer's bytes decode to on the receiver's side (`mpt.NodeObject.DecodeBinary`): a Leaf/Branch/
Extension node (the receiver computes its hash with `H`), a HashNode (its `Hash()` is the hash it carries),
an EmptyNode, or nothing (undecodable). -/
inductive Recv
  | node (n : SNode)       -- in canonical form (children referenced by hash)
  | hashNode (h : Hash)
  | empty
  | nonCanonical           -- a Branch/Extension node with a child serialised in place
  | garbage

def recvB (H : SNode → Hash) : Recv → BItem
  | .node n => .node (H n) n
  | .hashNode h => .hashNode h
  | .empty => .empty
  | .nonCanonical => .nonCanonical
  | .garbage => .garbage

def recvEvB (H : SNode → Hash) : Option (List Recv) → BEv
  | some items => .batch (items.map (recvB H))
  | none => .restart

theorem recvEvB_ok (H : SNode → Hash) (hinj : ∀ a b, H a = H b → a = b) (db : Hash → Option SNode)
    (hkey : ∀ h m, db h = some m → H m = h) (evs : List (Option (List Recv))) :
    ∀ e ∈ evs.map (recvEvB H), BEvOk db e := by
  intro e he
  simp only [List.mem_map] at he
  obtain ⟨e0, _, rfl⟩ := he
  cases e0 with
  | none => trivial
  | some items =>
    intro it hit
    simp only [List.mem_map] at hit
    obtain ⟨x, _, rfl⟩ := hit
    cases x with
    | node n => intro m hm; exact hinj _ _ (hkey _ m hm).symm
    | hashNode h => trivial
    | empty => trivial
    | nonCanonical => trivial
    | garbage => trivial

/-- C20 (state sync over the real billet, exactness). The module drives `Billet.RestoreHashNode` (the walk
through the partially restored in-memory trie along the path, the comparison of the delivered node's hash
with the HashNode found there, its replacement, the collapse of completely restored subtrees) and rebuilds
billet and pool by `Billet.Traverse` after a restart. For every source trie (`wf`, `sh`, `hrk`), collision-free
`H`, and EVERY history of batches — trie nodes in any order and multiplicity, at one or several paths,
unsolicited and foreign nodes, HashNodes, EmptyNodes, undecodable bytes — and restarts:
(1) the billet represents exactly the set of restored positions (`Rep`): not-collapsed HashNodes are the
positions still missing, collapsed ones completely restored subtrees;
(2) every restored `(hash, path)` is a position of the trie, each once; reference counters = number of
restored positions of the hash; temporary storage = leaf values of restored positions; no pending position
is in the store already (the conclusions of `billet_restore_exact`, now for the module over the billet);
(3) when the pool is empty: the billet has collapsed into the root HashNode, restored = all positions of the
trie, every node is stored with its number of positions as counter, the storage is the content of the trie. -/
theorem billet_module_exact (H : SNode → Hash) (hinj : ∀ a b, H a = H b → a = b)
    (db : Hash → Option SNode) (root : Hash) (hkey : ∀ h m, db h = some m → H m = h)
    (wf : WF db root) (sh : Shaped db) (rk : Hash → Nat) (hrk : Ranked db rk) (fuel : Nat)
    (hfuel : ∀ h m, db h = some m → rk h < fuel) (evs : List (Option (List Recv))) :
    let s := runEvsB db fuel root (BS.init root) (evs.map (recvEvB H))
    Rep db s.ms.done s.billet root [] ∧
    (∀ x ∈ s.ms.done, Pos db root x.1 x.2) ∧ s.ms.done.Nodup ∧
    (∀ h, s.ms.refs h = (s.ms.done.filter (fun x => x.1 == h)).length) ∧
    (∀ p v, (p, v) ∈ s.ms.temp ↔ ∃ h n, (h, p) ∈ s.ms.done ∧ db h = some n ∧ n.val = some v) ∧
    (∀ x ∈ s.ms.pool, s.ms.refs x.1 = 0) ∧
    (s.ms.pool = [] →
      s.billet = .hash root true ∧
      (∀ h p, Pos db root h p ↔ (h, p) ∈ s.ms.done) ∧
      (∀ h, s.ms.refs h = (s.ms.done.filter (fun x => x.1 == h)).length ∧ (∀ p, Pos db root h p → 0 < s.ms.refs h)) ∧
      (∀ p v, (p, v) ∈ s.ms.temp ↔ ∃ h n, Pos db root h p ∧ db h = some n ∧ n.val = some v)) := by
  intro s
  obtain ⟨hb, hcl⟩ := binv_runEvsB db root wf rk hrk sh fuel hfuel _ (BS.init root) (binv_init db root)
    (clean_init root) (recvEvB_ok H hinj db hkey evs)
  have hi := hb.inv
  refine ⟨hb.rep, hi.donePos, hi.doneNodup, hi.refsEq, hi.tempEq, hcl, ?_⟩
  intro he
  have hall : ∀ h p, Pos db root h p ↔ (h, p) ∈ s.ms.done :=
    fun h p => ⟨complete db root s.ms hi he h p, fun hd => hi.donePos _ hd⟩
  refine ⟨?_, hall, ?_, ?_⟩
  · exact rep_full db s.ms.done s.billet root [] hb.rep
      (fun y hy => (hall y.1 y.2).1 (hy.pos db root Pos.root))
  · intro h
    refine ⟨hi.refsEq h, fun p hp => ?_⟩
    rw [hi.refsEq]
    apply List.length_pos_of_mem (a := (h, p))
    simp only [List.mem_filter, beq_self_eq_true, and_true]
    exact (hall h p).1 hp
  · intro p v
    rw [hi.tempEq]
    constructor
    · rintro ⟨h, n, hd, hn, hv⟩; exact ⟨h, n, (hall h p).2 hd, hn, hv⟩
    · rintro ⟨h, n, hp, hn, hv⟩; exact ⟨h, n, (hall h p).1 hp, hn, hv⟩

/-- C20 (the billet accepts exactly what is pending; wrong data is rejected without change). In every state
reached by such a history, `RestoreHashNode(path, node)` with a node of hash `hv` succeeds **iff** `(hv, path)`
is a position of the trie that is not restored yet and whose parent is (or the root) — whatever else is
offered (a node at a path where another hash is expected, at a path that is already restored or collapsed,
below a missing node, at a path of no position; a HashNode or EmptyNode at any path) is answered with an
error or a panic, and then billet, store and temporary storage are untouched (the result carries no new
state). A success adds exactly one reference to `hv`. -/
theorem billet_accepts_iff (H : SNode → Hash) (hinj : ∀ a b, H a = H b → a = b)
    (db : Hash → Option SNode) (root : Hash) (hkey : ∀ h m, db h = some m → H m = h)
    (wf : WF db root) (sh : Shaped db) (rk : Hash → Nat) (hrk : Ranked db rk) (fuel : Nat)
    (hfuel : ∀ h m, db h = some m → rk h < fuel) (evs : List (Option (List Recv)))
    (path : Path) (n : SNode) :
    let s := runEvsB db fuel root (BS.init root) (evs.map (recvEvB H))
    ((∃ s', restoreHashNode s path (H n) n = .ok s') ↔ Pending db root s.ms.done (H n, path)) ∧
    (∀ s', restoreHashNode s path (H n) n = .ok s' → s'.ms.refs = bump s.ms.refs (H n)) ∧
    (∀ it, (∃ s', restoreHashNodeItem s path it = .ok s') → ∃ h m, it = .node h m) := by
  intro s
  obtain ⟨hb, _⟩ := binv_runEvsB db root wf rk hrk sh fuel hfuel _ (BS.init root) (binv_init db root)
    (clean_init root) (recvEvB_ok H hinj db hkey evs)
  have hd := dok_of_inv db root _ hb.inv
  have hsound : ∀ s', restoreHashNode s path (H n) n = .ok s' →
      Reach db s.ms.done (root, []) path (H n, path) ∧ (H n, path) ∉ s.ms.done ∧ s'.ms.refs = bump s.ms.refs (H n) := by
    intro s' hs
    simp only [restoreHashNode] at hs
    cases hp : putIntoNode s.ms.refs s.billet path (H n) n with
    | err e => rw [hp] at hs; cases hs
    | panic => rw [hp] at hs; cases hs
    | ok a =>
      obtain ⟨t', r'⟩ := a
      rw [hp] at hs
      simp only [BRes.ok.injEq] at hs
      obtain ⟨g1, g2, g3⟩ := put_sound db s.ms.done s.ms.refs (H n) n s.billet root [] path t' r' hb.rep hp
      refine ⟨by simpa using g1, by simpa using g2, ?_⟩
      rw [← hs]; exact g3
  refine ⟨⟨?_, ?_⟩, fun s' hs => (hsound s' hs).2.2, ?_⟩
  · rintro ⟨s', hs⟩
    obtain ⟨g1, g2, _⟩ := hsound s' hs
    refine ⟨(g1.toBelow db).pos db root Pos.root, g2, ?_⟩
    -- the last step of the walk comes from a restored node
    have par : ∀ {a : Hash × Path} {q : Path} {x : Hash × Path}, Reach db s.ms.done a q x →
        x = a ∨ ∃ y ∈ s.ms.done, IsKidOf db x y := by
      intro a q x hr
      induction hr with
      | here => exact .inl rfl
      | @down h p n' k rest x hin hn hk _ ih =>
        rcases ih with rfl | h2
        · exact .inr ⟨(h, p), hin, n', k, hn, hk, rfl⟩
        · exact .inr h2
    exact par g1
  · intro hp
    have hn : db (H n) = some n := by
      obtain ⟨m, hm⟩ := wf.closed _ _ hp.pos
      have hmn : m = n := hinj _ _ (hkey _ m hm)
      rw [hmn] at hm; exact hm
    obtain ⟨b, h1, _⟩ := restoreHashNode_ok db root wf rk hrk sh s hd hb.rep (H n) path n hp hn
    exact ⟨_, h1⟩
  · rintro it ⟨s', hs⟩
    cases it with
    | node h m => exact ⟨h, m, rfl⟩
    | hashNode h => simp [restoreHashNodeItem] at hs
    | empty => simp [restoreHashNodeItem] at hs
    | nonCanonical => simp [restoreHashNodeItem] at hs
    | garbage => simp [restoreHashNodeItem] at hs

/-- C20 (the module over the billet never fails on honest data, never panics on anything). In every state
reached by such a history, one more `AddMPTNodes` batch of anything never ends in a panic, and it ends with an
error only if it contains something that is not a Leaf/Branch/Extension node in canonical form (undecodable
bytes, a HashNode, an EmptyNode, a node with a child serialised in place): a batch of nodes — requested or not,
genuine or foreign, in any number and order — is processed without error, i.e. `RestoreHashNode` succeeds for
every `(path, node)` pair the pool hands it, at all of the node's paths. -/
theorem billet_module_result (H : SNode → Hash) (hinj : ∀ a b, H a = H b → a = b)
    (db : Hash → Option SNode) (root : Hash) (hkey : ∀ h m, db h = some m → H m = h)
    (wf : WF db root) (sh : Shaped db) (rk : Hash → Nat) (hrk : Ranked db rk) (fuel : Nat)
    (hfuel : ∀ h m, db h = some m → rk h < fuel) (evs : List (Option (List Recv))) (items : List Recv) :
    let s := runEvsB db fuel root (BS.init root) (evs.map (recvEvB H))
    let r := (deliverB db fuel s (items.map (recvB H))).2
    r ≠ .panic ∧ (∀ e, r = .err e → ∃ it ∈ items, ∀ n, it ≠ Recv.node n) := by
  intro s r
  obtain ⟨hb, hcl⟩ := binv_runEvsB db root wf rk hrk sh fuel hfuel _ (BS.init root) (binv_init db root)
    (clean_init root) (recvEvB_ok H hinj db hkey evs)
  have hok : ∀ it ∈ items.map (recvB H), BItemOk db it := by
    have := recvEvB_ok H hinj db hkey [some items] (.batch (items.map (recvB H))) (by simp [recvEvB])
    exact this
  obtain ⟨_, _, g3, g4⟩ := deliverB_inv db root wf rk hrk sh fuel hfuel _ s hb hcl hok
  refine ⟨g3, fun e he => ?_⟩
  obtain ⟨it, hit, hn⟩ := g4 e he
  simp only [List.mem_map] at hit
  obtain ⟨x, hx, rfl⟩ := hit
  refine ⟨x, hx, fun n e' => ?_⟩
  subst e'
  exact hn _ _ rfl

/-- C20 (progress measure of the MPT stage). `L` is any enumeration of the positions of the trie. The number
of restored positions never exceeds `L.length`, and every delivery of a node whose hash is requested strictly
increases it: the measure `L.length − |done|` strictly decreases with each accepted delivery, whatever
happened before and whatever else is delivered in between (unrequested deliveries leave it unchanged,
`wrong_data_rejected_harmless`). So at most `L.length` deliveries are ever accepted. -/
theorem billet_progress (H : SNode → Hash) (hinj : ∀ a b, H a = H b → a = b)
    (db : Hash → Option SNode) (root : Hash) (hkey : ∀ h m, db h = some m → H m = h)
    (wf : WF db root) (sh : Shaped db) (rk : Hash → Nat) (hrk : Ranked db rk) (fuel : Nat)
    (hfuel : ∀ h m, db h = some m → rk h < fuel) (evs : List (Option (List Recv)))
    (L : List (Hash × Path)) (hL : ∀ h p, Pos db root h p → (h, p) ∈ L) (n : SNode) (q : Path) :
    let s := runEvsB db fuel root (BS.init root) (evs.map (recvEvB H))
    let s' := (deliverB db fuel s [.node (H n) n]).1
    s.ms.done.length ≤ L.length ∧ s'.ms.done.length ≤ L.length ∧
    ((H n, q) ∈ s.ms.pool → L.length - s'.ms.done.length < L.length - s.ms.done.length) := by
  intro s s'
  obtain ⟨hb, hcl⟩ := binv_runEvsB db root wf rk hrk sh fuel hfuel _ (BS.init root) (binv_init db root)
    (clean_init root) (recvEvB_ok H hinj db hkey evs)
  have hok : ∀ it ∈ [BItem.node (H n) n], BItemOk db it := by
    intro it hit
    simp only [List.mem_singleton] at hit
    subst hit
    intro m hm; exact hinj _ _ (hkey _ m hm).symm
  obtain ⟨hb', _, _, _⟩ := deliverB_inv db root wf rk hrk sh fuel hfuel _ s hb hcl hok
  have b1 := done_bounded db root s.ms hb.inv L hL
  have b2 : s'.ms.done.length ≤ L.length := done_bounded db root s'.ms hb'.inv L hL
  refine ⟨b1, b2, fun hq => ?_⟩
  have hk : ∀ m, db (H n) = some m → n = m := fun m hm => hinj _ _ (hkey _ m hm).symm
  obtain ⟨b, h1, _⟩ := restoreNodeB_refines db root wf rk hrk sh fuel s (H n) n hb hk
  have hs' : s'.ms = restoreNode db fuel s.ms (H n) n := by
    show (deliverB db fuel s [.node (H n) n]).1.ms = _
    simp only [deliverB, h1]
  obtain ⟨m, hm⟩ := wf.closed _ _ (hb.inv.poolPos _ hq)
  have hfp : 0 < fuel := by have := hfuel _ m hm; omega
  obtain ⟨f, rfl⟩ : ∃ f, fuel = f + 1 := ⟨fuel - 1, by omega⟩
  have := done_lt_restoreNode db f s.ms (H n) n q hq
  rw [hs'] at b2 ⊢
  omega

/-! Regressions for two defects this check found (fixed in /repo by 5972fdd and 09bd334). -/

-- panic-on-empty-node: the serialisation of an EmptyNode (the single byte 04) used to reach `n.Hash()` and
-- panic; a HashNode carrying a requested hash reached RestoreHashNode. Both are refused now, with an error,
-- whatever the state and whether or not the hash is requested; nothing changes.
example (db : Hash → Option SNode) (fuel : Nat) (s : BS) (rest : List BItem) (h : Hash) :
    deliverB db fuel s (.empty :: rest) = (s, .err .intoEmptyNode) ∧
    deliverB db fuel s (.hashNode h :: rest) = (s, .err .intoHashNode) ∧
    deliverB db fuel s (.nonCanonical :: rest) = (s, .err .notFound) := ⟨rfl, rfl, rfl⟩

-- mpt-incomplete-inlined-child, the OLD rule: a decoded node whose child was serialised in place has the hash of
-- the genuine node but `GetChildrenPaths` does not list that child; accepted under that hash (i.e. without the
-- hypothesis `hinj` of the theorems above) it empties the pool while position `(1, [0])` of the trie is neither
-- restored nor stored. This is why AddMPTNodes now compares the node's canonical bytes with what it received.
example :
    let root' : SNode := { val := none, kids := [([1], 2), ([2], 2)] }   -- node 0 with the child under [0] inlined
    let s := (deliver exDb 5 (MS.init 0) [.node 0 root', .node 2 { val := some 22, kids := [] }]).1
    s.pool = [] ∧ Pos exDb 0 1 [0] ∧ (1, [0]) ∉ s.done ∧ s.refs 1 = 0 := by
  refine ⟨by decide, ?_, by decide, by decide⟩
  exact Pos.kid (k := ([0], 1)) Pos.root (n := { val := none, kids := [([0], 1), ([1], 2), ([2], 2)] }) rfl (by simp)

/-! non-vacuity: the example trie `exDb` (root 0 = branch {0 ↦ leaf 1, 1 ↦ leaf 2, 2 ↦ leaf 2}) meets the shape
hypotheses, and concrete histories run through the model as the theorems say -/

theorem exDb_pos (h : Hash) (p : Path) : Pos exDb 0 h p ↔ (h, p) ∈ [(0, []), (1, [0]), (2, [1]), (2, [2])] := by
  constructor
  · intro hp
    induction hp with
    | root => simp
    | @kid h' p' n k _ hn hk ih =>
      simp only [List.mem_cons, Prod.mk.injEq, List.mem_nil_iff, or_false] at ih
      rcases ih with ⟨rfl, rfl⟩ | ⟨rfl, rfl⟩ | ⟨rfl, rfl⟩ | ⟨rfl, rfl⟩
      · cases hn
        simp only [List.mem_cons, List.mem_nil_iff, or_false] at hk
        rcases hk with rfl | rfl | rfl <;> simp
      · cases hn; cases hk
      · cases hn; cases hk
      · cases hn; cases hk
  · intro hm
    simp only [List.mem_cons, Prod.mk.injEq, List.mem_nil_iff, or_false] at hm
    have kid : ∀ k : Path × Hash, k ∈ [([0], 1), ([1], 2), ([2], 2)] → Pos exDb 0 k.2 ([] ++ k.1) :=
      fun k hk => Pos.kid (n := { val := none, kids := [([0], 1), ([1], 2), ([2], 2)] }) Pos.root rfl hk
    rcases hm with ⟨rfl, rfl⟩ | ⟨rfl, rfl⟩ | ⟨rfl, rfl⟩ | ⟨rfl, rfl⟩
    · exact Pos.root
    · exact kid ([0], 1) (by simp)
    · exact kid ([1], 2) (by simp)
    · exact kid ([2], 2) (by simp)

theorem exDb_wf : WF exDb 0 := by
  have leafKids : ∀ h p n (k : Path × Hash), Pos exDb 0 h p → exDb h = some n → k ∈ n.kids →
      h = 0 ∧ p = [] ∧ k ∈ [([0], 1), ([1], 2), ([2], 2)] := by
    intro h p n k hp hn hk
    rw [exDb_pos] at hp
    simp only [List.mem_cons, Prod.mk.injEq, List.mem_nil_iff, or_false] at hp
    rcases hp with ⟨rfl, rfl⟩ | ⟨rfl, rfl⟩ | ⟨rfl, rfl⟩ | ⟨rfl, rfl⟩
    · cases hn; exact ⟨rfl, rfl, hk⟩
    · cases hn; cases hk
    · cases hn; cases hk
    · cases hn; cases hk
  refine ⟨?_, ?_, ?_⟩
  · intro h p hp
    rw [exDb_pos] at hp
    simp only [List.mem_cons, Prod.mk.injEq, List.mem_nil_iff, or_false] at hp
    rcases hp with ⟨rfl, rfl⟩ | ⟨rfl, rfl⟩ | ⟨rfl, rfl⟩ | ⟨rfl, rfl⟩ <;> exact ⟨_, rfl⟩
  · intro h p n k hp hn hk
    obtain ⟨rfl, rfl, hk'⟩ := leafKids h p n k hp hn hk
    simp only [List.mem_cons, List.mem_nil_iff, or_false] at hk'
    rcases hk' with rfl | rfl | rfl <;> simp
  · intro h1 p1 n1 k1 h2 p2 n2 k2 hp1 hp2 hn1 hn2 hk1 hk2 _
    obtain ⟨rfl, rfl, _⟩ := leafKids h1 p1 n1 k1 hp1 hn1 hk1
    obtain ⟨rfl, rfl, _⟩ := leafKids h2 p2 n2 k2 hp2 hn2 hk2
    exact ⟨rfl, rfl⟩

theorem exDb_shaped : Shaped exDb := by
  refine ⟨?_, ?_, ?_, ?_⟩
  · intro h n hn hv
    match h, hn with
    | 0, hn => cases hn; simp at hv
    | 1, hn => cases hn; rfl
    | 2, hn => cases hn; rfl
  · intro h n hn hv
    match h, hn with
    | 0, hn => cases hn; simp
    | 1, hn => cases hn; simp at hv
    | 2, hn => cases hn; simp at hv
  · intro h n hn _
    match h, hn with
    | 0, hn => cases hn; exact ⟨by decide, by decide⟩
    | 1, hn => cases hn; exact ⟨by decide, by decide⟩
    | 2, hn => cases hn; exact ⟨by decide, by decide⟩
  · intro h n k m hn _ hk hk0 _
    match h, hn with
    | 0, hn =>
      cases hn
      simp only [List.mem_cons, List.mem_nil_iff, or_false] at hk
      rcases hk with rfl | rfl | rfl <;> simp at hk0
    | 1, hn => cases hn; cases hk
    | 2, hn => cases hn; cases hk

-- a history over the billet: leaf 2 before it is requested, a restart, the root, a HashNode carrying a
-- requested hash (error, nothing changes), a restart, leaf 2 (restored at both of its paths), garbage, leaf 1:
-- the pool is empty, the billet has collapsed into the root HashNode, counters and storage are the trie's
example :
    let n (i : Nat) : BItem := match exDb i with | some x => .node i x | none => .garbage
    let s := runEvsB exDb 5 0 (BS.init 0)
      [.batch [n 2], .restart, .batch [n 0, .hashNode 1, n 1], .restart, .batch [n 2, .garbage], .batch [n 1]]
    s.ms.pool = [] ∧ s.billet.isCollapsed = true ∧ s.ms.done = [(0, []), (2, [1]), (2, [2]), (1, [0])] ∧
    s.ms.refs 2 = 2 ∧ s.ms.temp = [([1], 22), ([2], 22), ([0], 11)] := by decide

-- RestoreHashNode on the billet after the root was restored: the pending pair is accepted, another hash at
-- that path, a path below a missing node, the root again, a HashNode are not
example :
    let s := (deliverB exDb 5 (BS.init 0) [.node 0 { val := none, kids := [([0], 1), ([1], 2), ([2], 2)] }]).1
    (match restoreHashNode s [1] 2 { val := some 22, kids := [] } with | .ok _ => true | _ => false) = true ∧
    (match restoreHashNode s [1] 1 { val := some 11, kids := [] } with | .err .badHash => true | _ => false) = true ∧
    (match restoreHashNode s [1, 3] 2 { val := some 22, kids := [] } with | .err .collapsed => true | _ => false) = true ∧
    (match restoreHashNode s [] 0 { val := none, kids := [([0], 1), ([1], 2), ([2], 2)] } with | .panic => true | _ => false) = true ∧
    (match restoreHashNode s [7] 2 { val := some 22, kids := [] } with | .err .modifyEmpty => true | _ => false) = true ∧
    (match restoreHashNodeItem s [1] (.hashNode 2) with | .err .intoHashNode => true | _ => false) = true := by decide

/-! ## Part (c): the stage machine of statesync.Module (headers → MPT nodes → blocks → state jump →
inactive, restarts anywhere), model `Model/SyncStage.lean` over the billet model; every module call of the
sync stream (MPT mode) is one `SS.step` of the driver, compared with the real module's answer, stage and pool. -/

/-- What reaches the module, as the receiver decodes it. -/
inductive SRecv
  | init
  | headers (hs : List Hdr)
  | nodes (items : List Recv)
  | block (idx : Nat) (genuine : Bool) (body : List Nat)

def srecv (H : SNode → Hash) : SRecv → SMsg
  | .init => .init
  | .headers hs => .headers hs
  | .nodes items => .nodes (items.map (recvB H))
  | .block i g b => .block i g b

theorem srecv_ok (H : SNode → Hash) (hinj : ∀ a b, H a = H b → a = b) (c : SCfg)
    (hkey : ∀ h m, c.db h = some m → H m = h) (ms : List SRecv) : ∀ m ∈ ms.map (srecv H), SMsgOk c m := by
  intro m hm
  simp only [List.mem_map] at hm
  obtain ⟨m0, _, rfl⟩ := hm
  cases m0 with
  | init => trivial
  | headers hs => trivial
  | block i g b => trivial
  | nodes items =>
    exact recvEvB_ok H hinj c.db hkey [some items] (.batch (items.map (recvB H))) (by simp [recvEvB])

/-- The hypothesis `hb0` of `SHyp` (a non-empty window below the sync point) is a consequence of what the driver
checks on every case: the sync point is the one Init chooses and the window base is the one getLatestSavedBlock
computes, for a positive interval and a positive MaxTraceableBlocks. -/
theorem window_nonempty_of_cfg (top interval mtb p : Nat) (hi : 0 < interval) (hm : 0 < mtb)
    (hp : syncPointOf top interval = some p) : windowBase p mtb < p := by
  unfold syncPointOf at hp
  split at hp
  · cases hp
  · rename_i h
    cases hp
    unfold windowBase
    split <;> omega

example : windowBase 12 5 = 7 ∧ windowBase 4 6 = 0 := by decide
/-- C20 (state sync, safety for every schedule). `c` describes the source at the sync point `P` (trie, window
`b0+1..P`, transaction lists), `H` is collision-free. Feed the module ANY sequence of calls: header batches
(genuine, stale, with gaps, with altered headers), MPT data (trie nodes in any order and number, unsolicited,
foreign, HashNodes, EmptyNodes, garbage), blocks (any index, a foreign header, the genuine header with another
transaction list), restarts — from honest and dishonest peers in any interleaving. Then at every moment
(1) the blocks stored so far are exactly `b0+1, b0+2, …` up to the module's block height, in order, each once
(none before the MPT stage is over), the jump is made only in stage `inactive`, and while the module is in the
MPT stage its pool is not empty (it always has something to ask for: no schedule stalls it, b477a41);
(2) whenever the module is `inactive`: the jump to `P` was made with the header chain beyond `P`, the billet
collapsed into the root, every position of the source trie restored exactly once (node store with exact
reference counters, temporary storage = the trie's key-value content) and the stored blocks are exactly the
window `b0+1..P`;
(3) a call of AddHeaders / AddBlock that is not answered `ok` leaves the state untouched (for MPT data see
`billet_accepts_iff`, `wrong_data_rejected_harmless`). -/
theorem sync_safe (H : SNode → Hash) (hinj : ∀ a b, H a = H b → a = b) (c : SCfg)
    (hkey : ∀ h m, c.db h = some m → H m = h) (rk : Hash → Nat) (hy : SHyp c rk) (ms : List SRecv) :
    let s := (SS.init c).run c (ms.map (srecv H))
    (s.jumped = true ↔ s.stage = .inactive) ∧
    ((s.stage = .headers ∨ s.stage = .mpt) → s.blocks = []) ∧
    (s.stage = .mpt → s.bs.ms.pool ≠ []) ∧
    ((s.stage = .blocks ∨ s.stage = .inactive) → s.blocks = List.range' (c.b0 + 1) (s.bh - c.b0) ∧ s.bh ≤ c.p) ∧
    (s.stage = .inactive →
      c.p < s.hh ∧ s.bh = c.p ∧ s.blocks = List.range' (c.b0 + 1) (c.p - c.b0) ∧
      s.bs.billet = .hash c.root true ∧
      (∀ h p, Pos c.db c.root h p ↔ (h, p) ∈ s.bs.ms.done) ∧ s.bs.ms.done.Nodup ∧
      (∀ h, s.bs.ms.refs h = (s.bs.ms.done.filter (fun x => x.1 == h)).length) ∧
      (∀ p v, (p, v) ∈ s.bs.ms.temp ↔ ∃ h n, Pos c.db c.root h p ∧ c.db h = some n ∧ n.val = some v)) ∧
    (∀ m, ((∃ hs, m = SMsg.headers hs) ∨ ∃ idx g body, m = SMsg.block idx g body) →
      (s.step c m).2 ≠ .ok → (s.step c m).1 = s) := by
  intro s
  have hi : SInv c s := sinv_run c rk hy _ (SS.init c) (sinv_init c) (srecv_ok H hinj c hkey ms)
  obtain ⟨hb, hcl, hst⟩ := hi
  have hi : SInv c s := ⟨hb, hcl, hst⟩
  have hb0 := hy.hb0
  refine ⟨?_, ?_, fun hs => by rw [hs] at hst; exact hst.2.2.2.2, ?_, ?_, fun m hm hr => rejected_unchanged c rk hy s hi m hm hr⟩
  · cases hs : s.stage with
    | headers => rw [hs] at hst; simp [hst.2.2.2]
    | mpt => rw [hs] at hst; simp [hst.2.2.2]
    | blocks => rw [hs] at hst; simp [hst.2.2.2.2.1]
    | inactive => rw [hs] at hst; simp [hst.2.2.2.1]
  · rintro (hs | hs) <;> rw [hs] at hst <;> exact hst.2.1
  · rintro (hs | hs) <;> rw [hs] at hst
    · exact ⟨hst.2.2.2.2.2.1, by omega⟩
    · obtain ⟨_, _, h3, _, h5⟩ := hst
      rw [h3]; exact ⟨h5, Nat.le_refl _⟩
  · intro hs
    rw [hs] at hst
    obtain ⟨h1, h2, h3, _, h5⟩ := hst
    obtain ⟨e1, e2, e3, e4, e5⟩ := exact_of_empty_pool c.db c.root s.bs hb h2
    exact ⟨h1, h3, h5, e1, e2, e3, fun h => (e4 h).1, e5⟩

/-- C20 (state sync, convergence under any fair schedule). `Lp` is any enumeration of the positions of the source
trie. Call a message *serving* if it is what an honest peer answers to the module's current request: headers
continuing the header chain, MPT data starting with a node the pool asks for, the next block of the window with
its own transactions (`Useful`); by `sync_safe` the module has such a request open in every stage but `inactive`.
Let honest and dishonest peers interleave in ANY way — stale, gapped and altered headers, unsolicited / duplicate /
foreign / undecodable MPT data, HashNodes, EmptyNodes, nodes with inlined children, wrong-index blocks, blocks
under a foreign header or with another transaction list, restarts at any point. As soon as the history contains
`(P+1) + (|Lp|+1) + (P−b0)` serving messages — wherever they fall among the junk — the module is `inactive`,
hence (by `sync_safe`) jumped to exactly the source's state at `P` with exactly the window of blocks. No message
makes the measure grow: junk never undoes progress. -/
theorem sync_converges (H : SNode → Hash) (hinj : ∀ a b, H a = H b → a = b) (c : SCfg)
    (hkey : ∀ h m, c.db h = some m → H m = h) (rk : Hash → Nat) (hy : SHyp c rk)
    (Lp : List (Hash × Path)) (hL : ∀ h p, Pos c.db c.root h p → (h, p) ∈ Lp) (ms : List SRecv) :
    let s := (SS.init c).run c (ms.map (srecv H))
    mu c Lp.length s + served c (SS.init c) (ms.map (srecv H)) ≤ (c.p + 1) + (Lp.length + 1) + (c.p - c.b0) ∧
    ((c.p + 1) + (Lp.length + 1) + (c.p - c.b0) ≤ served c (SS.init c) (ms.map (srecv H)) → s.stage = .inactive) := by
  intro s
  obtain ⟨hi, hmu⟩ := run_spec c rk hy Lp hL _ (SS.init c) (sinv_init c) (srecv_ok H hinj c hkey ms)
  have h0 : mu c Lp.length (SS.init c) = (c.p + 1) + (Lp.length + 1) + (c.p - c.b0) := by
    simp [mu, SS.init, BS.init, MS.init]
  rw [h0] at hmu
  refine ⟨hmu, fun hge => mu_zero c Lp.length s hi ?_⟩
  have : mu c Lp.length s + served c (SS.init c) (ms.map (srecv H)) ≤ served c (SS.init c) (ms.map (srecv H)) :=
    Nat.le_trans hmu hge
  omega

/-! the example source: the trie `exDb` at sync point 4 with the window 3..4 -/
def exCfg : SCfg := { p := 4, b0 := 2, root := 0, db := exDb, fuel := 5, ntx := fun _ => 2 }

def exNode (i : Nat) : BItem := match exDb i with | some x => .node i x | none => .garbage
def exHdrs (a b : Nat) : List Hdr := (List.range (b + 1 - a)).map (fun j => { idx := a + j, genuine := true })

-- non-vacuity: the hypotheses on the source are satisfiable
example : SHyp exCfg (fun h => if h = 0 then 1 else 0) :=
  ⟨exDb_wf, exDb_shaped, exDb_ranked, by
    intro h m hm
    match h, hm with
    | 0, _ => decide
    | 1, _ => decide
    | 2, _ => decide, by decide⟩

-- non-vacuity: honest answers mixed with junk of every kind and restarts; the module ends inactive with exactly
-- the window and the whole trie
example :
    let s := (SS.init exCfg).run exCfg
      [.headers (exHdrs 2 3), .headers (exHdrs 1 3), .init, .headers [{ idx := 4, genuine := false }],
       .nodes [exNode 0], .block 3 true [0, 1], .headers (exHdrs 3 5), .headers (exHdrs 6 7),
       .nodes [exNode 2, exNode 0, .hashNode 1, exNode 1], .init, .block 3 true [0, 1],
       .nodes [.node 77 { val := some 1, kids := [] }, exNode 2, .garbage], .nodes [.empty], .nodes [exNode 1],
       .block 4 true [0, 1], .block 3 false [0, 1], .block 3 true [0, 1, 1], .block 3 true [0, 1], .init,
       .block 3 true [0, 1], .block 4 true [1, 0], .block 4 true [0, 1]]
    s.stage = .inactive ∧ s.blocks = [3, 4] ∧ s.jumped = true ∧ s.bs.ms.pool = [] ∧
    s.bs.ms.done = [(0, []), (2, [1]), (2, [2]), (1, [0])] ∧ s.bs.ms.refs 2 = 2 := by decide

-- Regression for mpt-stalled-empty-pool (fixed by b477a41): the batch that restores the last missing node carries
-- an undecodable item behind it. AddMPTNodes used to return at the error before it looked at the pool, leaving the
-- module in the MPT stage with nothing to request; now the call still answers `err`, but the stage has moved on.
example :
    let s0 := (SS.init exCfg).run exCfg [.headers (exHdrs 1 5), .nodes [exNode 0], .nodes [exNode 2]]
    let r := s0.step exCfg (.nodes [exNode 1, .garbage])
    s0.stage = .mpt ∧ r.2 = .err ∧ r.1.stage = .blocks ∧ r.1.bs.ms.pool = [] ∧ r.1.bh = 2 ∧
    r.1.bs.ms.done = [(0, []), (2, [1]), (2, [2]), (1, [0])] := by decide

/-! a trie in which leaf 1 occurs twice: root 0 = branch {0 ↦ leaf 1, 1 ↦ branch 3 {0 ↦ leaf 1}} -/
def exDbTwice : Hash → Option SNode
  | 0 => some { val := none, kids := [([0], 1), ([1], 3)] }
  | 1 => some { val := some 11, kids := [] }
  | 3 => some { val := none, kids := [([0], 1), ([5], 4)] }
  | 4 => some { val := some 44, kids := [] }
  | _ => none

/-- FINDING (crash-inside-addmptnodes). The theorems above restart the module between two AddMPTNodes calls.
The write cache, however, is flushed by a timer of another goroutine, so a crash image can also be the store
in the middle of one call. Witness: root and leaf 1 are restored (leaf 1 at `[0]`); node 3 arrives; `restoreNode`
has stored it (module.go:694-703, the model's `restoreStep`) and is about to raise the counter of its child
leaf 1, which is in the store already (module.go:705-713) — flush, crash. After the restart the traversal of
`defineSyncStage` takes every stored node as restored: position `(1, [1,0])` is dropped from the pool although
`RestoreHashNode` never ran for it. Leaf 4 completes the sync: the pool is empty, yet leaf 1 is counted once
for its two positions and the storage item under `[1,0]` was never written. -/
theorem crash_inside_restoreNode_witness :
    let n (i : Nat) : Item := match exDbTwice i with | some x => .node i x | none => .garbage
    let s1 := (deliver exDbTwice 5 (MS.init 0) [n 0, n 1]).1
    let crashImage := restoreStep s1 3 { val := none, kids := [([0], 1), ([5], 4)] }
    let s2 := (deliver exDbTwice 5 (rebuild exDbTwice 5 0 crashImage) [n 4]).1
    (1, [1, 0]) ∈ crashImage.pool ∧ s2.pool = [] ∧
    s2.refs 1 = 1 ∧ (s2.done.filter (fun x => x.1 == 1)).length = 1 ∧ ([1, 0], 11) ∉ s2.temp ∧
    -- the uninterrupted module ends with two references and both items
    (let t := (deliver exDbTwice 5 (MS.init 0) [n 0, n 1, n 3, n 4]).1
     t.pool = [] ∧ t.refs 1 = 2 ∧ ([1, 0], 11) ∈ t.temp) := by decide

end NeoModel.StateSync
