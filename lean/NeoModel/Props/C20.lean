/-
C20 — syncing converges to the same chain and state. Property theorems only
(helper lemmas live in Proofs/Queue*.lean, Proofs/StateSync*.lean).
-/
import NeoModel.Model.Queue
import NeoModel.Proofs.QueueChain
namespace NeoModel.Queue

/-- C20 (queue, order/once): for every capacity, start height and every interleaving of producer puts
(with arbitrarily stale heights), steps of `Run`, blocks added by other writers and `Discard`, the
indices applied to the chain (successful `AddItem`s of the queue and external additions, in order of
application) are exactly `h0+1, h0+2, …, height`: strictly in index order, each once, no gap. -/
theorem queue_in_order_once (cap h0 : Nat) (as : List Act) :
    let s := exec (init cap h0) as
    h0 ≤ s.height ∧ applied s.log = List.range' (h0 + 1) (s.height - h0) :=
  chainInv_exec h0 _ as ⟨Nat.le_refl _, by simp [init, applied]⟩

-- non-vacuity: a schedule with a duplicate, an out-of-order put and an external block applies 1,2,3
example :
    let e (i t : Nat) : Elem := { idx := i, tag := t, ok := true }
    let s := exec (init 4 0)
      [.run, .put (e 2 0) 0, .put (e 1 1) 0, .put (e 1 2) 0, .run, .run, .run, .run, .adv, .run, .run, .run, .run,
       .put (e 3 3) 2, .run, .run, .run, .run, .run]
    applied s.log = [1, 2, 3] ∧ s.height = 3 := by decide

end NeoModel.Queue
