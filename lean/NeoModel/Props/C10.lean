/-
C10 — the state trie is a canonical authenticated map. Property theorems only
(helper lemmas: Proofs/Mpt*.lean; model: Model/Mpt.lean, Model/Mpt/*.lean).
-/
import NeoModel.Model.Mpt
import NeoModel.Proofs.MptLookup
import NeoModel.Proofs.MptWF
import NeoModel.Proofs.MptCanonical
import NeoModel.Proofs.MptBatch
import NeoModel.Proofs.MptHistory
import NeoModel.Proofs.MptProofs
import NeoModel.Proofs.MptSeek
import NeoModel.Proofs.MptKeys
namespace NeoModel.C10
open NeoModel.Mpt

/-! ## 1. reads after writes -/

/-- C10.1a: after `Put(p, v)` the key `p` reads `v` and every other key reads what it read before
(any trie, any path — no well-formedness needed). -/
theorem lookup_put (t : Node) (p : Path) (v : Val) (q : Path) :
    lookup (put t p v) q = if q = p then some v else lookup t q :=
  Mpt.lookup_put t p v q

-- non-vacuity: splitting an extension (doc.go example: 1203 into the trie holding 1201)
example : lookup (put (put .empty [1,2,0,1] [0xaa]) [1,2,0,3] [0xbb]) [1,2,0,1] = some [0xaa] := by
  rw [lookup_put, lookup_put]; decide

/-- C10.1b: after `Delete(p)` the key `p` is absent and every other key reads what it read before
(including the branch-collapse and extension-merge restructuring). -/
theorem lookup_delete (t : Node) (p q : Path) :
    lookup (delete t p) q = if q = p then none else lookup t q :=
  Mpt.lookup_delete t p q

example : lookup (delete (put (put .empty [1,2] [1]) [1,3] [2]) [1,2]) [1,3] = some [2] := by
  rw [lookup_delete, lookup_put, lookup_put]; decide

/-- C10.1c: `PutBatch` of a batch with pairwise different keys makes every key of the batch read what
the batch says (a deletion reads absent) and leaves every other key alone — including the batch
path's own restructuring (`stripBranch`, `mergeExtension`, `newSubTrieMany`). -/
theorem lookup_putBatch (t : Node) (kv : Batch) (hd : DistinctKeys kv) (q : Path) :
    lookup (putBatch t kv) q = applyBatch (lookup t) kv q :=
  Mpt.lookup_putBatch t kv hd q

/-- … and for a Go map `m` passed through `MapToMPTBatch` (the sort does not matter). -/
theorem lookup_putBatch_map (t : Node) (m : List KV) (hd : DistinctKeys m) (q : Path) :
    lookup (putBatch t (mapToBatch m)) q = applyBatch (lookup t) m q :=
  Mpt.lookup_putBatch_map t m hd q

-- non-vacuity: a batch that deletes one key of an extension's subtree and adds a sibling
example : lookup (putBatch (put (put .empty [1,2] [1]) [1,3] [2]) [([1,2], none), ([1,4], some [9])]) [1,4]
    = some [9] := by
  rw [lookup_putBatch _ _ (by simp [DistinctKeys])]; decide

/-! ## 2. the structural invariants of doc.go:31-37 are preserved -/

theorem wf_put (t : Node) (p : Path) (v : Val) (h : WF t) : WF (put t p v) := Mpt.wf_put t p v h

theorem wf_delete (t : Node) (p : Path) (h : WF t) : WF (delete t p) := Mpt.wf_delete t p h

theorem wf_putBatch (t : Node) (kv : Batch) (h : WF t) : WF (putBatch t kv) := Mpt.wf_putBatch t kv h

-- non-vacuity: the empty trie is well-formed, so every trie built by puts/deletes is
example : WF (delete (put (put .empty [1,2] [1]) [1,3] [2]) [1,2]) :=
  wf_delete _ _ (wf_put _ _ _ (wf_put _ _ _ (by simp [WF])))

/-! ## 3. canonicity -/

/-- C10.3: two well-formed tries with the same contents are the same trie (hence have the same
encoding and the same root hash, whatever the hash function). -/
theorem canonical (a b : Node) (ha : WF a) (hb : WF b) (h : ∀ p, lookup a p = lookup b p) : a = b :=
  Mpt.canonical a b ha hb h

-- non-vacuity: two insertion orders
example : put (put .empty [1,2] [1]) [1,3] [2] = put (put .empty [1,3] [2]) [1,2] [1] :=
  canonical _ _ (wf_put _ _ _ (wf_put _ _ _ (by simp [WF]))) (wf_put _ _ _ (wf_put _ _ _ (by simp [WF])))
    (fun p => by
      simp only [lookup_put]
      by_cases h1 : p = [1,3] <;> by_cases h2 : p = [1,2] <;> simp_all)

/-- C10.4: after ANY history of Puts, Deletes and batches (each batch a map, i.e. distinct keys) the
trie is well-formed and holds exactly the history's contents. -/
theorem run_spec (ops : List Op) (hok : ∀ o ∈ ops, o.ok) :
    WF (run ops) ∧ ∀ q, lookup (run ops) q = contents ops q :=
  Mpt.run_spec ops hok

/-- C10.4: history independence. Two histories that end in the same contents end in the same trie,
hence the same root hash — for every hash function `H` (no assumption on `H` is needed: the tries
are equal, not just their hashes). -/
theorem root_history_independent (H : Bytes → Bytes) (ops₁ ops₂ : List Op)
    (h₁ : ∀ o ∈ ops₁, o.ok) (h₂ : ∀ o ∈ ops₂, o.ok)
    (hc : ∀ q, contents ops₁ q = contents ops₂ q) :
    run ops₁ = run ops₂ ∧ rootHash H (run ops₁) = rootHash H (run ops₂) := by
  have e : run ops₁ = run ops₂ :=
    Mpt.canonical _ _ (Mpt.run_spec ops₁ h₁).1 (Mpt.run_spec ops₂ h₂).1
      (fun q => by rw [(Mpt.run_spec ops₁ h₁).2, (Mpt.run_spec ops₂ h₂).2, hc])
  exact ⟨e, by rw [e]⟩

/-- … in particular the root equals that of a fresh trie built from the final contents. -/
theorem root_eq_build (H : Bytes → Bytes) (ops : List Op) (hok : ∀ o ∈ ops, o.ok)
    (l : List (Path × Val)) (hl : ∀ q, contents ops q = contents (l.map fun e => Op.put e.1 e.2) q) :
    rootHash H (run ops) = rootHash H (build l) :=
  (root_history_independent H ops _ hok (by intro o ho; simp only [List.mem_map] at ho; obtain ⟨e, _, rfl⟩ := ho; trivial) hl).2

-- non-vacuity: put+put+delete vs. one batch vs. a single put
example (H : Bytes → Bytes) :
    rootHash H (run [.put [1,2] [1], .put [1,3] [2], .del [1,2]]) = rootHash H (run [.batch [([1,3], some [2]), ([7], none)]]) := by
  refine (root_history_independent H _ _ (by intro o ho; simp at ho; rcases ho with rfl | rfl | rfl <;> trivial)
    (by intro o ho; simp at ho; subst ho; simp [Op.ok, DistinctKeys]) ?_).2
  intro q
  simp only [contents, List.foldl, specOp, applyBatch, List.lookup]
  by_cases h1 : q = [1,3]
  · subst h1; simp
  · by_cases h2 : q = [1,2]
    · subst h2; simp
    · by_cases h3 : q = [7]
      · subst h3; simp
      · have e1 : (q == [1,3]) = false := by simpa using h1
        have e3 : (q == [7]) = false := by simpa using h3
        simp [h1, h2, e1, e3]

/-! ## 5. membership proofs -/

/-- C10.6 completeness: for a present key, the list returned by `GetProof` verifies against the
state root to the stored value. (`H` = double SHA-256 in the code; needed of it: 32-byte output and
no collision among the trie's own node encodings. `Bounded t`: extension keys ≤ 136 nibbles,
values ≤ MaxValueLength — implied by the key/value limits of `Put`, see `bounded_of_contents`.) -/
theorem proof_complete (H : Bytes → Bytes) (h32 : ∀ b, (H b).length = 32)
    (t : Node) (hcf : CollFree H (nodeEncs H t)) (hb : Bounded t) (key : Bytes) (v : Val)
    (hv : lookup t (toNibbles key) = some v) :
    ∃ ps, getProof H t (toNibbles key) = some ps ∧ verifyProof H (rootHash H t) key ps = .found v := by
  have hsome : (getProof H t (toNibbles key)).isSome = true := by rw [getProof_isSome, hv]; rfl
  obtain ⟨ps, hps⟩ := Option.isSome_iff_exists.mp hsome
  have hne : t.isEmpty = false := by
    cases ht : t.isEmpty with
    | false => rfl
    | true => rw [isEmpty_iff.mp ht] at hv; simp [lookup] at hv
  have hcf' : CollFree H ps := collFree_subset hcf (getProof_subset H t _ ps hps)
  obtain ⟨x, hx, hw⟩ := walk_complete hcf' h32 t (ps.length + 1) (toNibbles key) ps hb hps (fun _ h => h) (by omega)
  refine ⟨ps, hps, ?_⟩
  rw [hv] at hx; cases hx
  simpa [verifyProof, rootHash, hne] using hw

/-- C10.6 soundness: for ANY list of byte strings `ps`, if verification against the root of a
non-empty trie `t` returns a value, that value is what `t` stores under the key (so: never a wrong
value, never a value for an absent key) — unless `H` has a collision among the presented byte
strings and the trie's own node encodings. (A hash with 32-byte output cannot be injective, so the
hypothesis is stated on exactly the byte strings that occur.) -/
theorem proof_sound (H : Bytes → Bytes) (h32 : ∀ b, (H b).length = 32)
    (t : Node) (hb : Bounded t) (hne : t.isEmpty = false) (key : Bytes) (ps : List Bytes) (v : Val)
    (hcf : CollFree H (ps ++ nodeEncs H t))
    (h : verifyProof H (rootHash H t) key ps = .found v) : lookup t (toNibbles key) = some v := by
  simp only [verifyProof, rootHash, hne] at h
  exact walk_sound hcf h32 ps (fun e he => by simp [he]) t _ _ _ hb hne (fun e he => by simp [he]) (by simpa using h)

/-- … and against the root of the EMPTY trie (32 zero bytes) nothing verifies, provided none of
the presented byte strings hashes to zero. -/
theorem proof_sound_empty (H : Bytes → Bytes) (key : Bytes) (ps : List Bytes) (hz : ∀ b ∈ ps, H b ≠ zero32)
    (v : Val) : verifyProof H (rootHash H .empty) key ps ≠ .found v := by
  have hf : fetch H ps zero32 = none := by
    unfold fetch
    apply List.find?_eq_none.mpr
    intro p hp; simpa using hz p (by simpa using hp)
  simp [verifyProof, rootHash, Node.isEmpty, walk, hf]

-- non-vacuity (toy 32-byte hash without collisions on the byte strings involved): the trie
-- {12 ↦ 07, 13 ↦ 08} = ext [1] (branch {2 ↦ leaf, 3 ↦ leaf}); its proof for key 0x12 verifies, and
-- a verifying list implies the stored value.
def exT : Node := put (put .empty [1,2] [7]) [1,3] [8]

theorem exT_bounded : Bounded exT := by
  simp [exT, put, lcpSplit, mkExt, newSub, upd, noKids, Bounded]
  refine ⟨by decide, fun i => ?_⟩
  split <;> (try split) <;> simp [Bounded, maxValueLength]

example : ∃ ps, getProof toyH exT (toNibbles [0x12]) = some ps ∧
    verifyProof toyH (rootHash toyH exT) [0x12] ps = .found [7] :=
  proof_complete toyH toyH_len exT (by decide) exT_bounded
    [0x12] [7] (by decide)

example : lookup exT (toNibbles [0x12]) = some [7] :=
  proof_sound toyH toyH_len exT exT_bounded (by decide) [0x12]
    ((getProof toyH exT [1,2]).getD []) [7] (by decide) (by decide)

/-- C10.7 (reload from storage, read path): a trie reopened from its root hash (`NewTrie(NewHashNode(root))`)
over ANY store that holds at least the flushed nodes of `t` and has no hash collision reads exactly
the contents of `t`: whatever `Get` finds is stored, and every stored key is found once enough nodes
may be loaded. (`walk` = `getWithPath` from `HashNode(root)` with lazy loading; the store may hold
arbitrary other byte strings, e.g. nodes of other roots.) -/
theorem reopen_get (H : Bytes → Bytes) (h32 : ∀ b, (H b).length = 32) (t : Node) (hb : Bounded t)
    (hne : t.isEmpty = false) (store : List Bytes) (hst : ∀ e ∈ nodeEncs H t, e ∈ store)
    (hcf : CollFree H store) (p : Path) (v : Val) :
    (∀ fuel, walk H store fuel (hash H t) p = .found v → lookup t p = some v) ∧
    (lookup t p = some v → ∃ n, ∀ fuel, n ≤ fuel → walk H store fuel (hash H t) p = .found v) :=
  Mpt.reopen_get h32 t hb hne store hst hcf p v

example : walk toyH (nodeEncs toyH exT) 5 (hash toyH exT) [1,3] = .found [8] := by decide

/-- the limits of `Put` (trie.go:147-152) give `Bounded`. -/
theorem bounded_of_contents (t : Node) (hw : WF t)
    (h : ∀ p v, lookup t p = some v → p.length ≤ maxPathLength ∧ v.length ≤ maxValueLength) : Bounded t :=
  Mpt.bounded_of_contents t hw h

/-! ## 6. ordered reads agree with the contents -/

/-- `entries t` is the contents of `t` as a list … -/
theorem mem_entries (t : Node) (p : Path) (v : Val) : (p, v) ∈ entries t ↔ lookup t p = some v :=
  Mpt.mem_entries t p v

/-- … in strictly ascending key order (bytes.Compare on the nibble paths, which is the byte order
of the keys). -/
theorem entries_sorted (t : Node) : (entries t).Pairwise (fun a b => pathLt a.1 b.1 = true) :=
  Mpt.entries_sorted t

/-- C10.5a: `Billet.traverse` (forwards and backwards, with any start position `frm`) reports exactly
the entries in range — forwards the keys ≥ `frm`, backwards the keys ≤ `frm` or extending `frm` —
in key order, reversed when going backwards. -/
theorem traverse_spec (back : Bool) (t : Node) (path frm : Path) :
    traverse back t path frm =
      dir back (((entries t).filter (fun e => inRange back frm e.1)).map (rel path)) :=
  Mpt.traverse_spec back t path frm

/-- C10.5b: `TrieStore.Seek(Prefix, Start, Backwards)` = the keys under the prefix (relative to it)
that are in range of `Start`, ascending or descending: the same answer `MemoryStore.seek` gives on
the same contents. -/
theorem seek_spec (t : Node) (pre fromP : Path) (back : Bool) :
    seek t pre fromP back = dir back ((under t pre).filter (fun e => inRange back fromP e.1)) :=
  Mpt.seek_spec t pre fromP back

/-- C10.5c: `Trie.Find(prefix, from, maxNum)`, when it succeeds, returns the first `maxNum` keys under
the prefix that come strictly after `from` (all of them without `from`), ascending; it fails only
if no key has the prefix. (`maxNum ≥ 1` in the code: with 0 the real stop test fires one node late.) -/
theorem find_spec (t : Node) (pre : Path) (frm : Option Path) (maxNum : Nat) :
    (∀ l, find t pre frm maxNum = some l → l = ((under t pre).filter (fun e => after frm e.1)).take maxNum) ∧
    (find t pre frm maxNum = none → under t pre = []) :=
  ⟨fun l h => Mpt.find_some t pre frm maxNum l h, Mpt.find_none t pre frm maxNum⟩

-- non-vacuity (keys 12, 1205, 1207, 1230, 11 — the backward seek of DESIGN §6 item 10): the model
-- evaluates to the specified answer, and the start position is a proper extension of key 12.
def exS : Node := run [.put [1,2] [1], .put [1,2,0,5] [2], .put [1,2,0,7] [3], .put [1,2,3,0] [4], .put [1,1] [5]]

example : seek exS [] [1,2,0,6] true = [([1,2,0,5], [2]), ([1,2], [1]), ([1,1], [5])] := by decide
example : (find exS [1,2] (some [0,5]) 10) = some [([0,7], [3]), ([3,0], [4])] := by decide

/-! ## 7. keys are bytes -/

/-- the byte order of keys (bytes.Compare) is the order of their nibble paths used above … -/
theorem pathLt_toNibbles (a b : Bytes) : pathLt (toNibbles a) (toNibbles b) = bytesLt a b :=
  Mpt.pathLt_toNibbles a b

/-- … and different keys have different paths. -/
theorem toNibbles_inj {a b : Bytes} (h : toNibbles a = toNibbles b) : a = b := Mpt.toNibbles_inj h

/-- batch.go:19-32: `MapToMPTBatch` of a map yields a batch strictly sorted by key (so that the runs of
equal first nibble that `iterateBatch` walks are the per-nibble groups of the model), with the same
pairwise different keys. -/
theorem sorted_of_mapToBatch (m : List KV) (hd : DistinctKeys m) :
    (mapToBatch m).Pairwise (fun a b => pathLt a.1 b.1 = true) ∧ DistinctKeys (mapToBatch m) :=
  ⟨Mpt.sorted_of_mapToBatch m hd, Mpt.distinct_mapToBatch hd⟩

example : mapToBatch [([1,3], none), ([1,2], some [1]), ([], some [])] = [([], some []), ([1,2], some [1]), ([1,3], none)] := by
  decide

end NeoModel.C10
