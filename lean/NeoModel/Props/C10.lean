/-
C10 — the state trie is a canonical authenticated map. Property theorems only
(helper lemmas: Proofs/Mpt*.lean; model: Model/Mpt.lean, Model/Mpt/*.lean).
-/
import NeoModel.Model.Mpt
import NeoModel.Proofs.MptLookup
namespace NeoModel.C10
open NeoModel.Mpt

/-- C10.1a: after `Put(p, v)` the key `p` reads `v` and every other key reads what it read before
(any trie, any path — no well-formedness needed). -/
theorem lookup_put (t : Node) (p : Path) (v : Val) (q : Path) :
    lookup (put t p v) q = if q = p then some v else lookup t q :=
  Mpt.lookup_put t p v q

-- non-vacuity: splitting an extension (doc.go example: 1203 into the trie holding 1201)
example : lookup (put (put .empty [1,2,0,1] [0xaa]) [1,2,0,3] [0xbb]) [1,2,0,1] = some [0xaa] := by
  rw [lookup_put, lookup_put]; decide

end NeoModel.C10
