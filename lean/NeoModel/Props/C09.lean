/-
C09 — the layered key-value store is one ordered map on every backend. Property theorems only;
the model is `Model/Store.lean`, the specification `Model/Store/Spec.lean`, lemmas `Proofs/Store*.lean`.
-/
import NeoModel.Proofs.StoreFlush
namespace NeoModel.Store.C09

/-- C09 (point reads): `Get` on any stack over any backend returns what the ordered map holds. -/
theorem get_flatten (s : Store) (k : Key) : s.get k = s.flatten k := Store.get_flatten s k

-- non-vacuity: a deletion in the upper layer hides the lower value, a value shadows it
example :
    let s := Store.cached { priv := true, mem := [], stor := [([0x70, 1], none), ([0x70, 2], some [9])] }
      (.cached { priv := false, mem := [], stor := [([0x70, 1], some [7]), ([0x70, 2], some [8]), ([0x70, 3], some [6])] } (.level []))
    (s.get [0x70, 1], s.get [0x70, 2], s.get [0x70, 3]) = (none, some [9], some [6]) := by decide

/-- C09 (writes): Put / Delete on the top store is that write on the ordered map. -/
theorem write_flatten (L : Layer) (ps : Store) (k : Key) (v : Option Val) :
    ((Store.cached L ps).put k v).flatten = (Store.cached L ps).flatten.set k v :=
  flatten_put L ps k v

example : ((Store.cached (Layer.fresh false) (.bolt [([0x70], [1])])).put [0x70] none).flatten [0x70] = none := by
  rw [write_flatten]; simp [SpecMap.set]

/-- C09 (batches): `PutChangeSet` on any store — cache layer, MemoryStore, LevelDB, BoltDB — is one
step after which the map holds the *whole* batch laid over the old contents (before it: none of it). -/
theorem batch_atomic (s : Store) (p st : GoMap) (hp : MapWF p) (hst : MapWF st) (hpl : Placed p st) :
    (s.putChangeSet p st).flatten = overlay { priv := false, mem := p, stor := st } s.flatten :=
  flatten_putChangeSet s p st hp hst hpl

example : ((Store.level [([0x70], [1]), ([1], [2])]).putChangeSet [([1], none)] [([0x70], some [3]), ([0x71], some [4])]).flatten
    = overlay { priv := false, mem := [([1], none)], stor := [([0x70], some [3]), ([0x71], some [4])] }
        (Store.level [([0x70], [1]), ([1], [2])]).flatten :=
  batch_atomic _ _ _ (by unfold MapWF; decide) (by unfold MapWF; decide) (by unfold Placed; decide)

/-- C09 (flush, step by step): each atomic step of a flush of any store of the stack — maps swapped
out and tempstore interposed; the lower `PutChangeSet`; `ps` restored (or the error branch); a
private store's or `PersistSync`'s whole flush; one private store of `PersistPrivate` — leaves the
ordered map of every enclosing view unchanged. -/
theorem persist_step_invisible {s s' : Store} (st : FlushStep s s') (h : s.WF) : s'.flatten = s.flatten :=
  flushStep_flatten st h

/-- the guard of the last step (`Covered`) is what the second step establishes … -/
theorem persist_write_covers (T : Layer) (ps : Store) (hT : T.WF) : Covered T (ps.putChangeSet T.mem T.stor) :=
  covered_after_write T ps hT

/-- … and no flush step of the stores below can break it (the top store's writes do not touch it). -/
theorem persist_cover_stable (T : Layer) {ps ps' : Store} (h : Covered T ps) (hw : ps.WF) (st : FlushStep ps ps') :
    Covered T ps' := covered_stable T h hw st

/-- C09 (schedules): after ANY interleaving of client writes on the top store with flush steps of
any stores of the stack, the stack stands for the ordered map that received the same writes —
so (`get_flatten`, `seek_spec`) every read at any moment of any flush answers from that map: no
committed key missing, no stale value, no half batch. -/
theorem persist_invisible {s s' : Store} {es : List Ev} (r : Run s es s') (h : s.WF) :
    s'.flatten = specAfter s.flatten es := run_flatten r h

theorem read_during_flush {s s' : Store} {es : List Ev} (r : Run s es s') (h : s.WF) (k : Key) :
    s'.get k = specAfter s.flatten es k := by rw [get_flatten, persist_invisible r h]

-- non-vacuity: put, begin a flush, put again (into the fresh maps), write, delete, finish
example :
    let s0 := Store.cached (Layer.fresh false) (.memB [] [])
    let s1 := s0.put [0x70] (some [1])
    let s2 := s1.persist1
    let s3 := s2.put [0x71] (some [2])
    let s4 := s3.persist2
    let s5 := s4.put [0x70] none
    let s6 := s5.persist3
    Run s0 [.put [0x70] (some [1]), .tau, .put [0x71] (some [2]), .tau, .put [0x70] none, .tau] s6 ∧
      s6.get [0x70] = none ∧ s6.get [0x71] = some [2] ∧ s4.get [0x70] = some [1] := by
  refine ⟨?_, by decide, by decide, by decide⟩
  refine .cons _ _ _ _ _ (.put _ _ _ _) ?_
  refine .cons _ _ _ _ _ (.flush _ _ (.begin _ _)) ?_
  refine .cons _ _ _ _ _ (.put _ _ _ _) ?_
  refine .cons _ _ _ _ _ (.flush _ _ (.write _ _ _)) ?_
  refine .cons _ _ _ _ _ (.put _ _ _ _) ?_
  refine .cons _ _ _ _ _ (.flush _ _ (.finish _ _ _ ?_)) (.nil _)
  exact covered_after_write _ _ (by unfold Layer.WF MapWF Placed; decide)

end NeoModel.Store.C09
