/-
C09 — the layered key-value store is one ordered map on every backend. Property theorems only;
the model is `Model/Store.lean`, the specification `Model/Store/Spec.lean`, lemmas `Proofs/Store*.lean`.
-/
import NeoModel.Proofs.StoreSeekSpec
import NeoModel.Model.Store.Window
set_option linter.unusedSimpArgs false
namespace NeoModel.Store.C09

/-- C09 (point reads): `Get` on any stack over any backend returns what the ordered map holds. -/
theorem get_flatten (s : Store) (k : Key) : s.get k = s.flatten k := Store.get_flatten s k

-- non-vacuity: a deletion in the upper layer hides the lower value, a value shadows it
example :
    let s := Store.cached { priv := true, mem := [], stor := [([0x70, 1], none), ([0x70, 2], some [9])] }
      (.cached { priv := false, mem := [], stor := [([0x70, 1], some [7]), ([0x70, 2], some [8]), ([0x70, 3], some [6])] } (.level []))
    (s.get [0x70, 1], s.get [0x70, 2], s.get [0x70, 3]) = (none, some [9], some [6]) := by decide

/-- C09 (writes): Put / Delete on the top store is that write on the ordered map. -/
theorem write_flatten (L : Layer) (ps : Store) (k : Key) (v : Option Val) :
    ((Store.cached L ps).put k v).flatten = (Store.cached L ps).flatten.set k v :=
  flatten_put L ps k v

example : ((Store.cached (Layer.fresh false) (.bolt [([0x70], [1])])).put [0x70] none).flatten [0x70] = none := by
  rw [write_flatten]; simp [SpecMap.set]

/-- C09 (batches): `PutChangeSet` on any store — cache layer, MemoryStore, LevelDB, BoltDB — is one
step after which the map holds the *whole* batch laid over the old contents (before it: none of it). -/
theorem batch_atomic (s : Store) (p st : GoMap) (hp : MapWF p) (hst : MapWF st) (hpl : Placed p st) :
    (s.putChangeSet p st).flatten = overlay { priv := false, mem := p, stor := st } s.flatten :=
  flatten_putChangeSet s p st hp hst hpl

example : ((Store.level [([0x70], [1]), ([1], [2])]).putChangeSet [([1], none)] [([0x70], some [3]), ([0x71], some [4])]).flatten
    = overlay { priv := false, mem := [([1], none)], stor := [([0x70], some [3]), ([0x71], some [4])] }
        (Store.level [([0x70], [1]), ([1], [2])]).flatten :=
  batch_atomic _ _ _ (by unfold MapWF; decide) (by unfold MapWF; decide) (by unfold Placed; decide)

/-- C09 (flush, step by step): each atomic step of a flush of any store of the stack — maps swapped
out and tempstore interposed; the lower `PutChangeSet`; `ps` restored (or the error branch); a
private store's or `PersistSync`'s whole flush; one private store of `PersistPrivate` — leaves the
ordered map of every enclosing view unchanged. -/
theorem persist_step_invisible {s s' : Store} (st : FlushStep s s') (h : s.WF) : s'.flatten = s.flatten :=
  flushStep_flatten st h

/-- the guard of the last step (`Covered`) is what the second step establishes … -/
theorem persist_write_covers (T : Layer) (ps : Store) (hT : T.WF) : Covered T (ps.putChangeSet T.mem T.stor) :=
  covered_after_write T ps hT

/-- … and no flush step of the stores below can break it (the top store's writes do not touch it). -/
theorem persist_cover_stable (T : Layer) {ps ps' : Store} (h : Covered T ps) (hw : ps.WF) (st : FlushStep ps ps') :
    Covered T ps' := covered_stable T h hw st

/-- C09 (schedules): after ANY interleaving of client writes on the top store with flush steps of
any stores of the stack, the stack stands for the ordered map that received the same writes —
so (`get_flatten`, `seek_spec`) every read at any moment of any flush answers from that map: no
committed key missing, no stale value, no half batch. -/
theorem persist_invisible {s s' : Store} {es : List Ev} (r : Run s es s') (h : s.WF) :
    s'.flatten = specAfter s.flatten es := run_flatten r h

theorem read_during_flush {s s' : Store} {es : List Ev} (r : Run s es s') (h : s.WF) (k : Key) :
    s'.get k = specAfter s.flatten es k := by rw [get_flatten, persist_invisible r h]

-- non-vacuity: put, begin a flush, put again (into the fresh maps), write, delete, finish
example :
    let s0 := Store.cached (Layer.fresh false) (.memB [] [])
    let s1 := s0.put [0x70] (some [1])
    let s2 := s1.persist1
    let s3 := s2.put [0x71] (some [2])
    let s4 := s3.persist2
    let s5 := s4.put [0x70] none
    let s6 := s5.persist3
    Run s0 [.put [0x70] (some [1]), .tau, .put [0x71] (some [2]), .tau, .put [0x70] none, .tau] s6 ∧
      s6.get [0x70] = none ∧ s6.get [0x71] = some [2] ∧ s4.get [0x70] = some [1] := by
  refine ⟨?_, by decide, by decide, by decide⟩
  refine .cons _ _ _ _ _ (.put _ _ _ _) ?_
  refine .cons _ _ _ _ _ (.flush _ _ (.begin _ _)) ?_
  refine .cons _ _ _ _ _ (.put _ _ _ _) ?_
  refine .cons _ _ _ _ _ (.flush _ _ (.write _ _ _)) ?_
  refine .cons _ _ _ _ _ (.put _ _ _ _) ?_
  refine .cons _ _ _ _ _ (.flush _ _ (.finish _ _ _ ?_)) (.nil _)
  exact covered_after_write _ _ (by unfold Layer.WF MapWF Placed; decide)

/-! ### range scans -/

/-- C09 (range scans): `Seek` on ANY stack — any number of shared / private cache layers, tombstones,
tempstores of flushes in progress — over ANY backend (MemoryStore, LevelDB, BoltDB), for every
non-empty prefix, start, direction and SearchDepth, enumerates exactly the pairs of the ordered
map (seen through `SearchDepth` layers) whose key is in range, strictly ordered in the direction
of the scan: nothing omitted, nothing extra, no duplicates. -/
theorem seek_spec (s : Store) (hw : s.WF) (rng : SeekRange) (hp : rng.pfx ≠ []) :
    IsSpecSeek (s.flattenD rng.depth) rng (s.seek rng) := seek_spec_all s hw rng hp

/-- … and that answer is unique, so `seek_spec` determines the list. -/
theorem seek_unique (f : SpecMap) (rng : SeekRange) (a b : List KV)
    (ha : IsSpecSeek f rng a) (hb : IsSpecSeek f rng b) : a = b := isSpecSeek_unique f rng a b ha hb

-- non-vacuity: three layers over LevelDB; a tombstone hides a disk key, a cached key that extends
-- prefix‖start is part of the backward scan, the start key itself is included
example :
    let s := Store.cached { priv := true, mem := [], stor := [([0x70, 0, 0x70, 0xff], some [5])] }
      (.cached { priv := false, mem := [], stor := [([0x70, 0, 0x70, 0x71], none)] }
        (.level [([0x70, 0], [1]), ([0x70, 0, 0x70], [2]), ([0x70, 0, 0x70, 0x71], [3]), ([0x70, 0, 0x71], [4])]))
    let rng : SeekRange := { pfx := [0x70], start := [0, 0x70], bw := true, depth := 0 }
    ([0x70, 0, 0x70, 0xff], [5]) ∈ s.seek rng ∧ ([0x70, 0, 0x70], [2]) ∈ s.seek rng ∧
      ([0x70, 0, 0x70, 0x71], [3]) ∉ s.seek rng ∧ ([0x70, 0, 0x71], [4]) ∉ s.seek rng := by
  intro s rng
  have hw : s.WF := by
    refine ⟨?_, ?_, ?_⟩
    · unfold Layer.WF MapWF Placed; decide
    · unfold Layer.WF MapWF Placed; decide
    · show DbWF _; unfold DbWF; decide
  have h := (seek_spec s hw rng (by decide)).2
  refine ⟨(h _ _).mpr ⟨by decide, by unfold inRange; decide⟩, (h _ _).mpr ⟨by decide, by unfold inRange; decide⟩, ?_, ?_⟩
  · intro hin; have := ((h _ _).mp hin).1; revert this; decide
  · intro hin; have := ((h _ _).mp hin).2; revert this; unfold inRange; decide

/-- C09 (prefix trimming, early stop): what the caller of `Seek` / `SeekAsync(cutPrefix)` gets when
its callback stops at the `lim`-th item is the specified list with the prefix cut, stopped there
(cutting happens in the top store only, backends never cut). -/
theorem seek_observed (L : Layer) (ps : Store) (rng : SeekRange) (cut : Bool) (lim : Nat) :
    (Store.cached L ps).seekObs rng cut lim = specObs ((Store.cached L ps).seek rng) rng.pfx.length cut lim :=
  seekObs_eq (Store.cached L ps) rng cut lim

/-- cutting the prefix keeps the keys distinct: they all carry it. -/
theorem cut_injective (f : SpecMap) (rng : SeekRange) (r : List KV) (h : IsSpecSeek f rng r) :
    ∀ a ∈ r, ∀ b ∈ r, a.1.drop rng.pfx.length = b.1.drop rng.pfx.length → a.1 = b.1 := by
  intro a ha b hb e
  obtain ⟨ta, hta⟩ := ((h.2 a.1 a.2).mp ha).2.1
  obtain ⟨tb, htb⟩ := ((h.2 b.1 b.2).mp hb).2.1
  rw [← hta, ← htb] at e ⊢
  simp only [List.drop_left] at e
  rw [e]

/-- C09 (every backend): two stacks — in particular two bare backends of different kinds — that
stand for the same ordered map answer every range scan with the same list. -/
theorem backends_agree (s1 s2 : Store) (h1 : s1.WF) (h2 : s2.WF) (rng : SeekRange) (hp : rng.pfx ≠ [])
    (hsame : s1.flattenD rng.depth = s2.flattenD rng.depth) : s1.seek rng = s2.seek rng := by
  have a := seek_spec s1 h1 rng hp
  have b := seek_spec s2 h2 rng hp
  rw [hsame] at a
  exact seek_unique _ rng _ _ a b

-- non-vacuity: the same four keys in a MemoryStore, a LevelDB and a BoltDB (inserted in different orders)
example (rng : SeekRange) (hp : rng.pfx ≠ []) :
    (Store.memB [] [([0x70, 2], some [2]), ([0x70, 1], some [1]), ([0x70, 1, 0], some [3]), ([0x70], none)]).seek rng
      = (Store.bolt [([0x70, 1, 0], [3]), ([0x70, 1], [1]), ([0x70, 2], [2])]).seek rng := by
  apply backends_agree _ _ (by constructor <;> (unfold MapWF; decide)) (by show DbWF _; unfold DbWF; decide) rng hp
  rw [flattenD_backend_memB, flattenD_backend_bolt]
  funext k
  simp only [Store.flatten, overlay, layerSays, Layer.choose, mapGet, SpecMap.empty]
  by_cases hs : isStor k = true
  · simp only [hs, if_true, List.lookup]
    by_cases h1 : k = [0x70, 2]
    · subst h1; rfl
    · by_cases h2 : k = [0x70, 1]
      · subst h2; rfl
      · by_cases h3 : k = [0x70, 1, 0]
        · subst h3; rfl
        · by_cases h4 : k = [0x70]
          · subst h4; rfl
          · have e1 : (k == [0x70, 2]) = false := by simpa using h1
            have e2 : (k == [0x70, 1]) = false := by simpa using h2
            have e3 : (k == [0x70, 1, 0]) = false := by simpa using h3
            have e4 : (k == [0x70]) = false := by simpa using h4
            simp [e1, e2, e3, e4]
  · have hs' : isStor k = false := by simpa using hs
    have e1 : (k == [0x70, 2]) = false := by
      cases hk : k == [0x70, 2] with
      | false => rfl
      | true => rw [eq_of_beq hk] at hs'; cases hs'
    have e2 : (k == [0x70, 1]) = false := by
      cases hk : k == [0x70, 1] with
      | false => rfl
      | true => rw [eq_of_beq hk] at hs'; cases hs'
    have e3 : (k == [0x70, 1, 0]) = false := by
      cases hk : k == [0x70, 1, 0] with
      | false => rfl
      | true => rw [eq_of_beq hk] at hs'; cases hs'
    simp [hs', List.lookup, e1, e2, e3]

/-- C09 (flushing changes no scan): a flush step of any store of the stack changes no full-depth
range scan of any enclosing view. -/
theorem flush_seek_invisible {s s' : Store} (st : FlushStep s s') (h : s.WF) (rng : SeekRange)
    (hp : rng.pfx ≠ []) (hd : rng.depth = 0) : s'.seek rng = s.seek rng := by
  apply backends_agree s' s (flushStep_WF st h) h rng hp
  rw [hd]; exact flushStep_flatten st h

/-
FULL STATEMENT (false on the code as it is): "a range scan that overlaps ANY schedule of writes and
flush steps answers with the ordered map of some moment between its start and its end". The real
Seek is not one step: it snapshots the cached items, releases the lock and scans the lower store
later (`Store.seekSplit`, Model/Store/Window.lean). With a client batch AND a complete flush between
the two sections the answer mixes two generations (`seek_torn_witness`; known finding
seek-torn-by-write-and-flush). What is proved: the statement for scans that are atomic with respect to
the schedule (below), and for the real two-section scan the strongest true statement — per key, not per
map — in Props/C09b.lean (`seek_window_spec`, `seek_window_instant`, `seek_window_untouched`,
`seek_window_flush_only`).
-/

/-- C09 (scans during any schedule, partial): at any moment of any interleaving of writes with flush
steps a full-depth range scan taken in one step is the answer of the ordered map that received the
same writes. -/
theorem seek_during_flush_partial {s s' : Store} {es : List Ev} (r : Run s es s') (h : s.WF) (rng : SeekRange)
    (hp : rng.pfx ≠ []) (hd : rng.depth = 0) : IsSpecSeek (specAfter s.flatten es) rng (s'.seek rng) := by
  have := seek_spec s' (run_WF r h) rng hp
  rw [hd] at this
  rw [← persist_invisible r h]; exact this

-- non-vacuity: the run of the flush example above, scanned at its end
example : IsSpecSeek
    (specAfter (Store.cached (Layer.fresh false) (.memB [] [])).flatten
      [.put [0x70] (some [1]), .tau, .put [0x71] (some [2])])
    { pfx := [0x71], start := [], bw := true, depth := 0 }
    ((((Store.cached (Layer.fresh false) (.memB [] [])).put [0x70] (some [1])).persist1.put [0x71] (some [2])).seek
      { pfx := [0x71], start := [], bw := true, depth := 0 }) := by
  refine seek_during_flush_partial ?_ (by refine ⟨by unfold Layer.WF MapWF Placed Layer.fresh; decide, by unfold MapWF; decide, by unfold MapWF; decide⟩) _ (by decide) rfl
  refine .cons _ _ _ _ _ (.put _ _ _ _) ?_
  refine .cons _ _ _ _ _ (.flush _ _ (.begin _ _)) ?_
  exact .cons _ _ _ _ _ (.put _ _ _ _) (.nil _)

/-! the negation witness for the full statement -/

def tornA : Key := [0x70, 0x41]
def tornB : Key := [0x70, 0x42]
def tornC : Key := [0x70, 0x43]
/-- cache {A:1, B:1} over an empty MemoryStore. -/
def torn0 : Store :=
  .cached { priv := false, mem := [], stor := [(tornA, some [1]), (tornB, some [1])] } (.memB [] [])
/-- after PutChangeSet {B:2, C:2} … -/
def torn1 : Store :=
  .cached ((Layer.mk false [] [(tornA, some [1]), (tornB, some [1])] false).putCS [] [(tornB, some [2]), (tornC, some [2])])
    (.memB [] [])
/-- … and a complete Persist. -/
def torn2 : Store := torn1.persist.1
def tornRng : SeekRange := { pfx := [0x70], start := [], bw := false, depth := 0 }

theorem torn_run : Run torn0 [.batch [] [(tornB, some [2]), (tornC, some [2])], .tau] torn2 := by
  refine .cons _ _ _ _ _ (.batch _ _ _ _ (by unfold MapWF; decide) (by unfold MapWF; decide) (by unfold Placed; decide)) ?_
  exact .cons _ _ _ _ _ (.flush _ _ (.whole _ _)) (.nil _)

set_option maxRecDepth 4000 in
/-- a Seek whose snapshot was taken in `torn0` and whose lower scan runs in `torn2` returns B of
the first generation with C of the second: neither the answer before the batch nor after it. -/
theorem seek_torn_witness :
    torn0.seekSplit torn2 tornRng false 0 = [(tornA, [1]), (tornB, [1]), (tornC, [2])] ∧
    torn0.seek tornRng = [(tornA, [1]), (tornB, [1])] ∧
    torn2.seek tornRng = [(tornA, [1]), (tornB, [2]), (tornC, [2])] := by
  refine ⟨?_, ?_, ?_⟩ <;>
  simp [Store.seekSplit, Store.splitView, Store.withBottom, Store.bottom, Store.seekObs, torn0, torn1, torn2, tornRng, tornA, tornB, tornC, Store.persist, Layer.count, Layer.putCS,
    mapCopy, mapSet, Store.persist1, Store.persist2, Store.persist3, Store.putChangeSet, Store.seek, memorySeek,
    isStor, sortKV, sortKVE, List.mergeSort, List.MergeSort.Internal.splitInTwo, List.merge, leDir, ltDir, lexLt,
    isKeyOK, lexLe, lowerRange, snapshot, Layer.choose, performSeek, mergeFunc, mergeLoop, flushLoop, emit, contOK, cutKey]

end NeoModel.Store.C09
