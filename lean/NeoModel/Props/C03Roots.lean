/-
C03 — stateroot.Module keeps, for every retained height, the root of the storage after that block:
property theorems. Model `Model/StateCommit/Roots.lean` (AddMPTBatch / UpdateCurrentLocal /
GetStateRoot / Init / ResetState over the DataMPTAux records with their real key and value encodings),
lemmas `Proofs/StateCommitRoots{KV,Inv}.lean`.

Histories are lists of `Op`: a stored block, a block whose batch was applied by AddMPTBatch but that
was rejected afterwards (nothing committed, the trie reloaded: DropMPTBatch), a state reset to any height, a process restart, a signed
("validated") state root arriving from the network (AddStateRoot: whatever it carries, verified or not). State
roots are never garbage-collected by the module (GC removes trie nodes only, module.go:300-333), so
"retained" = not removed by a reset.
-/
import NeoModel.Props.C03
import NeoModel.Proofs.StateCommitRootsInv
namespace NeoModel.StateCommit.Roots

variable {T : Type}

theorem inv_step (O : TrieOps T) (hre : ∀ t, O.reopen (O.rootOf t) = t) (h32 : ∀ t, (O.rootOf t).length = 32)
    (s s' : St T) (o : Op) (hi : Inv O s) (hs : step O s o = some s') : Inv O s' := by
  cases o with
  | block b =>
    simp only [step] at hs
    split at hs
    · rename_i hlt
      simp only [Option.some.injEq] at hs; subst hs
      exact inv_block O s hi b hlt
    · cases hs
  | failed b => simp only [step, Option.some.injEq] at hs; subst hs; exact inv_failed O hre s hi
  | reset h =>
    simp only [step] at hs
    split at hs
    · rename_i hlt
      split at hs
      · rename_i m' hm
        simp only [Option.some.injEq] at hs; subst hs
        exact inv_reset O hre h32 s hi h hlt m' hm
      · simp only [Option.some.injEq] at hs; subst hs; exact hi
    · simp only [Option.some.injEq] at hs; subst hs; exact hi
  | restart =>
    simp only [step] at hs
    split at hs
    · rename_i m' hm
      simp only [Option.some.injEq] at hs; subst hs
      exact inv_restart O hre h32 s hi m' hm
    · simp only [Option.some.injEq] at hs; subst hs; exact hi
  | flush ok => simp only [step, Option.some.injEq] at hs; subst hs; exact hi
  | validated sr v =>
    simp only [step] at hs
    split at hs
    · rename_i hidx
      simp only [Option.some.injEq] at hs; subst hs
      exact inv_validated O h32 s hi sr v hidx
    · cases hs

theorem inv_run (O : TrieOps T) (hre : ∀ t, O.reopen (O.rootOf t) = t) (h32 : ∀ t, (O.rootOf t).length = 32)
    (ops : List Op) : ∀ (s s' : St T), Inv O s → run O s ops = some s' → Inv O s' := by
  induction ops with
  | nil => intro s s' hi h; simp only [run, Option.some.injEq] at h; subst h; exact hi
  | cons o os ih =>
    intro s s' hi h
    simp only [run] at h
    cases hs : step O s o with
    | none => rw [hs] at h; cases h
    | some s1 =>
      rw [hs] at h
      exact ih s1 s' (inv_step O hre h32 s s1 o hi hs) h

/-- **C03.R1 — `GetStateRoot h` is the root of the storage after block h, for every retained height,
for all histories.** After any history of stored blocks, rejected blocks, state resets (to any
height) and restarts, started from a fresh node: for every height `h` of the surviving chain the
record read back by `GetStateRoot h` has index `h` and the root hash of the trie obtained from the
first `h+1` change sets of the surviving chain; above the chain `GetStateRoot` finds nothing (a reset
leaves no stale root behind); and the module's current local root / height are those of the top.
Hypotheses: a trie re-opened from its own root hash is that trie (hash collision-freeness + every
node of a flushed trie is in the store: C10 `reopen_get`, C11), root hashes are 32 bytes. -/
theorem roots_per_height (O : TrieOps T) (hre : ∀ t, O.reopen (O.rootOf t) = t)
    (h32 : ∀ t, (O.rootOf t).length = 32) (ops : List Op) (s : St T)
    (hrun : run O (genesis O) ops = some s) :
    (∀ h, h < s.chain.length → ∃ r, getStateRoot s.m h = some r ∧ r.index = h ∧
        r.root = O.rootOf (trieAt O.M (s.chain.take (h + 1)))) ∧
    (∀ h, s.chain.length ≤ h → h < 2 ^ 32 → getStateRoot s.m h = none) ∧
    (s.chain ≠ [] → s.m.localHeight = s.chain.length - 1 ∧
        s.m.currentLocal = O.rootOf (trieAt O.M s.chain) ∧ s.m.mpt = trieAt O.M s.chain) := by
  have hi := inv_run O hre h32 ops _ s (inv_genesis O) hrun
  refine ⟨?_, ?_, ?_⟩
  · intro h hh
    obtain ⟨w, hw⟩ := getStateRoot_of_inv O h32 s hi h hh
    exact ⟨_, hw, rfl, rfl⟩
  · intro h hh h32'
    unfold getStateRoot
    rw [hi.above h hh h32']; rfl
  · intro hne
    obtain ⟨h1, h2⟩ := hi.cur hne
    exact ⟨h2, h1, hi.mpt⟩

/-- the surviving chain only holds change sets of stored blocks of the history. -/
theorem chain_sub (O : TrieOps T) (ops : List Op) : ∀ (s s' : St T), run O s ops = some s' →
    ∀ b ∈ s'.chain, b ∈ s.chain ∨ Op.block b ∈ ops := by
  induction ops with
  | nil => intro s s' h b hb; simp only [run, Option.some.injEq] at h; subst h; exact Or.inl hb
  | cons o os ih =>
    intro s s' h b hb
    simp only [run] at h
    cases hs : step O s o with
    | none => rw [hs] at h; cases h
    | some s1 =>
      rw [hs] at h
      rcases ih s1 s' h b hb with h1 | h1
      · -- b ∈ s1.chain: from s.chain or the op itself
        cases o with
        | block c =>
          simp only [step] at hs
          split at hs
          · simp only [Option.some.injEq] at hs; subst hs
            rcases List.mem_append.mp h1 with h2 | h2
            · exact Or.inl h2
            · simp only [List.mem_singleton] at h2; subst h2; exact Or.inr (by simp)
          · cases hs
        | failed c => simp only [step, Option.some.injEq] at hs; subst hs; exact Or.inl h1
        | reset hh =>
          simp only [step] at hs
          split at hs
          · split at hs
            · simp only [Option.some.injEq] at hs; subst hs
              exact Or.inl (List.mem_of_mem_take h1)
            · simp only [Option.some.injEq] at hs; subst hs; exact Or.inl h1
          · simp only [Option.some.injEq] at hs; subst hs; exact Or.inl h1
        | restart =>
          simp only [step] at hs
          split at hs
          · simp only [Option.some.injEq] at hs; subst hs; exact Or.inl h1
          · simp only [Option.some.injEq] at hs; subst hs; exact Or.inl h1
        | flush ok => simp only [step, Option.some.injEq] at hs; subst hs; exact Or.inl h1
        | validated sr v =>
          simp only [step] at hs
          split at hs
          · simp only [Option.some.injEq] at hs; subst hs; exact Or.inl h1
          · cases hs
      · exact Or.inr (List.mem_cons_of_mem _ h1)

/-- **C03.R2 — the recorded root of every retained height commits exactly to the storage of that
height.** With R1 and `root_commits`: after any history, for every retained height `h`, the trie
re-opened from the root that `GetStateRoot h` returns reads, under every key, exactly what contract
storage held after the first `h+1` blocks of the surviving chain — nothing missing, nothing extra. -/
theorem recorded_root_commits (O : TrieOps T) (hre : ∀ t, O.reopen (O.rootOf t) = t)
    (h32 : ∀ t, (O.rootOf t).length = 32) (ops : List Op) (hok : ∀ b, Op.block b ∈ ops → O.M.okBatch b)
    (s : St T) (hrun : run O (genesis O) ops = some s) (h : Nat) (hh : h < s.chain.length) :
    ∃ r, getStateRoot s.m h = some r ∧
      ∀ k, O.M.lookup (O.reopen r.root) k = storageAt (s.chain.take (h + 1)) k := by
  obtain ⟨r, hr, _, hroot⟩ := (roots_per_height O hre h32 ops s hrun).1 h hh
  refine ⟨r, hr, ?_⟩
  intro k
  rw [hroot, hre]
  apply root_commits O.M
  intro b hb
  have hb' := List.mem_of_mem_take hb
  rcases chain_sub O ops _ s hrun b hb' with h1 | h1
  · simp [genesis] at h1
  · exact hok b h1

/-! non-vacuity: a one-key store with one-byte values as the trie (root = its 32-byte encoding,
re-opening = decoding); a history with a rejected block, a reset below the top, a restart and a new
block on the reset chain. -/

def toyKey : Key := [7]

def toyStep (_t : Option UInt8) (c : Change) : Option UInt8 :=
  match c.2 with
  | some [x] => some x
  | _ => none

def toyOk (b : List Change) : Prop := ∀ c ∈ b, c.1 = toyKey ∧ (c.2 = none ∨ ∃ x, c.2 = some [x])

def toyMap : AuthMap (Option UInt8) where
  empty := none
  lookup := fun t k => if k = toyKey then t.map (fun x => [x]) else none
  putBatch := fun t b => b.foldl toyStep t
  okBatch := toyOk
  lookup_empty := by intro k; simp
  lookup_putBatch := by
    intro t b hb k
    induction b generalizing t with
    | nil => rfl
    | cons c rest ih =>
      have hc := hb c (by simp)
      have hrest : toyOk rest := fun d hd => hb d (by simp [hd])
      show (if k = toyKey then Option.map (fun x => [x]) (List.foldl toyStep (toyStep t c) rest) else none) =
        applyBatch (fun k => if k = toyKey then t.map (fun x => [x]) else none) (c :: rest) k
      have := ih (toyStep t c) hrest
      rw [this]
      show applyBatch _ rest k = applyBatch (applyChange _ c) rest k
      congr 1
      funext q
      simp only [applyChange]
      by_cases hq : q = toyKey
      · rw [if_pos hq, if_pos (hq.trans hc.1.symm)]
        rcases hc.2 with h0 | ⟨x, hx⟩
        · simp [toyStep, h0]
        · simp [toyStep, hx]
      · rw [if_neg hq, if_neg (fun e => hq (e.trans hc.1)), if_neg hq]

def toyOps : TrieOps (Option UInt8) where
  M := toyMap
  rootOf := fun t => match t with
    | none => List.replicate 32 0
    | some x => 1 :: x :: List.replicate 30 0
  reopen := fun r => match r with
    | 1 :: x :: _ => some x
    | _ => none
  rootOf_empty := rfl

theorem toy_reopen : ∀ t, toyOps.reopen (toyOps.rootOf t) = t := by
  intro t; cases t <;> rfl
theorem toy_len : ∀ t, (toyOps.rootOf t).length = 32 := by
  intro t; cases t <;> rfl

def toyHistory : List Op :=
  [.block [(toyKey, some [1])], .block [(toyKey, some [2])], .failed [(toyKey, some [9])],
   .block [(toyKey, none)], .reset 1, .restart, .block [(toyKey, some [5])]]

example : ∃ s, run toyOps (genesis toyOps) toyHistory = some s ∧ s.chain.length = 3 ∧
    (getStateRoot s.m 1).map (·.root) = some (toyOps.rootOf (some 2)) ∧
    (getStateRoot s.m 2).map (·.root) = some (toyOps.rootOf (some 5)) ∧
    getStateRoot s.m 3 = none := by
  refine ⟨_, rfl, ?_⟩
  decide

example : ∃ s, run toyOps (genesis toyOps) toyHistory = some s ∧
    ∃ r, getStateRoot s.m 2 = some r ∧ toyMap.lookup (toyOps.reopen r.root) toyKey = some [5] := by
  refine ⟨_, rfl, ?_⟩
  obtain ⟨r, hr, hk⟩ := recorded_root_commits toyOps toy_reopen toy_len toyHistory
    (by
      intro b hb
      simp only [toyHistory, List.mem_cons, Op.block.injEq, List.not_mem_nil, or_false, reduceCtorEq, false_or] at hb
      rcases hb with rfl | rfl | rfl | rfl <;> (intro c hc; simp at hc; subst hc; simp [toyKey]))
    _ rfl 2 (by decide)
  exact ⟨r, hr, (hk toyKey).trans (by decide)⟩

-- validated roots: a signed root for height 1 with the right root replaces the record's witness only; a
-- signed root with another root hash (ErrStateMismatch), an unverified one and a second signed one for an
-- already witnessed record change nothing; `GetStateRoot 1` keeps committing to the same storage
def toyValidated : List Op :=
  [.block [(toyKey, some [1])], .block [(toyKey, some [2])],
   .validated { index := 1, root := toyOps.rootOf (some 7), wit := [1, 9] } true,
   .validated { index := 1, root := toyOps.rootOf (some 2), wit := [1, 8] } false,
   .validated { index := 1, root := toyOps.rootOf (some 2), wit := [1, 7] } true,
   .validated { index := 1, root := toyOps.rootOf (some 2), wit := [1, 6] } true,
   .block [(toyKey, none)]]

example : ∃ s, run toyOps (genesis toyOps) toyValidated = some s ∧
    getStateRoot s.m 1 = some { index := 1, root := toyOps.rootOf (some 2), wit := [1, 7] } ∧
    kvGet s.m.store validatedKey = some (le32 1) ∧ s.m.localHeight = 2 := by
  refine ⟨_, rfl, ?_⟩
  decide

-- a reset below a witnessed root computes the validated height itself (the backward search): the record of
-- height 1 carries a witness, heights 2-3 do not; Reset(2) finds 1, and a rejected block in between reloads the trie
example : ∃ s, run toyOps (genesis toyOps)
      [.block [(toyKey, some [1])], .block [(toyKey, some [2])], .block [(toyKey, some [3])], .block [(toyKey, none)],
       .validated { index := 1, root := toyOps.rootOf (some 2), wit := [1, 7] } true,
       .failed [(toyKey, some [9])], .reset 2] = some s ∧
    kvGet s.m.store validatedKey = some (le32 1) ∧ s.chain.length = 3 ∧ s.m.mpt = some 3 ∧
    getStateRoot s.m 3 = none := by
  refine ⟨_, rfl, ?_⟩
  decide

end NeoModel.StateCommit.Roots
