/-
C02 — a crash at any flush boundary leaves a consistent, resumable chain prefix.
Property theorems over the model NeoModel/Model/Persist.lean (helper lemmas: Proofs/Persist.lean).
`H` = the chain's content (arbitrary), `B` = headerBatchCount (any value > 1), `S` = persistBatchSize.
-/
import NeoModel.Proofs.Persist
import NeoModel.Proofs.PersistReset
import NeoModel.Proofs.PersistEqSync
import NeoModel.Proofs.PersistJump
import NeoModel.Proofs.PersistResetMulti
import NeoModel.Proofs.PersistGC
import NeoModel.Proofs.PersistBlk
import NeoModel.Proofs.PersistJumpSynced
import NeoModel.Proofs.PersistFlush
import NeoModel.Generated.Stages
namespace NeoModel.Persist

/-! ## 1. ordinary persistence and garbage collection -/

/-- **crash_prefix_consistent** (also `gc_crash_safe`: GC commits are ops of the schedule).
For every chain content, every schedule of header additions, block additions, flushes and GC commits,
and every prefix `k` of the list of atomic batches the node has issued: reopening the database made of
the first `k` batches succeeds; the recovered node satisfies the node invariant `Inv` (tip pointers,
header records and pages, state root and storage snapshot of ITS height are those of the canonical
chain: `items = itemsAt H height`, `root i = hashOf (itemsAt H i)` for all `i ≤ height`), has an empty
write cache, and its height is not above the height of the running node. -/
theorem crash_prefix_consistent (H : Hist) {B : Nat} (S : Nat) (hB : 1 < B) (ops : List Op) (k : Nat)
    (hk : k ≤ (run H B ops).2.length) :
    ∃ n', recover H B S (foldBatches ((run H B ops).2.take k) Db.empty) = .ok n' ∧
      Inv H B n' ∧ n'.height ≤ (run H B ops).1.height ∧
      n'.items = itemsAt H n'.height ∧ n'.hdrHeight ≥ n'.height := by
  have key : ∀ m : Node, Inv H B m → m.height ≤ (run H B ops).1.height →
      recover H B S m.db = .ok m → ∃ n', recover H B S m.db = .ok n' ∧ Inv H B n' ∧ n'.height ≤ (run H B ops).1.height ∧
        n'.items = itemsAt H n'.height ∧ n'.hdrHeight ≥ n'.height :=
    fun m hm hle hr => ⟨m, hr, hm, hle, hm.it, hm.le⟩
  have hfresh : ∃ n', recover H B S Db.empty = .ok n' ∧ Inv H B n' ∧ n'.height ≤ (run H B ops).1.height ∧
        n'.items = itemsAt H n'.height ∧ n'.hdrHeight ≥ n'.height :=
    ⟨fresh H, recover_empty H B S, inv_fresh H hB, Nat.zero_le _, rfl, Nat.le_refl _⟩
  have hrun : run H B ops = runFrom H B (fresh H) ops := rfl
  rcases prefix_is_flush_point H B (fresh H) ops k hk with ⟨_, hf⟩ | ⟨o1, o2, e, hf⟩
  · have : (fresh H).db = Db.empty := rfl
    rw [this] at hf; rw [hrun, hf]; rw [← hrun]; exact hfresh
  · have hdb0 : (fresh H).db = Db.empty := rfl
    rw [hdb0] at hf
    rw [hrun, hf, ← hrun]
    have hp := pinv_runFrom hB (inv_fresh H hB) (Or.inl rfl) o1
    have hmono : (runFrom H B (fresh H) o1).1.height ≤ (run H B ops).1.height := by
      subst e
      simp only [run, runFrom_append]
      exact height_mono H B _ o2
    rcases hp with he | ⟨m, h1, h2, h3, h4⟩
    · rw [he]; exact hfresh
    · rw [← h1]
      exact key m h3 (Nat.le_trans h4 hmono) (recover_of_inv h3 h2)

/-- **crash_prefix_exact**: without GC steps the recovered node IS the uninterrupted node as it was right after
the flush that issued batch k (ops₁ = the schedule up to and including that flush): the same database key
for key (blocks, transactions, conflict records, transfer logs, …) and the same in-memory fields — so every
observation of it equals the uninterrupted node's at that height. -/
theorem crash_prefix_exact (H : Hist) {B : Nat} (S : Nat) (hB : 1 < B) (ops : List Op) (hno : ∀ o ∈ ops, o.isGc = false)
    (k : Nat) (hk : k ≤ (run H B ops).2.length) (hk0 : 0 < k) :
    ∃ ops₁ ops₂, ops = ops₁ ++ ops₂ ∧
      recover H B S (foldBatches ((run H B ops).2.take k) Db.empty) = .ok (run H B ops₁).1 :=
  crash_prefix_exact_aux H S hB ops hno k hk hk0

/-- non-vacuity: a schedule with headers ahead, three blocks in two flushes and a GC commit; every one of
its batch prefixes is covered (there are 3 batches). -/
example : ((run ⟨fun _ => 2, fun _ => [(0, 1)], fun h => [(h, some h)], fun _ => [0], List.length, 0, false⟩ 2000
    [.headers 2, .block, .flush, .block, .block, .flush, .gc 1 (fun _ v => v), .block]).2.length = 3) := by decide

/-- **continue_same_roots**: whatever node the recovery produced (any node satisfying `Inv`), feeding it
the remaining canonical blocks under any further schedule gives, at every height, the state root of the
canonical chain — the same as a node that never crashed. -/
theorem continue_same_roots (H : Hist) {B : Nat} (hB : 1 < B) (n' : Node) (hn : Inv H B n') (ops' : List Op) (i : Nat)
    (hi : i ≤ (runFrom H B n' ops').1.height) :
    (runFrom H B n' ops').1.view (Key.root i) = some (Val.rootv (H.hashOf (itemsAt H i))) :=
  (inv_runFrom hB hn ops').rt i hi

/-- state roots do not depend on the flush / header / GC schedule at all. -/
theorem roots_schedule_independent (H : Hist) {B : Nat} (hB : 1 < B) (ops₁ ops₂ : List Op) (i : Nat)
    (h1 : i ≤ (run H B ops₁).1.height) (h2 : i ≤ (run H B ops₂).1.height) :
    (run H B ops₁).1.view (Key.root i) = (run H B ops₂).1.view (Key.root i) := by
  have e1 := (inv_runFrom hB (inv_fresh H hB) ops₁).rt i h1
  have e2 := (inv_runFrom hB (inv_fresh H hB) ops₂).rt i h2
  exact e1.trans e2.symm

/-- **gc_crash_safe** (single step form): a GC commit applied below the write cache at any moment keeps
the node invariant, so the database after it reopens to a consistent node as above. -/
theorem gc_crash_safe (H : Hist) {B : Nat} (S : Nat) (n : Node) (hn : Inv H B n) (hc : n.cache = [])
    (tgt : Nat) (g : Nat → Option Val → Option Val) (hlt : tgt < n.height) :
    recover H B S (gcSel tgt g n.db) = .ok { n with db := gcSel tgt g n.db } :=
  recover_of_inv (n := { n with db := gcSel tgt g n.db }) (inv_gc hn tgt g hlt) hc

/-- batches that were coalesced (the persisting goroutine lagging one stage behind) expose no new crash
point: every prefix of the coalesced list is a prefix of the uncoalesced one. -/
theorem coalesced_prefix_is_prefix (a : List Batch) (x y : Batch) (b : List Batch) (db : Db) (k : Nat) :
    ∃ k', foldBatches ((a ++ (x ++ y) :: b).take k) db = foldBatches ((a ++ x :: y :: b).take k') db := by
  by_cases h : k ≤ a.length
  · exact ⟨k, by rw [List.take_append_of_le_length h, List.take_append_of_le_length h]⟩
  · refine ⟨k + 1, ?_⟩
    obtain ⟨j, rfl⟩ : ∃ j, k = a.length + (j + 1) := ⟨k - a.length - 1, by omega⟩
    have e1 : (a ++ (x ++ y) :: b).take (a.length + (j + 1)) = a ++ (x ++ y) :: b.take j := by
      rw [List.take_append]; simp [List.take_of_length_le]
    have e2 : (a ++ x :: y :: b).take (a.length + (j + 1) + 1) = a ++ x :: y :: b.take j := by
      rw [List.take_append]; simp [Nat.add_assoc, List.take_of_length_le]
    rw [e1, e2]
    simp [foldBatches_append, foldBatches, applyBatch_append]


/-! ## 2. state reset (Blockchain.Reset / resetStateInternal)

    reset_resumable   : for every consistent stopped node n, every target t ≤ n.height and every prefix k of the
                        batches of `reset n t`: recover (fold of the first k batches on n.db) = ok n', the node of
                        the uninterrupted reset;
    reset_equals_sync : the node left by a completed `reset n t` is observationally equal to `run (t blocks)`.

`reset_resumable` is proved for every boundary between complete stages (`reset_resumable`) and for arbitrary nodes
under the header-index hypothesis (`reset_resumable_partial`); crash points INSIDE a block-removal stage that
needs several batches are covered by an evaluated example only. `reset_equals_sync` holds under the
no-shared-conflict-hash hypothesis (`reset_equals_sync_partial`) and is false without it (witness). -/

/-- the chain content of the witnesses: one transaction per block, the transactions of blocks 1 and 2
carry a Conflicts attribute with the same hash (0) and the same signer (0). -/
def Hw : Hist :=
  { ntx := fun _ => 1, confl := fun h => if h = 1 ∨ h = 2 then [(0, 0)] else [],
    eff := fun h => [(h, some h)], touched := fun _ => [0], hashOf := fun it => it.length }

/-- the stopped, flushed node after n blocks. -/
def nodeAt (B n : Nat) : Node := (run Hw B (List.replicate n Op.block ++ [Op.flush])).1

def resetBatches (B S n t : Nat) : List Batch :=
  match reset Hw B S (nodeAt B n) t with | .ok (bs, _) => bs | .error _ => []

def errOf {α : Type} : Except Err α → Option Err | .ok _ => none | .error e => some e

/-- a reset of a 2-block chain to height 1 consists of 7 batches: sync point + marker, block removal,
storage copy, header/pointer reset, MPT + transfer reset, SeekGC of the old storage prefix, marker removal. -/
theorem reset_has_seven_batches : (resetBatches 2000 200000 2 1).length = 7 := by decide

/-- every prefix of that reset reopens (after the fixes "keep headers until they are reset" and "initialise the
stateroot module on a late resume"), and the resumed node is ready to add blocks. -/
theorem reset_resumes_at_every_batch_example :
    ∀ k ∈ [1, 2, 3, 4, 5, 6, 7],
      (match recover Hw 2000 200000 (foldBatches ((resetBatches 2000 200000 2 1).take k) (nodeAt 2000 2).db) with
       | .ok m => m.mptReady && decide (m.height = 1) | .error _ => false) = true := by
  decide

/-- the block-removal stage is idempotent across its intermediate batches too (DESIGN §6 item 7 is gone with the
kept headers: DeleteBlock of a header-only record succeeds): one block per intermediate batch (S = 1, B = 2),
`reset 5→0` has 12 batches and every prefix reopens at height 0. -/
theorem reset_block_removal_idempotent_example :
    (resetBatches 2 1 5 0).length = 12 ∧
    ∀ k ∈ [1, 2, 3, 4, 5, 6, 7, 8, 9, 10, 11, 12],
      (match recover Hw 2 1 (foldBatches ((resetBatches 2 1 5 0).take k) (nodeAt 2 5).db) with
       | .ok m => decide (m.height = 0) | .error _ => false) = true := by
  decide

/-- **a completed reset is distinguishable from a node that only synchronised to t** (finding C): the conflict
record written by block 1 was overwritten by block 2's and is neither removed nor restored. -/
theorem reset_not_equal_sync_conflicts :
    (match reset Hw 2000 200000 (nodeAt 2000 2) 1 with | .ok (_, m) => conflictKnown m 0 | .error _ => true) = false ∧
    conflictKnown (nodeAt 2000 1) 0 = true := by
  decide

/-- **reset_resumable_partial** — what holds of `reset_resumable`. For EVERY chain content, node `n`, target `t`
and batch size `S`: if `reset n t` runs (with at least one batch) to node `n'`, its batches are
`b1 :: b2 ++ [c3, c4, c5, c6, c7]` (sync point + first marker; block removal, possibly several batches;
storage copy; header/pointer reset; MPT + transfer reset; SeekGC of the old prefix; marker removal), `n'.db` is
their fold, and for the database after each COMPLETE stage: if HeaderHashes.init succeeds on it (with the
stopped node's header height while the headers are not yet reset;
`reset_resumable` below discharges it for consistent nodes), then reopening resumes the reset and returns exactly the
node of the uninterrupted reset. Missing for the full statement: crash points inside the block-removal stage
when it needs several batches (only `reset_block_removal_idempotent_example`). -/
theorem reset_resumable_partial (H : Hist) {B S : Nat} (n n' : Node) (t : Nat) (bs : List Batch)
    (hreset : reset H B S n t = .ok (bs, n')) (hbs : bs ≠ []) :
    ∃ (b1 : Batch) (b2 : List Batch) (c3 c4 c5 c6 c7 : Batch),
      bs = b1 :: b2 ++ [c3, c4, c5, c6, c7] ∧
      n'.db = applyBatch c7 (applyBatch c6 (applyBatch c5 (applyBatch c4 (applyBatch c3 (foldBatches b2 (applyBatch b1 n.db)))))) ∧
      (initHeaders B (applyBatch b1 n.db) = .ok n.hdrHeight → recover H B S (applyBatch b1 n.db) = .ok n') ∧
      (initHeaders B (foldBatches b2 (applyBatch b1 n.db)) = .ok n.hdrHeight →
        recover H B S (foldBatches b2 (applyBatch b1 n.db)) = .ok n') ∧
      (initHeaders B (applyBatch c3 (foldBatches b2 (applyBatch b1 n.db))) = .ok n.hdrHeight →
        recover H B S (applyBatch c3 (foldBatches b2 (applyBatch b1 n.db))) = .ok n') ∧
      (∀ hh', initHeaders B (applyBatch c4 (applyBatch c3 (foldBatches b2 (applyBatch b1 n.db)))) = .ok hh' →
        recover H B S (applyBatch c4 (applyBatch c3 (foldBatches b2 (applyBatch b1 n.db)))) = .ok n') ∧
      (∀ hh', initHeaders B (applyBatch c5 (applyBatch c4 (applyBatch c3 (foldBatches b2 (applyBatch b1 n.db))))) = .ok hh' →
        recover H B S (applyBatch c5 (applyBatch c4 (applyBatch c3 (foldBatches b2 (applyBatch b1 n.db))))) = .ok n') ∧
      (∀ hh', initHeaders B (applyBatch c6 (applyBatch c5 (applyBatch c4 (applyBatch c3 (foldBatches b2 (applyBatch b1 n.db)))))) = .ok hh' →
        recover H B S (applyBatch c6 (applyBatch c5 (applyBatch c4 (applyBatch c3 (foldBatches b2 (applyBatch b1 n.db)))))) = .ok n') :=
  reset_resumable_partial_aux H n n' t bs hreset hbs

/-- **reset_resumable_of_consistent_node**: for a CONSISTENT stopped node (`Inv`, empty write cache — what
`crash_prefix_consistent` delivers) the header-init hypotheses above are discharged: the reset resumes to the
uninterrupted node from the database after the first marker batch, after the header reset, after the
MPT/transfer reset and after the SeekGC; i.e. from every complete stage except the two between block removal
and header reset. -/
theorem reset_resumable_of_consistent_node (H : Hist) {B S : Nat} (hB : 1 < B) (n n' : Node) (hn : Inv H B n) (hc : n.cache = [])
    (t : Nat) (bs : List Batch) (hreset : reset H B S n t = .ok (bs, n')) (hbs : bs ≠ []) :
    let b1 := ofWrites [(Key.syncPoint, some (Val.ptr t)), marker stJumpStarted]
    let d1 := applyBatch b1 n.db
    ∃ (b2 : List Batch) (d2 : Db) (cur x r : Nat) (p0 : Bool),
      stageBlocks H S t cur d1 = .ok (b2, d2) ∧ d2 = foldBatches b2 d1 ∧
      let c3 := stageCopy t p0 d2
      let c4 := stageHeaders B t n.hdrHeight p0
      let c5 := stageMpt t r
      let c6 := stageGc p0
      let d4 := applyBatch c4 (applyBatch c3 d2)
      let d5 := applyBatch c5 d4
      let d6 := applyBatch c6 d5
      bs = b1 :: b2 ++ [c3, c4, c5, c6, stageDone] ∧
      n'.db = applyBatch stageDone d6 ∧
      recover H B S d1 = .ok n' ∧ recover H B S d4 = .ok n' ∧
      recover H B S d5 = .ok n' ∧ recover H B S d6 = .ok n' :=
  reset_resumable_of_inv H hB n n' hn hc t bs hreset hbs

/-- **reset_resumable** — the full statement. For the stopped node `n` of ANY schedule — header additions, blocks,
flushes AND transfer/MPT GC commits — with an empty write cache, every target `t` and every batch size `S`: the batches
of `reset n t` are `b1 :: b2 ++ [c3, c4, c5, c6, stageDone]` (sync point + first marker; the block-removal stage, `b2`,
as many batches as `S` requires; storage copy; header reset; MPT/transfer reset; SeekGC; marker removal) and the database
after EVERY prefix of that list reopens to exactly the node `n'` of the uninterrupted reset:
after `b1` and after any number of intermediate batches of the block removal (`∀ j < b2.length`, `j = 0` is the
database right after `b1`), after each complete stage (`d2 … d6`), and after the last batch (`n'.db`).
The consistency the proof needs of `n` (`Inv`, and `BInv`: a block record at every height up to its own) is an
invariant of every reachable node, GC commits included; no hypothesis on the schedule is left.
(Old DESIGN §6 item 7 — the multi-batch removal was not idempotent — is settled positively by the kept headers.) -/
theorem reset_resumable (H : Hist) {B S : Nat} (hB : 1 < B) (ops : List Op)
    (hc : (run H B ops).1.cache = []) (t : Nat) (bs : List Batch) (n' : Node)
    (hreset : reset H B S (run H B ops).1 t = .ok (bs, n')) (hbs : bs ≠ []) :
    let n := (run H B ops).1
    let b1 := ofWrites [(Key.syncPoint, some (Val.ptr t)), marker stJumpStarted]
    let d1 := applyBatch b1 n.db
    ∃ (b2 : List Batch) (d2 : Db) (x r : Nat) (p0 : Bool),
      stageBlocks H S t n.height d1 = .ok (b2, d2) ∧ d2 = foldBatches b2 d1 ∧
      let c3 := stageCopy t p0 d2
      let c4 := stageHeaders B t n.hdrHeight p0
      let c5 := stageMpt t r
      let c6 := stageGc p0
      let d3 := applyBatch c3 d2
      let d4 := applyBatch c4 d3
      let d5 := applyBatch c5 d4
      let d6 := applyBatch c6 d5
      bs = b1 :: b2 ++ [c3, c4, c5, c6, stageDone] ∧ n'.db = applyBatch stageDone d6 ∧
      (∀ j, j < b2.length → recover H B S (foldBatches (b2.take j) d1) = .ok n') ∧
      recover H B S d2 = .ok n' ∧ recover H B S d3 = .ok n' ∧
      recover H B S d4 = .ok n' ∧ recover H B S d5 = .ok n' ∧ recover H B S d6 = .ok n' ∧
      recover H B S n'.db = .ok n' := by
  intro n b1 d1
  have hi := inv_runFrom hB (inv_fresh H hB) ops
  have hb : ∀ i, i ≤ n.height → ∃ y, n.view (Key.exec i) = some (Val.blk y) :=
    fun i h => ⟨i, binv_runFrom hB (inv_fresh H hB) (binv_fresh H) ops i h⟩
  obtain ⟨b2, d2, x, r, p0, hsb, hd2, hbs', hdb, _, r2, r3, r4, r5, r6⟩ := reset_resumable_all_stages H hB n n' hi hb hc t bs hreset hbs
  obtain ⟨b2', d2', hsb', hin⟩ := reset_resumable_inside_block_removal H n n' hi hb hc t bs hreset hbs d1 rfl
  have e : b2' = b2 := by
    have := hsb'.symm.trans hsb
    simp at this; exact this.1
  subst e
  exact ⟨b2', d2, x, r, p0, hsb, hd2, hbs', hdb, hin, r2, r3, r4, r5, r6, reset_complete_recover H n n' t bs hreset hbs⟩

/-- non-vacuity: the 2-block chain reset to height 1 meets the hypotheses (7 batches). -/
example : ∃ bs n', reset Hw 2000 200000 (nodeAt 2000 2) 1 = .ok (bs, n') ∧ bs ≠ [] := by
  cases h : reset Hw 2000 200000 (nodeAt 2000 2) 1 with
  | error e => exact absurd (show (match reset Hw 2000 200000 (nodeAt 2000 2) 1 with | .ok _ => true | .error _ => false) = true by decide) (by rw [h]; simp)
  | ok p =>
    refine ⟨p.1, p.2, rfl, ?_⟩
    have : (resetBatches 2000 200000 2 1).length = 7 := reset_has_seven_batches
    intro e
    simp [resetBatches, h, e] at this

/-- non-vacuity with a GC commit in the schedule: three blocks, a flush, an MPT/transfer GC commit with target 1,
then the reset to height 2 (above the GC target) runs its 7 batches. -/
example : (match reset Hw 2000 200000 (run Hw 2000 [.block, .block, .block, .flush, .gc 1 (fun _ v => v)]).1 2 with
    | .ok (bs, _) => decide (bs.length = 7) | .error _ => false) = true := by decide

/-- every stage of the reset is idempotent from its own marker: from the database after any complete stage,
`resetFrom` with that stage's marker issues exactly the remaining batches and ends in the same database `D`. -/
theorem reset_stage_idempotent' {H : Hist} {B S t hh : Nat} {d D : Db} {bs : List Batch} {rdy : Bool}
    (h : resetFrom H B S t stNone hh d = .ok (bs, D, rdy)) :
    ∃ (b2 : List Batch) (d2 : Db) (cur x r : Nat) (p0 : Bool),
      stageBlocks H S t cur d = .ok (b2, d2) ∧
      bs = b2 ++ [stageCopy t p0 d2, stageHeaders B t hh p0, stageMpt t r, stageGc p0, stageDone] ∧
      resetFrom H B S t stBlocksRemoved hh d2 = .ok ([stageCopy t p0 d2, stageHeaders B t hh p0, stageMpt t r, stageGc p0, stageDone], D, true) ∧
      resetFrom H B S t stNewItems hh (applyBatch (stageCopy t p0 d2) d2) = .ok ([stageHeaders B t hh p0, stageMpt t r, stageGc p0, stageDone], D, true) ∧
      (∀ hh', resetFrom H B S t stHeadersReset hh' (applyBatch (stageHeaders B t hh p0) (applyBatch (stageCopy t p0 d2) d2)) = .ok ([stageMpt t r, stageGc p0, stageDone], D, true)) ∧
      (∀ hh', resetFrom H B S t stTransfersReset hh' (applyBatch (stageMpt t r) (applyBatch (stageHeaders B t hh p0) (applyBatch (stageCopy t p0 d2) d2))) = .ok ([stageGc p0, stageDone], D, true)) ∧
      (∀ hh', resetFrom H B S t stTransfersReset hh' (applyBatch (stageGc p0) (applyBatch (stageMpt t r) (applyBatch (stageHeaders B t hh p0) (applyBatch (stageCopy t p0 d2) d2)))) = .ok ([stageGc p0, stageDone], D, true)) := by
  obtain ⟨b2, d2, cur, x, r, p0, _, hsb, hbs, _, _, g8, g4, g16, g32, g32'⟩ := reset_stage_idempotent (Or.inl rfl) h
  exact ⟨b2, d2, cur, x, r, p0, hsb, hbs, g8, g4, g16, g32, g32'⟩

/-- **reset_equals_sync_partial** — `reset_equals_sync` under the hypothesis that makes it true. Let `n` be a
consistent stopped node produced by any GC-free schedule (`Inv`, `FInv` = every API-visible key holds the
canonical content, empty write cache), `t` a target with a non-trivial `reset n t = ok (bs, n')`, and assume that
no conflict hash named by a REMOVED block (height in (t, n.height]) is also named by a KEPT block (height ≤ t).
Then the node left by the reset shows through the API exactly what the node that only ever synchronised `t`
blocks shows: heights, every block/header record, every transaction, every state root, the whole contract
storage under the active prefix, every transfer log, and the conflict check for every hash.
Without the hypothesis the statement is false (`reset_not_equal_sync_conflicts`). Not covered: schedules with
GC commits (transfer logs are then node-local anyway). -/
theorem reset_equals_sync_partial (H : Hist) {B S : Nat} (hB : 1 < B) (ops : List Op) (hno : ∀ o ∈ ops, o.isGc = false)
    (hc : (run H B ops).1.cache = []) (t : Nat) (bs : List Batch) (n' : Node)
    (hreset : reset H B S (run H B ops).1 t = .ok (bs, n')) (hbs : bs ≠ [])
    (hconf : ∀ c i, t < i → i ≤ (run H B ops).1.height → c ∈ (H.confl i).map (·.1) → ∀ j, j ≤ t → c ∉ (H.confl j).map (·.1)) :
    apiObs n' = apiObs (syncedTo H B t) := by
  obtain ⟨hm, hfm, hmh, hmhd⟩ := syncedTo_spec H hB t
  have hi := inv_runFrom hB (inv_fresh H hB) ops
  have hf := finv_runFrom hB (inv_fresh H hB) (finv_fresh H) ops hno
  exact reset_equals_sync_aux H (run H B ops).1 n' (syncedTo H B t) hi hf hc hm hfm (by rw [hmhd, hmh]) bs
    (by rw [hmh]; exact hreset) hbs (by rw [hmh]; exact hconf)

/-- non-vacuity: blocks 1 and 3 of `Hw'` name different conflict hashes; the 3-block node reset to 1 meets every
hypothesis (and the conclusion can be evaluated: the conflict check for hash 0 is `true` on both sides). -/
def Hw' : Hist :=
  { ntx := fun _ => 1, confl := fun h => if h = 1 then [(0, 0)] else if h = 3 then [(1, 0)] else [],
    eff := fun h => [(h % 2, some h)], touched := fun _ => [0], hashOf := fun it => it.length }

example : (match reset Hw' 2000 200000 (run Hw' 2000 [.block, .block, .block, .flush]).1 1 with
    | .ok (bs, n') => decide (bs.length = 7) && (apiObs n').conflict 0 && (apiObs (syncedTo Hw' 2000 1)).conflict 0
        && !(apiObs n').conflict 1 && decide ((apiObs n').storage 1 = (apiObs (syncedTo Hw' 2000 1)).storage 1)
    | .error _ => false) = true := by decide

/-! ## 3. state jump (jumpToStateInternal), MPT-based state sync

`jump_resumable`: for every node on which the state-sync module has completed headers, MPT and blocks for sync
point P, and EVERY prefix of the batches from there on — including the empty prefix, a crash right before the
first jump batch — reopening ends in the node of the uninterrupted jump. -/

/-- every stage of the jump is idempotent from its own marker. -/
theorem jump_stage_idempotent' {H : Hist} {P hh : Nat} {d D : Db} {bs : List Batch} {p : Bool}
    (hv : d Key.version = some (Val.ver p)) (h : jumpFrom H P stNone hh d = .ok (bs, D)) :
    bs = [jumpA, jumpB p, jumpC H P p, jumpD H P] ∧
    D = applyBatch (jumpD H P) (applyBatch (jumpC H P p) (applyBatch (jumpB p) (applyBatch jumpA d))) ∧
    jumpFrom H P stJumpStarted hh (applyBatch jumpA d) = .ok ([jumpB p, jumpC H P p, jumpD H P], D) ∧
    jumpFrom H P stNewItems hh (applyBatch (jumpB p) (applyBatch jumpA d)) = .ok ([jumpC H P p, jumpD H P], D) ∧
    jumpFrom H P stBlocksRemoved hh (applyBatch (jumpC H P p) (applyBatch (jumpB p) (applyBatch jumpA d))) = .ok ([jumpD H P], D) :=
  jump_stage_idempotent hv h

/-- **jump_resumable_partial**: for every node and sync point, if `jump n P` succeeds (sync point recorded),
its batches are `[jumpA, jumpB p, jumpC, jumpD]`, `n'.db` is their fold, and for the database after each of the
first three batches: if HeaderHashes.init succeeds on it, reopening resumes the jump and returns exactly `n'`. -/
theorem jump_resumable_partial (H : Hist) {B S : Nat} (n n' : Node) (P : Nat) (bs : List Batch)
    (hjump : jump H n P = .ok (bs, n')) (hsp : n.db Key.syncPoint = some (Val.ptr P)) :
    ∃ p : Bool, n.db Key.version = some (Val.ver p) ∧
      bs = [jumpA, jumpB p, jumpC H P p, jumpD H P] ∧
      n'.db = applyBatch (jumpD H P) (applyBatch (jumpC H P p) (applyBatch (jumpB p) (applyBatch jumpA n.db))) ∧
      (initHeaders B (applyBatch jumpA n.db) = .ok n.hdrHeight → recover H B S (applyBatch jumpA n.db) = .ok n') ∧
      (initHeaders B (applyBatch (jumpB p) (applyBatch jumpA n.db)) = .ok n.hdrHeight →
        recover H B S (applyBatch (jumpB p) (applyBatch jumpA n.db)) = .ok n') ∧
      (initHeaders B (applyBatch (jumpC H P p) (applyBatch (jumpB p) (applyBatch jumpA n.db))) = .ok n.hdrHeight →
        recover H B S (applyBatch (jumpC H P p) (applyBatch (jumpB p) (applyBatch jumpA n.db))) = .ok n') :=
  jump_resumable_aux H n n' P bs hjump hsp

/-- **jump_resumable** (non-empty prefixes): if the header index of the node can be initialised, every non-empty
prefix of the jump batches and the completed jump reopen to the node of the uninterrupted jump — on a chain of
any length (the genesis header is kept). -/
theorem jump_resumable (H : Hist) {B S : Nat} (n n' : Node) (P : Nat) (bs : List Batch)
    (hjump : jump H n P = .ok (bs, n')) (hsp : n.db Key.syncPoint = some (Val.ptr P))
    (hih : initHeaders B n.db = .ok n.hdrHeight) :
    ∃ p : Bool, bs = [jumpA, jumpB p, jumpC H P p, jumpD H P] ∧
      recover H B S (applyBatch jumpA n.db) = .ok n' ∧
      recover H B S (applyBatch (jumpB p) (applyBatch jumpA n.db)) = .ok n' ∧
      recover H B S (applyBatch (jumpC H P p) (applyBatch (jumpB p) (applyBatch jumpA n.db))) = .ok n' ∧
      recover H B S n'.db = .ok n' :=
  jump_resumable_all H n n' P bs hjump hsp hih

/-- **jump_resumable_synced** — `jump_resumable` with every hypothesis discharged for the node the state-sync module
leaves: for every chain content, page size, MaxTraceableBlocks, sync point `P` and number of headers `n > P`, the jump
of `syncedNode H B P n` SUCCEEDS with the four batches, and the database after every non-empty prefix of them and
after the completed jump reopens to exactly the node of the uninterrupted jump. -/
theorem jump_resumable_synced (H : Hist) {B S : Nat} (hB : 1 < B) (P n : Nat) (hP : P < n) :
    ∃ (bs : List Batch) (n' : Node) (p : Bool),
      jump H (syncedNode H B P n) P = .ok (bs, n') ∧ bs = [jumpA, jumpB p, jumpC H P p, jumpD H P] ∧
      recover H B S (applyBatch jumpA (syncedNode H B P n).db) = .ok n' ∧
      recover H B S (applyBatch (jumpB p) (applyBatch jumpA (syncedNode H B P n).db)) = .ok n' ∧
      recover H B S (applyBatch (jumpC H P p) (applyBatch (jumpB p) (applyBatch jumpA (syncedNode H B P n).db))) = .ok n' ∧
      recover H B S n'.db = .ok n' := by
  obtain ⟨hr, hsp, hih⟩ := syncedNode_ready H hB P n hP
  obtain ⟨bs, n', hj⟩ := jump_ok_of_ready hr
  obtain ⟨p, h1, h2, h3, h4, h5⟩ := jump_resumable_all (B := B) (S := S) H _ n' P bs hj hsp hih
  exact ⟨bs, n', p, hj, h1, h2, h3, h4, h5⟩

/-- **jump_resumable, the empty prefix**: a node that reopens to itself, is below its recorded sync point and has
the headers, the state trie and the block of that point performs the pending jump when the state-sync module is
initialised after the restart (`restartSync` = recover + Module.Init), and ends as the uninterrupted jump. -/
theorem jump_resumed_by_module_restart (H : Hist) {B S : Nat} (n n' : Node) (P : Nat) (bs : List Batch)
    (hrec : recover H B S n.db = .ok n) (hsp : n.db Key.syncPoint = some (Val.ptr P))
    (hlow : n.height < P) (hhdr : P < n.hdrHeight) (htrie : (n.db (Key.trie P)).isSome) (hblk : (n.db (Key.exec P)).isSome)
    (hjump : jump H n P = .ok (bs, n')) :
    restartSync H B S n.db = .ok n' := by
  simp [restartSync, hrec, hsp, hlow, hhdr, htrie, hblk, hjump]

/-- **jump_resumable_synced_restart** — the empty prefix with every hypothesis discharged: a crash right BEFORE the
first jump batch, on the node the state-sync module leaves (any content, page size, MaxTraceableBlocks, sync point
`0 < P < n` headers). That database reopens to the synced node itself (`syncedNode_recover`), and the state-sync
module's restart (`restartSync` = recover + Module.Init: headers, trie and block of the recorded sync point are there,
the chain is below it) performs the pending jump and ends in exactly the node of the uninterrupted jump. -/
theorem jump_resumable_synced_restart (H : Hist) {B S : Nat} (hB : 1 < B) (P n : Nat) (hP0 : 0 < P) (hP : P < n) :
    recover H B S (syncedNode H B P n).db = .ok (syncedNode H B P n) ∧
    ∃ (bs : List Batch) (n' : Node), jump H (syncedNode H B P n) P = .ok (bs, n') ∧
      restartSync H B S (syncedNode H B P n).db = .ok n' := by
  obtain ⟨hr, hsp, _⟩ := syncedNode_ready H hB P n hP
  obtain ⟨bs, n', hj⟩ := jump_ok_of_ready hr
  have hrec := syncedNode_recover (S := S) H hB P n hP0 hP
  obtain ⟨hi, _, hhd, hh0⟩ := headersNode_spec H hB n (by omega)
  have hh : (syncedNode H B P n).height = 0 := hh0
  have hhdr : (syncedNode H B P n).hdrHeight = n := hhd
  obtain ⟨it, hit⟩ := hr.tri
  refine ⟨hrec, bs, n', hj, ?_⟩
  exact jump_resumed_by_module_restart H _ n' P bs hrec hsp (by rw [hh]; exact hP0) (by rw [hhdr]; exact hP)
    (by rw [hit]; rfl) hr.blk hj

/-- chain content for the jump witnesses: MaxTraceableBlocks = 2. -/
def Hj : Hist :=
  { ntx := fun _ => 1, confl := fun _ => [], eff := fun h => [(h % 2, some h)], touched := fun _ => [0],
    hashOf := fun it => it.length, mtb := 2 }

def jumpBatches (B P n : Nat) : List Batch :=
  match jump Hj (syncedNode Hj B P n) P with | .ok (bs, _) => bs | .error _ => []

/-- non-vacuity and evaluation on a chain SHORTER than one header-hash page (9 headers, B = 2000, sync point 8,
MaxTraceableBlocks 2): the jump has 4 batches, every prefix and the completed jump reopen at height 8, and the
empty prefix is picked up by the module restart. -/
theorem jump_short_chain_example :
    (jumpBatches 2000 8 9).length = 4 ∧
    (∀ k ∈ [1, 2, 3, 4],
      (match recover Hj 2000 200000 (foldBatches ((jumpBatches 2000 8 9).take k) (syncedNode Hj 2000 8 9).db) with
       | .ok m => decide (m.height = 8) | .error _ => false) = true) ∧
    (match restartSync Hj 2000 200000 (syncedNode Hj 2000 8 9).db with | .ok m => decide (m.height = 8) | .error _ => false) = true ∧
    (match recover Hj 2000 200000 (syncedNode Hj 2000 8 9).db with | .ok m => decide (m.height = 0) | .error _ => false) = true := by
  decide


/-! ## 4. garbage collection of blocks and header-hash pages; a flush inside AddBlock (Model/PersistGC.lean)

A timer tick of a RemoveUntraceableBlocks node is `flush` followed by `tryRunGC`: transfer/MPT SeekGC commits
directly on the backend, removal of untraceable blocks INTO THE WRITE CACHE (it reaches the backend with the next
flush batch), SeekGC of old header-hash pages directly on the backend (since fix 2cd5b80 never the page
HeaderHashes.init reads at restart). `GOp` schedules interleave these runs and `blockWait` steps (an AddBlock whose
storeBlock waits at the persist back-pressure while the persisting routine flushes) with every step of section 1;
`GInv` is the node invariant with GC floors (records from a block floor on, pages from a page floor on, both floors
below what HeaderHashes.init reads at restart). -/

/-- **crash_prefix_consistent_gc** — `crash_prefix_consistent` for the whole schedule language. For every chain
content, every configuration (any positive MaxTraceableBlocks, any GarbageCollectionPeriod), every schedule of
header/block/flush steps, transfer/MPT GC commits, whole tryRunGC runs (with any previous persisted height) and
AddBlocks with a flush during their back-pressure wait (`blockWait`), and every prefix `k` of the list of atomic
batches — including the point between the two direct commits of one GC run, the flush that carries the block deletions
and the flush that happens while a block waits — reopening succeeds, the recovered node satisfies `GInv` (tip pointers,
state roots of all heights up to its own, storage snapshot, header records and pages above the GC floors), is not above
the running node and has `items = itemsAt H height`. -/
theorem crash_prefix_consistent_gc (H : Hist) {B : Nat} (S : Nat) (cfg : GcCfg) (hB : 1 < B) (hm : 0 < cfg.mtb)
    (ops : List GOp) (k : Nat) (hk : k ≤ (grun H B cfg ops).2.length) :
    ∃ n' fb fp, recover H B S (foldBatches ((grun H B cfg ops).2.take k) Db.empty) = .ok n' ∧
      GInv H B fb fp n' ∧ n'.height ≤ (grun H B cfg ops).1.n.height ∧
      n'.items = itemsAt H n'.height ∧ n'.hdrHeight ≥ n'.height := by
  have h := gprefix_ok cfg hB hm (gstate_fresh H hB) ops k hk
  rcases h with he | ⟨m, fb, fp, m1, m2, m3, m4, _⟩
  · have he' : foldBatches ((grun H B cfg ops).2.take k) Db.empty = Db.empty := he
    rw [he']
    exact ⟨fresh H, 0, 0, recover_empty H B S, ginv_of_inv (inv_fresh H hB), Nat.zero_le _, rfl, Nat.le_refl _⟩
  · have hm1 : m.db = foldBatches ((grun H B cfg ops).2.take k) Db.empty := m1
    rw [← hm1]
    exact ⟨m, fb, fp, recover_of_ginv m3 m2, m3, m4, m3.it, m3.le⟩

/-- chain content of the GC witnesses. -/
def Hgc : Hist :=
  { ntx := fun _ => 1, confl := fun _ => [], eff := fun h => [(h % 2, some h)], touched := fun _ => [0], hashOf := fun it => it.length }

/-- non-vacuity (B = 2, MaxTraceableBlocks = 1, GCP = 1): eight blocks, a flush, one GC run (target 7: blocks 0..5
go to the write cache, pages 0..4 are dropped from the backend, page 6 - the one below the stored header count 8 -
stays), a block that waits while a flush happens, one more flush: 5 batches, every prefix reopens; the flush during
the wait carries the deletions and header 9 but not block 9 (the tip pointer on disk stays at 8). -/
def gcGood : List GOp :=
  [.base .block, .base .block, .base .block, .base .block, .base .block, .base .block, .base .block, .base .block, .base .flush,
   .gcRun 0 (fun _ v => v), .blockWait, .base .flush]

example : (grun Hgc 2 { mtb := 1, gcp := 1 } gcGood).2.length = 5 ∧
    (∀ k ∈ [0, 1, 2, 3, 4, 5], errOf (recover Hgc 2 1 (foldBatches ((grun Hgc 2 { mtb := 1, gcp := 1 } gcGood).2.take k) Db.empty)) = none) ∧
    foldBatches ((grun Hgc 2 { mtb := 1, gcp := 1 } gcGood).2.take 4) Db.empty Key.curBlock = some (Val.ptr 8) ∧
    foldBatches ((grun Hgc 2 { mtb := 1, gcp := 1 } gcGood).2.take 4) Db.empty (Key.exec 9) = some (Val.hdr 9) ∧
    foldBatches ((grun Hgc 2 { mtb := 1, gcp := 1 } gcGood).2.take 4) Db.empty (Key.exec 3) = none ∧
    (grun Hgc 2 { mtb := 1, gcp := 1 } gcGood).1.n.db (Key.exec 9) = some (Val.blk 9) ∧
    (grun Hgc 2 { mtb := 1, gcp := 1 } gcGood).1.n.db (Key.page 4) = none ∧ (grun Hgc 2 { mtb := 1, gcp := 1 } gcGood).1.n.db (Key.page 6) = some Val.pagev := by
  decide

/-- **continue_same_roots_gc**: from any node satisfying `GInv` with an empty write cache (every recovered one) and
any further schedule including GC runs and blocks that wait during a flush, the state root stored for every height
reached is the canonical one. -/
theorem continue_same_roots_gc (H : Hist) {B : Nat} (cfg : GcCfg) (hB : 1 < B) (hm : 0 < cfg.mtb) (g : GNode) (fb fp : Nat)
    (hn : GInv H B fb fp g.n) (hc : g.n.cache = []) (ops' : List GOp) (i : Nat)
    (hi : i ≤ (grunFrom H B cfg g ops').1.n.height) :
    (grunFrom H B cfg g ops').1.n.view (Key.root i) = some (Val.rootv (H.hashOf (itemsAt H i))) := by
  obtain ⟨_, _, h⟩ := (gstate_grunFrom cfg hB hm (gstate_of_ginv hn hc) ops').run
  exact h.rt i hi

/-- **gc_run_crash_safe** (`gc_crash_safe` for a whole tryRunGC): on a consistent stopped-at-a-flush node
(`GInv`, empty write cache) the backend after EVERY prefix of the direct commits of one GC run — none, the
transfer/MPT commit, the header-hash page commit — reopens to a consistent node at the same height (the block
deletions of the run are still in the write cache and are simply lost). -/
theorem gc_run_crash_safe (H : Hist) {B : Nat} (S : Nat) (cfg : GcCfg) (hB : 1 < B) (hm : 0 < cfg.mtb) (g : GNode) (fb fp : Nat)
    (hn : GInv H B fb fp g.n) (hc : g.n.cache = []) (old : Nat) (gx : Nat → Option Val → Option Val)
    (k : Nat) (hk : k ≤ (gcRun H B cfg g old gx).2.length) :
    ∃ n' fb' fp', recover H B S (foldBatches ((gcRun H B cfg g old gx).2.take k) g.n.db) = .ok n' ∧ GInv H B fb' fp' n' ∧
      n'.height = g.n.height := by
  obtain ⟨_, _, _, _, h5⟩ := gstep_gcRun_ok cfg hB hm (gstate_of_ginv hn hc) old gx
  have hv : g.n.view = g.n.db := by simp [Node.view, hc, applyWrites]
  have hcb : foldBatches ((gcRun H B cfg g old gx).2.take k) g.n.db Key.curBlock = some (Val.ptr g.n.height) := by
    rw [foldBatches_fixes]
    · have := hn.cb; rwa [hv] at this
    · intro b hb w hw
      have hb' := List.mem_of_mem_take hb
      unfold gcRun at hb'
      split at hb'
      · split at hb'
        · simp at hb'
        · simp only at hb'
          split at hb'
          · split at hb'
            · simp at hb'
              rcases hb' with rfl | rfl <;> (simp at hw; subst hw; intro db; simp [gcSel, dropPages])
            · simp at hb'
              subst hb'; simp at hw; subst hw; intro db; simp [gcSel]
          · simp at hb'
      · simp at hb'
  rcases h5 k hk with he | ⟨m, fb', fp', m1, m2, m3, _, _⟩
  · rw [he] at hcb; simp [Db.empty] at hcb
  · refine ⟨m, fb', fp', by rw [← m1]; exact recover_of_ginv m3 m2, m3, ?_⟩
    have hmv : m.view = m.db := by simp [Node.view, m2, applyWrites]
    have := m3.cb
    rw [hmv, m1, hcb] at this
    simp at this
    exact this.symm

/-- non-vacuity: the stopped node after eight blocks, one GC run with two direct commits. -/
example : ((gcRun Hgc 2 { mtb := 1, gcp := 1 } { n := (run Hgc 2 [.block, .block, .block, .block, .block, .block, .block, .block, .flush]).1 } 0 (fun _ v => v)).2.length = 2) := by
  decide

/-- **flush_during_wait_atomic** — "everything a block changes reaches the database in one batch". The batch a flush
writes while AddBlock of block `h = n.height + 1` waits at the persist back-pressure is exactly the write cache as it
was before the AddBlock plus the header writes addHeaders issued for `h` when its header was new (`waitHeaderWrites`:
header records, a completed page, SYSCurrentHeader); none of these is a write of the block itself (`BlockKey`: block
record, transactions, conflict records, contract storage, transfer logs, MPT nodes, state root, tip pointer); and nothing
is lost or reordered: the block that waited, once flushed, leaves exactly the node the same block leaves after its
flush when no flush came in between. -/
theorem flush_during_wait_atomic (H : Hist) (B : Nat) (n : Node) (hle : n.height ≤ n.hdrHeight) :
    (blockWait H B n).2 = (if (n.cache ++ waitHeaderWrites B n).isEmpty then none else some (ofWrites (n.cache ++ waitHeaderWrites B n))) ∧
    (∀ p ∈ waitHeaderWrites B n, ¬ BlockKey n.pfx (n.height + 1) p) ∧
    (step H B (blockWait H B n).1 .flush).1 = (step H B (step H B n .block).1 .flush).1 :=
  ⟨blockWait_batch H B n, waitHeaderWrites_not_block B n, blockWait_then_flush H B n hle⟩

/-- non-vacuity: two blocks in the cache, the third waits: one batch, on disk the tip is 2 and record 3 is a header. -/
example : (match (blockWait Hgc 2 (run Hgc 2 [.block, .block]).1).2 with
    | some b => decide (applyBatch b Db.empty Key.curBlock = some (Val.ptr 2)) && decide (applyBatch b Db.empty (Key.exec 3) = some (Val.hdr 3))
    | none => false) = true := by decide

/-- **regression example for fix 956252a** (the in-block flush as the code behaved with a reference-counting MPT
before: `blockWaitOldRC`, Trie.updateRefCount rewrote the released nodes of the previous state in place inside the
shared write cache). One block in the write cache, the second AddBlock waits and a flush happens: with the atomic
merge of the code as it is now (`blockWait`) the batch reopens at height 1; under the old behaviour the same flush
left tip 1 without a loadable state 1 (`noRoot`; on the real code: reopen at 1, then "error while trying to apply MPT
changes: key not found" on block 2). -/
def rcWitnessNode : Node := (run Hgc 2 [.block]).1

theorem rc_flush_inside_block_breaks_restart :
    (match (blockWait Hgc 2 rcWitnessNode).2 with
     | some b => errOf (recover Hgc 2 1 (applyBatch b Db.empty)) | none => some .badStage) = none ∧
    (match (blockWaitOldRC Hgc 2 rcWitnessNode).2 with
     | some b => decide (applyBatch b Db.empty Key.curBlock = some (Val.ptr 1)) | none => false) = true ∧
    (match (blockWaitOldRC Hgc 2 rcWitnessNode).2 with
     | some b => errOf (recover Hgc 2 1 (applyBatch b Db.empty)) | none => none) = some .noRoot := by
  decide

/-- **regression example for fix 2cd5b80** (the rule removeOldHeaderHashes had before: `gcRunOld`, pages up to
((tgt+1)/B - 1)*B whatever the persisted header height). B = 2, MaxTraceableBlocks = 1, GCP = 1, four blocks and a
flush, one GC run with target 3: the old rule dropped pages 0 and 2, but the stored header count at header height 4
is 4 and HeaderHashes.init reads page 2 - the database after the page commit did not reopen (`noPage` = "failed to
retrieve header hash page"); the rule of the code as it is now drops nothing there and every prefix reopens. -/
def gcWitnessNode : Node := (run Hgc 2 [.block, .block, .block, .block, .flush]).1

theorem gc_removes_needed_header_page :
    (gcRunOld Hgc 2 { mtb := 1, gcp := 1 } { n := gcWitnessNode } 0 (fun _ v => v)).2.length = 2 ∧
    errOf (recover Hgc 2 1 (foldBatches ((gcRunOld Hgc 2 { mtb := 1, gcp := 1 } { n := gcWitnessNode } 0 (fun _ v => v)).2.take 1) gcWitnessNode.db)) = none ∧
    errOf (recover Hgc 2 1 (foldBatches (gcRunOld Hgc 2 { mtb := 1, gcp := 1 } { n := gcWitnessNode } 0 (fun _ v => v)).2 gcWitnessNode.db)) = some .noPage ∧
    (gcRun Hgc 2 { mtb := 1, gcp := 1 } { n := gcWitnessNode } 0 (fun _ v => v)).2.length = 1 ∧
    errOf (recover Hgc 2 1 (foldBatches (gcRun Hgc 2 { mtb := 1, gcp := 1 } { n := gcWitnessNode } 0 (fun _ v => v)).2 gcWitnessNode.db)) = none := by
  decide



theorem flush_cache_empty (H : Hist) (B : Nat) (n : Node) : (step H B n .flush).1.cache = [] := by
  simp only [step]
  split
  · rename_i h; simpa using h
  · rfl

/-- a node that was stopped (Close flushes what is left) has an empty write cache. -/
theorem stopped_cache_empty (H : Hist) (B : Nat) (ops : List Op) : (run H B (ops ++ [.flush])).1.cache = [] := by
  show (runFrom H B (fresh H) (ops ++ [.flush])).1.cache = []
  rw [runFrom_append]
  simp only [runFrom]
  exact flush_cache_empty H B _


/-- **reset_resumable_stopped**: `reset_resumable` without the empty-cache hypothesis - the node a reset is run on is a
STOPPED node, and stopping flushes (`Blockchain.Close` -> `persist`): for the node after any schedule followed by that
flush the hypothesis holds by construction. -/
theorem reset_resumable_stopped (H : Hist) {B S : Nat} (hB : 1 < B) (ops : List Op) (t : Nat) (bs : List Batch) (n' : Node)
    (hreset : reset H B S (run H B (ops ++ [.flush])).1 t = .ok (bs, n')) (hbs : bs ≠ []) :
    let n := (run H B (ops ++ [.flush])).1
    let b1 := ofWrites [(Key.syncPoint, some (Val.ptr t)), marker stJumpStarted]
    let d1 := applyBatch b1 n.db
    ∃ (b2 : List Batch) (d2 : Db) (x r : Nat) (p0 : Bool),
      stageBlocks H S t n.height d1 = .ok (b2, d2) ∧ d2 = foldBatches b2 d1 ∧
      let c3 := stageCopy t p0 d2
      let c4 := stageHeaders B t n.hdrHeight p0
      let c5 := stageMpt t r
      let c6 := stageGc p0
      let d3 := applyBatch c3 d2
      let d4 := applyBatch c4 d3
      let d5 := applyBatch c5 d4
      let d6 := applyBatch c6 d5
      bs = b1 :: b2 ++ [c3, c4, c5, c6, stageDone] ∧ n'.db = applyBatch stageDone d6 ∧
      (∀ j, j < b2.length → recover H B S (foldBatches (b2.take j) d1) = .ok n') ∧
      recover H B S d2 = .ok n' ∧ recover H B S d3 = .ok n' ∧
      recover H B S d4 = .ok n' ∧ recover H B S d5 = .ok n' ∧ recover H B S d6 = .ok n' ∧
      recover H B S n'.db = .ok n' :=
  reset_resumable H hB (ops ++ [.flush]) (stopped_cache_empty H B ops) t bs n' hreset hbs



/-- **crash_then_continue_gc** — the property end to end, no hypothesis on any node left: for every chain content,
configuration (positive MaxTraceableBlocks), schedule (headers, blocks, flushes, GC commits and runs, blocks that
wait during a flush) and every prefix `k` of its batches, reopening gives a node `n'` not above the running one, and
continuing `n'` (with whatever GC bookkeeping it restarts with) under ANY further schedule stores the canonical state
root at every height it reaches. `continue_same_roots_gc`'s hypotheses (`GInv`, empty write cache) are discharged by
`crash_prefix_consistent_gc`'s conclusion. -/
theorem crash_then_continue_gc (H : Hist) {B : Nat} (S : Nat) (cfg : GcCfg) (hB : 1 < B) (hm : 0 < cfg.mtb)
    (ops : List GOp) (k : Nat) (hk : k ≤ (grun H B cfg ops).2.length) (ops' : List GOp) :
    ∃ n', recover H B S (foldBatches ((grun H B cfg ops).2.take k) Db.empty) = .ok n' ∧
      n'.height ≤ (grun H B cfg ops).1.n.height ∧
      ∀ gl lr tm i, i ≤ (grunFrom H B cfg { n := n', gcLast := gl, lru := lr, times := tm } ops').1.n.height →
        (grunFrom H B cfg { n := n', gcLast := gl, lru := lr, times := tm } ops').1.n.view (Key.root i) =
          some (Val.rootv (H.hashOf (itemsAt H i))) := by
  have h := gprefix_ok cfg hB hm (gstate_fresh H hB) ops k hk
  rcases h with he | ⟨m, fb, fp, m1, m2, m3, m4, _⟩
  · have he' : foldBatches ((grun H B cfg ops).2.take k) Db.empty = Db.empty := he
    rw [he']
    refine ⟨fresh H, recover_empty H B S, Nat.zero_le _, ?_⟩
    intro gl lr tm i hi
    have hs : GState H B { n := fresh H, gcLast := gl, lru := lr, times := tm } :=
      ⟨⟨0, 0, ginv_of_inv (inv_fresh H hB)⟩, Or.inl rfl⟩
    obtain ⟨_, _, h⟩ := (gstate_grunFrom cfg hB hm hs ops').run
    exact h.rt i hi
  · have hm1 : m.db = foldBatches ((grun H B cfg ops).2.take k) Db.empty := m1
    rw [← hm1]
    refine ⟨m, recover_of_ginv m3 m2, m4, ?_⟩
    intro gl lr tm i hi
    exact continue_same_roots_gc H cfg hB hm { n := m, gcLast := gl, lru := lr, times := tm } fb fp m3 m2 ops' i hi

/-- `flush_during_wait_atomic` on every reachable node: the hypothesis `height ≤ hdrHeight` is an invariant. -/
theorem flush_during_wait_atomic_reachable (H : Hist) {B : Nat} (cfg : GcCfg) (hB : 1 < B) (hm : 0 < cfg.mtb) (ops : List GOp) :
    let n := (grun H B cfg ops).1.n
    (blockWait H B n).2 = (if (n.cache ++ waitHeaderWrites B n).isEmpty then none else some (ofWrites (n.cache ++ waitHeaderWrites B n))) ∧
    (∀ p ∈ waitHeaderWrites B n, ¬ BlockKey n.pfx (n.height + 1) p) ∧
    (step H B (blockWait H B n).1 .flush).1 = (step H B (step H B n .block).1 .flush).1 := by
  intro n
  obtain ⟨_, _, h⟩ := (gstate_grunFrom cfg hB hm (gstate_fresh H hB) ops).run
  exact flush_during_wait_atomic H B n h.le


/-! ### the header-hash page pass and the write cache (seeded C02-m8) -/


/-- **page_gc_spares_restart_page** — what removeOldHeaderHashes may delete is bounded by the FLUSHED header height
alone: `gcPagesTill` reads `SYSCurrentHeader` from the backend, the write cache (headers that arrived since the
flush, a header-hash page they completed) is not an argument of it. Every page start `q` the pass deletes lies at
least two pages below the stored header count of the flushed header height `hh`, i.e. strictly below the page
`storedCnt B hh - B` that HeaderHashes.init reads after a power loss before the next flush; that page is untouched. -/
theorem page_gc_spares_restart_page {B : Nat} (hB : 0 < B) (db : Db) (hh tgt : Nat)
    (hch : db Key.curHeader = some (Val.ptr hh)) :
    (∀ q, q ≤ gcPagesTill B db tgt → 0 < gcPagesTill B db tgt → q + B + B ≤ storedCnt B hh) ∧
    (0 < gcPagesTill B db tgt →
      dropPages (gcPagesTill B db tgt) db (Key.page (storedCnt B hh - B)) = db (Key.page (storedCnt B hh - B))) := by
  refine ⟨fun q hq hpos => ?_, fun hpos => ?_⟩
  · have := gcPagesTill_bound (B := B) hch hpos
    omega
  · have := gcPagesTill_bound (B := B) hch hpos
    apply dropPages_other
    intro q e
    simp at e
    omega

/-- the rule of seeded change C02-m8: the same cap computed from the IN-MEMORY header height. -/
def gcPagesTillMem (B hdrHeight tgt : Nat) : Nat := min (pagesTill B tgt) (((hdrHeight + 1) / B - 2) * B)

/-- headers cross the end of a header-hash page between a flush and the page pass of its GC cycle (B = 2: four
blocks flushed at header height 4, header 5 arrives, GC target 3): the code's rule commits no page deletion and every
prefix reopens - with header 5 and the page it completed only in the write cache; the in-memory rule would delete
page 2, which the flushed state (stored header count 4) needs: `noPage`. -/
def pageGcSchedule : List GOp :=
  [.base .block, .base .block, .base .block, .base .block, .base .flush, .base (.headers 5), .gcRun 0 (fun _ v => v)]

theorem page_gc_headers_in_cache_example :
    (grun Hgc 2 { mtb := 1, gcp := 1 } pageGcSchedule).2.length = 2 ∧
    (grun Hgc 2 { mtb := 1, gcp := 1 } pageGcSchedule).1.n.hdrHeight = 5 ∧
    (grun Hgc 2 { mtb := 1, gcp := 1 } pageGcSchedule).1.n.view (Key.page 4) = some Val.pagev ∧
    (grun Hgc 2 { mtb := 1, gcp := 1 } pageGcSchedule).1.n.db (Key.page 4) = none ∧
    (∀ k ∈ [0, 1, 2], errOf (recover Hgc 2 1 (foldBatches ((grun Hgc 2 { mtb := 1, gcp := 1 } pageGcSchedule).2.take k) Db.empty)) = none) ∧
    gcPagesTill 2 (grun Hgc 2 { mtb := 1, gcp := 1 } pageGcSchedule).1.n.db 3 = 0 ∧
    gcPagesTillMem 2 5 3 = 2 ∧
    errOf (recover Hgc 2 1 (dropPages (gcPagesTillMem 2 5 3) (grun Hgc 2 { mtb := 1, gcp := 1 } pageGcSchedule).1.n.db)) = some .noPage := by
  decide


/-! ### Reset on a RemoveUntraceableBlocks node (refused since b08d698) -/


/-- **reset_refused_unchanged**: a fresh Reset(t) below the current height on a RemoveUntraceableBlocks node is
refused - `reset` returns the error and nothing else: no batch is issued and there is no new node, the caller keeps `n`
(backend and write cache) exactly as it was. -/
theorem reset_refused_unchanged (H : Hist) (B S : Nat) (n : Node) (t : Nat) (hr : H.rub = true) (ht : t < n.height) :
    reset H B S n t = .error .refused := by
  unfold reset
  rw [if_neg (by omega), if_neg (by omega), if_pos ⟨hr, ht⟩]

/-- **reset_on_rub_is_headers_only**: whatever reset starts on such a node (writes its first marker batch) has the
node's own height as target - it only drops headers that are ahead of the blocks. So the only recorded reset stage a
restart can find on such a node (`recover` resumes a stage without the check, as the code does for stage ≠ none)
belongs to a headers-only reset, which deactivates no MPT node; its resumption is `reset_resumable`. -/
theorem reset_on_rub_is_headers_only (H : Hist) (B S : Nat) (n n' : Node) (t : Nat) (bs : List Batch) (hr : H.rub = true)
    (h : reset H B S n t = .ok (bs, n')) : t = n.height := by
  unfold reset at h
  split at h
  · simp at h
  · split at h
    · rename_i h2; exact h2.1
    · split at h
      · simp at h
      · rename_i h1 _ h3
        have : ¬ t < n.height := fun c => h3 ⟨hr, c⟩
        omega

/-- non-vacuity: on the RemoveUntraceableBlocks variant of `Hw` the reset of the 2-block node to 1 is refused, the
headers-only reset of a node with headers 3..4 ahead runs its 7 batches. -/
example : errOf (reset { Hw with rub := true } 2000 200000 (run { Hw with rub := true } 2000 [.block, .block, .flush]).1 1) = some .refused ∧
    (match reset { Hw with rub := true } 2000 200000 (run { Hw with rub := true } 2000 [.block, .block, .headers 4, .flush]).1 2 with
     | .ok (bs, _) => decide (bs.length = 7) | .error _ => false) = true := by decide


/-! ## 5. a failed flush (MemCachedStore.persist's error branch, Model/PersistFlush.lean) -/

/-- **failed_flush_loses_nothing**: when the backend refuses the change set, nothing reaches it (no batch, `ps`
unchanged), the flush is over (`temp = none`), the list of pending writes is literally the same — the writes that
arrived during the flush on top of the ones that were being flushed — and every read through the cache gives what
it gave before. -/
theorem failed_flush_loses_nothing (s : MS) :
    (mstep s .fail).1.ps = s.ps ∧ (mstep s .fail).2 = none ∧ (mstep s .fail).1.temp = none ∧
    (mstep s .fail).1.pending = s.pending ∧ ∀ k, (mstep s .fail).1.view k = s.view k := by
  obtain ⟨h1, h2, h3, h4⟩ := mstep_fail s
  exact ⟨h1, h2, h4, h3, fun k => by rw [mstep_view]⟩

/-- **flush_after_failure_writes_union**: a flush of `t` fails while `s.mem` has arrived meanwhile; after any
further writes `w` the next successful flush commits ONE batch holding `t ++ s.mem ++ w` in this order (later
writes win), and the backend is the old one with exactly these writes applied. -/
theorem flush_after_failure_writes_union (s : MS) (t w : Writes) (ht : s.temp = some t) (hne : t ≠ []) :
    mrunFrom s [.fail, .write w, .begin, .commit] =
      ({ ps := applyWrites (t ++ s.mem ++ w) s.ps, temp := none, mem := [] }, [ofWrites (t ++ s.mem ++ w)]) := by
  simp [mrunFrom, mstep, ht, hne, List.append_assoc]

/-- non-vacuity: a flush of one write in flight, one write arrived meanwhile, one after the failure. -/
example : (mrunFrom { ps := Db.empty, temp := some [(Key.curBlock, some (Val.ptr 1))], mem := [(Key.curBlock, some (Val.ptr 2))] }
    [.fail, .write [(Key.curHeader, some (Val.ptr 3))], .begin, .commit]).1.ps Key.curBlock = some (Val.ptr 2) := by decide

/-- **flush_schedule_refines_stream**: for EVERY schedule of writes, flush starts, commits and failures on a clean
store: (1) reads see all writes applied in order, whatever failed; (2) the backend is the fold of the committed
batches; (3) the committed batches, concatenated in commit order, followed by what is still pending, are exactly
the stream of writes issued — so every batch prefix is a cut of the write stream at a flush start, i.e. a crash
point of the two-layer node model with its flushes placed at the starts of the successful ones. -/
theorem flush_schedule_refines_stream (ps : Db) (ops : List MOp) :
    let r := mrunFrom { ps := ps } ops
    (∀ k, r.1.view k = applyWrites (writesOf ops) ps k) ∧
    r.1.ps = foldBatches r.2 ps ∧
    r.2.flatMap batchWrites ++ r.1.pending = writesOf ops := by
  intro r
  obtain ⟨h1, h2⟩ := mrun_stream { ps := ps } ops
  refine ⟨fun k => ?_, h2, ?_⟩
  · show (mrunFrom { ps := ps } ops).1.view k = _
    rw [mrun_view]; simp [MS.view, applyWrites]
  · simpa [MS.pending] using h1

/-- non-vacuity: two writes, a failed flush with a write in between, then a successful one: one batch. -/
example : (mrunFrom { ps := Db.empty } [.write [(Key.curBlock, some (Val.ptr 1))], .begin, .write [(Key.curBlock, some (Val.ptr 2))],
    .fail, .begin, .commit]).2.length = 1 := by decide

/-- **flush_is_node_flush**: with no flush in flight, start + commit of the three-layer store is the `flush` step of
the node model of sections 1–4 (same backend, same batch, empty cache). -/
theorem flush_is_node_flush (H : Hist) (B : Nat) (n : Node) (s : MS) (hdb : s.ps = n.db) (ht : s.temp = none) (hm : s.mem = n.cache) :
    ((mrunFrom s [.begin, .commit]).1.toNode n, (mrunFrom s [.begin, .commit]).2) =
      ((step H B n .flush).1, (step H B n .flush).2.toList) :=
  mflush_is_flush H B n s hdb ht hm

/-! ### the stage markers and their order are the code's (regenerated from blockchain.go on every run) -/

theorem stage_constants_tied :
    stNone = Generated.Stages.stageNone ∧ stJumpStarted = Generated.Stages.stateJumpStarted ∧
    stNewItems = Generated.Stages.newStorageItemsAdded ∧ stBlocksRemoved = Generated.Stages.staleBlocksRemoved ∧
    stHeadersReset = Generated.Stages.headersReset ∧ stTransfersReset = Generated.Stages.transfersReset ∧
    Generated.Stages.stateResetBit = 128 ∧
    -- the order of the fallthrough switch of resetStateInternal, which `resetFrom` mirrors
    Generated.Stages.resetSwitchOrder = [stNone, stJumpStarted, stBlocksRemoved, stNewItems, stHeadersReset, stTransfersReset] ∧
    Generated.Stages.resetBlocksBatch = 100 * Generated.Stages.headerBatchCount := by
  decide

/-- the garbage collector's constants and the order of its four passes (tryRunGC's guarded body), which `gcRun`
mirrors: transfers, MPT (both `gcSel`), untraceable blocks, header-hash pages. -/
theorem gc_constants_tied :
    pagesCache = Generated.Stages.pagesCache ∧ timesCache = Generated.Stages.blockTimesCache ∧
    Generated.Stages.gcCallOrder = ["removeOldTransfers", "GC", "removeUntraceableBlocks", "removeOldHeaderHashes"] := by
  decide

/-- the key prefixes the harness' batch abstraction classifies by. -/
theorem key_prefixes_tied :
    Generated.Stages.keyPrefixes.lookup "DataExecutable" = some 0x01 ∧ Generated.Stages.keyPrefixes.lookup "DataMPT" = some 0x03 ∧
    Generated.Stages.keyPrefixes.lookup "DataMPTAux" = some 0x04 ∧ Generated.Stages.keyPrefixes.lookup "STStorage" = some 0x70 ∧
    Generated.Stages.keyPrefixes.lookup "STTempStorage" = some 0x71 ∧ Generated.Stages.keyPrefixes.lookup "STNEP11Transfers" = some 0x72 ∧
    Generated.Stages.keyPrefixes.lookup "STNEP17Transfers" = some 0x73 ∧ Generated.Stages.keyPrefixes.lookup "STTokenTransferInfo" = some 0x74 ∧
    Generated.Stages.keyPrefixes.lookup "IXHeaderHashList" = some 0x80 ∧ Generated.Stages.keyPrefixes.lookup "SYSCurrentBlock" = some 0xc0 ∧
    Generated.Stages.keyPrefixes.lookup "SYSCurrentHeader" = some 0xc1 ∧ Generated.Stages.keyPrefixes.lookup "SYSStateSyncPoint" = some 0xc3 ∧
    Generated.Stages.keyPrefixes.lookup "SYSStateChangeStage" = some 0xc4 ∧ Generated.Stages.keyPrefixes.lookup "SYSVersion" = some 0xf0 := by
  decide

end NeoModel.Persist
