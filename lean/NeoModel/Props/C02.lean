/-
C02 — a crash at any flush boundary leaves a consistent, resumable chain prefix.
Property theorems over the model NeoModel/Model/Persist.lean (helper lemmas: Proofs/Persist.lean).
`H` = the chain's content (arbitrary), `B` = headerBatchCount (any value > 1), `S` = persistBatchSize.
-/
import NeoModel.Proofs.Persist
import NeoModel.Proofs.PersistReset
import NeoModel.Generated.Stages
namespace NeoModel.Persist

/-! ## 1. ordinary persistence and garbage collection -/

/-- **crash_prefix_consistent** (also `gc_crash_safe`: GC commits are ops of the schedule).
For every chain content, every schedule of header additions, block additions, flushes and GC commits,
and every prefix `k` of the list of atomic batches the node has issued: reopening the database made of
the first `k` batches succeeds; the recovered node satisfies the node invariant `Inv` (tip pointers,
header records and pages, state root and storage snapshot of ITS height are those of the canonical
chain: `items = itemsAt H height`, `root i = hashOf (itemsAt H i)` for all `i ≤ height`), has an empty
write cache, and its height is not above the height of the running node. -/
theorem crash_prefix_consistent (H : Hist) {B : Nat} (S : Nat) (hB : 1 < B) (ops : List Op) (k : Nat)
    (hk : k ≤ (run H B ops).2.length) :
    ∃ n', recover H B S (foldBatches ((run H B ops).2.take k) Db.empty) = .ok n' ∧
      Inv H B n' ∧ n'.height ≤ (run H B ops).1.height ∧
      n'.items = itemsAt H n'.height ∧ n'.hdrHeight ≥ n'.height := by
  have key : ∀ m : Node, Inv H B m → m.height ≤ (run H B ops).1.height →
      recover H B S m.db = .ok m → ∃ n', recover H B S m.db = .ok n' ∧ Inv H B n' ∧ n'.height ≤ (run H B ops).1.height ∧
        n'.items = itemsAt H n'.height ∧ n'.hdrHeight ≥ n'.height :=
    fun m hm hle hr => ⟨m, hr, hm, hle, hm.it, hm.le⟩
  have hfresh : ∃ n', recover H B S Db.empty = .ok n' ∧ Inv H B n' ∧ n'.height ≤ (run H B ops).1.height ∧
        n'.items = itemsAt H n'.height ∧ n'.hdrHeight ≥ n'.height :=
    ⟨fresh H, recover_empty H B S, inv_fresh H hB, Nat.zero_le _, rfl, Nat.le_refl _⟩
  have hrun : run H B ops = runFrom H B (fresh H) ops := rfl
  rcases prefix_is_flush_point H B (fresh H) ops k hk with ⟨_, hf⟩ | ⟨o1, o2, e, hf⟩
  · have : (fresh H).db = Db.empty := rfl
    rw [this] at hf; rw [hrun, hf]; rw [← hrun]; exact hfresh
  · have hdb0 : (fresh H).db = Db.empty := rfl
    rw [hdb0] at hf
    rw [hrun, hf, ← hrun]
    have hp := pinv_runFrom hB (inv_fresh H hB) (Or.inl rfl) o1
    have hmono : (runFrom H B (fresh H) o1).1.height ≤ (run H B ops).1.height := by
      subst e
      simp only [run, runFrom_append]
      exact height_mono H B _ o2
    rcases hp with he | ⟨m, h1, h2, h3, h4⟩
    · rw [he]; exact hfresh
    · rw [← h1]
      exact key m h3 (Nat.le_trans h4 hmono) (recover_of_inv h3 h2)

/-- **crash_prefix_exact**: without GC steps the recovered node IS the uninterrupted node as it was right after
the flush that issued batch k (ops₁ = the schedule up to and including that flush): the same database key
for key (blocks, transactions, conflict records, transfer logs, …) and the same in-memory fields — so every
observation of it equals the uninterrupted node's at that height. -/
theorem crash_prefix_exact (H : Hist) {B : Nat} (S : Nat) (hB : 1 < B) (ops : List Op) (hno : ∀ o ∈ ops, o.isGc = false)
    (k : Nat) (hk : k ≤ (run H B ops).2.length) (hk0 : 0 < k) :
    ∃ ops₁ ops₂, ops = ops₁ ++ ops₂ ∧
      recover H B S (foldBatches ((run H B ops).2.take k) Db.empty) = .ok (run H B ops₁).1 :=
  crash_prefix_exact_aux H S hB ops hno k hk hk0

/-- non-vacuity: a schedule with headers ahead, three blocks in two flushes and a GC commit; every one of
its batch prefixes is covered (there are 3 batches). -/
example : ((run ⟨fun _ => 2, fun _ => [(0, 1)], fun h => [(h, some h)], fun _ => [0], List.length⟩ 2000
    [.headers 2, .block, .flush, .block, .block, .flush, .gc 1 (fun _ v => v), .block]).2.length = 3) := by decide

/-- **continue_same_roots**: whatever node the recovery produced (any node satisfying `Inv`), feeding it
the remaining canonical blocks under any further schedule gives, at every height, the state root of the
canonical chain — the same as a node that never crashed. -/
theorem continue_same_roots (H : Hist) {B : Nat} (hB : 1 < B) (n' : Node) (hn : Inv H B n') (ops' : List Op) (i : Nat)
    (hi : i ≤ (runFrom H B n' ops').1.height) :
    (runFrom H B n' ops').1.view (Key.root i) = some (Val.rootv (H.hashOf (itemsAt H i))) :=
  (inv_runFrom hB hn ops').rt i hi

/-- state roots do not depend on the flush / header / GC schedule at all. -/
theorem roots_schedule_independent (H : Hist) {B : Nat} (hB : 1 < B) (ops₁ ops₂ : List Op) (i : Nat)
    (h1 : i ≤ (run H B ops₁).1.height) (h2 : i ≤ (run H B ops₂).1.height) :
    (run H B ops₁).1.view (Key.root i) = (run H B ops₂).1.view (Key.root i) := by
  have e1 := (inv_runFrom hB (inv_fresh H hB) ops₁).rt i h1
  have e2 := (inv_runFrom hB (inv_fresh H hB) ops₂).rt i h2
  exact e1.trans e2.symm

/-- **gc_crash_safe** (single step form): a GC commit applied below the write cache at any moment keeps
the node invariant, so the database after it reopens to a consistent node as above. -/
theorem gc_crash_safe (H : Hist) {B : Nat} (S : Nat) (n : Node) (hn : Inv H B n) (hc : n.cache = [])
    (tgt : Nat) (g : Nat → Option Val → Option Val) (hlt : tgt < n.height) :
    recover H B S (gcSel tgt g n.db) = .ok { n with db := gcSel tgt g n.db } :=
  recover_of_inv (n := { n with db := gcSel tgt g n.db }) (inv_gc hn tgt g hlt) hc

/-- batches that were coalesced (the persisting goroutine lagging one stage behind) expose no new crash
point: every prefix of the coalesced list is a prefix of the uncoalesced one. -/
theorem coalesced_prefix_is_prefix (a : List Batch) (x y : Batch) (b : List Batch) (db : Db) (k : Nat) :
    ∃ k', foldBatches ((a ++ (x ++ y) :: b).take k) db = foldBatches ((a ++ x :: y :: b).take k') db := by
  by_cases h : k ≤ a.length
  · exact ⟨k, by rw [List.take_append_of_le_length h, List.take_append_of_le_length h]⟩
  · refine ⟨k + 1, ?_⟩
    obtain ⟨j, rfl⟩ : ∃ j, k = a.length + (j + 1) := ⟨k - a.length - 1, by omega⟩
    have e1 : (a ++ (x ++ y) :: b).take (a.length + (j + 1)) = a ++ (x ++ y) :: b.take j := by
      rw [List.take_append]; simp [List.take_of_length_le]
    have e2 : (a ++ x :: y :: b).take (a.length + (j + 1) + 1) = a ++ x :: y :: b.take j := by
      rw [List.take_append]; simp [Nat.add_assoc, List.take_of_length_le]
    rw [e1, e2]
    simp [foldBatches_append, foldBatches, applyBatch_append]


/-! ## 2. state reset (Blockchain.Reset / resetStateInternal)

The full statements the property asks for are

    reset_resumable   : for every consistent stopped node n, every target t ≤ n.height and EVERY prefix k of the
                        batches of `reset n t`: recover (fold of the first k batches on n.db) = ok m with
                        m.db = the database of the uninterrupted reset, and m accepts further blocks;
    reset_equals_sync : the node left by a completed `reset n t` is observationally equal to `run (t blocks)`.

Both are FALSE for the code as written; the witnesses below are the replays (found first on the real code
by the harness, keys `reset-resume-reopen-…`, `reset-resumed-node-addblock-stage32`, `reset-recover-probes`).
What does hold is stated after them as `…_partial`. -/

/-- the chain content of the witnesses: one transaction per block, the transactions of blocks 1 and 2
carry a Conflicts attribute with the same hash (0) and the same signer (0). -/
def Hw : Hist :=
  { ntx := fun _ => 1, confl := fun h => if h = 1 ∨ h = 2 then [(0, 0)] else [],
    eff := fun h => [(h, some h)], touched := fun _ => [0], hashOf := fun it => it.length }

/-- the stopped, flushed node after n blocks. -/
def nodeAt (B n : Nat) : Node := (run Hw B (List.replicate n Op.block ++ [Op.flush])).1

def resetBatches (B S n t : Nat) : List Batch :=
  match reset Hw B S (nodeAt B n) t with | .ok (bs, _) => bs | .error _ => []

def errOf {α : Type} : Except Err α → Option Err | .ok _ => none | .error e => some e

/-- a reset of a 2-block chain to height 1 consists of 7 batches: sync point + marker, block removal,
storage copy, header/pointer reset, MPT + transfer reset, SeekGC of the old storage prefix, marker removal. -/
theorem reset_has_seven_batches : (resetBatches 2000 200000 2 1).length = 7 := by decide

/-- **not resumable after the block-removal batch** (finding A): the database after the first two batches
(block 2 and its header record are gone, SYSCurrentHeader still says 2) cannot be reopened:
HeaderHashes.init does not find header 2. The same one batch later. -/
theorem reset_not_resumable_after_block_removal :
    errOf (recover Hw 2000 200000 (foldBatches ((resetBatches 2000 200000 2 1).take 2) (nodeAt 2000 2).db)) = some (Err.noHeader 2) ∧
    errOf (recover Hw 2000 200000 (foldBatches ((resetBatches 2000 200000 2 1).take 3) (nodeAt 2000 2).db)) = some (Err.noHeader 2) := by
  decide

/-- **a reset resumed from marker transfersReset leaves the stateroot module uninitialised** (finding B). -/
theorem reset_resumed_from_transfersReset_not_ready :
    (match recover Hw 2000 200000 (foldBatches ((resetBatches 2000 200000 2 1).take 5) (nodeAt 2000 2).db) with
     | .ok m => m.mptReady | .error _ => true) = false ∧
    (match recover Hw 2000 200000 (foldBatches ((resetBatches 2000 200000 2 1).take 6) (nodeAt 2000 2).db) with
     | .ok m => m.mptReady | .error _ => true) = false := by
  decide

/-- **the block-removal stage is not idempotent across its intermediate batches** (DESIGN §6 item 7): with
one block per intermediate batch (S = 1; B = 2 so that the header walk does not reach the hole), a crash
after the first intermediate batch of `reset 5→0` makes the resumed stage fail on DeleteBlock(1).
(In the code S = 100·headerBatchCount = 200000 blocks, so this needs a longer chain than can be replayed.) -/
theorem reset_block_removal_not_idempotent :
    errOf (recover Hw 2 1 (foldBatches ((resetBatches 2 1 5 0).take 2) (nodeAt 2 5).db)) = some (Err.noBlock 1) := by
  decide

/-- what the API tells about conflict hash c: a conflict record exists whose height is not above the node's. -/
def conflictKnown (n : Node) (c : Nat) : Bool :=
  match n.view (Key.stub c) with
  | some (Val.stubv i) => decide (i ≤ n.height)
  | _ => false

/-- **a completed reset is distinguishable from a node that only synchronised to t** (finding C): the conflict
record written by block 1 was overwritten by block 2's and is neither removed nor restored. -/
theorem reset_not_equal_sync_conflicts :
    (match reset Hw 2000 200000 (nodeAt 2000 2) 1 with | .ok (_, m) => conflictKnown m 0 | .error _ => true) = false ∧
    conflictKnown (nodeAt 2000 1) 0 = true := by
  decide

/-- **reset_resumable_partial** — what holds of `reset_resumable`. For EVERY chain content, node `n`, target `t`
and batch size `S`: if `reset n t` runs (with at least one batch) to node `n'`, its batches are
`b1 :: b2 ++ [c3, c4, c5, c6, c7]` (sync point + first marker; block removal, possibly several batches;
storage copy; header/pointer reset; MPT + transfer reset; SeekGC of the old prefix; marker removal), `n'.db` is
their fold, and for the database after each COMPLETE stage: if HeaderHashes.init succeeds on it (with the
stopped node's header height while the headers are not yet reset — it does NOT after `b2` and `c3`, see
`reset_not_resumable_after_block_removal`), then reopening resumes the reset and returns exactly the node of
the uninterrupted reset — except that after `c5`/`c6` the stateroot module is left uninitialised
(`mptReady = false`, finding B). Missing for the full statement: crash points inside the block-removal stage
when it needs several batches (false: `reset_block_removal_not_idempotent`), and the two header-init failures. -/
theorem reset_resumable_partial (H : Hist) {B S : Nat} (n n' : Node) (t : Nat) (bs : List Batch)
    (hreset : reset H B S n t = .ok (bs, n')) (hbs : bs ≠ []) :
    ∃ (b1 : Batch) (b2 : List Batch) (c3 c4 c5 c6 c7 : Batch),
      bs = b1 :: b2 ++ [c3, c4, c5, c6, c7] ∧
      n'.db = applyBatch c7 (applyBatch c6 (applyBatch c5 (applyBatch c4 (applyBatch c3 (foldBatches b2 (applyBatch b1 n.db)))))) ∧
      (initHeaders B (applyBatch b1 n.db) = .ok n.hdrHeight → recover H B S (applyBatch b1 n.db) = .ok n') ∧
      (initHeaders B (foldBatches b2 (applyBatch b1 n.db)) = .ok n.hdrHeight →
        recover H B S (foldBatches b2 (applyBatch b1 n.db)) = .ok n') ∧
      (initHeaders B (applyBatch c3 (foldBatches b2 (applyBatch b1 n.db))) = .ok n.hdrHeight →
        recover H B S (applyBatch c3 (foldBatches b2 (applyBatch b1 n.db))) = .ok n') ∧
      (∀ hh', initHeaders B (applyBatch c4 (applyBatch c3 (foldBatches b2 (applyBatch b1 n.db)))) = .ok hh' →
        recover H B S (applyBatch c4 (applyBatch c3 (foldBatches b2 (applyBatch b1 n.db)))) = .ok n') ∧
      (∀ hh', initHeaders B (applyBatch c5 (applyBatch c4 (applyBatch c3 (foldBatches b2 (applyBatch b1 n.db))))) = .ok hh' →
        recover H B S (applyBatch c5 (applyBatch c4 (applyBatch c3 (foldBatches b2 (applyBatch b1 n.db))))) = .ok { n' with mptReady := false }) ∧
      (∀ hh', initHeaders B (applyBatch c6 (applyBatch c5 (applyBatch c4 (applyBatch c3 (foldBatches b2 (applyBatch b1 n.db)))))) = .ok hh' →
        recover H B S (applyBatch c6 (applyBatch c5 (applyBatch c4 (applyBatch c3 (foldBatches b2 (applyBatch b1 n.db)))))) = .ok { n' with mptReady := false }) :=
  reset_resumable_partial_aux H n n' t bs hreset hbs

/-- **reset_resumable_of_consistent_node**: for a CONSISTENT stopped node (`Inv`, empty write cache — what
`crash_prefix_consistent` delivers) the header-init hypotheses above are discharged: the reset resumes to the
uninterrupted node from the database after the first marker batch, after the header reset, after the
MPT/transfer reset and after the SeekGC; i.e. from every complete stage except the two between block removal
and header reset. -/
theorem reset_resumable_of_consistent_node (H : Hist) {B S : Nat} (hB : 1 < B) (n n' : Node) (hn : Inv H B n) (hc : n.cache = [])
    (t : Nat) (bs : List Batch) (hreset : reset H B S n t = .ok (bs, n')) (hbs : bs ≠ []) :
    let b1 := ofWrites [(Key.syncPoint, some (Val.ptr t)), marker stJumpStarted]
    let d1 := applyBatch b1 n.db
    ∃ (b2 : List Batch) (d2 : Db) (cur x r : Nat) (p0 : Bool),
      stageBlocks H S t cur d1 = .ok (b2, d2) ∧ d2 = foldBatches b2 d1 ∧
      let c3 := stageCopy t p0 d2
      let c4 := stageHeaders B t n.hdrHeight p0
      let c5 := stageMpt t r
      let c6 := stageGc p0
      let d4 := applyBatch c4 (applyBatch c3 d2)
      let d5 := applyBatch c5 d4
      let d6 := applyBatch c6 d5
      bs = b1 :: b2 ++ [c3, c4, c5, c6, stageDone] ∧
      n'.db = applyBatch stageDone d6 ∧
      recover H B S d1 = .ok n' ∧ recover H B S d4 = .ok n' ∧
      recover H B S d5 = .ok { n' with mptReady := false } ∧ recover H B S d6 = .ok { n' with mptReady := false } :=
  reset_resumable_of_inv H hB n n' hn hc t bs hreset hbs

/-- non-vacuity: the 2-block chain reset to height 1 meets the hypotheses (7 batches). -/
example : ∃ bs n', reset Hw 2000 200000 (nodeAt 2000 2) 1 = .ok (bs, n') ∧ bs ≠ [] := by
  cases h : reset Hw 2000 200000 (nodeAt 2000 2) 1 with
  | error e => exact absurd (show (match reset Hw 2000 200000 (nodeAt 2000 2) 1 with | .ok _ => true | .error _ => false) = true by decide) (by rw [h]; simp)
  | ok p =>
    refine ⟨p.1, p.2, rfl, ?_⟩
    have : (resetBatches 2000 200000 2 1).length = 7 := reset_has_seven_batches
    intro e
    simp [resetBatches, h, e] at this

/-- every stage of the reset is idempotent from its own marker: from the database after any complete stage,
`resetFrom` with that stage's marker issues exactly the remaining batches and ends in the same database `D`. -/
theorem reset_stage_idempotent' {H : Hist} {B S t hh : Nat} {d D : Db} {bs : List Batch} {rdy : Bool}
    (h : resetFrom H B S t stNone hh d = .ok (bs, D, rdy)) :
    ∃ (b2 : List Batch) (d2 : Db) (cur x r : Nat) (p0 : Bool),
      stageBlocks H S t cur d = .ok (b2, d2) ∧
      bs = b2 ++ [stageCopy t p0 d2, stageHeaders B t hh p0, stageMpt t r, stageGc p0, stageDone] ∧
      resetFrom H B S t stBlocksRemoved hh d2 = .ok ([stageCopy t p0 d2, stageHeaders B t hh p0, stageMpt t r, stageGc p0, stageDone], D, true) ∧
      resetFrom H B S t stNewItems hh (applyBatch (stageCopy t p0 d2) d2) = .ok ([stageHeaders B t hh p0, stageMpt t r, stageGc p0, stageDone], D, true) ∧
      (∀ hh', resetFrom H B S t stHeadersReset hh' (applyBatch (stageHeaders B t hh p0) (applyBatch (stageCopy t p0 d2) d2)) = .ok ([stageMpt t r, stageGc p0, stageDone], D, true)) ∧
      (∀ hh', resetFrom H B S t stTransfersReset hh' (applyBatch (stageMpt t r) (applyBatch (stageHeaders B t hh p0) (applyBatch (stageCopy t p0 d2) d2))) = .ok ([stageGc p0, stageDone], D, false)) ∧
      (∀ hh', resetFrom H B S t stTransfersReset hh' (applyBatch (stageGc p0) (applyBatch (stageMpt t r) (applyBatch (stageHeaders B t hh p0) (applyBatch (stageCopy t p0 d2) d2)))) = .ok ([stageGc p0, stageDone], D, false)) := by
  obtain ⟨b2, d2, cur, x, r, p0, _, hsb, hbs, _, _, g8, g4, g16, g32, g32'⟩ := reset_stage_idempotent (Or.inl rfl) h
  exact ⟨b2, d2, cur, x, r, p0, hsb, hbs, g8, g4, g16, g32, g32'⟩

/-- the other crash points of the same reset resume: after the first marker, after the header reset, … -/
theorem reset_resumes_elsewhere_example :
    ∀ k ∈ [1, 4, 5, 6, 7], errOf (recover Hw 2000 200000 (foldBatches ((resetBatches 2000 200000 2 1).take k) (nodeAt 2000 2).db)) = none := by
  decide

/-! ### the stage markers and their order are the code's (regenerated from blockchain.go on every run) -/

theorem stage_constants_tied :
    stNone = Generated.Stages.stageNone ∧ stJumpStarted = Generated.Stages.stateJumpStarted ∧
    stNewItems = Generated.Stages.newStorageItemsAdded ∧ stBlocksRemoved = Generated.Stages.staleBlocksRemoved ∧
    stHeadersReset = Generated.Stages.headersReset ∧ stTransfersReset = Generated.Stages.transfersReset ∧
    Generated.Stages.stateResetBit = 128 ∧
    -- the order of the fallthrough switch of resetStateInternal, which `resetFrom` mirrors
    Generated.Stages.resetSwitchOrder = [stNone, stJumpStarted, stBlocksRemoved, stNewItems, stHeadersReset, stTransfersReset] ∧
    Generated.Stages.resetBlocksBatch = 100 * Generated.Stages.headerBatchCount := by
  decide

/-- the key prefixes the harness' batch abstraction classifies by. -/
theorem key_prefixes_tied :
    Generated.Stages.keyPrefixes.lookup "DataExecutable" = some 0x01 ∧ Generated.Stages.keyPrefixes.lookup "DataMPT" = some 0x03 ∧
    Generated.Stages.keyPrefixes.lookup "DataMPTAux" = some 0x04 ∧ Generated.Stages.keyPrefixes.lookup "STStorage" = some 0x70 ∧
    Generated.Stages.keyPrefixes.lookup "STTempStorage" = some 0x71 ∧ Generated.Stages.keyPrefixes.lookup "STNEP11Transfers" = some 0x72 ∧
    Generated.Stages.keyPrefixes.lookup "STNEP17Transfers" = some 0x73 ∧ Generated.Stages.keyPrefixes.lookup "STTokenTransferInfo" = some 0x74 ∧
    Generated.Stages.keyPrefixes.lookup "IXHeaderHashList" = some 0x80 ∧ Generated.Stages.keyPrefixes.lookup "SYSCurrentBlock" = some 0xc0 ∧
    Generated.Stages.keyPrefixes.lookup "SYSCurrentHeader" = some 0xc1 ∧ Generated.Stages.keyPrefixes.lookup "SYSStateSyncPoint" = some 0xc3 ∧
    Generated.Stages.keyPrefixes.lookup "SYSStateChangeStage" = some 0xc4 ∧ Generated.Stages.keyPrefixes.lookup "SYSVersion" = some 0xf0 := by
  decide

end NeoModel.Persist
