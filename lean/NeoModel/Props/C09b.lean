/-
C09 (second part) — the DAO / System.Storage.Find wrappers, SeekGC, the range scan in two critical
sections, and Go map semantics. Property theorems only; models `Model/Store/{Dao,Window}.lean`, lemmas
`Proofs/Store{Dao,GC,Window,Perm}.lean`.
-/
import NeoModel.Proofs.StoreDao
import NeoModel.Proofs.StoreWindow
import NeoModel.Proofs.StorePerm
import NeoModel.Proofs.StoreGCLoop
import NeoModel.Props.C09
set_option linter.unusedSimpArgs false
namespace NeoModel.Store.C09

/-! ### dao.Simple.Seek / SeekAsync, System.Storage.Find -/

/-- C09 (DAO keys): `makeStorageItemKey` is injective in (storage prefix byte, contract id, key) for all
int32 ids — negative (native) ids, ids whose little-endian bytes look like key bytes, keys that start
with another id's bytes: two different items never share a store key. -/
theorem dao_key_injective {sp sp' : UInt8} {id id' : Int} {k k' : Bytes} (hi : IsInt32 id) (hi' : IsInt32 id')
    (h : makeStorageItemKey sp id k = makeStorageItemKey sp' id' k') : sp = sp' ∧ id = id' ∧ k = k' :=
  makeStorageItemKey_inj hi hi' h

-- non-vacuity: a native id, and two contracts of which one's id bytes are the other's key bytes
example : makeStorageItemKey 0x70 (-1) [1] = [0x70, 0xff, 0xff, 0xff, 0xff, 1] ∧
    makeStorageItemKey 0x70 5 [0, 0, 0, 0] = [0x70, 5, 0, 0, 0, 0, 0, 0, 0] ∧
    makeStorageItemKey 0x70 1280 [] = [0x70, 0, 5, 0, 0] ∧ IsInt32 (-1) ∧ IsInt32 1280 := by decide

/-- C09 (DAO keys): within one contract the construction preserves the byte order and the prefix
relation of the keys, so a contract's items lie in the big map in the contract's own key order. -/
theorem dao_key_order (sp : UInt8) (id : Int) (a b p : Bytes) :
    lexLt (makeStorageItemKey sp id a) (makeStorageItemKey sp id b) = lexLt a b ∧
    (makeStorageItemKey sp id p <+: makeStorageItemKey sp id a ↔ p <+: a) :=
  ⟨makeStorageItemKey_lt sp id a b, makeStorageItemKey_prefix sp id p a⟩

example : lexLt (makeStorageItemKey 0x70 (-5) [1, 0xff]) (makeStorageItemKey 0x70 (-5) [2]) = true := by
  rw [(dao_key_order _ _ _ _ []).1]; decide

/-- C09 (no bleed): a store-level seek prefix of contract `id` is a prefix of an item key of contract
`id'` only if it is the same contract under the same storage prefix byte. -/
theorem dao_prefix_no_bleed {sp sp' : UInt8} {id id' : Int} {p k : Bytes} (hi : IsInt32 id) (hi' : IsInt32 id')
    (h : makeStorageItemKey sp id p <+: makeStorageItemKey sp' id' k) : sp = sp' ∧ id = id' ∧ p <+: k :=
  prefix_no_bleed hi hi' h

example : ¬ (makeStorageItemKey 0x70 5 [] <+: makeStorageItemKey 0x70 1285 [5, 0, 0, 0]) := by
  intro h
  have := (dao_prefix_no_bleed (by decide) (by decide) h).2.1
  revert this; decide

/-- C09 (per-contract maps are independent): a write of an item of another contract, or under the other
storage prefix byte, leaves a contract's own map unchanged; a write of the contract's key is that write
on its own map. -/
theorem dao_contract_maps (f : SpecMap) {sp sp' : UInt8} {id id' : Int} (hi : IsInt32 id) (hi' : IsInt32 id')
    (k' : Bytes) (v : Option Val) :
    (¬ (sp = sp' ∧ id = id') → contractMap (f.set (makeStorageItemKey sp' id' k') v) sp id = contractMap f sp id) ∧
    contractMap (f.set (makeStorageItemKey sp id k') v) sp id = (contractMap f sp id).set k' v :=
  ⟨fun hne => contractMap_set_other f hi hi' hne k' v, contractMap_set_same f sp id k' v⟩

example : contractMap (SpecMap.empty.set (makeStorageItemKey 0x71 5 [1]) (some [9])) 0x70 5 = contractMap SpecMap.empty 0x70 5 :=
  (dao_contract_maps SpecMap.empty (by decide) (by decide) [1] (some [9])).1 (by decide)

/-- C09 (the 0x70/0x71 swap): `TemporaryPrefix` is an involution between the two storage prefix bytes;
items under either byte live in the `stor` map (so `chooseMap` of a seek prefix is the map of the keys). -/
theorem storage_prefix_swap (p q : UInt8) (h : temporaryPrefix p = some q) :
    temporaryPrefix q = some p ∧ p ≠ q ∧
      (∀ id k, isStor (makeStorageItemKey p id k) = true) ∧ (∀ id k, isStor (makeStorageItemKey q id k) = true) := by
  have hs := temporaryPrefix_stor p q h
  exact ⟨temporaryPrefix_invol p q h, hs.2.2, fun id k => isStor_makeStorageItemKey p hs.1 id k,
    fun id k => isStor_makeStorageItemKey q hs.2.1 id k⟩

example : temporaryPrefix 0x70 = some 0x71 ∧ temporaryPrefix 0x72 = none := by decide

/-- C09 (dao.SeekAsync): a scan of contract `id` through the DAO over ANY well-formed stack (any cache
layers, any backend), for every contract-level prefix (also the empty one), start, direction and
SearchDepth, is the scan of the contract's OWN ordered map: there is a list `rc` that is THE answer of
`key ↦ map (prefix byte ‖ le32 id ‖ key)` to the contract-level range — exactly its pairs in range, in
order, no duplicates, hence nothing of another contract / the other prefix byte — and the consumer gets
`rc` with the contract-level prefix cut, stopped at its `lim`-th item. -/
theorem dao_seek_spec (L : Layer) (ps : Store) (hw : (Store.cached L ps).WF) (sp : UInt8) (id : Int)
    (rng : SeekRange) (lim : Nat) :
    ∃ rc, IsSpecSeek (contractMap ((Store.cached L ps).flattenD rng.depth) sp id) rng rc ∧
      daoSeekAsync (.cached L ps) sp id rng lim = specObs rc rng.pfx.length true lim :=
  daoSeekAsync_spec L ps hw sp id rng lim

/-- C09 (dao.Seek = dao.SeekAsync): the synchronous scan, where the DAO trims the prefix itself, hands
the same items to its callback. -/
theorem dao_seek_sync (L : Layer) (ps : Store) (sp : UInt8) (id : Int) (rng : SeekRange) (lim : Nat) :
    daoSeek (.cached L ps) sp id rng lim = daoSeekAsync (.cached L ps) sp id rng lim :=
  daoSeek_eq_async L ps sp id rng lim

-- non-vacuity: items of contracts 5, 1285 (id bytes 05 05 00 00), -1 and a 0x71 item; the whole-contract
-- scan of contract 5 (empty contract-level prefix) contains its own item and not the neighbours'
example :
    let s := Store.cached { priv := true, mem := [], stor := [(makeStorageItemKey 0x70 5 [5, 0, 0, 0], some [1])] }
      (.bolt [(makeStorageItemKey 0x70 1285 [], [2]), (makeStorageItemKey 0x70 (-1) [5], [3]), (makeStorageItemKey 0x71 5 [5], [4])])
    ∃ rc, daoSeekAsync s 0x70 5 { pfx := [], start := [], bw := false, depth := 0 } 0 = specObs rc 0 true 0 ∧
      ([5, 0, 0, 0], [1]) ∈ rc ∧ (∀ v, ([5], v) ∉ rc) := by
  intro s
  have hw : s.WF := by
    refine ⟨⟨?_, ?_, ?_⟩, ?_⟩
    · unfold MapWF; decide
    · unfold MapWF; decide
    · unfold Placed; decide
    · show DbWF _; unfold DbWF; decide
  obtain ⟨rc, hrc, hobs⟩ := dao_seek_spec _ _ hw 0x70 5 { pfx := [], start := [], bw := false, depth := 0 } 0
  have hnone : contractMap (s.flattenD 0) 0x70 5 [5] = none := by decide
  refine ⟨rc, hobs, (hrc.2 _ _).mpr ⟨by decide, by unfold inRange; decide⟩, ?_⟩
  intro v h
  have := ((hrc.2 _ _).mp h).1
  rw [hnone] at this; cases this

/-- C09 (System.Storage.Find): with accepted options the iterator yields — in order, stopped where the
consumer stops — the pairs of the contract's own ordered map that carry the search prefix, each shown as
the options say: the whole contract-level key (the search prefix is put back exactly) or, with
`FindRemovePrefix`, the key without it; key only / value only / both. -/
theorem find_is_contract_scan (L : Layer) (ps : Store) (hw : (Store.cached L ps).WF) (sp : UInt8) (id : Int)
    (pfx : Bytes) (opts lim : Nat) (hok : findOptsOK opts = true) :
    ∃ rc, IsSpecSeek (contractMap (Store.cached L ps).flatten sp id)
        { pfx := pfx, start := [], bw := hasOpt opts findBackwards, depth := 0 } rc ∧
      find (.cached L ps) sp id pfx opts lim = some ((capped lim rc).map (findView opts pfx.length)) :=
  find_spec L ps hw sp id pfx opts lim hok

-- non-vacuity: which option words are accepted (find.go:102-118) and what one item looks like
example : findOptsOK 0 = true ∧ findOptsOK (findKeysOnly ||| findRemovePrefix ||| findBackwards) = true ∧
    findOptsOK (findValuesOnly ||| findRemovePrefix) = false ∧ findOptsOK (findPick0 ||| findPick1 ||| findDeserialize) = false ∧
    findOptsOK findPick1 = false ∧ findOptsOK 64 = false ∧ findOptsOK 256 = false ∧
    findValue 0 [7] ([8], [9]) = { key := some [7, 8], val := some [9] } ∧
    findValue findRemovePrefix [7] ([8], [9]) = { key := some [8], val := some [9] } ∧
    findValue findValuesOnly [7] ([8], [9]) = { key := none, val := some [9] } := by decide

/-! ### SeekGC -/

/-- C09 (SeekGC): on every store kind (MemoryStore, LevelDB, BoltDB, a cache layer) `SeekGC` is ONE
step that (1) visits the first `lim` items (all if 0) of THE ordered scan of the store's own level,
(2) leaves a well-formed store whose own level is the old one with exactly the visited-and-not-kept
keys removed, (3) for a cache layer touches nothing but that layer's two maps. -/
theorem seekGC_atomic (s : Store) (hw : s.WF) (rng : SeekRange) (hp : rng.pfx ≠ []) (keep : Key → Bool) (lim : Nat) :
    IsSpecSeek (s.flattenD 1) rng (s.ownSeek rng) ∧
    (s.seekGC rng keep lim).1 = capped lim (s.ownSeek rng) ∧
    (s.seekGC rng keep lim).2.WF ∧
    (s.seekGC rng keep lim).2.flattenD 1 =
      (fun q => if q ∈ deadKeys (s.seekGC rng keep lim).1 keep then none else s.flattenD 1 q) ∧
    (∀ L ps, s = .cached L ps →
      (s.seekGC rng keep lim).2 = .cached (gcLayer L (deadKeys (s.seekGC rng keep lim).1 keep)) ps) :=
  ⟨ownSeek_spec s hw rng hp, seekGC_spec s hw rng keep lim⟩

/-- C09 (SeekGC = filter): without an early stop the own level ends up filtered by the predicate on the
range — a key in range the callback does not keep is gone, every other key (kept, or out of range) is
as before — in that one step. -/
theorem seekGC_filters (s : Store) (hw : s.WF) (rng : SeekRange) (hp : rng.pfx ≠ []) (keep : Key → Bool) (q : Key) :
    (inRange rng q ∧ keep q = false → (s.seekGC rng keep 0).2.flattenD 1 q = none) ∧
    (¬ (inRange rng q ∧ keep q = false) → (s.seekGC rng keep 0).2.flattenD 1 q = s.flattenD 1 q) :=
  seekGC_filter s hw rng hp keep q

/-- C09 (SeekGC on a cache layer, seen through the whole stack): a removed key shows the lower store's
value again (the documented "works with the current Store only"), every other key is unchanged. -/
theorem seekGC_cached_view (L : Layer) (ps : Store) (rng : SeekRange) (keep : Key → Bool) (lim : Nat) :
    ((Store.cached L ps).seekGC rng keep lim).2.flatten =
      fun q => if q ∈ deadKeys ((Store.cached L ps).seekGC rng keep lim).1 keep then ps.flatten q
               else (Store.cached L ps).flatten q :=
  seekGC_flatten_cached L ps rng keep lim

-- non-vacuity: BoltDB with four keys, GC of prefix 0x70 keeping only keys of even length
example :
    let s := Store.bolt [([0x70, 1], [1]), ([0x70, 2, 2], [2]), ([0x70, 3], [3]), ([0x71], [4])]
    let keep : Key → Bool := fun k => k.length % 2 == 1
    let s' := (s.seekGC { pfx := [0x70], start := [], bw := false, depth := 0 } keep 0).2
    s'.flattenD 1 [0x70, 1] = none ∧ s'.flattenD 1 [0x70, 2, 2] = some [2] ∧ s'.flattenD 1 [0x71] = some [4] := by
  intro s keep s'
  have hw : s.WF := by show DbWF _; unfold DbWF; decide
  refine ⟨?_, ?_, ?_⟩
  · exact (seekGC_filters s hw _ (by decide) keep [0x70, 1]).1 ⟨by unfold inRange; decide, by decide⟩
  · rw [(seekGC_filters s hw _ (by decide) keep [0x70, 2, 2]).2 (by intro h; have := h.2; revert this; decide)]
    decide
  · rw [(seekGC_filters s hw _ (by decide) keep [0x71]).2 (by intro h; have := h.1; revert this; unfold inRange; decide)]
    decide

/-- C09 (SeekGC on BoltDB, at the level of the cursor): the real loop — visit the item under the cursor,
`c.Delete()` it if the callback says so, `c.Next()`/`c.Prev()` in the bucket as it is AFTER the deletion,
all inside one read-write transaction — visits exactly the items of the ordered scan (nothing skipped,
nothing twice, in both directions, with any early stop) and leaves exactly the bucket of the one-shot
model that `seekGC_atomic` / `seekGC_filters` describe. -/
theorem seekGC_bolt_cursor (db : List KV) (h : DbWF db) (rng : SeekRange) (keep : Key → Bool) (lim : Nat) :
    boltSeekGC db rng keep lim =
      (((Store.bolt db).seekGC rng keep lim).1,
       match ((Store.bolt db).seekGC rng keep lim).2 with | .bolt d => d | _ => []) :=
  boltSeekGC_eq db h rng keep lim

-- non-vacuity: a run of adjacent keys, all deleted, backwards with an early stop
example :
    let db : List KV := [([0x70, 1], [1]), ([0x70, 2], [2]), ([0x70, 3], [3]), ([0x70, 4], [4])]
    let rng : SeekRange := { pfx := [0x70], start := [], bw := true, depth := 0 }
    (boltSeekGC db rng (fun _ => false) 3).1 = ((Store.bolt db).seekGC rng (fun _ => false) 3).1 := by
  intro db rng
  rw [seekGC_bolt_cursor db (by unfold DbWF; decide)]

/-! ### the range scan in two critical sections -/

/-- C09 (two-section scan, order and completeness): for ANY schedule `es` of client writes and flush
steps between the moment the scan snapshots the cache layers (`s0`) and the moment it opens the scan of
the backend (`s1`), the scan answers with THE ordered enumeration of one map — `flatten` of the split
view: strictly ordered, no duplicates, exactly the pairs of that map in range; prefix cutting and an
early stop act on that list. -/
theorem seek_window_spec {s0 s1 : Store} {es : List Ev} (r : Run s0 es s1) (hw : s0.WF) (rng : SeekRange)
    (hp : rng.pfx ≠ []) (hd : rng.depth = 0) :
    IsSpecSeek (s0.splitView s1).flatten rng ((s0.splitView s1).seek rng) ∧
    ∀ L ps cut lim, s0 = .cached L ps →
      s0.seekSplit s1 rng cut lim = specObs ((s0.splitView s1).seek rng) rng.pfx.length cut lim := by
  constructor
  · have := seek_spec_all _ (splitView_WF r hw) rng hp
    rw [hd] at this; exact this
  · intro L ps cut lim h
    subst h
    unfold Store.seekSplit
    rw [seekObs_eq]
    rfl

/-- C09 (two-section scan, per-key linearizability): whatever the scan shows for ANY key — a value, or
nothing — is what the ordered map held for that key at some instant of the window: there is a state `σ`
reached by a prefix of the schedule with the same value for that key. No committed key is missing, no
value older than the window is returned, for every interleaving of writers and flushes. -/
theorem seek_window_instant {s0 s1 : Store} {es : List Ev} (r : Run s0 es s1) (hw : s0.WF) (k : Key) :
    ∃ es1 es2 σ, es = es1 ++ es2 ∧ Run s0 es1 σ ∧ Run σ es2 s1 ∧ (s0.splitView s1).flatten k = σ.flatten k :=
  splitView_instant r hw k

/-- C09 (two-section scan, untouched keys): a key no client event of the window writes (no Put, no
Delete, not in any batch) is shown exactly as in the state at the start of the window — whatever the
flushes did meanwhile. -/
theorem seek_window_untouched {s0 s1 : Store} {es : List Ev} (r : Run s0 es s1) (hw : s0.WF) (k : Key)
    (hk : ∀ ov, ¬ Written es k ov) : (s0.splitView s1).flatten k = s0.flatten k :=
  splitView_untouched r hw k hk

/-- C09 (readers racing a flush): with flush steps only in the window — any number, anywhere in the
stack, complete or interrupted — the two-section scan is exact: it equals the one-step scan of the state
at its start and of the state at its end. Tearing needs a client write AND a flush in the window. -/
theorem seek_window_flush_only {s0 s1 : Store} {es : List Ev} (r : Run s0 es s1) (hw : s0.WF)
    (htau : ∀ e ∈ es, e = Ev.tau) (rng : SeekRange) (hp : rng.pfx ≠ []) (hd : rng.depth = 0) :
    (s0.splitView s1).seek rng = s0.seek rng ∧ (s0.splitView s1).seek rng = s1.seek rng :=
  splitView_flush_only r hw htau rng hp hd

/-- C09 (two-section scan through the reader's own private layers): the same per-key guarantee for a
reader whose private layers `up` sit on top of the shared stack. -/
theorem seek_window_private (up : List Layer) {s0 s1 : Store} {es : List Ev} (r : Run s0 es s1) (hw : s0.WF)
    (k : Key) :
    ∃ es1 es2 σ, es = es1 ++ es2 ∧ Run s0 es1 σ ∧ Run σ es2 s1 ∧
      (Store.under up (s0.splitView s1)).flatten k = (Store.under up σ).flatten k :=
  splitView_instant_under up r hw k

theorem torn0_WF : torn0.WF := by
  refine ⟨⟨?_, ?_, ?_⟩, ?_, ?_⟩
  · unfold MapWF; decide
  · unfold MapWF; decide
  · unfold Placed; decide
  · unfold MapWF; decide
  · unfold MapWF; decide

-- non-vacuity: the torn scan of `seek_torn_witness` (batch {B:2,C:2} and a whole flush inside the window).
-- It shows B:1 — the value at the start of the window — and C:2 — the value after the batch: each key
-- as it was at SOME instant of the window, A (never written) exactly as at the start.
example :
    (torn0.splitView torn2).flatten tornB = some [1] ∧ (torn0.splitView torn2).flatten tornC = some [2] ∧
    (∃ es1 es2 σ, [Ev.batch [] [(tornB, some [2]), (tornC, some [2])], Ev.tau] = es1 ++ es2 ∧ Run torn0 es1 σ ∧ Run σ es2 torn2 ∧
      (torn0.splitView torn2).flatten tornC = σ.flatten tornC) ∧
    (torn0.splitView torn2).flatten tornA = torn0.flatten tornA := by
  refine ⟨by decide, by decide, seek_window_instant torn_run torn0_WF tornC, ?_⟩
  apply seek_window_untouched torn_run torn0_WF
  rintro ov ⟨e, he, hwr⟩
  simp only [List.mem_cons, List.mem_nil_iff, or_false] at he
  rcases he with rfl | rfl
  · revert hwr; cases ov with
    | none => decide
    | some v => simp [Ev.writes, layerSays, Layer.choose, tornA, tornB, tornC, isStor, mapGet, List.lookup]
  · cases hwr

-- non-vacuity (flush only): the scan snapshots the cache, then a flush begins and writes the backend
example :
    let s0 := Store.cached { priv := false, mem := [], stor := [(tornA, some [1]), (tornB, none)] } (.level [(tornB, [7])])
    let s1 := s0.persist1.persist2
    let rng : SeekRange := { pfx := [0x70], start := [], bw := true, depth := 0 }
    (s0.splitView s1).seek rng = s0.seek rng ∧ (s0.splitView s1).seek rng = s1.seek rng := by
  intro s0 s1 rng
  have hw : s0.WF := by
    refine ⟨⟨?_, ?_, ?_⟩, ?_⟩
    · unfold MapWF; decide
    · unfold MapWF; decide
    · unfold Placed; decide
    · show DbWF _; unfold DbWF; decide
  refine seek_window_flush_only (es := [.tau, .tau]) ?_ hw ?_ rng (by decide) rfl
  · refine .cons _ _ _ _ _ (.flush _ _ (.begin _ _)) ?_
    exact .cons _ _ _ _ _ (.flush _ _ (.write _ _ _)) (.nil _)
  · intro e he
    simp only [List.mem_cons, List.mem_nil_iff, or_false] at he
    rcases he with rfl | rfl <;> rfl

/-! ### Go map semantics and the sort -/

/-- C09 (Go maps): the model represents a Go map by an association list with distinct keys; ANY
re-ordering of it (what a `range` loop may enumerate) is the same map — same keys, same lookups — and
two representations of the same map are re-orderings of one another. -/
theorem map_order_irrelevant (a b : GoMap) (hw : MapWF a) : a.Perm b ↔ MapEq a b :=
  ⟨fun h => MapEq_of_perm h hw, perm_of_MapEq⟩

example : MapEq [([1], some [1]), ([2], none)] [([2], none), ([1], some [1])] :=
  (map_order_irrelevant _ _ (by unfold MapWF; decide)).mp (List.Perm.swap _ _ _)

/-- C09 (reads do not depend on the enumeration order): two stacks that differ only in the order in
which their maps / key sets are listed answer every Get, every Seek (any prefix, start, direction,
SearchDepth), every SeekAsync with prefix cutting and early stop, and every whole flush's key count alike. -/
theorem reads_order_irrelevant {s s' : Store} (h : StoreEq s s') :
    (∀ k, s.get k = s'.get k) ∧
    (∀ rng, rng.pfx ≠ [] → s.seek rng = s'.seek rng) ∧
    (∀ rng cut lim, rng.pfx ≠ [] → s.seekObs rng cut lim = s'.seekObs rng cut lim) ∧
    s.persist.2 = s'.persist.2 :=
  ⟨h.get, h.seek, fun rng cut lim hp => h.seekObs rng hp cut lim, h.persist.2⟩

/-- C09 (writes and flushes do not depend on it either): Put/Delete, PutChangeSet with the batch maps
enumerated in any order on every store kind (the `for k, v := range m` loops of the BoltDB / LevelDB
transactions and `maps.Copy`), each flush step and the whole flush, SeekGC — all map equal stores to
equal stores. By induction no sequence of operations can tell two enumeration orders apart. -/
theorem ops_order_irrelevant {s s' : Store} (h : StoreEq s s') :
    (∀ k v, StoreEq (s.put k v) (s'.put k v)) ∧
    (∀ p p' st st', MapEq p p' → MapEq st st' → Placed p st → Placed p' st' →
      StoreEq (s.putChangeSet p st) (s'.putChangeSet p' st')) ∧
    StoreEq s.persist1 s'.persist1 ∧ StoreEq s.persist2 s'.persist2 ∧ StoreEq s.persist3 s'.persist3 ∧
    StoreEq s.persist3Fail s'.persist3Fail ∧ StoreEq s.persist.1 s'.persist.1 ∧
    (∀ rng keep lim, rng.pfx ≠ [] → (s.seekGC rng keep lim).1 = (s'.seekGC rng keep lim).1 ∧
      StoreEq (s.seekGC rng keep lim).2 (s'.seekGC rng keep lim).2) :=
  ⟨h.put, fun _ _ _ _ hp hst hpl hpl' => h.putChangeSet hp hst hpl hpl', h.persist1, h.persist2, h.persist3,
    h.persist3Fail, h.persist.1, fun rng keep lim hp => h.seekGC rng hp keep lim⟩

/-- C09 (PersistPrivate): folding the same private layers, each listed in any order, gives the same
layer and the same key count. -/
theorem persistPrivate_order_irrelevant {L L' : Layer} (hl : LayerEq L L') {ps ps' : List Layer} (h : LayersEq ps ps') :
    LayerEq (L.persistPrivate ps).1 (L'.persistPrivate ps').1 ∧ (L.persistPrivate ps).2 = (L'.persistPrivate ps').2 :=
  hl.persistPrivate h

-- non-vacuity: a BoltDB batch applied in two enumeration orders, under a cache layer listed in two orders
example :
    StoreEq
      ((Store.cached { priv := false, mem := [], stor := [([0x70, 1], some [1]), ([0x70, 2], none)] } (.bolt [([0x70, 2], [5])])).persist.1)
      ((Store.cached { priv := false, mem := [], stor := [([0x70, 2], none), ([0x70, 1], some [1])] } (.bolt [([0x70, 2], [5])])).persist.1) := by
  have hl : LayerEq { priv := false, mem := [], stor := [([0x70, 1], some [1]), ([0x70, 2], none)] }
      { priv := false, mem := [], stor := [([0x70, 2], none), ([0x70, 1], some [1])] } :=
    ⟨rfl, rfl, MapEq.refl MapWF_nil, MapEq_of_perm (List.Perm.swap _ _ _) (by unfold MapWF; decide),
      by unfold Placed; decide, by unfold Placed; decide⟩
  have hb : StoreEq (.bolt [([0x70, 2], [5])]) (.bolt [([0x70, 2], [5])]) :=
    .bolt ⟨by unfold DbWF; decide, by unfold DbWF; decide, fun _ => rfl⟩
  exact (ops_order_irrelevant (.cached hl hb)).2.2.2.2.2.2.1

/-- C09 (the sort): `slices.SortFunc` is modelled by `List.mergeSort`; with distinct keys ANY correct
sort of ANY enumeration of the same items gives the model's list. -/
theorem sort_is_determined (bw : Bool) (l l' r : List KV) (hn : (l.map Prod.fst).Nodup) (hperm : l'.Perm l)
    (hr : r.Perm l') (hs : r.Pairwise (fun a b => ltDir bw a.1 b.1 = true)) : r = sortKV bw l :=
  sort_unique bw l l' r hn hperm hr hs

example : [([2], [0]), ([1], [0])] = sortKV true [([1], [0]), ([2], [0])] :=
  sort_is_determined true _ [([2], [0]), ([1], [0])] _ (by decide) (List.Perm.swap _ _ _) (List.Perm.refl _)
    (by simp [ltDir, lexLt])

end NeoModel.Store.C09
