/-
C05 — native token supply and governance accounting are conserved.
Property theorems over the model `NeoModel.Model.Tokens` (helper lemmas in `NeoModel.Proofs.Tokens*`).
-/
import NeoModel.Proofs.TokensAL
namespace NeoModel.Tokens

/-- GAS supply and the sum of GAS balances move together under addTokens (mint and burn),
whatever the account and the (signed) amount. -/
theorem gasAddTokens_conserves (l l' : Ledger) (h : Nat) (amount : Int)
    (hs : sumBy id l.gas = l.gasSupply) (hr : gasAddTokens l h amount = some l') :
    sumBy id l'.gas = l'.gasSupply := by
  unfold gasAddTokens at hr
  simp only [gasInc] at hr
  split at hr
  · injection hr with hr
    subst hr
    simp only [sumBy_store]
    revert hs
    generalize sumBy id l.gas = S
    unfold at0
    rename_i hok
    intro hs
    split at hok <;> (try split at hok) <;> (try split at hok) <;> simp at hok <;>
      (cases hg : get l.gas h <;> simp_all <;> (try split) <;> simp_all <;> omega)
  · simp at hr

-- non-vacuity: a burn of 3 from an account holding 5 out of a supply of 5
example : gasAddTokens { gas := [(7, 5)], gasSupply := 5 } 7 (-3) = some { gas := [(7, 2)], gasSupply := 2 } := by
  decide

end NeoModel.Tokens
