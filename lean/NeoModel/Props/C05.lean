/-
C05 — native token supply and governance accounting are conserved.

Property theorems over the model `NeoModel.Model.Tokens` (the accounting of native_nep17.go / native_gas.go /
native_neo.go / notary.go as written, driven by a transaction machine with FAULT roll-back and nested payment
callbacks).  Helper lemmas live in `NeoModel.Proofs.Tokens*`.

`Inv nt l` (Proofs/TokensInv.lean) is the property's state invariant for the ledger `l`, `nt` being the account
of the Notary contract; `inv_reading` below spells it out.
-/
import NeoModel.Proofs.TokensCand
import NeoModel.Proofs.TokensGov
import NeoModel.Proofs.TokensReward
import NeoModel.Proofs.TokensCoh
import NeoModel.Proofs.TokensNotary
import NeoModel.Proofs.TokensVoter
import NeoModel.Proofs.TokensPersist
import NeoModel.Proofs.TokensWitness
import NeoModel.Proofs.TokensChain
import NeoModel.Proofs.TokensReentry
namespace NeoModel.Tokens

/-- What `Inv` says, in the property's words: the NEO supply is exactly 100 000 000 and equals the sum of the
NEO balances; the GAS supply equals the sum of the GAS balances; every candidate's votes (0 for a key without
record) equal the NEO of the accounts voting for it; the voters count equals the NEO of all voting accounts;
the GAS of the Notary contract equals the sum of the deposits; every stored balance is positive, every deposit
non-negative; and each map has one entry per key, so that the sums range over accounts. -/
theorem inv_reading (nt : Nat) (l : Ledger) (h : Inv nt l) :
    l.neoSupply = 100000000 ∧ sumBy (·.bal) l.neo = l.neoSupply ∧
    sumBy id l.gas = l.gasSupply ∧
    (∀ c, at0 (·.votes) l.cands c = sumBy (fun a => if a.vote = some c then a.bal else 0) l.neo) ∧
    l.voters = sumBy (fun a => if a.vote.isSome then a.bal else 0) l.neo ∧
    at0 id l.gas nt = sumBy (·.amount) l.deps ∧
    (∀ p ∈ l.neo, 0 < p.2.bal) ∧ (∀ p ∈ l.gas, 0 < p.2) ∧ (∀ p ∈ l.deps, 0 ≤ p.2.amount) ∧
    (keys l.neo).Nodup ∧ (keys l.gas).Nodup ∧ (keys l.cands).Nodup ∧ (keys l.deps).Nodup := by
  refine ⟨h.neoSupply, by simpa using h.neoSum, by simpa using h.gas.sum, h.votes.votes, h.votes.voters,
    by simpa using h.notary.eq, h.votes.neoPos, h.gas.pos, h.notary.nonneg,
    h.votes.neoNodup, h.gas.nodup, h.votes.candNodup, h.notary.nodup⟩

/-- `inv_init`: the state after the natives' initialisation in block 0 satisfies the invariant
(both initial supplies go to the standby validators' address `h`, which is not the Notary contract). -/
theorem inv_init (e : Env) (h : Nat) (gasInit : Int) (l : Ledger)
    (hn : h ≠ e.notary) (hc : e.neoC ≠ e.notary) (hg : genesis e h gasInit = some l) :
    MInv e.notary (initSt e l) :=
  have hi := genesis_inv e.notary e h gasInit l hn hg
  ⟨rfl, hc, hi, hi⟩

/-- a two-member committee (standby keys 10, 11), one validator; accounts 110.. of the keys 10.. -/
def exEnv : Env :=
  { notary := 90, neoC := 91, csize := 2, vcount := 1, attrFee := 0, standby := [10, 11],
    keyAcc := [(10, 110), (11, 111), (12, 112), (13, 113)] }

-- non-vacuity: the genesis of a chain whose validators' address is account 0
example : ∃ l, genesis exEnv 0 5200000000000000 = some l ∧ l.neoSupply = 100000000 ∧ l.gasSupply = 5200000000000000 ∧
    l.committee = [(10, 0), (11, 0)] ∧ l.nextVals = [10] := by
  refine ⟨_, rfl, ?_, ?_, ?_, ?_⟩ <;> decide

/-- `inv_step`: every operation of the machine — block start, OnPersist (fee burning, primary and notary
rewards, deposit charging), a transaction start, any native call with any arguments and any outcome (success,
`false`, panic), nested payment callbacks, transaction end with HALT or FAULT, PostPersist — preserves the
invariant of both the current ledger and the ledger a FAULT restores. -/
theorem inv_step (nt : Nat) (s : St) (op : Op) (h : MInv nt s) : MInv nt (step s op) := step_inv s op h

/-- `inv_reachable`: the invariant holds after every sequence of operations from genesis, in particular at
every block boundary of every history. -/
theorem inv_reachable (e : Env) (h : Nat) (gasInit : Int) (l : Ledger) (ops : List Op)
    (hn : h ≠ e.notary) (hc : e.neoC ≠ e.notary) (hg : genesis e h gasInit = some l) :
    Inv e.notary (run (initSt e l) ops).cur :=
  (run_inv _ ops (inv_init e h gasInit l hn hc hg)).cur

/-- the failing branch of `transfer`: a transfer that returns `false` has changed no balance, supply, vote
count or deposit — although the code stores the debited `from` before it credits `to` (native_nep17.go:161-173),
the credit cannot fail on a state satisfying the invariant. -/
theorem transfer_false_unchanged (nt : Nat) (t : Tok) (e : Env) (l l' : Ledger) (src dst : Nat) (amt : Int)
    (wit b : Bool) (hi : Inv nt l) (h : transferPre t e l src dst amt wit = .ret l' b) :
    b = false ∧ l'.neo = l.neo ∧ l'.neoSupply = l.neoSupply ∧ l'.gas = l.gas ∧ l'.gasSupply = l.gasSupply ∧
    l'.cands = l.cands ∧ l'.voters = l.voters ∧ l'.deps = l.deps := by
  obtain ⟨⟨e1, e2, e3, e4, e5, e6, e7⟩, hb, _⟩ := transferPre_ret t e l src dst amt wit l' b hi h
  exact ⟨hb, e1, e2, e3, e4, e5, e6, e7⟩

-- non-vacuity: a transfer of more than the balance returns false and leaves the ledger as it was
example : transferPre .neo { notary := 9, neoC := 8, csize := 1, vcount := 1, attrFee := 0, index := 5 } { neo := [(1, { bal := 3 })], neoSupply := 3 } 1 2 4 true =
    .ret { neo := [(1, { bal := 3 })], neoSupply := 3 } false := by rfl


/-- `delta_eq_events`: take any reachable machine state, start a block, run any operations (transactions that
HALT or FAULT, nested callbacks, OnPersist, PostPersist): for every token and every account the balance now
minus the balance at the start of the block equals the net amount of the Transfer notifications collected
since then — the notifications of faulted transactions having been dropped together with their state changes.
(`base` is the ledger at the start of the latest block, `cur.events` the notifications of the successful
executions of that block so far.) -/
theorem delta_eq_events (nt : Nat) (s : St) (idx : Nat) (ops : List Op) (h : MInv nt s) (t : Tok) (a : Nat) :
    let s' := run (step s (.block idx)) ops
    balOf s'.cur t a - balOf s'.base t a = evNet t a s'.cur.events :=
  (run_delta _ ops (step_inv s _ h) (block_dinv s idx)).cur t a

-- non-vacuity: one block with a fee burn and a reward; account 5 burns 7 and is minted 3, net -4
example :
    let l : Ledger := { gas := [(5, 10)], gasSupply := 10, neoSupply := 100000000, neo := [(5, { bal := 100000000 })], gpb := [(0, 5)] }
    let s := run (initSt { notary := 9, neoC := 8, csize := 1, vcount := 1, attrFee := 0, keyAcc := [(7, 5)] }
      { l with nextVals := [7], neVals := [7] }) [.block 1, .onPersist 0 [] [⟨5, 4, 3, none, none⟩]]
    balOf s.cur .gas 5 = 6 ∧ evNet .gas 5 s.cur.events = -4 := by decide

/-- `candidate_record_iff`: on every state satisfying the invariant a candidate record exists iff the key is
registered or NEO is voting for it — vote sums never dangle, and no record outlives its last vote unless
registered. -/
theorem candidate_record_iff (nt : Nat) (l : Ledger) (c : Nat) (h : Inv nt l) :
    get l.cands c ≠ none ↔
      ((∃ cd, get l.cands c = some cd ∧ cd.reg = true) ∨ 0 < sumBy (fun a => if a.vote = some c then a.bal else 0) l.neo) :=
  candidate_record_iff' l c h

/-- `candidate_removed_iff`: the two primitives that delete candidate records — ModifyAccountVotes on a balance
change or vote withdrawal, and unregisterCandidate — delete the record iff after the update it is unregistered
with zero votes, and they touch no other record (all other operations only `put` candidate records). -/
theorem candidate_removed_iff (l : Ledger) (c : Nat) (cd : Cand) (hn : (keys l.cands).Nodup) (hg : get l.cands c = some cd) :
    (∀ l1 acc v, acc.vote = some c → modVotes l acc v false = (l1, true) →
        ((get l1.cands c = none ↔ (cd.reg = false ∧ cd.votes + v = 0)) ∧ ∀ c', c' ≠ c → get l1.cands c' = get l.cands c')) ∧
    ((get (unregister l c true).1.cands c = none ↔ cd.votes = 0) ∧
        ∀ c', c' ≠ c → get (unregister l c true).1.cands c' = get l.cands c') :=
  ⟨fun l1 acc v hc h => modVotes_removed_iff l l1 acc v c cd hn hc hg h, unregister_removed_iff l c cd hn hg⟩

-- non-vacuity: an unregistered candidate with 3 votes disappears when its only voter's 3 NEO leave
example : (modVotes { cands := [(7, ⟨false, 3⟩)] } { bal := 3, vote := some 7 } (-3) false).1.cands = [] := by decide
-- and a registered one stays with zero votes
example : (modVotes { cands := [(7, ⟨true, 3⟩)] } { bal := 3, vote := some 7 } (-3) false).1.cands = [(7, ⟨true, 0⟩)] := by decide

/-! ## committee election (native_neo.go getCandidates / computeCommitteeMembers / updateCache)

`computeCommittee e l` is the model of computeCommitteeMembers over the ledger `l`: `candList e l` are the
registered candidates whose account is not blocked by Policy (with their votes), `Elected e l` says that the
elected rather than the standby branch is taken.  All statements are for every ledger and configuration. -/

/-- the election never fails once NEO has a supply and the configuration has enough standby keys. -/
theorem election_total (e : Env) (l : Ledger) (hs : l.neoSupply ≠ 0) (hsb : e.csize ≤ e.standby.length) :
    (computeCommittee e l).isSome = true := computeCommittee_isSome e l hs hsb

/-- the committee has exactly committee-size members. -/
theorem committee_size (e : Env) (l : Ledger) (cvs : List (Nat × Int)) (h : computeCommittee e l = some cvs) :
    cvs.length = e.csize := committee_length e l cvs h

/-- no key is elected twice (the standby keys of the configuration are pairwise different, candidate records
have one entry per key — part of `Inv`). -/
theorem committee_no_duplicates (e : Env) (l : Ledger) (cvs : List (Nat × Int)) (hsn : e.standby.Nodup)
    (hn : (keys l.cands).Nodup) (h : computeCommittee e l = some cvs) : (cvs.map (·.1)).Nodup :=
  committee_nodup e l cvs hsn hn h

/-- the elected branch is taken iff at least 20 % of the NEO supply votes (`5 * votersCount ≥ totalSupply`) and
there are at least committee-size eligible candidates. -/
theorem election_threshold (e : Env) (l : Ledger) (hs : 0 < l.neoSupply) :
    Elected e l ↔ (l.neoSupply ≤ l.voters * 5 ∧ e.csize ≤ (candList e l).length) := by
  unfold Elected; rw [turnout_iff _ _ hs]

/-- every member of an elected committee is a registered candidate whose account is not blocked, listed with its
current votes; a standby committee consists of the first committee-size standby keys, each listed with its votes
if it is such a candidate and with 0 otherwise. -/
theorem committee_members_eligible (e : Env) (l : Ledger) (cvs : List (Nat × Int))
    (h : computeCommittee e l = some cvs) (p : Nat × Int) (hp : p ∈ cvs) :
    (Elected e l ∧ ∃ cd, (p.1, cd) ∈ l.cands ∧ cd.reg = true ∧ l.blocked.contains (acctOf e p.1) = false ∧ cd.votes = p.2) ∨
    (¬ Elected e l ∧ p.1 ∈ e.standby.take e.csize ∧
      ((∃ cd, (p.1, cd) ∈ l.cands ∧ cd.reg = true ∧ l.blocked.contains (acctOf e p.1) = false ∧ cd.votes = p.2) ∨
       (p.2 = 0 ∧ ∀ v, (p.1, v) ∉ candList e l))) := by
  rcases committee_member e l cvs h p hp with ⟨he, hm⟩ | ⟨he, hk, hm⟩
  · exact Or.inl ⟨he, (mem_candList e l p).mp hm⟩
  · refine Or.inr ⟨he, hk, ?_⟩
    rcases hm with hm | hm
    · exact Or.inl ((mem_candList e l p).mp hm)
    · exact Or.inr hm

/-- in an elected committee nobody outside has strictly more votes than a member, and an outsider with the same
votes as a member has the larger key. -/
theorem committee_top_voted (e : Env) (l : Ledger) (cvs : List (Nat × Int)) (he : Elected e l)
    (h : computeCommittee e l = some cvs) (c : Nat × Int) (hc : c ∈ candList e l) (hout : c ∉ cvs)
    (m : Nat × Int) (hm : m ∈ cvs) : c.2 ≤ m.2 ∧ (c.2 = m.2 → m.1 < c.1 ∨ m = c) :=
  committee_top_votes e l cvs he h c hc hout m hm

/-- the result does not depend on the order in which the storage hands out the candidate records. -/
theorem committee_order_independent (e : Env) (l l' : Ledger) (hp : l'.cands.Perm l.cands) (hb : l'.blocked = l.blocked)
    (hv : l'.voters = l.voters) (hs : l'.neoSupply = l.neoSupply) : computeCommittee e l' = computeCommittee e l :=
  computeCommittee_perm_indep e l l' hp hb hv hs

/-- the validators of an epoch are the first `vcount` committee members, in strictly ascending key order. -/
theorem validators_spec (e : Env) (cvs : List (Nat × Int)) (vs : List Nat) (hn : (cvs.map (·.1)).Nodup)
    (h : valsOf e cvs = some vs) :
    vs.length = e.vcount ∧ vs.Pairwise (· < ·) ∧ ∀ k, k ∈ vs ↔ k ∈ (cvs.map (·.1)).take e.vcount :=
  ⟨(valsOf_spec e cvs vs h).2.2, (valsOf_strict e cvs vs hn h).1, (valsOf_strict e cvs vs hn h).2⟩

/-- 100 NEO, 20 of them voting (exactly 20 %); candidates 13 (5 votes), 10 and 12 (9 votes each), 11 unregistered. -/
def exLedger : Ledger :=
  { neoSupply := 100, voters := 20, cands := [(13, ⟨true, 5⟩), (10, ⟨true, 9⟩), (12, ⟨true, 9⟩), (11, ⟨false, 50⟩)] }

-- non-vacuity: the tie between 10 and 12 is broken by the key, the unregistered key with the most votes is out
example : Elected exEnv exLedger ∧ computeCommittee exEnv exLedger = some [(10, 9), (12, 9)] := by
  refine ⟨?_, ?_⟩
  · unfold Elected; decide
  · decide
-- one voting NEO less: the standby committee, key 10 with its votes, key 11 (not registered) with 0
example : ¬ Elected exEnv { exLedger with voters := 19 } ∧
    computeCommittee exEnv { exLedger with voters := 19 } = some [(10, 9), (11, 0)] := by
  refine ⟨?_, ?_⟩
  · unfold Elected; decide
  · decide
-- blocking the account of key 10 removes it from the election
example : computeCommittee exEnv { exLedger with blocked := [110] } = some [(12, 9), (13, 5)] := by decide
-- another storage order, same result
example : computeCommittee exEnv { exLedger with cands := [(10, ⟨true, 9⟩), (11, ⟨false, 50⟩), (12, ⟨true, 9⟩), (13, ⟨true, 5⟩)] } =
    computeCommittee exEnv exLedger := by decide
example : valsOf exEnv [(12, 9), (10, 9)] = some [12] ∧ valsOf { exEnv with vcount := 2 } [(12, 9), (10, 9)] = some [10, 12] := by
  decide

/-- `gov_reachable`: after every sequence of operations from genesis — all blocks, epochs, votes, (un)registrations,
blocked-list changes, faulting transactions — the committee in office and the committee computed for the next epoch
both have exactly committee-size pairwise different members, the validators of both are their first `vcount`
members in strictly ascending key order, and the GAS supply equals the amounts of all GAS `Transfer`
notifications from null minus those to null that were emitted since genesis by executions that were not rolled
back (`supGap = gasSupply - gasMinted + gasBurned`). -/
theorem gov_reachable (e : Env) (h : Nat) (gasInit : Int) (l : Ledger) (ops : List Op)
    (he : EnvOK e) (hn : h ≠ e.notary) (hc : e.neoC ≠ e.notary) (hg : genesis e h gasInit = some l) :
    GovOK (run (initSt e l) ops).env (run (initSt e l) ops).cur :=
  have hg0 := genesis_gov e h gasInit l he hg
  (run_gov _ ops (inv_init e h gasInit l hn hc hg) ⟨he, hg0, hg0⟩).cur

/-- `supply_conserved`: total GAS supply after any history = Σ minted − Σ burnt, the sums ranging over the `Transfer`
notifications (from = null: genesis supply, block rewards of the primary, the notary nodes and the committee
member, claimed holder / voter rewards; to = null: system and network fees, registration price). -/
theorem supply_conserved (e : Env) (h : Nat) (gasInit : Int) (l : Ledger) (ops : List Op)
    (he : EnvOK e) (hn : h ≠ e.notary) (hc : e.neoC ≠ e.notary) (hg : genesis e h gasInit = some l) :
    (run (initSt e l) ops).cur.gasSupply = (run (initSt e l) ops).cur.gasMinted - (run (initSt e l) ops).cur.gasBurned := by
  have := (gov_reachable e h gasInit l ops he hn hc hg).gap
  unfold supGap at this; omega

/-- in every reachable state the committee reward of PostPersist finds its member (`committee[index % size]`). -/
theorem postpersist_member_found (e : Env) (h : Nat) (gasInit : Int) (l : Ledger) (ops : List Op) (i : Nat)
    (he : EnvOK e) (hcs : e.csize ≠ 0) (hn : h ≠ e.notary) (hc : e.neoC ≠ e.notary) (hg : genesis e h gasInit = some l) :
    ((run (initSt e l) ops).cur.committee[i % (run (initSt e l) ops).env.csize]?).isSome = true := by
  have hgov := gov_reachable e h gasInit l ops he hn hc hg
  have : (run (initSt e l) ops).env.csize = e.csize := run_csize _ ops
  exact committee_index_some hgov (by rw [this]; exact hcs) i

-- non-vacuity: genesis, then a block with a fee burn and the rewards of the primary and of the committee member
example :
    let s := run (initSt exEnv ((genesis exEnv 0 1000).getD {})) [.block 1, .onPersist 0 [] [⟨0, 40, 30, none, none⟩], .postPersist]
    s.cur.gasSupply = 50000960 ∧ s.cur.gasMinted = 50001030 ∧ s.cur.gasBurned = 70 ∧ s.cur.committee.length = 2 := by
  decide

/-! ### the cached committee is never stale

PostPersist recomputes the next committee only when `votesChanged` is set (native_neo.go:557-573).  `Bnd e s` (Proofs/
TokensCoh.lean) describes a state between two blocks: while the flag is clear the cached new-epoch committee and
validators equal the election over the current ledger (`Fresh`), and at the end of an epoch they do so whatever the
flag.  A `Blk` is OnPersist + transaction-level operations + PostPersist; `runChain` appends consecutive blocks. -/

/-- `chain_coherent`: from genesis, along every chain of blocks (any transactions: votes, transfers, (un)registrations,
blocked-list changes, faulting ones) that does not stop the node, every state between two blocks is a boundary state.
Assumption A1: no key's account is the Notary contract. -/
theorem chain_coherent (e : Env) (h : Nat) (gasInit : Int) (l : Ledger) (bs : List Blk)
    (hn : h ≠ e.notary) (hc : e.neoC ≠ e.notary) (hg : genesis e h gasInit = some l)
    (hok : ∀ b ∈ bs, b.ok) (hA : ∀ k, acctOf e k ≠ e.notary)
    (hnp : (runChain (step (initSt e l) .postPersist) bs).panicked = false) :
    Bnd e (runChain (step (initSt e l) .postPersist) bs) := by
  have hm := step_inv _ .postPersist (inv_init e h gasInit l hn hc hg)
  have hnp0 : (step (initSt e l) .postPersist).panicked = false := by
    cases hp : (step (initSt e l) .postPersist).panicked with
    | false => rfl
    | true => rw [runChain_panicked _ bs hp] at hnp; cases hnp
  exact (chain_bnd e _ bs hm (genesis_bnd e h gasInit l hg hA hnp0) hok hA hnp).1

/-- `epoch_switch_installs_election`: in a boundary state whose next block starts an epoch, that block's OnPersist
installs as committee and validators exactly the result of the election over the ledger as the previous block left
it — the flag-driven caching never serves a stale committee. -/
theorem epoch_switch_installs_election (e : Env) (s : St) (hb : Bnd e s) (hc : e.csize ≠ 0)
    (hend : (s.env.index + 1) % e.csize = 0) :
    computeCommittee e s.cur = some (step s (.block (s.env.index + 1))).cur.committee ∧
    valsOf e (step s (.block (s.env.index + 1))).cur.committee = some (step s (.block (s.env.index + 1))).cur.nextVals :=
  let r := (block_bnd e s hb).2.2.2.2.2 hc hend
  ⟨r.2.2.1, r.2.2.2⟩

/-- `postpersist_total`: in every state reachable from genesis NEO.PostPersist completes (no panic, no error): the
GAS-per-block record is found (the records always start with the genesis record of index 0 and hold non-negative
amounts), the committee member exists, the reward mint cannot fail and neither can the re-election.
Assumption A1: no key's account is the Notary contract. -/
theorem postpersist_total (e : Env) (h : Nat) (gasInit : Int) (l : Ledger) (ops : List Op)
    (he : EnvOK e) (hcs : e.csize ≠ 0) (hn : h ≠ e.notary) (hc : e.neoC ≠ e.notary) (hg : genesis e h gasInit = some l)
    (hA : ∀ k, acctOf e k ≠ e.notary) :
    (neoPostPersistAll (run (initSt e l) ops).env (run (initSt e l) ops).cur).isSome = true := by
  have hm := run_inv _ ops (inv_init e h gasInit l hn hc hg)
  have hg0 := genesis_gov e h gasInit l he hg
  have hgm := run_gov _ ops (inv_init e h gasInit l hn hc hg) ⟨he, hg0, hg0⟩
  obtain ⟨_, c2, _, c4, c5⟩ := run_cfg e (initSt e l) ops ⟨rfl, rfl, rfl, rfl, rfl⟩
  refine neoPostPersistAll_isSome (nt := e.notary) _ _ hgm.env (by rw [c2]; exact hcs) hm.cur ?_ hgm.cur
  simp only [List.any_eq_true, not_exists, not_and, decide_eq_true_eq, List.mem_map]
  rintro _ ⟨c, _, rfl⟩
  simp only [acctOf, c4]
  exact hA c.1

theorem exEnv_A1 : ∀ k, acctOf exEnv k ≠ exEnv.notary := by
  intro k
  simp only [acctOf, exEnv, get]
  repeat' split
  all_goals simp

-- non-vacuity: genesis, then two blocks (a registration in the first) that do not stop the node; the second one
-- is the last of an epoch of the two-member committee
example :
    let s0 := step (initSt exEnv ((genesis exEnv 0 1000).getD {})) .postPersist
    let bs : List Blk := [⟨0, [], [], [.txBegin 0 [⟨0, 128, [], []⟩], .register 12 none, .txEnd false]⟩, ⟨0, [], [], []⟩]
    (∀ b ∈ bs, b.ok) ∧ (runChain s0 bs).panicked = false ∧ (runChain s0 bs).env.index = 2 ∧
    (runChain s0 bs).cur.cands = [(12, ⟨true, 0⟩)] := by
  refine ⟨?_, ?_, ?_, ?_⟩
  · intro b hb; simp at hb; rcases hb with rfl | rfl <;> (intro op hop; simp at hop) <;> try (rcases hop with rfl | rfl | rfl <;> rfl)
  all_goals decide

/-! ## Notary deposits: the boundaries -/

/-- withdraw reaches the GAS transfer iff the owner witnesses, a deposit exists and the chain height (the block before
the one being persisted) has reached `till`; then the record is removed and the whole amount is sent. -/
theorem withdraw_spec (e : Env) (l l' : Ledger) (src : Nat) (wit : Bool) (amt : Int) :
    withdrawPre e l src wit = some (l', amt) ↔
      (wit = true ∧ ∃ d, get l.deps src = some d ∧ d.till ≤ e.index - 1 ∧ amt = d.amount ∧
        l' = { l with deps := del l.deps src }) := withdrawPre_spec e l l' src wit amt

/-- lockDepositUntil succeeds iff witnessed, `till` is at least two above the chain height and not below the
current `till`. -/
theorem lock_spec (e : Env) (l : Ledger) (a till : Nat) (wit : Bool) :
    (lockDeposit e l a till wit).2 = true ↔
      (wit = true ∧ e.index - 1 + 2 ≤ till ∧ ∃ d, get l.deps a = some d ∧ d.till ≤ till) :=
  (lockDeposit_spec e l a till wit).1

/-- charging a notary-assisted transaction: a deposit above the fees is reduced, one equal to them is removed, a
smaller or missing one stops the node. -/
theorem notary_charge_spec (e : Env) (l : Ledger) (t : TxFee) (k p : Nat) (hs : t.sender = e.notary)
    (hk : t.nkeys = some k) (hp : t.payer = some p) :
    notaryCharge e l [t] =
      match get l.deps p with
      | none => none
      | some d =>
        if d.amount < t.sys + t.net then none
        else if d.amount = t.sys + t.net then some ({ l with deps := del l.deps p }, (k : Int) + 1)
        else some ({ l with deps := put l.deps p { d with amount := d.amount - (t.sys + t.net) } }, (k : Int) + 1) :=
  notaryCharge_one e l t k p hs hk hp

-- non-vacuity: a deposit of 10 till height 7; at index 8 (height 7) it can be withdrawn, at index 7 not; fees of
-- exactly 10 remove it, fees of 9 leave 1
example :
    let l : Ledger := { deps := [(4, ⟨10, 7⟩)] }
    (withdrawPre { exEnv with index := 8 } l 4 true).isSome = true ∧ (withdrawPre { exEnv with index := 7 } l 4 true).isSome = false ∧
    (lockDeposit { exEnv with index := 7 } l 4 8 true).2 = true ∧ (lockDeposit { exEnv with index := 7 } l 4 7 true).2 = false ∧
    (notaryCharge exEnv l [⟨90, 4, 6, some 0, some 4⟩]).map (·.1.deps) = some [] ∧
    (notaryCharge exEnv l [⟨90, 4, 5, some 0, some 4⟩]).map (·.1.deps) = some [(4, ⟨1, 7⟩)] ∧
    (notaryCharge exEnv l [⟨90, 5, 6, some 0, some 4⟩]).isSome = false := by decide

/-! ## GAS rewards -/

/-- the loop of CalculateNEOHolderReward over the GAS-per-block records (newest first) is the sum of
GetGASPerBlock over the heights of the interval. -/
theorem holder_reward_is_interval_sum (recs : List (Nat × Int)) (start end_ : Nat) :
    holderSum recs start end_ = sumIv (gpbAt recs) start end_ := holderSum_spec recs start end_

-- non-vacuity: 5 per block from 0, 3 per block from 7: heights 4,5,6 give 15, heights 7,8,9 give 9
example : holderSum [(7, 3), (0, 5)] 4 10 = 24 ∧ sumIv (gpbAt [(7, 3), (0, 5)]) 4 10 = 24 := by decide

/-- `claim_no_double_no_loss`: an account whose balance and vote do not change and that claims at height `b` and
again at height `c` receives in total at most what one claim at `c` gives, and at least that minus 2 datoshi
(the two floored terms).  Exact equality does not hold (see the example). -/
theorem claim_no_double_no_loss (l l' : Ledger) (acc : NeoAcc) (b c : Nat) (extra : List (Nat × Int)) (x y z : Int)
    (hab : acc.height ≤ b) (hbc : b ≤ c) (hpos : 0 < acc.bal)
    (hg : l'.gpb = l.gpb ++ extra) (hex : ∀ r ∈ extra, b ≤ r.1)
    (hx : calcBonus l acc b = some x) (hy : calcBonus l' (claimed l acc b) c = some y) (hz : calcBonus l' acc c = some z) :
    x + y ≤ z ∧ z ≤ x + y + 2 := claim_split l l' acc b c extra x y z hab hbc hpos hg hex hx hy hz

-- non-vacuity: 150 000 000 datoshi... with 3 NEO and 5 GAS per block: one block gives 1.5 datoshi-units → 1, two blocks 3
example :
    let l : Ledger := { gpb := [(0, 500000000)] }
    let acc : NeoAcc := { bal := 3, height := 1 }
    calcBonus l acc 2 = some 1 ∧ calcBonus l (claimed l acc 2) 3 = some 1 ∧ calcBonus l acc 3 = some 3 := by decide

/-- OnPersist of GAS and Notary: the supply drops by exactly the system fees plus the part of the notary service
fees that is not paid out; the primary receives the network fees minus the service fees. -/
theorem onpersist_supply (e : Env) (l l1 l2 : Ledger) (primary : Nat) (notaries : List Nat) (txs : List TxFee)
    (h1 : gasOnPersist e l primary txs = some l1) (h2 : notaryOnPersist e l1 notaries txs = some l2) :
    l2.gasSupply = l.gasSupply - sysTotal txs - (feeUnits txs * e.attrFee - notaryMint e notaries txs) ∧
    primaryFee e txs = netTotal txs - feeUnits txs * e.attrFee :=
  ⟨onPersist_supply e l l1 l2 primary notaries txs h1 h2, primaryFee_eq e txs⟩

/-- the notary nodes together get at most the service fees collected; what is lost is less than one datoshi per
node (everything when no node is designated). -/
theorem notary_reward_bounds (e : Env) (notaries : List Nat) (txs : List TxFee) (hf : 0 ≤ e.attrFee) :
    0 ≤ notaryMint e notaries txs ∧ notaryMint e notaries txs ≤ feeUnits txs * e.attrFee ∧
    (feeUnits txs ≠ 0 → notaries ≠ [] → feeUnits txs * e.attrFee - notaryMint e notaries txs < notaries.length) :=
  notaryMint_bounds e notaries txs hf

/-- PostPersist mints exactly 10 % of the GAS generated in the next block's index to the committee member. -/
theorem postpersist_supply (e : Env) (l l' : Ledger) (h : neoPostPersistAll e l = some l') :
    ∃ gas, gasPerBlockAt l.gpb.reverse (e.index + 1) = some gas ∧ l'.gasSupply = l.gasSupply + gas * 10 / 100 :=
  neoPostPersistAll_supply e l l' h

/-- `voter_reward_per_member`: at an epoch start PostPersist raises the GAS-per-vote value of every committee member
(keys pairwise different) by exactly `gpvInc`: (2 for a validator position, else 1) × voterReward / votes, with the
votes read from the storage when a vote happened since OnPersist and from the cached committee otherwise; nothing
for a member without votes. -/
theorem voter_reward_per_member (e : Env) (vr : Int) (l : Ledger) (cs : List (Nat × Int)) (j : Nat) (pub : Nat) (cached : Int)
    (hn : (cs.map (·.1)).Nodup) (hj : cs[j]? = some (pub, cached)) :
    latestGpv (voterRewards e vr l cs 0) pub = latestGpv l pub + gpvInc e vr l pub cached j := by
  have := voterRewards_member e vr l cs 0 j pub cached hn hj
  simpa using this

/-- `voter_rewards_epoch_bound`: what the voters of all committee members together can claim from one epoch start
(Σ votes × increment, in units of 10^-8 datoshi) is at most 80 % of the GAS generated in the epoch's committee-size
blocks — the integer divisions only ever round the voters' share down. -/
theorem voter_rewards_epoch_bound (e : Env) (gas : Int) (l : Ledger) (cs : List (Nat × Int)) (hg : 0 ≤ gas)
    (hlen : cs.length = e.csize) (hc : 0 < e.csize + e.vcount) :
    epochAccrual e (80 * gas * (100000000 * (e.csize : Int)) / ((e.csize : Int) + (e.vcount : Int)) / 100) l cs 0 ≤
      80 * gas * (100000000 * (e.csize : Int)) / 100 := epochAccrual_bound e gas l cs hg hlen hc

-- non-vacuity: committee [10 (validator), 12] with cached votes 7 and 3, 5 GAS per block: voterReward =
-- 80*5e8*(1e8*2)/3/100 = 26666666666666666; member 10 gets 2*vr/7, member 12 vr/3
example :
    let vr : Int := 80 * 500000000 * (100000000 * 2) / 3 / 100
    let l : Ledger := { votesChanged := false }
    let l' := voterRewards exEnv vr l [(10, 7), (12, 3)] 0
    vr = 26666666666666666 ∧ latestGpv l' 10 = 7619047619047618 ∧ latestGpv l' 12 = 8888888888888888 ∧
    epochAccrual exEnv vr l [(10, 7), (12, 3)] 0 = 79999999999999990 ∧
    80 * 500000000 * (100000000 * 2) / 100 = (80000000000000000 : Int) := by decide

-- non-vacuity: three transactions, two with the attribute (NKeys 1 and 0: 3 units at 10 each = 30), 2 notary nodes:
-- 15 each; system fees 6; the primary gets 20 + 30 + 40 - 30 = 60
example :
    let e : Env := { notary := 90, neoC := 91, csize := 1, vcount := 1, attrFee := 10 }
    let l : Ledger := { gas := [(1, 1000)], gasSupply := 1000 }
    let txs : List TxFee := [⟨1, 1, 20, some 1, none⟩, ⟨1, 2, 30, some 0, none⟩, ⟨1, 3, 40, none, none⟩]
    ∃ l1 l2, gasOnPersist e l 7 txs = some l1 ∧ notaryOnPersist e l1 [5, 6] txs = some l2 ∧
      l2.gasSupply = 994 ∧ primaryFee e txs = 60 ∧ notaryMint e [5, 6] txs = 30 := by
  refine ⟨_, _, rfl, rfl, ?_, ?_, ?_⟩ <;> decide

/-! ## OnPersist cannot stop the node on a covered block -/

/-- `onpersist_total`: on every ledger satisfying the accounting invariant, GAS.OnPersist and Notary.OnPersist
complete when the block is covered — what transaction verification and the memory pool are there to guarantee:
every sender's GAS balance covers the fees of all its transactions of the block (`owedBy`), every payer's notary
deposit covers the notary-assisted transactions charged to it (`chargedTo`), fees are positive, the network fees cover
the NotaryAssisted attribute fees, and a transaction sent by the Notary contract names its payer (A2). -/
theorem onpersist_total (nt : Nat) (e : Env) (l : Ledger) (primary : Nat) (notaries : List Nat) (txs : List TxFee)
    (hi : Inv nt l) (hfee : 0 ≤ e.attrFee)
    (hf : ∀ t ∈ txs, 0 < t.sys + t.net)
    (hA2 : ∀ t ∈ txs, t.sender = e.notary → t.nkeys.isSome = true → t.payer.isSome = true)
    (hcg : ∀ a, owedBy a txs ≤ at0 id l.gas a)
    (hcd : ∀ p, chargedTo e.notary p txs ≤ at0 (·.amount) l.deps p)
    (hprim : 0 ≤ primaryFee e txs) :
    ∃ l1 l2, gasOnPersist e l primary txs = some l1 ∧ notaryOnPersist e l1 notaries txs = some l2 :=
  onPersist_isSome e l primary notaries txs hi hfee hf hA2 hcg hcd hprim

-- non-vacuity: account 1 pays two transactions (fees 21 + 32 = 53 of its 60), the second through... a third one is
-- sent by the Notary contract (90) and charged to the deposit of 4 (fees 9 of 10); one uncovered datoshi stops the node
example :
    let e : Env := { notary := 90, neoC := 91, csize := 1, vcount := 1, attrFee := 1 }
    let l : Ledger := { gas := [(1, 60), (90, 10)], gasSupply := 70, deps := [(4, ⟨10, 7⟩)] }
    let txs : List TxFee := [⟨1, 1, 20, none, none⟩, ⟨1, 2, 30, some 0, none⟩, ⟨90, 4, 5, some 1, some 4⟩]
    owedBy 1 txs = 53 ∧ chargedTo 90 4 txs = 9 ∧ primaryFee e txs = 52 ∧
    (gasOnPersist e l 7 txs).isSome = true ∧
    ((gasOnPersist e l 7 txs).bind (fun l1 => notaryOnPersist e l1 [5] txs)).isSome = true ∧
    (gasOnPersist e { l with gas := [(1, 52), (90, 10)] } 7 txs).isSome = false := by decide

/-- `chain_coherent_covered`: from genesis, along every chain of blocks whose bodies are transaction-level operations
and that are covered (`chainCovered`: at each block's OnPersist the primary index is a validator position, every
sender's balance and every payer's deposit cover the fees charged to them, fees are positive, the network fees cover
the notary service fees), the node never stops (no OnPersist / PostPersist panic) and every state between two blocks
is a boundary state — the committee cache is coherent.  No hypothesis about the outcome of the run is left. -/
theorem chain_coherent_covered (e : Env) (h : Nat) (gasInit : Int) (l : Ledger) (bs : List Blk)
    (he : EnvOK e) (hcs : e.csize ≠ 0) (hfee : 0 ≤ e.attrFee)
    (hn : h ≠ e.notary) (hc : e.neoC ≠ e.notary) (hg : genesis e h gasInit = some l)
    (htx : ∀ b ∈ bs, b.txOnly) (hA : ∀ k, acctOf e k ≠ e.notary)
    (hcov : chainCovered (step (initSt e l) .postPersist) bs) :
    (runChain (step (initSt e l) .postPersist) bs).panicked = false ∧
    Bnd e (runChain (step (initSt e l) .postPersist) bs) := by
  have hm0 := inv_init e h gasInit l hn hc hg
  have hg0 := genesis_gov e h gasInit l he hg
  have hgm0 : GMInv (initSt e l) := ⟨he, hg0, hg0⟩
  have hp0 : (step (initSt e l) .postPersist).panicked = false := by
    rw [postPersist_no_panic (initSt e l) hm0 hgm0 hcs hA]; rfl
  have hm1 := step_inv _ .postPersist hm0
  have hgm1 := step_gov _ .postPersist hm0 hgm0
  have hcfg1 := step_cfg e (initSt e l) .postPersist ⟨rfl, rfl, rfl, rfl, rfl⟩
  have hnp : (runChain (step (initSt e l) .postPersist) bs).panicked = false := by
    rw [chain_no_panic e _ bs hm1 hgm1 hcfg1 hcs hA (by rw [step_attrFee]; exact hfee) htx hcov]; exact hp0
  exact ⟨hnp, chain_coherent e h gasInit l bs hn hc hg (fun b hb op hop => Op.txLevel_inner op (htx b hb op hop)) hA hnp⟩

/-- `covered_test_sound`: the executable coverage test that the driver evaluates on every block of the real chain
(the `onpersist` answer is `ok uncovered` when it fails — never observed) implies the hypothesis `Covered` of
`onpersist_total` / `chain_coherent_covered` on every ledger satisfying the accounting invariant. -/
theorem covered_test_sound (nt : Nat) (e : Env) (l : Ledger) (b : Blk) (hi : Inv nt l)
    (h : coveredB e l b.pidx b.txs = true) : Covered e l b := coveredB_sound e l b hi h

-- non-vacuity: genesis (1000 GAS at account 0), a block in which account 0 pays fees 70 for a registration, an empty
-- block: both covered
example :
    let s0 := step (initSt exEnv ((genesis exEnv 0 1000).getD {})) .postPersist
    let b1 : Blk := ⟨0, [], [⟨0, 40, 30, none, none⟩], [.txBegin 0 [⟨0, 128, [], []⟩], .register 12 none, .txEnd false]⟩
    let s1 := run s0 (b1.ops 1)
    owedBy 0 b1.txs = 70 ∧ at0 id (step s0 (.block 1)).cur.gas 0 = 1000 ∧ primaryFee exEnv b1.txs = 30 ∧
    coveredB exEnv (step s0 (.block 1)).cur b1.pidx b1.txs = true ∧
    s1.panicked = false ∧ s1.env.index = 1 := by decide

/-! ## witnesses -/

/-- `witness_rule`: the model's witness decision (runtime.CheckHashedWitness + checkScope for the scopes None,
CalledByEntry, CustomContracts, CustomGroups, Rules, Global) accepts exactly the calling contract itself, or the first
signer with the account when its scope is Global, or contains CalledByEntry and the call is made by the entry script,
or contains CustomContracts and the called native contract is listed, or contains Rules and the first witness rule
whose condition matches is an Allow rule (CustomGroups never witnesses: no contract of a case has groups). -/
theorem witness_rule (e : Env) (acc : Nat) (caller : Option Nat) (cur : Nat) :
    witOf e acc caller cur = true ↔
      (caller = some acc ∨ ∃ sg, e.signers.find? (fun sg => sg.acc == acc) = some sg ∧ caller ≠ some acc ∧
        (sg.scopes = 128 ∨ (sg.scopes &&& 1 ≠ 0 ∧ caller = none) ∨ (sg.scopes &&& 16 ≠ 0 ∧ cur ∈ sg.allowed) ∨
          (sg.scopes &&& 64 ≠ 0 ∧ rulesAllow caller cur sg.rules = true))) :=
  witOf_iff e acc caller cur

/-- `unwitnessed_call_no_effect`: a native call (transfer, vote, unregisterCandidate, lockDepositUntil, withdraw,
setGasPerBlock, setRegisterPrice, blockAccount, unblockAccount, designateAsRole) whose witness check fails leaves the ledger exactly
as it was, or faults the transaction (the ledger of the transaction's start comes back): no balance, vote, deposit,
candidate record, setting or blocked entry changes without the required witness. -/
theorem unwitnessed_call_no_effect (s : St) (op : Op) (h : op.witness s = some false) :
    (exec s op).cur = s.cur ∨ (exec s op).cur = s.snap := unwitnessed_no_effect s op h

-- non-vacuity: account 3 signs with CalledByEntry: its direct transfer is witnessed, the same transfer made
-- through contract 50 is not (and changes nothing); a fee-only signer (scope None) never witnesses
example :
    let e : Env := { notary := 90, neoC := 91, gasC := 92, csize := 1, vcount := 1, attrFee := 0,
                     signers := [⟨3, 1, [], []⟩, ⟨4, 0, [], []⟩, ⟨5, 16, [92], []⟩] }
    witOf e 3 none 92 = true ∧ witOf e 3 (some 50) 92 = false ∧ witOf e 4 none 92 = false ∧
    witOf e 5 (some 50) 92 = true ∧ witOf e 5 (some 50) 91 = false ∧ witOf e 50 (some 50) 92 = true := by decide
-- rules: "deny when called by contract 50, else allow for the GAS contract": the first matching rule decides
example :
    let e : Env := { notary := 90, neoC := 91, gasC := 92, csize := 1, vcount := 1, attrFee := 0,
                     signers := [⟨3, 64, [], [(false, .calledByContract 50), (true, .scriptHash 92)]⟩, ⟨4, 32, [], []⟩] }
    witOf e 3 none 92 = true ∧ witOf e 3 (some 50) 92 = false ∧ witOf e 3 none 91 = false ∧
    witOf e 3 (some 51) 92 = true ∧ witOf e 4 none 92 = false := by decide
example :
    let e : Env := { notary := 90, neoC := 91, gasC := 92, csize := 1, vcount := 1, attrFee := 0, signers := [⟨3, 1, [], []⟩] }
    let l : Ledger := { gas := [(3, 10)], gasSupply := 10 }
    let s : St := initSt e l
    (Op.transfer .gas 3 4 5 (some 50) .null .other).witness s = some false ∧
    (exec s (.transfer .gas 3 4 5 (some 50) .null .other)).cur.gas = [(3, 10)] ∧
    (exec s (.transfer .gas 3 4 5 none .null .other)).cur.gas = [(3, 5), (4, 5)] := by decide

/-! ## the designated notary nodes -/

/-- `designation_spec`: RoleManagement.designateAsRole(P2PNotary, nodes) succeeds iff the list is not empty, has at most
32 nodes, the committee witnesses, no designation was made in the same block, and no node is listed twice; then the
latest designation — the one Notary.OnPersist rewards from the next block on, computed by the model, no longer
supplied by the harness — is the sorted list. -/
theorem designation_spec (e : Env) (l l' : Ledger) (nodes : List Nat) (wit : Bool) :
    designateNotary e l nodes wit = some l' ↔
      (nodes ≠ [] ∧ nodes.length ≤ 32 ∧ wit = true ∧ l.notaryHeight ≠ e.index + 1 ∧ nodes.eraseDups.length = nodes.length ∧
        l' = { l with notaryNodes := sortBy (fun a b => decide (a ≤ b)) nodes, notaryHeight := e.index + 1 }) := by
  unfold designateNotary
  by_cases h1 : nodes = []
  · simp [h1]
  · by_cases h2 : nodes.length > 32
    · simp [h1, h2]; intro _; omega
    · cases wit with
      | false => simp [h1, h2]
      | true =>
        by_cases h3 : l.notaryHeight = e.index + 1
        · simp [h1, h2, h3]
        · by_cases h4 : nodes.eraseDups.length = nodes.length
          · simp [h1, h2, h3, h4]
            constructor
            · intro h; exact ⟨by omega, h.symm⟩
            · intro h; exact h.2.symm
          · simp [h1, h2, h3, h4]

-- non-vacuity: nodes 14, 13 designated in block 5 are recorded sorted from block 6; a second designation in the same
-- block, a duplicate, the empty list and a missing committee witness are refused
example :
    let e : Env := { notary := 90, neoC := 91, csize := 1, vcount := 1, attrFee := 0, index := 5 }
    (designateNotary e {} [14, 13] true).map (fun l => (l.notaryNodes, l.notaryHeight)) = some ([13, 14], 6) ∧
    designateNotary e { notaryHeight := 6 } [14] true = none ∧ designateNotary e {} [14, 14] true = none ∧
    designateNotary e {} [] true = none ∧ designateNotary e {} [14] false = none := by decide

/-! ## re-entrant receivers: the account items are written before a payment callback runs -/

/-- `vote_reward_after_save`: when a vote pays a GAS reward to a voter contract whose callback makes further native
calls, the callback starts on a ledger that already holds the voter's account item with the new vote (`votePre`
stored it before the mint, native_neo.go:1097 then 1110-1112) — what the callee does to its own NEO account is
applied on top of the finished vote, never overwritten by it. -/
theorem vote_reward_after_save (s : St) (acc : Nat) (pub caller : Option Nat) (l l' : Ledger) (g : Int)
    (hf : s.failing = false)
    (hv : votePre s.env s.cur acc pub (witOf s.env acc caller s.env.neoC) = (l, true, some g))
    (hm : mintGasCb s.env l acc g = some l') (hg : g ≠ 0) :
    (exec s (.vote acc pub caller true)).cbs = ⟨none, none⟩ :: s.cbs ∧
    (exec s (.vote acc pub caller true)).cur = l' ∧ l'.neo = l.neo ∧ ∃ a, get l'.neo acc = some a ∧ a.vote = pub :=
  vote_reward_callback_sees_saved_account s acc pub caller l l' g hf hv hm hg

/-- `transfer_callback_after_update`: when a transfer pays a contract that calls back, the callback starts on the
ledger `transferPre` left (both account items updated, notification emitted) and the GAS rewards of both sides wait
in the frame until it has returned. -/
theorem transfer_callback_after_update (s : St) (t : Tok) (l : Ledger) (src dst : Nat) (amt : Int) (data : Data)
    (d1 d2 : Option (Nat × Int)) (h1 : dst ≠ s.env.notary) (h2 : dst ≠ s.env.neoC) (hb : l.blocked.contains dst = false) :
    (afterPosted s t l src dst amt .cb data d1 d2).cur = l ∧
    (afterPosted s t l src dst amt .cb data d1 d2).cbs = ⟨d1, d2⟩ :: s.cbs :=
  transfer_callback_sees_updated_accounts s t l src dst amt data d1 d2 h1 h2 hb

-- non-vacuity: contract 50 (100 NEO since block 1) votes for key 7 in block 9; its reward callback transfers 1 NEO of its
-- own account to 3: after the nested transfer it has 99 NEO, still votes for 7, and the supply is the sum of balances
example :
    let e : Env := { notary := 90, neoC := 91, gasC := 92, csize := 1, vcount := 1, attrFee := 0, index := 9,
                     contracts := [(50, .wallet)] }
    let l : Ledger := { neo := [(50, { bal := 100, height := 1 }), (4, { bal := 99999900, height := 1 })], neoSupply := 100000000,
                        cands := [(7, ⟨true, 0⟩)], gpb := [(0, 500000000)] }
    let s := run (initSt e l) [.txBegin 4 [⟨4, 128, [], []⟩], .vote 50 (some 7) (some 50) true,
      .transfer .neo 50 3 1 (some 50) .null .other, .endCb, .txEnd false]
    s.last = some [.t] ∧ (get s.cur.neo 50).map (fun a => (a.bal, a.vote)) = some (99, some 7) ∧
    (get s.cur.neo 3).map (·.bal) = some 1 ∧ get s.cur.cands 7 = some ⟨true, 99⟩ ∧ s.cur.voters = 99 := by decide

/-! ## contracts blocked by Policy -/

/-- `blocked_contract_not_callable`: once Policy has blocked a contract, a call the entry script makes through it
faults the transaction (the ledger of the transaction's start comes back), and so does a payment to it that would run
its callback. -/
theorem blocked_contract_not_callable (s : St) (op : Op) (h : callerBlocked s op = true) (hs : s.skip = 0) :
    step s op = s.throw := by
  unfold step
  rw [if_neg (by omega), if_pos h]

-- non-vacuity: contract 50 holds 10 GAS and is blocked: a transfer it is asked to make faults, a payment to it with a
-- callback faults; unblocked, the Wallet contract 50 accepts null data; `recvOf` is the model's classification
example :
    let e : Env := { notary := 90, neoC := 91, gasC := 92, csize := 1, vcount := 1, attrFee := 0, signers := [⟨3, 128, [], []⟩],
                     contracts := [(50, .wallet), (51, .noCallback)] }
    let l : Ledger := { gas := [(3, 10), (50, 10)], gasSupply := 20, blocked := [50] }
    let s : St := initSt e l
    callerBlocked s (.transfer .gas 50 3 5 (some 50) .null .other) = true ∧
    (step s (.transfer .gas 50 3 5 (some 50) .null .other)).failing = true ∧
    (step s (.transfer .gas 3 50 5 none .null .other)).failing = true ∧
    (step { s with cur := { l with blocked := [] } } (.transfer .gas 3 50 5 none .null .other)).cur.gas = [(3, 5), (50, 15)] ∧
    recvOf e 50 .null = .accept ∧ recvOf e 50 .call = .cb ∧ recvOf e 50 .other = .throws ∧ recvOf e 51 .null = .throws ∧
    recvOf e 3 .call = .none := by
  decide

end NeoModel.Tokens
