/-
C05 — native token supply and governance accounting are conserved.

Property theorems over the model `NeoModel.Model.Tokens` (the accounting of native_nep17.go / native_gas.go /
native_neo.go / notary.go as written, driven by a transaction machine with FAULT roll-back and nested payment
callbacks).  Helper lemmas live in `NeoModel.Proofs.Tokens*`.

`Inv nt l` (Proofs/TokensInv.lean) is the property's state invariant for the ledger `l`, `nt` being the account
of the Notary contract; `inv_reading` below spells it out.
-/
import NeoModel.Proofs.TokensCand
namespace NeoModel.Tokens

/-- What `Inv` says, in the property's words: the NEO supply is exactly 100 000 000 and equals the sum of the
NEO balances; the GAS supply equals the sum of the GAS balances; every candidate's votes (0 for a key without
record) equal the NEO of the accounts voting for it; the voters count equals the NEO of all voting accounts;
the GAS of the Notary contract equals the sum of the deposits; every stored balance is positive, every deposit
non-negative; and each map has one entry per key, so that the sums range over accounts. -/
theorem inv_reading (nt : Nat) (l : Ledger) (h : Inv nt l) :
    l.neoSupply = 100000000 ∧ sumBy (·.bal) l.neo = l.neoSupply ∧
    sumBy id l.gas = l.gasSupply ∧
    (∀ c, at0 (·.votes) l.cands c = sumBy (fun a => if a.vote = some c then a.bal else 0) l.neo) ∧
    l.voters = sumBy (fun a => if a.vote.isSome then a.bal else 0) l.neo ∧
    at0 id l.gas nt = sumBy (·.amount) l.deps ∧
    (∀ p ∈ l.neo, 0 < p.2.bal) ∧ (∀ p ∈ l.gas, 0 < p.2) ∧ (∀ p ∈ l.deps, 0 ≤ p.2.amount) ∧
    (keys l.neo).Nodup ∧ (keys l.gas).Nodup ∧ (keys l.cands).Nodup ∧ (keys l.deps).Nodup := by
  refine ⟨h.neoSupply, by simpa using h.neoSum, by simpa using h.gas.sum, h.votes.votes, h.votes.voters,
    by simpa using h.notary.eq, h.votes.neoPos, h.gas.pos, h.notary.nonneg,
    h.votes.neoNodup, h.gas.nodup, h.votes.candNodup, h.notary.nodup⟩

/-- `inv_init`: the state after the natives' initialisation in block 0 satisfies the invariant
(both initial supplies go to the standby validators' address `h`, which is not the Notary contract). -/
theorem inv_init (e : Env) (h : Nat) (gasInit : Int) (l : Ledger)
    (hn : h ≠ e.notary) (hc : e.neoC ≠ e.notary) (hg : genesis h gasInit = some l) :
    MInv e.notary (initSt e l) :=
  have hi := genesis_inv e.notary h gasInit l hn hg
  ⟨rfl, hc, hi, hi⟩

-- non-vacuity: the genesis of a chain whose validators' address is account 0
example : ∃ l, genesis 0 5200000000000000 = some l ∧ l.neoSupply = 100000000 ∧ l.gasSupply = 5200000000000000 :=
  ⟨_, rfl, rfl, rfl⟩

/-- `inv_step`: every operation of the machine — block start, OnPersist (fee burning, primary and notary
rewards, deposit charging), a transaction start, any native call with any arguments and any outcome (success,
`false`, panic), nested payment callbacks, transaction end with HALT or FAULT, PostPersist — preserves the
invariant of both the current ledger and the ledger a FAULT restores. -/
theorem inv_step (nt : Nat) (s : St) (op : Op) (h : MInv nt s) : MInv nt (step s op) := step_inv s op h

/-- `inv_reachable`: the invariant holds after every sequence of operations from genesis, in particular at
every block boundary of every history. -/
theorem inv_reachable (e : Env) (h : Nat) (gasInit : Int) (l : Ledger) (ops : List Op)
    (hn : h ≠ e.notary) (hc : e.neoC ≠ e.notary) (hg : genesis h gasInit = some l) :
    Inv e.notary (run (initSt e l) ops).cur :=
  (run_inv _ ops (inv_init e h gasInit l hn hc hg)).cur

/-- the failing branch of `transfer`: a transfer that returns `false` has changed no balance, supply, vote
count or deposit — although the code stores the debited `from` before it credits `to` (native_nep17.go:161-173),
the credit cannot fail on a state satisfying the invariant. -/
theorem transfer_false_unchanged (nt : Nat) (t : Tok) (e : Env) (l l' : Ledger) (src dst : Nat) (amt : Int)
    (wit b : Bool) (hi : Inv nt l) (h : transferPre t e l src dst amt wit = .ret l' b) :
    b = false ∧ l'.neo = l.neo ∧ l'.neoSupply = l.neoSupply ∧ l'.gas = l.gas ∧ l'.gasSupply = l.gasSupply ∧
    l'.cands = l.cands ∧ l'.voters = l.voters ∧ l'.deps = l.deps := by
  obtain ⟨⟨e1, e2, e3, e4, e5, e6, e7⟩, hb, _⟩ := transferPre_ret t e l src dst amt wit l' b hi h
  exact ⟨hb, e1, e2, e3, e4, e5, e6, e7⟩

-- non-vacuity: a transfer of more than the balance returns false and leaves the ledger as it was
example : transferPre .neo ⟨9, 8, 1, 1, 0, [], 5, 0⟩ { neo := [(1, { bal := 3 })], neoSupply := 3 } 1 2 4 true =
    .ret { neo := [(1, { bal := 3 })], neoSupply := 3 } false := by rfl


/-- `delta_eq_events`: take any reachable machine state, start a block, run any operations (transactions that
HALT or FAULT, nested callbacks, OnPersist, PostPersist): for every token and every account the balance now
minus the balance at the start of the block equals the net amount of the Transfer notifications collected
since then — the notifications of faulted transactions having been dropped together with their state changes.
(`base` is the ledger at the start of the latest block, `cur.events` the notifications of the successful
executions of that block so far.) -/
theorem delta_eq_events (nt : Nat) (s : St) (idx : Nat) (ops : List Op) (h : MInv nt s) (t : Tok) (a : Nat) :
    let s' := run (step s (.block idx)) ops
    balOf s'.cur t a - balOf s'.base t a = evNet t a s'.cur.events :=
  (run_delta _ ops (step_inv s _ h) (block_dinv s idx)).cur t a

-- non-vacuity: one block with a fee burn and a reward; account 5 burns 7 and is minted 3, net -4
example :
    let l : Ledger := { gas := [(5, 10)], gasSupply := 10, neoSupply := 100000000, neo := [(5, { bal := 100000000 })], gpb := [(0, 5)] }
    let s := run (initSt ⟨9, 8, 1, 1, 0, [], 0, 0⟩ l) [.block 1, .onPersist 5 [] [⟨5, 4, 3, none, none⟩]]
    balOf s.cur .gas 5 = 6 ∧ evNet .gas 5 s.cur.events = -4 := by decide

/-- `candidate_record_iff`: on every state satisfying the invariant a candidate record exists iff the key is
registered or NEO is voting for it — vote sums never dangle, and no record outlives its last vote unless
registered. -/
theorem candidate_record_iff (nt : Nat) (l : Ledger) (c : Nat) (h : Inv nt l) :
    get l.cands c ≠ none ↔
      ((∃ cd, get l.cands c = some cd ∧ cd.reg = true) ∨ 0 < sumBy (fun a => if a.vote = some c then a.bal else 0) l.neo) :=
  candidate_record_iff' l c h

/-- `candidate_removed_iff`: the two primitives that delete candidate records — ModifyAccountVotes on a balance
change or vote withdrawal, and unregisterCandidate — delete the record iff after the update it is unregistered
with zero votes, and they touch no other record (all other operations only `put` candidate records). -/
theorem candidate_removed_iff (l : Ledger) (c : Nat) (cd : Cand) (hn : (keys l.cands).Nodup) (hg : get l.cands c = some cd) :
    (∀ l1 acc v, acc.vote = some c → modVotes l acc v false = (l1, true) →
        ((get l1.cands c = none ↔ (cd.reg = false ∧ cd.votes + v = 0)) ∧ ∀ c', c' ≠ c → get l1.cands c' = get l.cands c')) ∧
    ((get (unregister l c true).1.cands c = none ↔ cd.votes = 0) ∧
        ∀ c', c' ≠ c → get (unregister l c true).1.cands c' = get l.cands c') :=
  ⟨fun l1 acc v hc h => modVotes_removed_iff l l1 acc v c cd hn hc hg h, unregister_removed_iff l c cd hn hg⟩

-- non-vacuity: an unregistered candidate with 3 votes disappears when its only voter's 3 NEO leave
example : (modVotes { cands := [(7, ⟨false, 3⟩)] } { bal := 3, vote := some 7 } (-3) false).1.cands = [] := by decide
-- and a registered one stays with zero votes
example : (modVotes { cands := [(7, ⟨true, 3⟩)] } { bal := 3, vote := some 7 } (-3) false).1.cands = [(7, ⟨true, 0⟩)] := by decide

end NeoModel.Tokens
