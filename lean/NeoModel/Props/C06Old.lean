/-
C06 — the behaviour BEFORE the fixes b358bb1 (transfer log copied before appending) and "reload the state
trie when a block is processed but not stored": a storeBlock failure after the execution of the block left
the in-memory state behind (`Env.spoil`). Kept as a regression example: the model of that behaviour and the
two negation witnesses of the full statements of C06 (2) and (3) that the check had found on the real node
(known findings failed-store-corrupts-trie / failed-store-corrupts-transfer-log, both fixed).
-/
import NeoModel.Props.C06
namespace NeoModel.AddBlock
variable {L : Type}

/-- storeBlock as it was: the failing check of the next header's PrevStateRoot left a spoiled ledger -/
def storeBlockOld (env : Env L) (s : Node L) (b : Block) : Node L × Option Err :=
  if !primaryOK env b then (s, some .store)
  else
    match env.apply s.ledger b with
    | none => (s, some .store)
    | some l' =>
      if nextHeaderOK env s b.hdr.index l' then (commit env s b l', none)
      else ({ s with ledger := env.spoil s.ledger b }, some .store)

def bodyStepOld (env : Env L) (s : Node L) (b : Block) : Node L × Option Err :=
  if !s.cfg.skip && b.hdr.merkleRoot != env.merkle (b.txs.map (·.id)) then (s, some .merkle)
  else if !s.cfg.skip && hasDup (b.txs.map (·.id)) then (s, some .dup)
  else if !s.cfg.skip && !txLoop env s [] b.txs then (s, some .tx)
  else storeBlockOld env s b

def addBlockOld (env : Env L) (s : Node L) (b : Block) : Node L × Option Err :=
  if s.blockHeight + 1 != b.hdr.index then
    (s, some (if b.hdr.index > s.blockHeight + 1 then .indexFuture else .indexOld))
  else if s.cfg.sr != b.hdr.sre then (s, some .srFlag)
  else
    match headerStep env s b with
    | (s1, some e) => (s1, some e)
    | (s1, none) => bodyStepOld env s1 b

/-- OLD behaviour, negation witness of C06 (2): state roots in headers, header 2 recorded ahead with a
PrevStateRoot that block 1 does not produce: block 1 was rejected, yet the ledger was not the one before. -/
theorem reject_changes_ledger_after_failed_store :
    (addBlockOld exEnv exBadNext b1).2 = some .store ∧
      (addBlockOld exEnv exBadNext b1).1.ledger ≠ exBadNext.ledger := by decide

/-- OLD behaviour, negation witness of C06 (3): after such a rejection the valid block 1, which the
untouched node accepted, was refused. -/
theorem correct_refused_after_failed_store :
    (addBlockOld exEnv exSkip b1).2 = none ∧
      (addBlockOld exEnv exSkip { b1 with txs := [t42, t50] }).2 = some .store ∧
      (addBlockOld exEnv (addBlockOld exEnv exSkip { b1 with txs := [t42, t50] }).1 b1).2 = some .store := by decide

/-- the only difference between the old and the current model: on every other outcome they agree -/
theorem addBlockOld_eq_unless_failed_store (env : Env L) (s : Node L) (b : Block)
    (h : (addBlock env s b).2 ≠ some .store) : addBlockOld env s b = addBlock env s b := by
  unfold addBlockOld addBlock at *
  by_cases c1 : (s.blockHeight + 1 != b.hdr.index) = true
  · rw [if_pos c1, if_pos c1]
  by_cases c2 : (s.cfg.sr != b.hdr.sre) = true
  · rw [if_neg c1, if_pos c2, if_neg c1, if_pos c2]
  rw [if_neg c1, if_neg c2] at h ⊢
  rw [if_neg c1, if_neg c2]
  cases hh : headerStep env s b with
  | mk s1 r1 =>
    rw [hh] at h
    cases r1 with
    | some e => rfl
    | none =>
      simp only at h ⊢
      unfold bodyStepOld bodyStep at *
      split
      · rfl
      split
      · rfl
      split
      · rfl
      rename_i h1 h2 h3
      rw [if_neg h1, if_neg h2, if_neg h3] at h
      unfold storeBlockOld storeBlock at *
      split
      · rfl
      cases ha : env.apply s1.ledger b with
      | none => rfl
      | some l' =>
        simp only
        split
        · rfl
        · rename_i hp hn
          rw [if_neg hp, ha] at h
          simp only [hn] at h
          exact absurd rfl h

end NeoModel.AddBlock
