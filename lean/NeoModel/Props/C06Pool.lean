/-
C06 — the mempool-soundness hypothesis of `accept_only_valid` as an inductive step: what survives a
block in the pool is valid at the new state. Helper lemmas: Proofs/AddBlockRelevant.
-/
import NeoModel.Props.C06Tx
import NeoModel.Proofs.AddBlockRelevant
import NeoModel.Proofs.AddBlockBurn
namespace NeoModel.AddBlock

/-- C06: a pooled transaction that IsTxStillRelevant keeps after a block passes the stand-alone
verification at the new chain state `c`, given its state-independent facts (well-formed script, size,
sound script witnesses each within MaxVerificationGas — established when it was pooled) and that the
conflict test covers the on-chain records under its hash (`hrec`). Every conjunct of `TxValid` that depends
on the state (expiry, ValidUntilBlock window, blocked signers, network fee against the CURRENT FeePerByte
and attribute fees, attributes, and the GAS left for the witnesses) is re-established by the filter. -/
theorem kept_pooled_tx_is_valid (c : Chain) (t : VTx) (conf : Bool)
    (hscript : t.scriptOk = true) (hsize : t.size ≤ maxTransactionSize)
    (hw : ∀ w ∈ t.wits, w.isScript = true → w.sound = true ∧ w.cost ≤ c.maxVerGas)
    (hrec : conf = false → c.lookup t.id ≠ .tx ∧ stubHits (c.lookup t.id) t.accounts c.height c.mtb = false)
    (h : stillRelevant c t conf (t.wits.map Witness.stdCost) = true) : TxValid c t :=
  (verifyTx_none_iff c t).mp (stillRelevant_sound c t conf hscript hsize hw hrec h)

-- non-vacuity and the boundary 4f45775 closed: at FeePerByte 10 the transaction (size 10, witness cost 20)
-- needs 120; after a raise to 11 it needs 130: with fee 129 it is dropped although 129 ≥ 11·10, with 130 kept
example : stillRelevant (exChain 0) (vtx 1 1) false [some 20] = true ∧
    stillRelevant { exChain 0 with feePerByte := 11 } { vtx 1 1 with netFee := 129 } false [some 20] = false ∧
    stillRelevant { exChain 0 with feePerByte := 11 } { vtx 1 1 with netFee := 130 } false [some 20] = true ∧
    stillRelevant (exChain 0) (vtx 1 9) false [some 20] = false ∧          -- sender blocked meanwhile
    stillRelevant (exChain 50) (vtx 1 1) false [some 20] = false ∧         -- ValidUntilBlock reached
    stillRelevant (exChain 0) (vtx 1 1) true [some 20] = false := by decide -- conflict with the block

/-- C06, mempool soundness over one block (the inductive step behind the hypothesis `hpool` of
`accept_only_valid`): valid at height h, no conflict with the block's transactions (the scratch pool's
HasConflicts), kept by IsTxStillRelevant at the state after the block ⇒ valid at height h+1. The state
after the block carries the records its transactions leave (`lookupAfter`); conflict records only age
(`stubHits_mono`). -/
theorem pooled_tx_valid_after_block (c c' : Chain) (t : VTx) (txs : List VTx) (stub : Nat → Rec)
    (hv : TxValid c t)
    (hh : c'.height = c.height + 1) (hm : c'.mtb = c.mtb) (hg : c'.maxVerGas = c.maxVerGas)
    (hl : c'.lookup = lookupAfter c.lookup txs stub)
    (hidx : recIndicesLe (c.lookup t.id) c.height)
    (hs : ∀ w ∈ t.wits, w.isScript = true → w.sound = true ∧ w.cost ≤ c.maxVerGas)
    (h : stillRelevant c' t (blockConflict txs t) (t.wits.map Witness.stdCost) = true) : TxValid c' t :=
  survivor_valid_after_block c c' t txs stub hv hh hm hg hl hidx hs h

-- non-vacuity: vtx 1 1 valid at height 0; block [vtx 2 2] (no conflict): still relevant at height 1;
-- a block containing a transaction that names hash 1 is a conflict
example : verifyTx (exChain 0) (vtx 1 1) = none ∧ blockConflict [vtx 2 2] (vtx 1 1) = false ∧
    stillRelevant { exChain 1 with lookup := lookupAfter (exChain 0).lookup [vtx 2 2] (fun _ => .none) } (vtx 1 1)
      (blockConflict [vtx 2 2] (vtx 1 1)) [some 20] = true ∧
    blockConflict [{ vtx 2 2 with attrs := [.conflicts 1] }] (vtx 1 1) = true := by decide

/-- C06: the fee burn of GAS.OnPersist (every sender pays SystemFee + NetworkFee of all of its
transactions of the block) cannot fail for a block that passed the transaction loop with
VerifyTransactions on; `burnOK` is what the driver now evaluates instead of a harness-supplied flag. -/
theorem loop_passed_fees_burnable {L : Type} (env : Env L) (s : Node L) (hv : s.cfg.verifyTx = true) (ts : List Tx)
    (h : txLoop env s [] ts = true) : burnOK (env.balance s.ledger) ts = true :=
  txLoop_burnOK env s hv ts h

theorem fees_burnable_iff (bal : Nat → Nat) (ts : List Tx) :
    burnOK bal ts = true ↔ ∀ a, (∃ t ∈ ts, t.sender = a) → sumFee ts a ≤ bal a :=
  burnOK_iff bal ts

-- non-vacuity: balance 100; two transactions of one sender with fees 60 and 41 cannot both be burned
example : burnOK (fun _ => 100) [{ t42 with fee := 60 }, { t50 with fee := 40, conflicts := [] }] = true ∧
    burnOK (fun _ => 100) [{ t42 with fee := 60 }, { t50 with fee := 41, conflicts := [] }] = false ∧
    txLoop exEnv exNode [] [t42] = true := by decide

end NeoModel.AddBlock
