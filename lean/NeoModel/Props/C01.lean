/-
C01 — replicated state transition is deterministic and restart-transparent. Property theorems only
(helper lemmas: Proofs/Ledger*.lean; models: Model/Ledger.lean, Model/Ledger/Natives.lean, NativeSys.lean).

What is proved
  1. flatten_persist, exec_view_only, observe_independent_of_schedule — for the abstract node, any `Sys`
     whose natives are `Adequate` (caches restorable from storage without observable difference): every
     schedule of {addBlock, flush, restart, gc, poolTx} with the same blocks gives the same observation
     (height, contract storage hence state root, execution results, getter answers), from any two nodes that
     agree on contract storage (they may differ in backend contents below it, layer structure, mempool).
  2. policy_cache_coherent — the Policy cache equals InitializeCache(storage) after every block (all ops).
  3. neo_cache_coherent + natives_schedule_independent — the NEO committee cache is restart-transparent for ALL
     operations (since fix d4da6a2 Policy.blockAccount/unblockAccount mark the committee outdated; before it
     the witness history below made a restarted replica diverge — it is kept as regression example:
     neo_restart_regression_witness shows the two replicas now agree).
  3b. whitelist_cache_coherent / whitelist_restart_invisible — the whitelisted-fee list of Policy (separate
     component, Model/Ledger/Whitelist.lean) is restart-transparent for all operation sequences (since fix cb24446
     a re-set overwrites the cached entry; whitelist_restart_regression_witness is the history that diverged before).
  3c. components (Model/Ledger/Components.lean, Guarded.lean): settings / whitelist / designate / management
     `_cache_coherent` — after any sequence of blocks (halting, faulting, rolled-back transactions) and restarts the
     cache is exactly InitializeCache(storage). The committee setters carry their GUARDS (argument conversion, range
     and cross-setting checks that read the cache, committee witness against the cached committee of the block), so
     the model predicts halt/fault; gasPerBlock_cache_coherent is the full lookup statement for the append-only
     gasPerBlock cache; settings_guards_keep_vub_below_mtb is a consequence of the guards on every replica;
     all_natives_schedule_independent lifts the main theorem to the DEPENDENT product of all modelled natives (the
     natives part supplies the committee the guarded components check witnesses against), per-transaction
     outcomes of the guarded calls included. settings_ro_write_breaks_coherence shows what the layer discipline
     (writes through GetRWCache only; obligation cache_writes_disciplined) protects against.
  4. map_ranges_classified — every iteration over a Go map found by the extractor in the consensus-critical
     packages is classified (regenerated table, `decide`).
  5. cache_writes_disciplined — every write to a native cache goes through GetRWCache or a fresh cache.
  6. cache_fields_classified / cache_restore_matches_classification / cache_maps_cloned_on_copy — every field of every
     native cache struct is classified (restored from storage key K | derived | transient with reason), the
     classification covers exactly the fields in the current source, every field is set in the closure of its
     native's InitializeCache from the expression the classification names (regenerated table CacheRestore).
  (The equalities between the model's guards and the guards translated from the Go source are
   Proofs/LedgerGuardsTie.lean.)
-/
import NeoModel.Proofs.LedgerAdequate
import NeoModel.Proofs.LedgerWhitelist
import NeoModel.Proofs.LedgerProduct
import NeoModel.Proofs.LedgerProductG
import NeoModel.Proofs.LedgerMgmt
import NeoModel.Proofs.LedgerReward
import NeoModel.Generated.MapRanges
import NeoModel.Generated.CacheWrites
import NeoModel.Generated.CacheRestore
namespace NeoModel.Ledger

section generic
variable {K V C B R T TX : Type} [DecidableEq K]

/-- (C01, flush) A flush of the write cache changes no read: the flattened view is the same before and after
    (whenever and however often the node flushes). -/
theorem flatten_persist (n : Node K V C R TX) : (flushNode n).read = n.read := flush_read n

example : (flushNode (K := Nat) (V := Nat) (C := Unit) (R := Unit) (TX := Unit)
    { db := fun k => if k = 1 then some 10 else none, mem := [[(1, none), (2, some 5)], [(1, some 7)]],
      cache := (), height := 2, pool := [], last := () }).read 2 = some 5 := by decide

/-- (C01, exec sees the view only) Block execution depends on the node only through what a read returns, the
    caches and the height — never on how the data is split between write-cache layers and backend. -/
theorem exec_view_only (S : Sys K V C B R T) (n m : Node K V C R TX) (b : B)
    (hr : n.read = m.read) (hc : n.cache = m.cache) (hh : n.height = m.height) :
    (step S n (.addBlock b)).read = (step S m (.addBlock b)).read ∧
    (step S n (.addBlock b)).cache = (step S m (.addBlock b)).cache ∧
    (step S n (.addBlock b)).last = (step S m (.addBlock b)).last := by
  refine ⟨?_, ?_, ?_⟩
  · rw [step_block_read, step_block_read, hr, hc, hh]
  · show (S.apply n.read n.cache (n.height + 1) b).2.1 = (S.apply m.read m.cache (m.height + 1) b).2.1
    rw [hr, hc, hh]
  · show (S.apply n.read n.cache (n.height + 1) b).2.2 = (S.apply m.read m.cache (m.height + 1) b).2.2
    rw [hr, hc, hh]

/-- (C01, main theorem, abstract node) For natives that are `Adequate` w.r.t. some notion `Good` of "cache fits
    storage": two nodes that agree on height, contract storage and tip results, both with fitting caches,
    fed the same blocks under ANY two local schedules (flushes, clean restarts, GC of auxiliary keys, mempool
    traffic, in any number and at any points) give the same observation. Since every prefix of a schedule is a
    schedule, this is agreement at every height. -/
theorem observe_independent_of_schedule (S : Sys K V C B R T) {Good : (K → Option V) → C → Nat → Prop}
    (hA : Adequate S Good) (n₁ n₂ : Node K V C R TX) (h0 : Sim S Good n₁ n₂)
    (σ₁ σ₂ : List (Step K B TX)) (hb : blocksOf σ₁ = blocksOf σ₂) :
    observe S (run S n₁ σ₁) = observe S (run S n₂ σ₂) := by
  have h2 : Sim S Good n₂ n₂ := ⟨rfl, rfl, rfl, h0.goodR, h0.goodR⟩
  have s1 := sim_run_ref S hA σ₁ n₁ n₂ h0
  have s2 := sim_run_ref S hA σ₂ n₂ n₂ h2
  rw [sim_observe S hA _ _ s1, sim_observe S hA _ _ s2, hb]

/-- (C01, unconditional part) For ANY system (no assumption on the native caches), as long as block execution
    reads contract storage only: flushes, GC of auxiliary keys and mempool traffic — in any number, at any
    points — never change an observation. Two nodes agreeing on height, contract storage, tip results and
    caches, fed the same blocks under two restart-free schedules, observe the same. -/
theorem observe_independent_of_flush_gc_pool (S : Sys K V C B R T)
    (hst : ∀ rd c h b, S.apply rd c h b = S.apply (stateView S rd) c h b)
    (n₁ n₂ : Node K V C R TX) (h0 : SimEq S n₁ n₂)
    (σ₁ σ₂ : List (Step K B TX)) (hb : blocksOf σ₁ = blocksOf σ₂)
    (h1 : noRestart σ₁ = true) (h2 : noRestart σ₂ = true) :
    observe S (run S n₁ σ₁) = observe S (run S n₂ σ₂) := by
  have hrefl : SimEq S n₂ n₂ := ⟨rfl, rfl, rfl, rfl⟩
  have s1 := simEq_run_ref S hst σ₁ n₁ n₂ h1 h0
  have s2 := simEq_run_ref S hst σ₂ n₂ n₂ h2 hrefl
  rw [simEq_observe S _ _ s1, simEq_observe S _ _ s2, hb]

end generic

namespace Natives

/-- (C01, cache_coherent for Policy) Whatever the block contains, if the Policy cache equalled
    InitializeCache(storage) before the block it does so after it: a restart rebuilds exactly this cache. -/
theorem policy_cache_coherent (cfg : Cfg) (st : Storage) (c : Caches) (h : Nat) (txs : List Tx)
    (hc : c.policy = initPolicy st) :
    (applyBlock cfg st c h txs).2.1.policy = initPolicy (applyBlock cfg st c h txs).1 :=
  applyBlock_polcoh cfg st c h txs hc

-- ---------------------------------------------------------------------------------------------
-- witness history (DESIGN §6 item 13): committee [K0,K1], one validator; 30M votes for K1, 10M for K0;
-- at height 6 the committee blocks K0's own account; replica B is restarted after block 6.

def wCfg : Cfg := { committeeSize := 2, validators := 1, standby := [0, 1] }
def wHolder : Acct := Acct.other 0
def wTx (signers : List Acct) (op : Op) : Tx := { signers := signers, committee := none, op := op, oog := false }

def wBlocks : List (List Tx) := [
  [wTx [wHolder] (.neoTransfer wHolder (.key 2) 30000000), wTx [wHolder] (.neoTransfer wHolder (.key 3) 10000000)],
  [wTx [.key 0] (.register 0), wTx [.key 1] (.register 1)],
  [wTx [.key 2] (.vote (.key 2) (some 1)), wTx [.key 3] (.vote (.key 3) (some 0))],
  [], [],
  [{ signers := [.key 3], committee := some (2, [1, 0]), op := .block (.key 0), oog := false }]]

abbrev WStep := Step Unit (List Tx) Unit

/-- replica A: seven blocks, never restarted -/
def wSchedA : List WStep := (wBlocks ++ [[]]).map Step.addBlock
/-- replica B: the same seven blocks, clean restart after the sixth -/
def wSchedB : List WStep := wBlocks.map Step.addBlock ++ [Step.restart, Step.addBlock []]

def wA : NNode := run (nativeSys wCfg) (genesisNode wCfg wHolder) wSchedA
def wB : NNode := run (nativeSys wCfg) (genesisNode wCfg wHolder) wSchedB

/-- (regression witness, DESIGN §6 item 13 / fix d4da6a2) Same blocks, one clean restart: both replicas answer
    ComputeNextBlockValidators with [K0] at height 7 (K0's account is blocked, one eligible candidate is not
    enough, the standby order applies) — before the fix the never-restarted replica answered [K1]. -/
theorem neo_restart_regression_witness :
    blocksOf wSchedA = blocksOf wSchedB ∧
    (observe (nativeSys wCfg) wA).getters = (observe (nativeSys wCfg) wB).getters ∧
    (observe (nativeSys wCfg) wA).getters.newEpochValidators = [0] ∧
    (observe (nativeSys wCfg) wB).getters.newEpochValidators = [0] := by decide

/-- (C01, cache_coherent for NEO) Over ANY block an adequate NEO cache (committee, validators, next-epoch values
    as pinned by storage; votesChanged false only if the committee inputs are unchanged) stays adequate, and
    the Policy cache stays equal to InitializeCache(storage). -/
theorem neo_cache_coherent (cfg : Cfg) (st : Storage) (c : Caches) (h : Nat) (txs : List Tx)
    (hp : c.policy = initPolicy st) (hg : NeoGood cfg st c.neo h) :
    (applyBlock cfg st c (h + 1) txs).2.1.policy = initPolicy (applyBlock cfg st c (h + 1) txs).1 ∧
    NeoGood cfg (applyBlock cfg st c (h + 1) txs).1 (applyBlock cfg st c (h + 1) txs).2.1.neo (h + 1) :=
  applyBlock_good cfg st c h txs hp hg

/-- a restart always yields an adequate NEO cache -/
theorem restart_cache_good (cfg : Cfg) (st : Storage) (h : Nat) : NeoGood cfg st (initNeo cfg st h) h :=
  initNeo_good cfg st h

/-- (C01 for the modelled natives) From genesis, for any committee configuration, any two schedules of
    addBlock/flush/restart/gc/poolTx with the same blocks — ANY transactions — give the same observation:
    Policy values, committee, validators, next-epoch validators, the whole modelled storage (candidates,
    votes, balances, blocked list) and the per-transaction results, however the node flushed, restarted,
    collected garbage or pooled. -/
theorem natives_schedule_independent (cfg : Cfg) (holder : Acct)
    (σ₁ σ₂ : List (Step Unit (List Tx) Unit)) (hb : blocksOf σ₁ = blocksOf σ₂) :
    observe (nativeSys cfg) (run (nativeSys cfg) (genesisNode cfg holder) σ₁) =
    observe (nativeSys cfg) (run (nativeSys cfg) (genesisNode cfg holder) σ₂) := by
  have hg := genesis_good cfg holder
  have hs : stateView (nativeSys cfg) (genesisNode cfg holder).read = (genesisNode cfg holder).read := stateView_native cfg _
  have h0 : Sim (nativeSys cfg) (Good cfg) (genesisNode cfg holder) (genesisNode cfg holder) :=
    ⟨rfl, rfl, rfl, by rw [hs]; exact hg, by rw [hs]; exact hg⟩
  exact observe_independent_of_schedule (nativeSys cfg) (nativeSys_adequate cfg) _ _ h0 σ₁ σ₂ hb

-- non-vacuity: the regression witness itself (blockAccount of a candidate, restart after it) is an instance
example : observe (nativeSys wCfg) wA = observe (nativeSys wCfg) wB :=
  natives_schedule_independent wCfg wHolder wSchedA wSchedB (by decide)

/-- (C01 for the modelled natives, restart-free part, needs no cache invariant) Without restarts the observation
    does not depend on when and how often the node flushes, collects garbage or pools. -/
theorem natives_flush_gc_pool_invisible (cfg : Cfg) (n₁ n₂ : NNode) (h0 : SimEq (nativeSys cfg) n₁ n₂)
    (σ₁ σ₂ : List (Step Unit (List Tx) Unit)) (hb : blocksOf σ₁ = blocksOf σ₂)
    (h1 : noRestart σ₁ = true) (h2 : noRestart σ₂ = true) :
    observe (nativeSys cfg) (run (nativeSys cfg) n₁ σ₁) = observe (nativeSys cfg) (run (nativeSys cfg) n₂ σ₂) :=
  observe_independent_of_flush_gc_pool (nativeSys cfg)
    (by intro rd c h b; rw [stateView_native])
    n₁ n₂ h0 σ₁ σ₂ hb h1 h2

example : observe (nativeSys wCfg) (run (nativeSys wCfg) (genesisNode wCfg wHolder) wSchedA) =
    observe (nativeSys wCfg) (run (nativeSys wCfg) (genesisNode wCfg wHolder)
      (wSchedA.take 3 ++ [Step.flush, Step.gc [()], Step.poolTx ()] ++ wSchedA.drop 3 ++ [Step.flush])) :=
  natives_flush_gc_pool_invisible wCfg _ _ ⟨rfl, rfl, rfl, rfl⟩ _ _ (by decide) (by decide) (by decide)

-- non-vacuity: the witness blocks without the blockAccount are a history with an elected committee; a
-- schedule with flushes, a restart and GC agrees with the plain one (instance of the theorem), and the
-- committee really is the elected one (computed).
def sBlocks : List (List Tx) := wBlocks.take 5 ++ [[wTx [.key 3] (.neoTransfer (.key 3) (.key 2) 5)], []]
def sSched1 : List WStep := sBlocks.map Step.addBlock
def sSched2 : List WStep :=
  (sBlocks.take 4).map Step.addBlock ++ [Step.flush, Step.restart] ++ (sBlocks.drop 4).map Step.addBlock ++ [Step.gc [()], Step.poolTx (), Step.restart]

example : observe (nativeSys wCfg) (run (nativeSys wCfg) (genesisNode wCfg wHolder) sSched1) =
    observe (nativeSys wCfg) (run (nativeSys wCfg) (genesisNode wCfg wHolder) sSched2) :=
  natives_schedule_independent wCfg wHolder sSched1 sSched2 (by decide)

example : (observe (nativeSys wCfg) (run (nativeSys wCfg) (genesisNode wCfg wHolder) sSched2)).getters.committee = [0, 1] ∧
    (observe (nativeSys wCfg) (run (nativeSys wCfg) (genesisNode wCfg wHolder) sSched2)).getters.nextValidators = [1] ∧
    (observe (nativeSys wCfg) (run (nativeSys wCfg) (genesisNode wCfg wHolder) sSched2)).height = 7 := by decide

example : (applyBlock wCfg (genesisStorage wCfg wHolder) (genesisCaches wCfg wHolder) 1
    [{ signers := [.key 3], committee := some (2, [1, 0]), op := .setFeePerByte 777, oog := false }]).2.1.policy.feePerByte = 777 := by decide

end Natives

-- ---------------------------------------------------------------------------------------------
-- whitelisted fees (Policy.setWhitelistFeeContract & co), a component of its own

namespace Whitelist

/-- (regression witness, fix cb24446) Set the fee of method (contract 1, method 0) to 0, then to 5000000: the running
    node charges 5000000 (cache), storage says 5000000, and so does a node restarted afterwards — before the fix
    the cache kept 0. -/
theorem whitelist_restart_regression_witness :
    chargedFee (run empty [.set (1, 0) 0, .set (1, 0) 5000000]) (1, 0) = some 5000000 ∧
    storedFee (run empty [.set (1, 0) 0, .set (1, 0) 5000000]) (1, 0) = some 5000000 ∧
    chargedFee (run empty [.set (1, 0) 0, .set (1, 0) 5000000, .restart]) (1, 0) = some 5000000 := by decide

/-- (C01, cache_coherent for the whitelisted fees) After ANY sequence of set/remove/clean/restart the cache and
    storage answer every lookup alike; hence a restart (cache := storage) changes no charged fee. -/
theorem whitelist_cache_coherent (s : State) (ops : List Op) (h : Coherent s) : Coherent (run s ops) :=
  run_coherent ops s h

theorem whitelist_restart_invisible (ops : List Op) (k : WKey) :
    chargedFee (run empty (ops ++ [.restart])) k = chargedFee (run empty ops) k := by
  have hr : ∀ (os : List Op) (s : State), run s (os ++ [.restart]) = (step (run s os) .restart).getD (run s os) := by
    intro os
    induction os with
    | nil => intro s; rfl
    | cons o os ih => intro s; simp only [List.cons_append, run]; exact ih _
  rw [hr]
  exact restart_invisible _ (run_coherent ops empty empty_coherent) k

example : chargedFee (run empty [.set (1, 0) 7, .set (2, 0) 9, .remove (1, 0), .set (1, 0) 8, .set (1, 0) 3, .clean 2, .restart]) (1, 0) = some 3 ∧
    chargedFee (run empty [.set (1, 0) 7, .set (2, 0) 9, .clean 2]) (2, 0) = none := by decide

end Whitelist

-- ---------------------------------------------------------------------------------------------
-- cached components of the other natives

namespace Components
open Comp

/-- (C01, cache_coherent: Policy attribute fees / MaxValidUntilBlockIncrement / MaxTraceableBlocks /
    MillisecondsPerBlock, Notary MaxNotValidBeforeDelta, Oracle price, NEO register price — WITH the setters' guards)
    After any sequence of blocks — each run against whatever committee the NEO cache holds at that block; calls that
    pass or fail their range / cross-setting / witness checks; transactions that halt, panic half-way or are rolled
    back as a whole — and restarts, the settings cache is exactly InitializeCache(storage). -/
theorem settings_cache_coherent (steps : List (EComp.EStep Guarded.Env (Guarded.GCall Guarded.GSetOp)))
    (n : CNode (List (Nat × Int)) (List (Nat × Int))) (h : n.cache = Guarded.gsettings.init n.store) :
    (Guarded.gsettings.erun n steps).cache = Guarded.gsettings.init (Guarded.gsettings.erun n steps).store :=
  EComp.ecache_coherent Guarded.gsettings Guarded.gsettings_exact steps n h

-- non-vacuity: committee [K0,K1] (majority 2); setMaxTraceableBlocks 10 passes (≤ old 20, > vubi 5), then
-- setMaxValidUntilBlockIncrement 10 FAULTs against the cached mtb 10, a call without witness faults, 9 passes; a
-- restart in between
example :
    let e : Guarded.Env := { committee := [(0, 0), (1, 0)], validators := 1 }
    let w : Guarded.Witness := some (2, [1, 0])
    let n := Guarded.gsettings.erun { store := Guarded.genesisSettings 20 5 1000, cache := Guarded.genesisSettings 20 5 1000, height := 0 }
      [.block e [{ ops := [⟨.maxTraceable 10, w⟩], halts := true }], .restart,
       .block e [{ ops := [⟨.maxVUB 10, w⟩], halts := true }, { ops := [⟨.maxVUB 8, none⟩], halts := true },
                 { ops := [⟨.maxVUB 9, w⟩], halts := true }]]
    Guarded.cval n.cache Guarded.kMTB = 10 ∧ Guarded.cval n.cache Guarded.kVUB = 9 ∧ n.cache = n.store := by decide

/-- (C01, what the guards that read the CACHE guarantee on every replica) MaxValidUntilBlockIncrement stays below
    MaxTraceableBlocks over any history of guarded setter calls, blocks and restarts: each of the two setters checks
    its argument against the cached value of the other, and the cache is the stored value (coherence). -/
theorem settings_guards_keep_vub_below_mtb (steps : List (EComp.EStep Guarded.Env (Guarded.GCall Guarded.GSetOp)))
    (n : CNode (List (Nat × Int)) (List (Nat × Int))) (h : n.cache = n.store) (hi : Guarded.VubInv n.store) :
    Guarded.VubInv (Guarded.gsettings.erun n steps).store :=
  (Guarded.gsettings_erun_vub steps n ⟨h, hi⟩).2

example : Guarded.VubInv (Guarded.genesisSettings 20 5 1000) := by unfold Guarded.VubInv; decide

/-- (C01, cache_coherent: Policy whitelisted fees as a layered component) -/
theorem whitelist_component_cache_coherent (steps : List (CStep WlOp)) (n : CNode (List (WKey × Int)) (List (WKey × Int)))
    (h : n.cache = whitelist.init n.store) :
    (whitelist.crun n steps).cache = whitelist.init (whitelist.crun n steps).store :=
  cache_coherent whitelist whitelist_exact steps n h

/-- (C01, cache_coherent: RoleManagement WITH the guards of designateAsRole: role validity, list size, committee
    witness, one designation per role and block, no duplicate keys) The cache always holds, per role, the stored
    record with the greatest activation height — what InitializeCache reads (independent of the block height at
    which the node restarts). -/
theorem designate_cache_coherent (steps : List (EComp.EStep Guarded.Env (Guarded.GCall Guarded.DesOp))) (n : CNode RoleStore RoleCache)
    (h : n.cache = Guarded.gdesignate.init n.store) :
    (Guarded.gdesignate.erun n steps).cache = Guarded.gdesignate.init (Guarded.gdesignate.erun n steps).store :=
  EComp.ecache_coherent Guarded.gdesignate Guarded.gdesignate_exact steps n h

/-- (C01, cache_coherent: ContractManagement WITH the manifest) Storage holds the manifest as the stack item
    Manifest.ToStackItem produces, the cache holds manifest OBJECTS: parsed from the transaction's JSON on a running
    node, rebuilt by Manifest.FromStackItem from the stored item on a restarted one (InitializeCache) — different
    values (nil vs empty slices, `features`, re-marshalled `extra`). After ANY history of deploy / update (with a new
    manifest or NEF-only) / destroy / inter-contract calls, in halting or rolled-back transactions, and restarts:
    every cached record has the stored id and update counter and its manifest object is well-formed and serialises
    to EXACTLY the stored item. (`mgmt_init`, the restart case, is C16's round-trip theorem
    FromStackItem (ToStackItem m) = normalize m. That an accepted manifest is well-formed for the decoder is checked by
    the model's deploy / update guard `accept`, no longer a hypothesis; `Hyp` = re-marshalling `extra` is idempotent.) -/
theorem management_cache_coherent (P : Mgmt.Params) (hy : Mgmt.Hyp P) (steps : List (CStep Mgmt.MOp))
    (n : CNode Mgmt.MStore Mgmt.MCache) (h : Mgmt.MgmtJ P n.store n.cache) :
    Mgmt.MgmtJ P ((Mgmt.management P).crun n steps).store ((Mgmt.management P).crun n steps).cache :=
  Mgmt.mgmt_crun_good P hy steps n h

/-- (C01, what must not differ) Any two caches fitting the same storage — the running node's and the restarted
    node's — decide every operation alike: the permission check of System.Contract.Call, the existence checks of
    deploy / update / destroy, what a NEF-only update writes back; and getContract answers alike. -/
theorem management_restart_same_decisions (P : Mgmt.Params) (s : Mgmt.MStore) (c₁ c₂ : Mgmt.MCache)
    (j1 : Mgmt.MgmtJ P s c₁) (j2 : Mgmt.MgmtJ P s c₂) (o : Mgmt.MOp) :
    (Mgmt.exec P s c₁ o).map (·.1) = (Mgmt.exec P s c₂ o).map (·.1) ∧ Mgmt.getContract P c₁ = Mgmt.getContract P c₂ :=
  ⟨Mgmt.mgmt_blind P s c₁ c₂ o j1 j2, Mgmt.getContract_same P s c₁ c₂ j1 j2⟩

/-- a manifest with one method `p` and the given permissions -/
def exMan (perms : List Flags.MF.Perm) : Flags.MF.Man :=
  { name := [0x6b], groups := some [], features := [0x7b, 0x20, 0x7d], standards := [],
    methods := [⟨[0x70], 0, [], 0xff, false⟩], events := [], perms := perms, trusts := ⟨some [], false⟩, extra := [] }

def exParams : Mgmt.Params := Mgmt.driverParams fun k => List.replicate 20 (UInt8.ofNat k)

/-- the history of seeded change C01-m5: contract 1 may call any contract but NO method (`"methods": []`), contract 2
    anything; the node restarts; 1 calls 2.p, 2 calls 1.p -/
def exNode : CNode Mgmt.MStore Mgmt.MCache :=
  (Mgmt.management exParams).crun { store := Mgmt.emptyStore, cache := Mgmt.init exParams Mgmt.emptyStore, height := 0 }
    [.block [{ ops := [.deploy 1 (exMan [⟨.wildcard, some []⟩])], halts := true },
             { ops := [.deploy 2 (exMan [⟨.wildcard, none⟩])], halts := true }], .restart]

-- non-vacuity (the driver's parameters meet the hypotheses): after the restart the cached permission of contract 1
-- is still "no method" — not the wildcard —, its `features` went from `{ }` to `{}` (the caches differ as values), the
-- call 1 → 2.p is refused and 2 → 1.p allowed, exactly as before the restart
example : ((exNode.cache 1).map (·.man.perms)) = some [⟨.wildcard, some []⟩] ∧
    ((exNode.cache 1).map (·.man.features)) = some [0x7b, 0x7d] ∧
    (Mgmt.management exParams).runBlockR exNode.store exNode.cache 2
      [{ ops := [.call 1 2 [0x70]], halts := true }, { ops := [.call 2 1 [0x70]], halts := true }] = [false, true] := by
  decide +kernel

example : Mgmt.MgmtJ exParams exNode.store exNode.cache :=
  management_cache_coherent exParams (Mgmt.driverParams_hyp _) _ _ (Mgmt.mgmt_empty_good _)

/-- (C01∩C04, why the layer discipline matters) A setter writing the cache obtained with GetROCache survives the
    rollback of its transaction: cache says 5, storage has nothing. No such write exists in the code
    (obligation `cache_writes_disciplined` over the regenerated table). -/
theorem settings_ro_write_breaks_coherence :
    let n := settings.crun { store := [], cache := [], height := 0 } [.block [{ ops := [.setViaRO 1 5], halts := false }]]
    aget n.cache 1 = some 5 ∧ aget n.store 1 = none :=
  settings_ro_write_witness

/-- (C01, cache_coherent: NEO gasPerVoteCache, a partial cache that is empty after a restart) After any sequence
    of writes, candidate drops and restarts the reward-per-vote a node reads (cache first, then storage) is the
    stored one. -/
theorem gasPerVote_cache_coherent (ops : List GpvOp) (k : Nat) :
    gpvLookup (gpvRun { store := [], cache := [] } ops) k = (aget (gpvRun { store := [], cache := [] } ops).store k).getD 0 :=
  gpvLookup_stored _ (gpvRun_coherent ops _ (by intro k v h; simp [aget] at h)) k

/-- (C01, NEO reward-per-vote records, prefix 23) Whatever a block does to the records — the drops of its
    transactions, the cache-first accumulation `record += share / votes` of an epoch's first block (the op list
    `Reward.gpvOpsOfBlock` derives from the natives model, or any other) — the STORED records after it do not depend
    on which coherent gasPerVoteCache the node holds: the running node's partial cache or the empty cache of a node
    restarted at any earlier point; and both caches stay coherent. -/
theorem gasPerVote_records_cache_independent (ops : List GpvOp) (g₁ g₂ : GpvState)
    (h1 : GpvCoherent g₁) (h2 : GpvCoherent g₂) (hs : g₁.store = g₂.store) :
    (gpvRun g₁ ops).store = (gpvRun g₂ ops).store ∧ GpvCoherent (gpvRun g₁ ops) ∧ GpvCoherent (gpvRun g₂ ops) :=
  ⟨gpvRun_store_same ops g₁ g₂ h1 h2 hs, gpvRun_coherent ops g₁ h1, gpvRun_coherent ops g₂ h2⟩

/-- (C01, the CONSUMERS of the reward records) Over any block — transfers, votes, blockAccount / destroy revoking votes,
    recoverFund, candidate drops, the PostPersist accumulation — the stored reward-per-vote records AND the reward fields
    BalanceHeight / LastGasPerVote of every NEO account record (what claimable GAS is computed from) come out the same
    on two nodes that differ only in their (coherent) gasPerVoteCache, e.g. one of them restarted at any earlier point;
    the caches stay coherent; a restart keeps the relation. -/
theorem reward_fields_cache_independent (cfg : Natives.Cfg) (st : Natives.Storage) (c : Natives.Caches) (h : Nat) (txs : List Natives.Tx)
    (gas : Int) (s₁ s₂ : Reward.RState) (hs : Reward.RSim s₁ s₂) :
    Reward.RSim (Reward.rewardsOfBlock cfg st c h txs gas s₁) (Reward.rewardsOfBlock cfg st c h txs gas s₂) ∧
    Reward.RSim s₁ { s₂ with gpv := gpvStep s₂.gpv .restart } :=
  ⟨Reward.rewardsOfBlock_sim cfg st c h txs gas hs, Reward.restart_sim hs⟩

/-- (C01, restart transparency of the reward records and their consumers, NO hypothesis on the state) From the state
    right after genesis, two replicas fed the same blocks, each restarted before ANY subset of them (InitializeCache
    empties the gasPerVoteCache), end with the same stored reward-per-vote records and the same BalanceHeight /
    LastGasPerVote of every NEO account record, and coherent caches. The coherence assumption `RSim` of
    `reward_fields_cache_independent` is an invariant of the reachable states. -/
theorem reward_fields_restart_transparent (acc : List (Natives.Acct × (Nat × Int))) (l₁ l₂ : List (Bool × Reward.Blk))
    (hb : l₁.map (·.2) = l₂.map (·.2)) :
    Reward.RSim (Reward.rrun { gpv := { store := [], cache := [] }, acc := acc } l₁)
      (Reward.rrun { gpv := { store := [], cache := [] }, acc := acc } l₂) :=
  Reward.rrun_sim l₁ l₂ hb (Reward.genesis_sim acc)

-- non-vacuity: block 1 of the witness history (a transfer of 30M NEO from the genesis holder to K2's account): both
-- records get BalanceHeight 1; and the relation holds between a state and itself
example : (Reward.rewardsOfBlock Natives.wCfg (Natives.genesisStorage Natives.wCfg Natives.wHolder) (Natives.genesisCaches Natives.wCfg Natives.wHolder) 1
    [Natives.wTx [Natives.wHolder] (.neoTransfer Natives.wHolder (.key 2) 30000000)] 500000000
    { gpv := { store := [], cache := [] }, acc := [(Natives.wHolder, (0, 0))] }).acc = [(Natives.wHolder, (1, 0)), (.key 2, (1, 0))] := by decide

-- non-vacuity: committee [K1 (30M votes), K0 (10M)], one validator, 5 GAS per block: the first block of an epoch adds
-- 2·R/30M to K1's record and R/10M to K0's (R = voterReward); a replica restarted in between stores the same
example :
    let ops := Reward.rewardAux Natives.wCfg { st := Natives.genesisStorage Natives.wCfg Natives.wHolder, c := Natives.genesisCaches Natives.wCfg Natives.wHolder }
      (Reward.voterReward Natives.wCfg 500000000) 0 [(1, 30000000), (0, 10000000)]
    ops = [.add 1 1777777777, .add 0 2666666666] ∧
    (gpvRun { store := [], cache := [] } (ops ++ [.restart] ++ ops)).store = (gpvRun { store := [], cache := [] } (ops ++ ops)).store ∧
    aget (gpvRun { store := [], cache := [] } (ops ++ [.restart] ++ ops)).store 1 = some 3555555554 := by decide

/-- (C01, cache_coherent: NEO gasPerBlock records, FULL statement, with the guards of setGasPerBlock) From the
    genesis record on, after any history of blocks (any number of setGasPerBlock calls per block, passing or failing
    their range / witness checks, in halting or rolled-back transactions) and restarts, GetGASPerBlock answers for
    EVERY index exactly as a node restarted at that point would — although the append-only cache of the running
    node and the cache InitializeCache builds differ as lists when a block set the value twice. -/
theorem gasPerBlock_cache_coherent (v0 : Int) (steps : List (EComp.EStep Guarded.Env (Guarded.GCall Int))) (i : Nat) :
    let n := Guarded.gpb.erun { store := [(0, v0)], cache := [(0, v0)], height := 0 } steps
    gpbLookup n.cache i = gpbLookup (Guarded.gpb.init n.store) i := by
  intro n
  have hg := Guarded.gpb_erun_good steps { store := [(0, v0)], cache := [(0, v0)], height := 0 } (Guarded.gpb_genesis_good v0)
  rw [Guarded.gpbLookup_spec hg, Guarded.gpbLookup_spec (Guarded.gpb_init hg)]

/-- (C01, what GetGASPerBlock must compute on the append-only cache; seeded change C01-m8 replaced the backward scan by a
    binary search that returns the FIRST exact match) The lookup returns the LAST record with index ≤ i: a record
    appended with index ≤ i wins over everything appended before — in particular of two records of the same index
    (two setGasPerBlock in one block) the later one, the value storage keeps under that index —, a record appended
    with a greater index is invisible. -/
theorem gasPerBlock_lookup_is_last_record (l : List (Nat × Int)) (k : Nat) (a b : Int) (i : Nat) :
    (k ≤ i → gpbLookup (l ++ [(k, b)]) i = some b) ∧
    (i < k → gpbLookup (l ++ [(k, b)]) i = gpbLookup l i) ∧
    (k ≤ i → gpbLookup (l ++ [(k, a), (k, b)]) i = some b ∧ aget (aput (aput l k a) k b) k = some b) :=
  ⟨Guarded.gpbLookup_append_le l k b i, Guarded.gpbLookup_append_gt l k b i,
   fun h => ⟨by
     have : l ++ [(k, a), (k, b)] = (l ++ [(k, a)]) ++ [(k, b)] := by simp
     rw [this]; exact Guarded.gpbLookup_append_le _ k b i h, aget_aput_same _ _ _⟩⟩

example : gpbLookup [(0, 5), (3, 7), (3, 8)] 3 = some 8 ∧ gpbLookup [(0, 5), (3, 7), (3, 8)] 2 = some 5 := by decide

-- two sets in one block: cache and restarted cache differ as lists, every lookup agrees (instance of the theorem)
example :
    let e : Guarded.Env := { committee := [(0, 0)], validators := 1 }
    let n := Guarded.gpb.erun { store := [(0, 5)], cache := [(0, 5)], height := 0 }
      [.block e [{ ops := [⟨7, some (1, [0])⟩], halts := true }, { ops := [⟨8, some (1, [0])⟩], halts := true },
                 { ops := [⟨9, none⟩], halts := true }, { ops := [⟨-1, some (1, [0])⟩], halts := true }]]
    n.cache = [(0, 5), (2, 7), (2, 8)] ∧ Guarded.gpb.init n.store = [(0, 5), (2, 8)] ∧
    gpbLookup n.cache 1 = some 5 ∧ gpbLookup n.cache 2 = some 8 := by decide

example :
    let e : Guarded.Env := { committee := [(0, 0), (1, 0)], validators := 1 }
    let w : Guarded.Witness := some (2, [0, 1])
    (Guarded.gdesignate.erun { store := [], cache := Guarded.gdesignate.init [], height := 0 }
      [.block e [{ ops := [⟨⟨8, [2, 1]⟩, w⟩], halts := true }, { ops := [⟨⟨4, [3]⟩, w⟩], halts := false },
                 { ops := [⟨⟨8, [7]⟩, w⟩], halts := true }, { ops := [⟨⟨16, [7, 7]⟩, w⟩], halts := true },
                 { ops := [⟨⟨32, [7]⟩, none⟩], halts := true }, { ops := [⟨⟨5, [7]⟩, w⟩], halts := true }],
       .restart, .block e [{ ops := [⟨⟨8, [5]⟩, w⟩], halts := true }]]).cache
    = [(4, none), (8, some (3, [5])), (16, none), (32, none)] := by decide

end Components

namespace Natives
open Components

/-- (C01 for ALL modelled natives, guards included) Policy fees + blocked list + NEO governance, the guarded
    settings of Policy / Notary / Oracle / NEO, the whitelisted fees, guarded RoleManagement, ContractManagement (contract
    records WITH manifests, next id, inter-contract permission checks, guarded cache-less minimum deployment fee) and guarded NEO gasPerBlock side by side in one node, the guarded components checking committee witnesses against
    the committee the NEO cache of THAT node holds at each block: any two schedules of
    addBlock/flush/restart/gc/poolTx with the same blocks give the same observation (storage of every component,
    per-transaction results incl. the predicted halt/fault of every guarded call, every cache's answers incl.
    GetGASPerBlock for every index), for every committee configuration, protocol configuration and initial contents
    of the remaining component storages. -/
theorem all_natives_schedule_independent (cfg : Cfg) (P : Mgmt.Params) (hy : Mgmt.Hyp P) (holder : Acct) (mtb vubi mspb : Int)
    (w0 : List (WKey × Int)) (r0 : RoleStore)
    (σ₁ σ₂ : List (Step Unit GBlock Unit)) (hb : blocksOf σ₁ = blocksOf σ₂) :
    observe (allSysG cfg P) (run (allSysG cfg P) (allGenesisNodeG cfg P holder mtb vubi mspb w0 r0) σ₁) =
    observe (allSysG cfg P) (run (allSysG cfg P) (allGenesisNodeG cfg P holder mtb vubi mspb w0 r0) σ₂) := by
  have hg := allGenesisG_good cfg P holder mtb vubi mspb w0 r0
  have hs : stateView (allSysG cfg P) (allGenesisNodeG cfg P holder mtb vubi mspb w0 r0).read =
      (allGenesisNodeG cfg P holder mtb vubi mspb w0 r0).read := stateView_toSys _ _ _
  have h0 : Sim (allSysG cfg P) (UGood (AllGoodG cfg P)) (allGenesisNodeG cfg P holder mtb vubi mspb w0 r0)
      (allGenesisNodeG cfg P holder mtb vubi mspb w0 r0) :=
    ⟨rfl, rfl, rfl, by rw [hs]; exact hg, by rw [hs]; exact hg⟩
  exact observe_independent_of_schedule (allSysG cfg P) ((allUG_adequate cfg P hy).toAdequate allDefaultG) _ _ h0 σ₁ σ₂ hb

-- non-vacuity: a block with a passing and a failing guarded setter, a designation, two deployments (one with an
-- empty permission method list) and a call between them, two setGasPerBlock; a restart in the middle of one schedule
example :
    let w : Guarded.Witness := some (2, [0, 1])
    let blkA : GBlock :=
      ([], [{ ops := [⟨.attrFee 33 7, w⟩], halts := true }, { ops := [⟨.maxVUB 30, w⟩], halts := true }], [],
       [{ ops := [⟨⟨8, [1]⟩, w⟩], halts := true }],
       [{ ops := [.deploy 1 (Components.exMan [⟨.wildcard, some []⟩])], halts := true }, { ops := [.deploy 2 (Components.exMan [⟨.wildcard, none⟩])], halts := true },
        { ops := [.call 1 2 [0x70]], halts := true }],
       [{ ops := [⟨7, w⟩], halts := true }, { ops := [⟨8, w⟩], halts := true }],
       [{ ops := [⟨3, w⟩], halts := true }, { ops := [⟨-3, w⟩], halts := true }])
    observe (allSysG wCfg Components.exParams) (run (allSysG wCfg Components.exParams) (allGenesisNodeG wCfg Components.exParams wHolder 20 5 1000 [] [])
        [Step.addBlock blkA, Step.restart, Step.addBlock blkA, Step.flush]) =
    observe (allSysG wCfg Components.exParams) (run (allSysG wCfg Components.exParams) (allGenesisNodeG wCfg Components.exParams wHolder 20 5 1000 [] [])
        [Step.addBlock blkA, Step.addBlock blkA]) :=
  all_natives_schedule_independent wCfg Components.exParams (Mgmt.driverParams_hyp _) wHolder 20 5 1000 _ _ _ _ (by rfl)

-- ... and the predicted outcomes are the expected ones: attrFee halts, maxVUB 30 ≥ mtb 20 faults
example :
    let w : Guarded.Witness := some (2, [0, 1])
    let blkA : GBlock :=
      ([], [{ ops := [⟨.attrFee 33 7, w⟩], halts := true }, { ops := [⟨.maxVUB 30, w⟩], halts := true }], [], [], [], [], [])
    (run (allSysG wCfg Components.exParams) (allGenesisNodeG wCfg Components.exParams wHolder 20 5 1000 [] [])
        [Step.addBlock blkA]).last.2.1 = [true, false] := by decide

/-- (C01, why the dependent product is the right one) Wherever a transaction stands in a block, the committee its
    CheckCommittee uses is the environment's: NeoCache.committee after OnPersist; no transaction changes it. And the
    natives model's own committee-gated calls use the same check function. -/
theorem guarded_calls_see_block_committee (cfg : Cfg) (st : Storage) (c : Caches) (h : Nat) (pre : List Tx) (tx : Tx) :
    let v := viewOf (execTxs (onPersist cfg { st := st, c := c } h) pre).1
    v.committee = (Guarded.envOf cfg st c h).committee ∧
    checkCommittee v tx = Guarded.committeeOk (Guarded.envOf cfg st c h).committee tx.committee := by
  intro v
  have h1 := Guarded.committee_constant_in_block cfg st c h pre
  exact ⟨h1, by rw [Guarded.checkCommittee_eq]; show Guarded.committeeOk v.committee _ = _; rw [h1]⟩

example : (Guarded.envOf wCfg (genesisStorage wCfg wHolder) (genesisCaches wCfg wHolder) 1).committee = [(0, 0), (1, 0)] := by decide

end Natives

-- ---------------------------------------------------------------------------------------------
-- generated-fact obligation: iteration over Go maps

/-- why a `range` over a Go map cannot make two replicas disagree. -/
inductive MapRangeClass where
  | sortedAfter       -- the collected items are sorted before any order-sensitive use
  | commutativeFold   -- every iteration touches its own key / the fold is commutative
  | lookupOnly        -- membership / search, result independent of order
  | notConsensus      -- the result never reaches contract storage, state root or execution results
deriving DecidableEq, Repr

open MapRangeClass in
/-- hand-written classification, keyed by "file:function:ranged expression[#occurrence]". -/
def mapRangeClasses : List (String × MapRangeClass) := [
  -- subscription fan-out: channel sets of RPC subscribers
  ("pkg/core/blockchain.go:Blockchain.notificationDispatcher:blockFeed", notConsensus),
  ("pkg/core/blockchain.go:Blockchain.notificationDispatcher:executionFeed", notConsensus),
  ("pkg/core/blockchain.go:Blockchain.notificationDispatcher:executionFeed#2", notConsensus),
  ("pkg/core/blockchain.go:Blockchain.notificationDispatcher:executionFeed#3", notConsensus),
  ("pkg/core/blockchain.go:Blockchain.notificationDispatcher:headerFeed", notConsensus),
  ("pkg/core/blockchain.go:Blockchain.notificationDispatcher:notificationFeed", notConsensus),
  ("pkg/core/blockchain.go:Blockchain.notificationDispatcher:notificationFeed#2", notConsensus),
  ("pkg/core/blockchain.go:Blockchain.notificationDispatcher:notificationFeed#3", notConsensus),
  ("pkg/core/blockchain.go:Blockchain.notificationDispatcher:txFeed", notConsensus),
  -- storeBlock: per-account transfer info/log records, one DB key per account (auxiliary data, not contract storage)
  ("pkg/core/blockchain.go:Blockchain.storeBlock:transCache", commutativeFold),
  ("pkg/core/mempool/subscriptions.go:Pool.notificationDispatcher:txFeed", notConsensus),
  -- storage change set -> MPT batch: sorted by key right after the loop (batch.go:28)
  ("pkg/core/mpt/batch.go:MapToMPTBatch:m", sortedAfter),
  -- one store key per node hash
  ("pkg/core/mpt/trie.go:Trie.Flush:t.refcount", commutativeFold),
  -- RPC helpers returning a set as a slice (order is not defined; not part of any state)
  ("pkg/core/native/management.go:Management.GetNEP11Contracts:cache.nep11", notConsensus),
  ("pkg/core/native/management.go:Management.GetNEP17Contracts:cache.nep17", notConsensus),
  -- hand-over of new oracle requests to the node-local oracle service
  ("pkg/core/native/oracle.go:Oracle.updateCache:reqs", notConsensus),
  -- STTokenTransferInfo value: non-canonical encoding of a map (auxiliary DB data, never hashed into the state)
  ("pkg/core/state/tokens.go:TokenTransferInfo.EncodeBinary:bs.LastUpdated", notConsensus),
  -- batch writes, one key each
  ("pkg/core/storage/boltdb_store.go:BoltDBStore.PutChangeSet:m", commutativeFold),
  ("pkg/core/storage/leveldb_store.go:LevelDBStore.PutChangeSet:m", commutativeFold),
  -- SaveStorageBatch / LastBatch: diagnostic dump
  ("pkg/core/storage/memcached_store.go:MemCachedStore.GetBatch:m", notConsensus),
  -- persist, error path (fix 3a75687): the unflushed changes are moved back, one key per iteration, only if absent
  ("pkg/core/storage/memcached_store.go:MemCachedStore.persist:tempstore.mem", commutativeFold),
  ("pkg/core/storage/memcached_store.go:MemCachedStore.persist:tempstore.stor", commutativeFold),
  -- seek snapshots: sorted before merging (performSeek / MemoryStore.seek)
  ("pkg/core/storage/memcached_store.go:MemCachedStore.prepareSeekMemSnapshot:m", sortedAfter),
  ("pkg/core/storage/memory_store.go:MemoryStore.seek:m", sortedAfter),
  -- index shift of every entry behind the removed one
  ("pkg/vm/stackitem/item.go:Map.Drop:maps.All(i.dict)", commutativeFold)
]

def classOfRange (s : String) : Option MapRangeClass :=
  (mapRangeClasses.find? (·.1 == s)).map (·.2)

/-- (C01, generated-fact obligation) Every iteration over a Go map (range / maps.All|Keys|Values / sync.Map.Range)
    that the extractor finds in pkg/core/{native,interop,dao,mpt,stateroot,mempool,state,storage}, pkg/vm,
    pkg/vm/stackitem and pkg/core/blockchain.go is classified above; a new one breaks this `decide`. -/
theorem map_ranges_classified :
    Generated.MapRanges.table.all (fun e => (classOfRange e.2).isSome) = true := by decide

example : classOfRange "pkg/core/mpt/batch.go:MapToMPTBatch:m" = some MapRangeClass.sortedAfter := by decide
example : Generated.MapRanges.table.length ≥ 20 := by decide

-- ---------------------------------------------------------------------------------------------
-- generated-fact obligation: the layer discipline of native cache writes (C01∩C04)

/-- helpers that write to a cache object they are given; every call site is itself a row of the table
    (`call <helper>`) and must pass a copy-on-write or a fresh cache -/
def cacheWriteHelpers : List String := [
  "copyDesignationCache", "copyNeoCache", "copyNotaryCache", "copyOracleCache", "copyPolicyCache",
  "DesignationCache.Copy", "NeoCache.Copy", "NotaryCache.Copy", "OracleCache.Copy", "PolicyCache.Copy",
  "Policy.fillCacheFromDAO", "NEO.updateCache", "NEO.updateCachedNewEpochValues", "NEO.dropCandidateIfZero",
  "Designate.updateCachedRoleData", "updateContractCache"]

/-- helpers that only read the cache they are given (a read-only cache may be passed) -/
def cacheReadOnlyCalls : List String := ["call getCachedRoleData", "call getContract", "call isBlockedInternal"]

/-- reviewed exceptions: (function, target, source) -/
def cacheWriteExceptions : List (String × String × String) := [
  -- `cache` starts as GetROCache and is replaced by GetRWCache before the first write (`if !isCacheRW`), native_neo.go:541-545, 566-568
  ("NEO.PostPersist", "NeoCache.gasPerVoteCache", "ro+rw"),
  ("NEO.PostPersist", "call updateCachedNewEpochValues", "ro+rw"),
  -- `v` points into the cache passed as parameter (see cacheWriteHelpers)
  ("Designate.updateCachedRoleData", "roleData.addr", "field-of-cache+zero"),
  ("Designate.updateCachedRoleData", "roleData.height", "field-of-cache+zero"),
  ("Designate.updateCachedRoleData", "roleData.nodes", "field-of-cache+zero"),
  -- `var cache *ManagementCache`, assigned from GetRWCache before its first use
  ("Management.OnPersist", "call getContract", "rw+zero"),
  ("Management.OnPersist", "call updateContractCache", "rw+zero")]

def cacheWriteOk (r : String × String × String × String) : Bool :=
  r.2.2.2 == "rw" || r.2.2.2 == "new" ||
  (r.2.2.2 == "param" && cacheWriteHelpers.contains r.2.1) ||
  (r.2.2.2 == "ro" && cacheReadOnlyCalls.contains r.2.2.1) ||
  cacheWriteExceptions.contains (r.2.1, r.2.2.1, r.2.2.2)

set_option maxRecDepth 100000 in
/-- (C01∩C04, generated-fact obligation) Every write to a field of a native cache found by the extractor in
    pkg/core/native goes to a cache object obtained with GetRWCache (copy-on-write: a rolled-back transaction
    leaves no trace) or freshly allocated, or is a reviewed helper/exception; in particular no method writes
    through GetROCache — the assumption `noLeak` of the component theorems. -/
theorem cache_writes_disciplined : Generated.CacheWrites.table.all cacheWriteOk = true := by decide

-- a write through the read-only accessor would break it
example : cacheWriteOk ("pkg/core/native/policy.go", "Policy.setWhitelistFeeContract", "PolicyCache.whitelistedContracts", "ro") = false := by decide
set_option maxRecDepth 100000 in
example : Generated.CacheWrites.table.length ≥ 100 := by decide

-- ---------------------------------------------------------------------------------------------
-- generated-fact obligation: what a restarted node rebuilds of every native cache (InitializeCache)

/-- how a field of a native cache struct comes back after a restart. `rhs` is a list of token sets: for each of them
    some statement of the native's InitializeCache closure must set the field from an expression containing all its
    identifier tokens. -/
inductive CacheFieldClass where
  /-- rebuilt from contract storage; unless `key` is empty (the read then sits inside the callee named in `rhs`) the
      same closure must read storage with an expression containing the token `key` -/
  | restored (rhs : List (List String)) (key : String)
  /-- computed from restored fields, the configuration or a constant -/
  | derived (rhs : List (List String))
  /-- not rebuilt to its pre-restart value, with the reason why no contract-visible answer depends on that -/
  | transient (rhs : List (List String)) (why : String)
deriving DecidableEq, Repr

open CacheFieldClass in
/-- hand-written classification of every field the extractor lists (Generated/CacheRestore.lean `fields`) -/
def cacheFieldClasses : List (String × String × CacheFieldClass) := [
  -- RoleManagement: the four role records are re-read with index MaxUint32 = the record with the greatest activation
  -- height, whatever the restart height (designate_cache_coherent)
  ("DesignationCache", "oracles", restored [["cache", "oracles"]] ""),
  ("DesignationCache", "stateVals", restored [["cache", "stateVals"]] ""),
  ("DesignationCache", "neofsAlphabet", restored [["cache", "neofsAlphabet"]] ""),
  ("DesignationCache", "notaries", restored [["cache", "notaries"]] ""),
  ("roleData", "nodes", restored [["nodeKeys", "getDesignatedByRoleFromStorage", "MaxUint32"]] ""),
  ("roleData", "height", restored [["height", "getDesignatedByRoleFromStorage", "MaxUint32"]] ""),
  ("roleData", "addr", derived [["hashFromNodes", "nodeKeys"]]),
  ("DesignationCache", "rolesChangedFlag", transient [["true"]]
    "only read by notifyServicesInternal (PostPersist) to decide whether the node-local oracle / notary / state-root services are told about new nodes; no native method returns it"),
  -- ContractManagement: one pass over the contract records (management_cache_coherent)
  ("ManagementCache", "contracts", restored [["cs"]] "PrefixContract"),
  ("ManagementCache", "nep11", restored [["struct"]] "PrefixContract"),
  ("ManagementCache", "nep17", restored [["struct"]] "PrefixContract"),
  -- NEO (neo_cache_coherent, restart_cache_good; gasPerBlock_cache_coherent; settings_cache_coherent for registerPrice)
  ("NeoCache", "committee", restored [["cvs"]] "prefixCommittee"),
  ("NeoCache", "committeeHash", derived [["Hash160", "script"]]),
  ("NeoCache", "nextValidators", derived [["committee", "GetNumOfCNs", "blockHeight"]]),
  ("NeoCache", "newEpochCommittee", derived [["computeCommitteeMembers", "blockHeight"], ["Clone", "cache", "committee"]]),
  ("NeoCache", "newEpochCommitteeHash", derived [["Hash160", "script"], ["cache", "committeeHash"]]),
  ("NeoCache", "newEpochNextValidators", derived [["committee", "numOfCNs"], ["cache", "nextValidators", "Copy"]]),
  ("NeoCache", "gasPerBlock", restored [["getSortedGASRecordFromDAO"]] ""),
  ("NeoCache", "registerPrice", restored [["getIntWithKey", "prefixRegisterPrice"]] "prefixRegisterPrice"),
  ("NeoCache", "votesChanged", derived [["true"]]),   -- conservative: forces the recomputation at the epoch end (NeoGood.fresh)
  ("NeoCache", "gasPerVoteCache", transient [["make", "map"]]
    "partial cache, empty after a restart: getLatestGASPerVote falls back to storage, and every cached entry is the stored one (gasPerVote_cache_coherent)"),
  ("NotaryCache", "maxNotValidBeforeDelta", restored [["getIntWithKey", "maxNotValidBeforeDeltaKey"]] "maxNotValidBeforeDeltaKey"),
  ("OracleCache", "requestPrice", restored [["getIntWithKey", "prefixRequestPrice"]] "prefixRequestPrice"),
  -- Policy (policy_cache_coherent, settings_cache_coherent, whitelist_cache_coherent)
  ("PolicyCache", "execFeeFactor", restored [["getIntWithKey", "execFeeFactorKey"]] "execFeeFactorKey"),
  ("PolicyCache", "feePerByte", restored [["getIntWithKey", "feePerByteKey"]] "feePerByteKey"),
  ("PolicyCache", "storagePrice", restored [["getIntWithKey", "storagePriceKey"]] "storagePriceKey"),
  ("PolicyCache", "msPerBlock", restored [["getIntWithKey", "msPerBlockKey"]] "msPerBlockKey"),
  ("PolicyCache", "maxVUBIncrement", restored [["getIntWithKey", "maxVUBIncrementKey"]] "maxVUBIncrementKey"),
  ("PolicyCache", "maxTraceableBlocks", restored [["getIntWithKey", "MaxTraceableBlocksKey"]] "MaxTraceableBlocksKey"),
  ("PolicyCache", "attributeFee", restored [["value", "Int64"]] "attributeFeePrefix"),
  ("PolicyCache", "blockedAccounts", restored [["append", "blockedAccounts", "hash"]] "blockedAccountPrefix"),
  ("PolicyCache", "whitelistedContracts", restored [["append", "whitelistedContracts", "offset"]] "whitelistedFeeContractPrefix"),
  ("PolicyCache", "maxVerificationGas", derived [["defaultMaxVerificationGas"]]),   -- a constant, no setter
  ("PolicyCache", "faunInitialized", derived [["true"]])]   -- hardfork flag at the restart height

def classOfField (t f : String) : Option CacheFieldClass :=
  (cacheFieldClasses.find? fun c => c.1 == t && c.2.1 == f).map (·.2.2)

abbrev RestoreRow := String × String × String × String × String × List String

def restoreRows (t f : String) : List RestoreRow :=
  Generated.CacheRestore.restores.filter fun r => r.2.2.1 == t ++ "." ++ f

def mentionsAll (rows : List RestoreRow) (rhs : List (List String)) : Bool :=
  !rows.isEmpty && rhs.all fun toks => rows.any fun r => toks.all fun t => r.2.2.2.2.2.contains t

def cacheFieldOk (c : String × String × CacheFieldClass) : Bool :=
  let rows := restoreRows c.1 c.2.1
  match c.2.2 with
  | .restored rhs key =>
    mentionsAll rows rhs &&
      (key == "" || rows.any fun r => Generated.CacheRestore.reads.any fun q => q.1 == r.1 && q.2.2.2.2.2.contains key)
  | .derived rhs => mentionsAll rows rhs
  | .transient rhs _ => mentionsAll rows rhs

set_option maxRecDepth 100000 in
/-- (C01, generated-fact obligation) The classification covers EXACTLY the fields of the native cache structs found in
    pkg/core/native's current source: a new or renamed cache field breaks this `decide`. -/
theorem cache_fields_classified :
    (Generated.CacheRestore.fields.all fun f => (classOfField f.1 f.2.1).isSome) = true ∧
    (cacheFieldClasses.all fun c => Generated.CacheRestore.fields.any fun f => f.1 == c.1 && f.2.1 == c.2.1) = true := by
  decide

set_option maxRecDepth 100000 in
/-- (C01, generated-fact obligation) Every field is set inside the closure of its native's InitializeCache from an
    expression containing what the classification names (the storage key constant, the re-read call with MaxUint32, the
    recomputation), and for a restored field the closure reads storage under that key: an InitializeCache that stops
    restoring a field, restores it from another key, or — like seeded change C01-m4 — re-reads the role records as of
    the restart height, breaks this `decide`. -/
theorem cache_restore_matches_classification : cacheFieldClasses.all cacheFieldOk = true := by decide

set_option maxRecDepth 100000 in
/-- (C01∩C04, generated-fact obligation) Every map-typed cache field is cloned by Copy(): a private layer never
    shares a map (mutated in place by design) with the layer below. -/
theorem cache_maps_cloned_on_copy :
    (Generated.CacheRestore.fields.all fun f =>
      f.2.2.2 != "map" || Generated.CacheRestore.copies.any fun r =>
        r.2.2.1 == f.1 ++ "." ++ f.2.1 && r.2.2.2.2.2.contains "maps" && r.2.2.2.2.2.contains "Clone") = true := by
  decide

set_option maxRecDepth 100000 in
example : cacheFieldOk ("PolicyCache", "storagePrice", .restored [["getIntWithKey", "execFeeFactorKey"]] "storagePriceKey") = false := by decide
example : Generated.CacheRestore.fields.length ≥ 30 := by decide

end NeoModel.Ledger
