/-
C13 — VM instructions compute what the NeoVM specification says; execution is deterministic.

The model `NeoModel/Model/Vm` *is* the executable specification (unbounded `Int`, explicit 256-bit
range check at every integer construction). This file contains the property theorems only:
  1. the decoding table, operand sizes, limits and item type bytes of the model agree with the
     tables regenerated from the Go source on every run (`Generated/Opcodes.lean`);
  2. determinism: the terminal state (stack, HALT/FAULT, gas) is a function of script, arguments,
     gas limit and price table — it does not depend on how long `run` is iterated;
  3. per-family specification lemmas pinning the definitions to mathematics;
  4. `range_closed`: every integer the step function leaves on a stack, in a slot or in a
     compound object is within 256 bits.
  5. (Proofs/VmDispatch.lean, namespace `NeoModel.Vm.C13`) the dispatch of the specification against the
     instruction switch of vm.go regenerated with go/ast: every opcode handled exactly once, same set,
     same comparisons and limit constants;
  6. (Proofs/VmSpec*.lean, namespace `NeoModel.Vm.Spec`) the specification is the mathematical definition
     for EVERY operand item: arithmetic with FAULT exactly outside [-2^255, 2^255), shifts, POW, bitwise,
     MIN/MAX/WITHIN, comparisons, to-boolean, canonical integer encoding and CONVERT round trips, NUMEQUAL
     vs EQUAL, PACK/UNPACK/PACKMAP inverses, NEWARRAY_T defaults, the ordered-map and list laws of
     PICKITEM/SETITEM/APPEND/REMOVE/HASKEY/KEYS/VALUES, REVERSEITEMS involution, SUBSTR/LEFT/RIGHT/CAT/MEMCPY,
     deep copy of Struct and its budget, EQUAL on Structs = structural equality (Proofs/VmSpecStructEq.lean), results of creating instructions are fresh and
     share nothing with their operands, ByteStrings never change (Proofs/VmSpecFresh.lean);
  7. (Proofs/VmRefDiff.lean, Proofs/VmReachWalk.lean) the known finding refcount-cyclic-garbage as a theorem
     between the specification and the implementation's counter model of C12.
Helper lemmas: `Proofs/VmNum.lean`, `Proofs/VmEq.lean`.
-/
import NeoModel.Model.Vm
import NeoModel.Generated.Opcodes
import NeoModel.Proofs.VmNum
import NeoModel.Proofs.VmEq
import NeoModel.Proofs.VmDispatch
import NeoModel.Proofs.VmSpecArithB
import NeoModel.Proofs.VmSpecConvB
import NeoModel.Proofs.VmSpecClone
import NeoModel.Proofs.VmSpecStructEq
import NeoModel.Proofs.VmSpecStep
import NeoModel.Proofs.VmSpecFresh
import NeoModel.Proofs.VmSpecOrder
import NeoModel.Proofs.VmSpecEqBudget
import NeoModel.Proofs.VmReachWalk
open NeoModel NeoModel.Vm
namespace NeoModel.Vm.C13

/-- integer literal items for the examples (the range proof is computed). -/
def lit (n : Int) (h : inRange n = true := by decide) : Item := .int ⟨n, h⟩

/-! ## 1. regenerated facts -/

def entryOk (e : Nat × String × Nat × Nat × Nat) : Bool :=
  match Op.ofByte (UInt8.ofNat e.1) with
  | some op => op.name == e.2.1 && op.operand == (e.2.2.1, e.2.2.2.1)
  | none => false

set_option maxRecDepth 20000 in
/-- every opcode of pkg/vm/opcode (byte, mnemonic) decodes in the model to the instruction of that
name, with the operand layout measured on the real decoder. -/
theorem opcode_table_agrees : Generated.Opcodes.table.all entryOk = true := by decide

set_option maxRecDepth 20000 in
/-- a byte is a valid opcode in the model iff `opcode.IsValid` says so. -/
theorem opcode_set_agrees :
    (List.range 256).all (fun b => (Op.ofByte (UInt8.ofNat b)).isSome ==
      Generated.Opcodes.table.any (·.1 == b)) = true := by decide

/-- the limits used by the model are the constants of the Go source. -/
theorem limits_agree :
    maxStackSize = Generated.Opcodes.maxStackSize ∧
    maxInvocationStackSize = Generated.Opcodes.maxInvocationStackSize ∧
    maxTryNestingDepth = Generated.Opcodes.maxTryNestingDepth ∧
    maxItemSize = Generated.Opcodes.maxItemSize ∧
    8 * maxIntBytes = Generated.Opcodes.maxBigIntegerSizeBits ∧
    maxShift = Generated.Opcodes.maxBigIntegerSizeBits ∧
    maxComparableSize = Generated.Opcodes.maxComparableSize ∧
    maxComparableItems = Generated.Opcodes.maxComparableItems ∧
    maxClonableItems = Generated.Opcodes.maxClonableItems ∧
    maxKeySize = Generated.Opcodes.maxKeySize := by decide

set_option maxRecDepth 20000 in
/-- the stack item type bytes accepted by ISTYPE / CONVERT / NEWARRAY_T. -/
theorem item_types_agree :
    (List.range 256).all (fun t => typeValid (UInt8.ofNat t) ==
      Generated.Opcodes.itemTypes.any (·.1 == t)) = true ∧
    Generated.Opcodes.itemTypes =
      [(tAny.toNat, "Any"), (tPointer.toNat, "Pointer"), (tBoolean.toNat, "Boolean"),
       (tInteger.toNat, "Integer"), (tByteString.toNat, "ByteString"), (tBuffer.toNat, "Buffer"),
       (tArray.toNat, "Array"), (tStruct.toNat, "Struct"), (tMap.toNat, "Map"),
       (tInterop.toNat, "InteropInterface")] := by decide

/-! ## 2. determinism -/

theorem run_of_stopped (cfg : Cfg) (n : Nat) (v : Vm) (h : v.state ≠ .none) : run cfg n v = v := by
  cases n <;> simp [run, h]

theorem run_add (cfg : Cfg) : ∀ (n k : Nat) (v : Vm), run cfg (n + k) v = run cfg k (run cfg n v) := by
  intro n
  induction n with
  | zero => intro k v; simp [run]
  | succ n ih =>
    intro k v
    rw [show n + 1 + k = (n + k) + 1 from by omega]
    simp only [run]
    split
    · rename_i h; rw [run_of_stopped cfg k v h]
    · exact ih k _

/-- **deterministic.** Whenever two executions of the same loaded machine (same script, arguments,
gas limit, price table) have both stopped — no matter after how many steps — they are in the same
terminal state: same HALT/FAULT, same result stack and heap, same gas. -/
theorem deterministic (cfg : Cfg) (v : Vm) (n m : Nat)
    (hn : (run cfg n v).state ≠ .none) (hm : (run cfg m v).state ≠ .none) :
    run cfg n v = run cfg m v := by
  rcases Nat.le_total n m with h | h
  · obtain ⟨k, rfl⟩ := Nat.exists_eq_add_of_le h
    rw [run_add, run_of_stopped cfg k _ hn]
  · obtain ⟨k, rfl⟩ := Nat.exists_eq_add_of_le h
    rw [run_add, run_of_stopped cfg k _ hm]

/-- the observable outcome as a relation `script, args, gas ↦ result` is functional. -/
theorem outcome_functional (cfg : Cfg) (prog : Array UInt8) (args : List Item) (gas : Option Nat)
    (r1 r2 : Vm)
    (h1 : ∃ n, run cfg n (Vm.load prog args gas) = r1 ∧ r1.state ≠ .none)
    (h2 : ∃ n, run cfg n (Vm.load prog args gas) = r2 ∧ r2.state ≠ .none) :
    r1.state = r2.state ∧ r1.result = r2.result ∧ r1.gas = r2.gas ∧ r1 = r2 := by
  obtain ⟨n, rfl, hn⟩ := h1
  obtain ⟨m, rfl, hm⟩ := h2
  have := deterministic cfg _ n m hn hm
  rw [this]; exact ⟨rfl, rfl, rfl, rfl⟩

-- non-vacuity: PUSH1 PUSH2 ADD halts with [3] and gas 1+1+8 under the generated price table
example : let cfg : Cfg := { price := some fun b => Generated.Opcodes.prices.getD b.toNat 0 }
    let r := run cfg 10 (Vm.load #[0x11, 0x12, 0x9e] [] (some 10))
    r.state = .halt ∧ r.result = [lit 3] ∧ r.gas = 10 := by decide +kernel

/-! ## 3. integer instructions are what mathematics says -/

/-- **div_trunc.** `DIV` is the truncated quotient: `|a − b·q| < |b|` and the remainder is zero or has
the sign of the dividend. -/
theorem div_trunc (a b q : Int) (h : divT a b = some q) :
    b ≠ 0 ∧ (a - b * q).natAbs < b.natAbs ∧ (a - b * q = 0 ∨ (a - b * q).sign = a.sign) :=
  divT_spec a b q h

example : divT (-7) 2 = some (-3) ∧ divT 7 (-2) = some (-3) ∧ divT 1 0 = none := by decide

/-- **mod_sign.** `MOD` gives `r` with `|r| < |b|`, `b ∣ a − r`, and `r = 0` or `sign r = sign a`. -/
theorem mod_sign (a b r : Int) (h : modT a b = some r) :
    b ≠ 0 ∧ r.natAbs < b.natAbs ∧ (r = 0 ∨ r.sign = a.sign) ∧ b ∣ a - r :=
  modT_spec a b r h

example : modT (-7) 2 = some (-1) ∧ modT 7 (-2) = some 1 ∧ modT (-7) (-2) = some (-1) := by decide

/-- **shr_floor.** `SHR a n = ⌊a / 2ⁿ⌋`: the unique `q` with `q·2ⁿ ≤ a < (q+1)·2ⁿ`. -/
theorem shr_floor (a : Int) (n : Nat) :
    shr a n * (2:Int)^n ≤ a ∧ a < (shr a n + 1) * (2:Int)^n :=
  shr_spec a n

example : shr (-7) 1 = -4 ∧ shr (-1) 256 = -1 ∧ shr 7 1 = 3 := by decide

/-- **sqrt_spec.** `SQRT n = r` with `r² ≤ n < (r+1)²`; defined exactly for `n ≥ 0`. -/
theorem sqrt_spec (a r : Int) (h : sqrtI a = some r) :
    0 ≤ a ∧ 0 ≤ r ∧ r * r ≤ a ∧ a < (r + 1) * (r + 1) :=
  sqrtI_spec a r h

theorem sqrt_defined (a : Int) : (sqrtI a).isSome ↔ 0 ≤ a := by
  unfold sqrtI; split <;> simp <;> omega

example : sqrtI 17 = some 4 ∧ sqrtI 16 = some 4 ∧ sqrtI 15 = some 3 ∧ sqrtI (-1) = none := by decide

/-- **modpow_inv.** `MODPOW b (−1) m = r` is the modular inverse: `0 ≤ r < m` and `r·b ≡ 1 (mod m)`;
it is defined only for `b > 0`, `m ≥ 2`. -/
theorem modpow_inv (b m r : Int) (h : modPow b (-1) m = some r) :
    0 < b ∧ 2 ≤ m ∧ 0 ≤ r ∧ r < m ∧ (r * b) % m = 1 := by
  unfold modPow at h
  simp only [show ¬ ((-1 : Int) < -1) from by decide, if_false, if_true] at h
  split at h
  · simp at h
  · split at h
    · simp at h
    · rename_i hb hm
      exact ⟨by omega, by omega, modInv_sound b m r (by omega) h⟩

/-- … and it FAULTs for admissible operands only when no inverse exists. -/
theorem modpow_inv_fault (b m : Int) (hb : 0 < b) (hm : 2 ≤ m) (h : modPow b (-1) m = none) :
    ¬ ∃ r : Int, (r * b) % m = 1 := by
  unfold modPow at h
  simp only [show ¬ ((-1 : Int) < -1) from by decide, if_false, if_true,
    show ¬ b ≤ 0 from by omega, show ¬ m < 2 from by omega] at h
  exact modInv_complete b m hb hm h

example : modPow 19 (-1) 141 = some 52 ∧ modPow 4 (-1) 8 = none ∧ modPow 0 (-1) 7 = none ∧
    modPow 3 (-1) 1 = none := by decide

/-- **modpow.** For a non-negative exponent `MODPOW b e m = (bᵉ) tmod m` (truncated: the sign follows
`bᵉ`), defined exactly for `m ≠ 0`. The model never builds `bᵉ` (square-and-multiply). -/
theorem modpow_nonneg (b e m r : Int) (he : 0 ≤ e) (h : modPow b e m = some r) :
    m ≠ 0 ∧ r = Int.tmod (b ^ e.toNat) m := by
  unfold modPow at h
  simp only [show ¬ e < -1 from by omega, show ¬ e = -1 from by omega, if_false] at h
  split at h
  · simp at h
  · rename_i hm
    simp at h
    exact ⟨hm, by rw [← h, modPowNonneg_spec]⟩

example : modPow (-3) 3 5 = some (-2) ∧ modPow (-3) 2 5 = some 4 ∧ modPow 3 0 1 = some 0 ∧
    modPow 3 5 0 = none ∧ modPow 3 (-2) 7 = none := by decide

/-- `MODMUL` is the truncated remainder of the true product. -/
theorem modmul_spec (x1 x2 m r : Int) (h : modMul x1 x2 m = some r) :
    m ≠ 0 ∧ r = Int.tmod (x1 * x2) m := by
  unfold modMul at h; split at h <;> simp_all

/-- **pow_range.** `POW a e` is defined exactly for `0 ≤ e ≤ 256` and is the true power … -/
theorem pow_spec (a e r : Int) : powI a e = some r ↔ (0 ≤ e ∧ e ≤ 256 ∧ r = a ^ e.toNat) := by
  unfold powI
  split
  · constructor
    · intro h; simp at h
    · intro ⟨h1, h2, _⟩; omega
  · constructor
    · intro h; simp at h; exact ⟨by omega, by omega, h.symm⟩
    · intro ⟨_, _, h3⟩; simp [h3]

/-- … and as an instruction it pushes the power iff it fits 256 bits (`checkInt`), else FAULTs. -/
theorem pow_range (a e : Int256) (st : List Item) (h : Heap) (he : 0 ≤ e.val ∧ e.val ≤ 256) :
    execPure .pow [] (.int e :: .int a :: st) h =
      match checkInt (a.val ^ e.val.toNat) with
      | some r => .ok (.next (.int r :: st) h)
      | none => .error "integer out of range" := by
  have hp : powI a.val e.val = some (a.val ^ e.val.toNat) := (pow_spec _ _ _).mpr ⟨he.1, he.2, rfl⟩
  simp only [execPure, binop, popInt, popE, Item.toInteger, optE, bind, Except.bind, pure, Except.pure, hp,
    pushIntE, mkInt, next1]
  cases checkInt (a.val ^ e.val.toNat) <;> simp [Except.map]

/-- `checkInt` accepts exactly the 256-bit range and does not change the value. -/
theorem checkInt_spec (n : Int) :
    (∀ r, checkInt n = some r → r.val = n) ∧ ((checkInt n).isSome ↔ (-(2:Int)^255 ≤ n ∧ n < (2:Int)^255)) := by
  have hr : inRange n = true ↔ (-(2:Int)^255 ≤ n ∧ n < (2:Int)^255) := by simp [inRange]
  unfold checkInt
  by_cases h : inRange n = true
  · simp only [h, dite_true]
    exact ⟨by intro r hrr; cases hrr; rfl, by simpa using hr.mp h⟩
  · have hn : ¬ (-(2:Int)^255 ≤ n ∧ n < (2:Int)^255) := fun hc => h (hr.mpr hc)
    simp only [h]
    refine ⟨by intro r hrr; simp at hrr, ?_⟩
    constructor
    · intro hs; simp at hs
    · intro hc; exact absurd hc hn

example : execPure .pow [] [lit 255, lit 2] #[] = .error "integer out of range" ∧
    execPure .pow [] [lit 255, lit (-2)] #[] = .ok (.next [lit (-(2:Int)^255)] #[]) := by
  decide +kernel

/-- **convert_roundtrip.** Integer → ByteString → Integer is the identity, an in-range integer
takes at most 32 bytes, and any byte string of at most 32 bytes reads as an in-range integer (so
`CONVERT` between the two never produces an out-of-range value). -/
theorem convert_roundtrip (n : Int) : fromBytes (toBytes n) = n := fromBytes_toBytes n

theorem convert_int_bytes_item (n : Int256) (h : Heap) :
    (convert h (.int n) tByteString).bind (fun r => convert r.1 r.2 tInteger) = some (h, .int n) := by
  have hl := toBytes_length n.val n.property
  have hc : checkInt n.val = some n := by unfold checkInt; simp [n.property]
  simp [convert, Item.typeByte, tInteger, tByteString, Item.toBytes, Item.toInteger, maxIntBytes,
    fromBytes_toBytes, show ¬ 32 < (toBytes n.val).length from by omega, hc]

theorem bytes_to_int_inRange (bs : Bytes) (h : bs.length ≤ 32) : inRange (fromBytes bs) = true :=
  fromBytes_inRange bs h

example : toBytes (-129) = [0x7f, 0xff] ∧ toBytes 128 = [0x80, 0x00] ∧ toBytes 0 = [] ∧
    fromBytes [0xff, 0xff] = -1 ∧ fromBytes [0x00, 0x80] = -32768 := by decide

/-- ADD/MUL push the exact mathematical result iff it fits, else FAULT (the 256-bit check). -/
theorem add_range (a b : Int256) (st : List Item) (h : Heap) :
    execPure .add [] (.int b :: .int a :: st) h =
      match checkInt (a.val + b.val) with
      | some r => .ok (.next (.int r :: st) h)
      | none => .error "integer out of range" := by
  simp only [execPure, binop, popInt, popE, Item.toInteger, optE, bind, Except.bind, pure, Except.pure,
    pushIntE, mkInt, next1]
  cases checkInt (a.val + b.val) <;> simp [Except.map]

theorem mul_range (a b : Int256) (st : List Item) (h : Heap) :
    execPure .mul [] (.int b :: .int a :: st) h =
      match checkInt (a.val * b.val) with
      | some r => .ok (.next (.int r :: st) h)
      | none => .error "integer out of range" := by
  simp only [execPure, binop, popInt, popE, Item.toInteger, optE, bind, Except.bind, pure, Except.pure,
    pushIntE, mkInt, next1]
  cases checkInt (a.val * b.val) <;> simp [Except.map]

example : execPure .add [] [lit 1, lit ((2:Int)^255 - 1)] #[] = .error "integer out of range" := by decide +kernel
example : execPure .negate [] [lit (-(2:Int)^255)] #[] = .error "integer out of range" := by decide +kernel
example : execPure .sub [] [lit 1, lit (-(2:Int)^255 + 1)] #[] = .ok (.next [lit (-(2:Int)^255)] #[]) := by
  decide +kernel

/-- **bitwise.** AND / OR / XOR / INVERT act bit by bit on the 256-bit two's complement image
(`toU256 n = n mod 2^256`), and their results are always in range. -/
theorem bitwise_spec (a b : Int) :
    (inRange (andI a b) = true ∧ toU256 (andI a b) = toU256 a &&& toU256 b) ∧
    (inRange (orI a b) = true ∧ toU256 (orI a b) = toU256 a ||| toU256 b) ∧
    (inRange (xorI a b) = true ∧ toU256 (xorI a b) = toU256 a ^^^ toU256 b) ∧
    (inRange a = true → inRange (notI a) = true ∧ toU256 (notI a) = 2^256 - 1 - toU256 a) :=
  ⟨andI_spec a b, orI_spec a b, xorI_spec a b, notI_spec a⟩

example : andI (-1) 5 = 5 ∧ orI (-8) 5 = -3 ∧ xorI (-1) 5 = -6 ∧ notI (-(2:Int)^255) = (2:Int)^255 - 1 := by decide

/-! ## 3b. stack manipulation -/

/-- run a list of parameterless stack instructions in sequence on (stack, heap). -/
def execSeq : List Op → List Item → Heap → E Outcome
  | [], st, h => .ok (.next st h)
  | op :: ops, st, h =>
    match execPure op [] st h with
    | .ok (.next st' h') => execSeq ops st' h'
    | r => r

/-- **stack_laws.** The stack instructions are the permutations / copies their names say, for every
stack content: SWAP∘SWAP, ROT³, REVERSE3², REVERSE4² are the identity; TUCK = SWAP;OVER; NIP = SWAP;DROP;
DUP;DROP and OVER;DROP are the identity; REVERSE3 = SWAP;ROT;... (as stated). -/
theorem stack_laws (x y z w : Item) (st : List Item) (h : Heap) :
    execSeq [.swap, .swap] (x :: y :: st) h = .ok (.next (x :: y :: st) h) ∧
    execSeq [.rot, .rot, .rot] (x :: y :: z :: st) h = .ok (.next (x :: y :: z :: st) h) ∧
    execSeq [.reverse3, .reverse3] (x :: y :: z :: st) h = .ok (.next (x :: y :: z :: st) h) ∧
    execSeq [.reverse4, .reverse4] (x :: y :: z :: w :: st) h = .ok (.next (x :: y :: z :: w :: st) h) ∧
    execSeq [.tuck] (x :: y :: st) h = execSeq [.swap, .over] (x :: y :: st) h ∧
    execSeq [.nip] (x :: y :: st) h = execSeq [.swap, .drop] (x :: y :: st) h ∧
    execSeq [.dup, .drop] (x :: st) h = .ok (.next (x :: st) h) ∧
    execSeq [.over, .drop] (x :: y :: st) h = .ok (.next (x :: y :: st) h) ∧
    execSeq [.reverse3] (x :: y :: z :: st) h = .ok (.next (z :: y :: x :: st) h) ∧
    execSeq [.rot] (x :: y :: z :: st) h = .ok (.next (z :: x :: y :: st) h) ∧
    execSeq [.clear] (x :: st) h = .ok (.next [] h) := by
  have h3 : ¬ (st.length + 1 + 1 + 1 < 3) := by omega
  have h4 : ¬ (st.length + 1 + 1 + 1 + 1 < 4) := by omega
  simp [execSeq, execPure, popE, bind, Except.bind, h3, h4]

/-- indexed forms agree with the fixed ones: PICK 0 = DUP, PICK 1 = OVER, ROLL 1 = SWAP, ROLL 2 = ROT,
XDROP 0 = DROP, XDROP 1 = NIP, REVERSEN 3 = REVERSE3 (the index is an Integer item on top). -/
theorem stack_indexed_laws (x y z : Item) (st : List Item) (h : Heap) :
    execPure .pick [] (lit 0 :: x :: st) h = execPure .dup [] (x :: st) h ∧
    execPure .pick [] (lit 1 :: x :: y :: st) h = execPure .over [] (x :: y :: st) h ∧
    execPure .roll [] (lit 1 :: x :: y :: st) h = execPure .swap [] (x :: y :: st) h ∧
    execPure .roll [] (lit 2 :: x :: y :: z :: st) h = execPure .rot [] (x :: y :: z :: st) h ∧
    execPure .xdrop [] (lit 0 :: x :: st) h = execPure .drop [] (x :: st) h ∧
    execPure .xdrop [] (lit 1 :: x :: y :: st) h = execPure .nip [] (x :: y :: st) h ∧
    execPure .reverseN [] (lit 3 :: x :: y :: z :: st) h = execPure .reverse3 [] (x :: y :: z :: st) h := by
  simp [execPure, popIdx, popInt, popE, lit, Item.toInteger, toInt32, optE, bind, Except.bind, pure, Except.pure,
    listRemove]

/-! ## 4. EQUAL -/

/-- **equals_refl.** Every item equals itself; the one exception is a ByteString longer than
`MaxByteArrayComparableSize` = 65536, on which EQUAL FAULTs (`equals_refl_big`). -/
theorem equals_refl (h : Heap) (a : Item) (hb : ∀ b, a = .bytes b → b.length ≤ maxComparableSize) :
    itemEquals h a a = some true := itemEquals_refl h a hb

theorem equals_refl_big (h : Heap) (b : Bytes) (hb : b.length > maxComparableSize) :
    itemEquals h (.bytes b) (.bytes b) = none := itemEquals_refl_big h b hb

/-- **equals_symm.** Whenever `a EQUAL b` and `b EQUAL a` are both defined (neither direction FAULTs
on the size / item-count limits) they give the same verdict — including nested structs compared
field by field, compound types compared by reference, and values of different types (never equal). -/
theorem equals_symm (h : Heap) (a b : Item) (x y : Bool)
    (h1 : itemEquals h a b = some x) (h2 : itemEquals h b a = some y) : x = y :=
  itemEquals_symm h a b x y h1 h2

-- non-vacuity: two distinct structs with equal fields are equal, in both directions; the FAULT
-- is really one-sided (Integer vs. a 65537-byte string: false one way, FAULT the other way)
example : let h : Heap := #[.items [lit 1, .bytes [2]], .items [lit 1, .bytes [2]]]
    itemEquals h (.struct 0) (.struct 1) = some true ∧ itemEquals h (.struct 1) (.struct 0) = some true := by
  decide +kernel
example : itemEquals #[] (lit 1) (.bytes (List.replicate 65537 0)) = some false ∧
    itemEquals #[] (.bytes (List.replicate 65537 0)) (lit 1) = none := by decide +kernel
example : itemEquals #[] (lit 1) (.bool true) = some false ∧ itemEquals #[.items []] (.array 0) (.array 0) = some true := by
  decide +kernel

/-! ## 5. range_closed

Integer items have type `Int256 = { n : Int // inRange n }` (Model/Vm/Num.lean): the definition of
`step` only type-checks because every integer it constructs either comes out of `checkInt` (the
explicit 256-bit check, FAULT on failure) or is an existing item that is moved. The theorem below
spells the consequence out as an invariant over `step`/`run`: collect every integer that occurs
anywhere in the machine — evaluation stacks, static/local/argument slots, the pending exception,
the result stack, and inside every heap object (arrays, structs, map keys and values) — all of
them are within 256 bits, in every state reachable from any loaded script. -/

def itemInts : Item → List Int
  | .int n => [n.val]
  | _ => []

def objInts : HeapObj → List Int
  | .buf _ => []
  | .items xs => xs.flatMap itemInts
  | .entries kv => kv.flatMap fun e => itemInts e.1 ++ itemInts e.2

/-- all integers held by the machine. -/
def vmInts (v : Vm) : List Int :=
  (v.roots ++ v.uncaught.toList).flatMap itemInts ++ v.heap.toList.flatMap objInts

theorem itemInts_inRange (x : Item) : ∀ n ∈ itemInts x, inRange n = true := by
  cases x <;> simp [itemInts]
  case int m => exact m.property

theorem objInts_inRange (o : HeapObj) : ∀ n ∈ objInts o, inRange n = true := by
  cases o with
  | buf b => simp [objInts]
  | items xs =>
    intro n hn
    simp only [objInts, List.mem_flatMap] at hn
    obtain ⟨x, _, hx⟩ := hn
    exact itemInts_inRange x n hx
  | entries kv =>
    intro n hn
    simp only [objInts, List.mem_flatMap, List.mem_append] at hn
    obtain ⟨e, _, hx | hx⟩ := hn
    · exact itemInts_inRange _ n hx
    · exact itemInts_inRange _ n hx

theorem vmInts_inRange (v : Vm) : ∀ n ∈ vmInts v, inRange n = true := by
  intro n hn
  simp only [vmInts, List.mem_append, List.mem_flatMap] at hn
  rcases hn with ⟨x, _, hx⟩ | ⟨o, _, ho⟩
  · exact itemInts_inRange x n hx
  · exact objInts_inRange o n ho

/-- **range_closed.** Every integer in the machine after a step is within 256 bits. -/
theorem range_closed (cfg : Cfg) (v : Vm) :
    ∀ n ∈ vmInts (step cfg v), -(2:Int)^255 ≤ n ∧ n < (2:Int)^255 := by
  intro n hn
  have := vmInts_inRange _ n hn
  simpa [inRange] using this

/-- … hence in every state reachable by running any script on any (well-typed) arguments. -/
theorem range_closed_run (cfg : Cfg) (prog : Array UInt8) (args : List Item) (gas : Option Nat) (k : Nat) :
    ∀ n ∈ vmInts (run cfg k (Vm.load prog args gas)), -(2:Int)^255 ≤ n ∧ n < (2:Int)^255 := by
  intro n hn
  have := vmInts_inRange _ n hn
  simpa [inRange] using this

-- non-vacuity: the collected integers really are the ones on the stack and in the heap
-- (PUSH2 PUSH1 PACK: the array [1] … no: PUSH5 PUSH1 PACK leaves an array holding 5)
example : vmInts (run {} 10 (Vm.load #[0x15, 0x11, 0xc0, 0x17] [] none)) = [7, 5] := by decide +kernel
-- … and an instruction whose mathematical result leaves the range FAULTs instead of storing it
example : (run {} 10 (Vm.load #[0x9c] [lit ((2:Int)^255 - 1)] none)).state = .fault := by decide +kernel

/-! ## 6. where the implementation differs from the specification (known finding)

The specification counts *reachable* references against `MaxStackSize` (`reach`). The Go VM keeps a
running counter with per-object reference counts (ref_counter.go), which never releases a compound
object that refers to itself, so unreachable cyclic garbage stays counted. Witness (replayed on the
real VM by case "limits" of the corpus, oracle key `refcount-cyclic-garbage`): three times
`PUSHINT16 1000; NEWARRAY; DUP; DUP; APPEND; DROP`, then `PUSH1`. The specification HALTs with `[1]`
holding one reference; the real VM FAULTs at the third NEWARRAY with "stack is too big: 3003 vs 2048".

Stated precisely (`NeoModel.Vm.RefTie.spec_counter_differs_only_with_cyclic_garbage`, Proofs/VmReachWalk.lean,
over C12's counter model): in every state in which the counter invariant holds for the specification's
roots, refs = reach + (children held by counted-but-unreachable compounds); the two are equal whenever the
unreachable part of the heap is acyclic (reachable cycles are harmless), and if they differ an unreachable
counted compound with a child exists and the unreachable part of the heap contains a cycle. (C12 proves the
invariant for exactly the roots along every run whose heap stays acyclic; once a cycle has been built the
real VM may in addition leak references — C12's leaked list — so there the hypothesis holds for roots ++
leaked.) The harness applies this: a difference between the real counter and `reach` is attributed to the
known finding only if the specification's heap contains a cycle, garbage included (`cyc=1` of the extended
driver answer); with an acyclic heap any difference is reported as `refcount-acyclic` / `specdiff`. -/

def cyclicGarbageScript : Array UInt8 :=
  #[0x01, 0xe8, 0x03, 0xc3, 0x4a, 0x4a, 0xcf, 0x45,  0x01, 0xe8, 0x03, 0xc3, 0x4a, 0x4a, 0xcf, 0x45,
    0x01, 0xe8, 0x03, 0xc3, 0x4a, 0x4a, 0xcf, 0x45,  0x11]

theorem spec_halts_on_cyclic_garbage :
    let r := run {} 30 (Vm.load cyclicGarbageScript [] none)
    r.state = .halt ∧ r.result = [lit 1] ∧ reach r = 1 := by decide +kernel

end NeoModel.Vm.C13
