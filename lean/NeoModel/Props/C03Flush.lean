/-
C03 — a flush of the node's write cache, successful or FAILED, is invisible to the pair (state trie,
contract storage): whatever `MemCachedStore.persist` does in between (swap in fresh maps, write the batch
down, finish — or, when the lower `PutChangeSet` fails, move the unflushed items back: memcached_store.go
398-440, C09's `FlushStep`, constructor `fail` = `persist3Fail`), the store stack keeps standing for the same
ordered map, so the storage the node serves stays the one the state root of the height commits to and every
historic = live theorem keeps its hypothesis.
-/
import NeoModel.Props.C03Writes
import NeoModel.Props.C09
namespace NeoModel.StateCommit
open NeoModel.Store (Layer FlushStep)

/-- **C03.FL1**: any flush step anywhere in the stack — the failing one included — keeps the agreement
"store stack = contract storage after `bs`" and the well-formedness of the stack. -/
theorem flush_keeps_commit (bs : List (List Change)) (S S' : Store.Store) (hS : S.WF) (st : FlushStep S S')
    (sp : UInt8) (hagree : ∀ k, S.flatten (sp :: k) = storageAt bs k) :
    S'.WF ∧ ∀ k, S'.flatten (sp :: k) = storageAt bs k := by
  refine ⟨Store.flushStep_WF st hS, ?_⟩
  intro k
  rw [Store.flushStep_flatten st hS]
  exact hagree k

/-- **C03.FL2**: hence after a FAILED flush of the DAO's store (the batch `T` that could not be written is
put back under the fresh maps `F`) System.Storage.Find and System.Storage.Get still return, live, exactly what
a historic invocation against the state root of the height returns — for every own-write layer, id, prefix /
key and option word. -/
theorem failed_flush_historic_eq_live (bs : List (List Change)) (hok : ∀ b ∈ bs, DistinctKeys b)
    (F T : Layer) (ps : Store.Store) (hS : (Store.Store.cached F (.cached T ps)).WF)
    (sp : UInt8) (hsp : sp = 0x70 ∨ sp = 0x71)
    (hagree : ∀ k, (Store.Store.cached F (.cached T ps)).flatten (sp :: k) = storageAt bs k)
    (W : Layer) (hW : W.WF) (E : List Layer) (hE : ∀ L ∈ E, L.mem = [] ∧ L.stor = [])
    (id : Nat) (pfx key : Bytes) (opts : Int) :
    Find.findHistoric (trieAt mptMap bs) (W :: E) sp id pfx opts =
        Find.findLive (.cached W (Store.Store.cached F (.cached T ps)).persist3Fail) sp id pfx opts ∧
    Find.getSyscallHistoric (trieAt mptMap bs) (W :: E) sp id key =
        Find.getSyscallLive (.cached W (Store.Store.cached F (.cached T ps)).persist3Fail) sp id key := by
  obtain ⟨hwf, hag⟩ := flush_keeps_commit bs _ _ hS (FlushStep.fail F T ps) sp hagree
  exact ⟨Find.historic_find_eq_live bs hok _ hwf sp hsp hag W hW E hE id pfx opts,
    Find.historic_getSyscall_eq_live bs hok _ sp hsp hag W E hE id key⟩

-- non-vacuity: the unflushed batch T holds the contract storage item 01 ↦ 07 of contract 5 (a `stor` key),
-- a newer write 02 ↦ 08 sits in the fresh maps F; the lower write fails: both are still served
example :
    let S := Store.Store.cached { priv := false, mem := [], stor := [([0x70,5,0,0,0,2], some [8])] }
      (.cached { priv := false, mem := [], stor := [([0x70,5,0,0,0,1], some [7])] } (.memB [] []))
    S.persist3Fail.get [0x70,5,0,0,0,1] = some [7] ∧ S.persist3Fail.get [0x70,5,0,0,0,2] = some [8] ∧
      S.get [0x70,5,0,0,0,1] = some [7] := by
  decide

end NeoModel.StateCommit
