/-
C10, the hash / bytes caches of the nodes: where the code invalidates, the cached answers (StateRoot,
Hash(), the bytes GetProof returns) are the uncached ones; where it does not — the error path of
Delete — they are not. Property theorems only (model: Model/Mpt/Cache.lean, lemmas: Proofs/MptCache.lean).
-/
import NeoModel.Props.C10Lazy
import NeoModel.Proofs.MptCache
import NeoModel.Proofs.MptNibKeys
import NeoModel.Proofs.MptDecode
namespace NeoModel.C10
open NeoModel.Mpt

variable {H : Bytes → Bytes} {S : LStore}

/-- C10.17a: the cached operations are the operations of the lazy model once the caches are forgotten
(same node structure, same error) — for every store and every state of the caches. -/
theorem cache_erase (f : Nat) (n : CNode) (p : Path) (v : Val) :
    ((cput H S f n p v).1.erase, (cput H S f n p v).2) = lput S f n.erase p v ∧
    ((cdel H S f n p).1.erase, (cdel H S f n p).2) = ldel S f n.erase p :=
  ⟨cput_erase f n p v, cdel_erase f n p⟩

/-- C10.17b: with right caches, what is read from them is what a recomputation gives: `Bytes()` (the
items of GetProof), the reference a parent stores, and `StateRoot()`. -/
theorem cache_read (n : CNode) (h : COk H n) :
    cbytes n = lenc H n.erase ∧ cref H n = lchildRef H n.erase (lenc H n.erase) ∧
    croot H n = lrootHash H n.erase :=
  ⟨(cok_read n h).1, (cok_read n h).2, croot_ok n h⟩

/-- C10.17c: `Put` and a `Delete` that returns no error invalidate (and re-hash) every node they
re-link: started with right caches they end with right caches, so the state root answered from the
caches is the root of the structure (`lazy_put` / `lazy_delete`: of the represented trie). A failed
`Put` has touched neither a node nor a cache. -/
theorem cache_put (f : Nat) (n : CNode) (p : Path) (v : Val) (h : COk H n) :
    ((cput H S f n p v).2 = false → COk H (cput H S f n p v).1 ∧
      croot H (cput H S f n p v).1 = lrootHash H (lput S f n.erase p v).1) ∧
    ((cput H S f n p v).2 = true → (cput H S f n p v).1 = n) := by
  refine ⟨fun he => ?_, cput_err f n p v⟩
  have hok := cput_ok f n p v h he
  exact ⟨hok, by rw [croot_ok _ hok, ← cput_erase (H := H) f n p v]⟩

theorem cache_delete (f : Nat) (n : CNode) (p : Path) (h : COk H n) (he : (cdel H S f n p).2 = false) :
    COk H (cdel H S f n p).1 ∧ croot H (cdel H S f n p).1 = lrootHash H (ldel S f n.erase p).1 := by
  have hok := cdel_ok f n p h he
  exact ⟨hok, by rw [croot_ok _ hok, ← cdel_erase (H := H) f n p]⟩

/-! … and where the code does NOT invalidate: a `Delete` that fails at the sibling it cannot load
(trie.go:324-328) has replaced the child and re-hashed that branch, but the nodes above return at once
and keep the caches they were given on the way down. Witness (the state `exLS` / `exLStore` of
Props/C10Lazy.lean: {12 ↦ 07, 13 ↦ 08} flushed, reopened, the path to 12 loaded, the record of leaf 13
gone): after the failed `Delete(12)` the caches are wrong, `StateRoot()` still answers the OLD root,
while the structure (key 12 is gone) has another one. -/
example :
    (cdel toyH exLStore 20 (cfill toyH exLS.root) [1,2]).2 = true ∧
    croot toyH (cdel toyH exLStore 20 (cfill toyH exLS.root) [1,2]).1 = lrootHash toyH exLS.root ∧
    lrootHash toyH (cdel toyH exLStore 20 (cfill toyH exLS.root) [1,2]).1.erase ≠ lrootHash toyH exLS.root := by
  decide

/-- the caches of that state are not right any more (so `cache_read` does not apply to it). -/
example : ¬ COk toyH (cdel toyH exLStore 20 (cfill toyH exLS.root) [1,2]).1 := by
  intro h
  have := croot_ok _ h
  revert this
  decide

/-! ## 18. the stored extension key with a byte that is not a nibble -/

/-- C10.18: the one deviation of the model's node loading from the code's decoder, pinned down. For a
record the code's `getFromStore` decodes to a node `n` (not Hash / Empty), the model's load fails
exactly when some extension key inside `n` has a byte ≥ 16; no record Flush writes is like that
(`shallow H t` is what a written record decodes to); and on the read path the difference cannot be
observed: the code's `bytes.HasPrefix(path, key)` against a nibble path fails on such a key, so `Get`
/ `VerifyProof` answer "not found" there, as the lazy model does when a load fails. (The write paths on
such a CORRUPTED store index `Children[key[0]]` with a byte ≥ 16 — a panic or a write into the value
slot — and stay outside the model.) -/
theorem non_nibble_key_deviation (S : LStore) (h data : Bytes) (n : PNode) (hs : S h = some data)
    (hd : decodeTop data = some n) (hk : (match n with | .empty => false | .hash _ => false | _ => true) = true) :
    (resolve S h = none ↔ ¬ NibKeys n) ∧ (∀ (H : Bytes → Bytes) (t : Node), NibKeys (shallow H t)) ∧
    (∀ res k m p, (∃ b ∈ k, ¬ b.toNat < 16) → walkNode res (.ext k m) p = .notFound) :=
  ⟨resolve_deviation S h data n hs hd hk, nibKeys_shallow, fun res k m p hb => walkNode_non_nibble res k m p hb⟩

-- non-vacuity: a stored extension with key byte 0x1f decodes for the code, not for the model, and a
-- read through it finds nothing
example : (decodeTop [1, 1, 0x1f, 2, 1, 7]).isSome = true ∧ ((decodeTop [1, 1, 0x1f, 2, 1, 7]).bind ofP).isNone = true ∧
    walkNode (fun _ _ => .notFound) (.ext [0x1f] (.leaf [7])) [1, 15] = .notFound := by decide

/-! ## 19. a value longer than MaxValueLength: accepted by PutBatch, written by Flush, never loaded again

DEFECT of /repo found by this check and repaired by 7a41699 (known-findings.txt, `fixed:`
`batch-oversized-value-unreadable`): `Trie.Put` and the leaf decoder (leaf.go) refuse a value longer than
`MaxValueLength`, `Trie.PutBatch` — the path of every block — does not check, and native contracts write
items without the contract storage limit (a ContractManagement contract state reaches ~128 KB). With
`MaxValueLength` = 65539 such items were flushed and could never be loaded again; the repair raised it to
3 + stackitem.MaxSize + 1 = 131074, above everything a native can store (`native_value_reloads` below).
What remains true for ANY limit, because PutBatch still does not check — the model mirrors the code: `putBatch` / `lputBatch` take any value,
`lflush` writes the leaf, and … -/

/-- … the record of such a leaf does not decode (node.go → leaf.go:45 "leaf node value is too big"), so
over ANY store holding it a HashNode for it cannot be loaded: after Collapse / reopen / restart the key
is unreadable (Get: not found; GetProof, Find, Put, PutBatch through it: error), although the same
trie answered it while the leaf was in memory, and the root commits to it. The hypothesis `Bounded t`
of `lazy_flush` / `lazy_run` is exactly what excludes this; `lazy_run_limits` derives it from the size
limits on the operations, which PutBatch does not enforce. -/
theorem oversized_value_unloadable (H : Bytes → Bytes) (S : LStore) (v : Val) (tail : Bytes)
    (hbig : v.length > maxValueLength) (h64 : v.length < 2 ^ 64)
    (hs : S (H (encLeaf v)) = some (encLeaf v ++ tail)) :
    decodeTop (encLeaf v ++ tail) = none ∧ resolve S (H (encLeaf v)) = none ∧
    (∀ f p, lget S (f + 1) (.hash (H (encLeaf v))) p = none) ∧
    (∀ f p w, lput S (f + 1) (.hash (H (encLeaf v))) p w = (.hash (H (encLeaf v)), true)) := by
  have hd : decodeTop (encLeaf v ++ tail) = none := by
    have hr := read_varBytes v tail h64
    simp only [varBytes, List.append_assoc] at hr
    simp [decodeTop, maxPathLength, decode, encLeaf, varBytes, hr, hbig]
  have hres : resolve S (H (encLeaf v)) = none := by simp [resolve, hs, hd]
  exact ⟨hd, hres, fun f p => by simp [lget, hres], fun f p w => by simp [lput, hres]⟩

/-- … while PutBatch takes it: the batch code has no length check at all (a value of any length ends
up as a leaf of the new trie and is read back from memory). -/
theorem putBatch_accepts_any_value (t : Node) (p : Path) (v : Val) :
    lookup (putBatch t [(p, some v)]) p = some v := by
  rw [lookup_putBatch _ _ (by simp [DistinctKeys])]
  simp [applyBatch, List.lookup]

-- non-vacuity: every length from 65540 (the first one PutBatch takes and the decoder refuses) on
example (n : Nat) (h1 : n > maxValueLength) (h2 : n < 2 ^ 64) :
    resolve (fun _ => some (encLeaf (List.replicate n 0) ++ [])) (toyH (encLeaf (List.replicate n 0))) = none :=
  (oversized_value_unloadable toyH _ (List.replicate n 0) [] (by rw [List.length_replicate]; exact h1)
    (by rw [List.length_replicate]; exact h2) rfl).2.1

/-- what the repair 7a41699 achieves: `MaxValueLength = 3 + stackitem.MaxSize + 1 = 131074`, so every
value a native contract can store (a serialised stack item, ≤ stackitem.MaxSize = 131070 bytes) is
within the limit of the leaf decoder: its flushed record loads back as the leaf … -/
theorem native_value_reloads (H : Bytes → Bytes) (h32 : ∀ b, (H b).length = 32) (S : LStore) (v : Val)
    (hv : v.length ≤ 131070) (hs : S (H (encLeaf v)) = some (encLeaf v)) :
    v.length ≤ maxValueLength ∧ resolve S (H (encLeaf v)) = some (.leaf v) := by
  have hle : v.length ≤ maxValueLength := by unfold maxValueLength; omega
  exact ⟨hle, resolve_enc (H := H) h32 (.leaf v) (by simpa [Bounded] using hle) rfl hs⟩

/-- … and a whole trie whose values natives wrote through PutBatch, once flushed, is read back
completely after a reopen / restart (the case excluded before the repair is now inside `Bounded`). -/
theorem native_values_reopen (H : Bytes → Bytes) (h32 : ∀ b, (H b).length = 32) (S : LStore) (l : LNode) (t : Node)
    (hr : LRep H S l t) (hw : WF t)
    (hlim : ∀ p v, lookup t p = some v → p.length ≤ maxPathLength ∧ v.length ≤ 131070)
    (hcf : CollFree H (nodeEncs H t)) (F : Nat) (hF : 2 * height t + 3 ≤ F) (p : Path) :
    (lget (lflush H S l) F (lreopen H l) p).map (·.2) = lookup t p := by
  have hb : Bounded t := bounded_of_contents t hw (fun p v h => ⟨(hlim p v h).1, by
    have := (hlim p v h).2; unfold maxValueLength; omega⟩)
  obtain ⟨hst, hrep⟩ := lazy_flush h32 l t hr hb hcf
  have hro := (lazy_collapse l t 0 hrep hst).2
  obtain ⟨h1, h2⟩ := lazy_get F (lreopen H l) t p hro hF
  cases hl : lookup t p with
  | none => simp [h2 hl]
  | some v =>
    obtain ⟨l', hg, _⟩ := h1 v hl
    simp [hg]

end NeoModel.C10
