/-
C10, the hash / bytes caches of the nodes: where the code invalidates, the cached answers (StateRoot,
Hash(), the bytes GetProof returns) are the uncached ones; where it does not — the error path of
Delete — they are not. Property theorems only (model: Model/Mpt/Cache.lean, lemmas: Proofs/MptCache.lean).
-/
import NeoModel.Props.C10Lazy
import NeoModel.Proofs.MptCache
import NeoModel.Proofs.MptNibKeys
namespace NeoModel.C10
open NeoModel.Mpt

variable {H : Bytes → Bytes} {S : LStore}

/-- C10.17a: the cached operations are the operations of the lazy model once the caches are forgotten
(same node structure, same error) — for every store and every state of the caches. -/
theorem cache_erase (f : Nat) (n : CNode) (p : Path) (v : Val) :
    ((cput H S f n p v).1.erase, (cput H S f n p v).2) = lput S f n.erase p v ∧
    ((cdel H S f n p).1.erase, (cdel H S f n p).2) = ldel S f n.erase p :=
  ⟨cput_erase f n p v, cdel_erase f n p⟩

/-- C10.17b: with right caches, what is read from them is what a recomputation gives: `Bytes()` (the
items of GetProof), the reference a parent stores, and `StateRoot()`. -/
theorem cache_read (n : CNode) (h : COk H n) :
    cbytes n = lenc H n.erase ∧ cref H n = lchildRef H n.erase (lenc H n.erase) ∧
    croot H n = lrootHash H n.erase :=
  ⟨(cok_read n h).1, (cok_read n h).2, croot_ok n h⟩

/-- C10.17c: `Put` and a `Delete` that returns no error invalidate (and re-hash) every node they
re-link: started with right caches they end with right caches, so the state root answered from the
caches is the root of the structure (`lazy_put` / `lazy_delete`: of the represented trie). A failed
`Put` has touched neither a node nor a cache. -/
theorem cache_put (f : Nat) (n : CNode) (p : Path) (v : Val) (h : COk H n) :
    ((cput H S f n p v).2 = false → COk H (cput H S f n p v).1 ∧
      croot H (cput H S f n p v).1 = lrootHash H (lput S f n.erase p v).1) ∧
    ((cput H S f n p v).2 = true → (cput H S f n p v).1 = n) := by
  refine ⟨fun he => ?_, cput_err f n p v⟩
  have hok := cput_ok f n p v h he
  exact ⟨hok, by rw [croot_ok _ hok, ← cput_erase (H := H) f n p v]⟩

theorem cache_delete (f : Nat) (n : CNode) (p : Path) (h : COk H n) (he : (cdel H S f n p).2 = false) :
    COk H (cdel H S f n p).1 ∧ croot H (cdel H S f n p).1 = lrootHash H (ldel S f n.erase p).1 := by
  have hok := cdel_ok f n p h he
  exact ⟨hok, by rw [croot_ok _ hok, ← cdel_erase (H := H) f n p]⟩

/-! … and where the code does NOT invalidate: a `Delete` that fails at the sibling it cannot load
(trie.go:324-328) has replaced the child and re-hashed that branch, but the nodes above return at once
and keep the caches they were given on the way down. Witness (the state `exLS` / `exLStore` of
Props/C10Lazy.lean: {12 ↦ 07, 13 ↦ 08} flushed, reopened, the path to 12 loaded, the record of leaf 13
gone): after the failed `Delete(12)` the caches are wrong, `StateRoot()` still answers the OLD root,
while the structure (key 12 is gone) has another one. -/
example :
    (cdel toyH exLStore 20 (cfill toyH exLS.root) [1,2]).2 = true ∧
    croot toyH (cdel toyH exLStore 20 (cfill toyH exLS.root) [1,2]).1 = lrootHash toyH exLS.root ∧
    lrootHash toyH (cdel toyH exLStore 20 (cfill toyH exLS.root) [1,2]).1.erase ≠ lrootHash toyH exLS.root := by
  decide

/-- the caches of that state are not right any more (so `cache_read` does not apply to it). -/
example : ¬ COk toyH (cdel toyH exLStore 20 (cfill toyH exLS.root) [1,2]).1 := by
  intro h
  have := croot_ok _ h
  revert this
  decide

/-! ## 18. the stored extension key with a byte that is not a nibble -/

/-- C10.18: the one deviation of the model's node loading from the code's decoder, pinned down. For a
record the code's `getFromStore` decodes to a node `n` (not Hash / Empty), the model's load fails
exactly when some extension key inside `n` has a byte ≥ 16; no record Flush writes is like that
(`shallow H t` is what a written record decodes to); and on the read path the difference cannot be
observed: the code's `bytes.HasPrefix(path, key)` against a nibble path fails on such a key, so `Get`
/ `VerifyProof` answer "not found" there, as the lazy model does when a load fails. (The write paths on
such a CORRUPTED store index `Children[key[0]]` with a byte ≥ 16 — a panic or a write into the value
slot — and stay outside the model.) -/
theorem non_nibble_key_deviation (S : LStore) (h data : Bytes) (n : PNode) (hs : S h = some data)
    (hd : decodeTop data = some n) (hk : (match n with | .empty => false | .hash _ => false | _ => true) = true) :
    (resolve S h = none ↔ ¬ NibKeys n) ∧ (∀ (H : Bytes → Bytes) (t : Node), NibKeys (shallow H t)) ∧
    (∀ res k m p, (∃ b ∈ k, ¬ b.toNat < 16) → walkNode res (.ext k m) p = .notFound) :=
  ⟨resolve_deviation S h data n hs hd hk, nibKeys_shallow, fun res k m p hb => walkNode_non_nibble res k m p hb⟩

-- non-vacuity: a stored extension with key byte 0x1f decodes for the code, not for the model, and a
-- read through it finds nothing
example : (decodeTop [1, 1, 0x1f, 2, 1, 7]).isSome = true ∧ ((decodeTop [1, 1, 0x1f, 2, 1, 7]).bind ofP).isNone = true ∧
    walkNode (fun _ _ => .notFound) (.ext [0x1f] (.leaf [7])) [1, 15] = .notFound := by decide

end NeoModel.C10
