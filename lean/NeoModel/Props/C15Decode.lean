/-
C15 — the decoders of rules and conditions, fully (stack items, JSON values, binary). Property theorems only
(models: Model/Witness/Items.lean, Model/Witness/Json.lean, Model/Witness/Encode.lean; helper proofs:
Proofs/WitnessItems.lean, Proofs/WitnessJson.lean, Proofs/WitnessEncode.lean).

Props/C15.lean had, for the two decoders of tree-shaped input, only their nesting / width limits (`admits`).
Here the decoders themselves are modelled — every shape check on items of any type, every way encoding/json
stores a JSON value into the auxiliary struct — and for each: (1) whatever input is accepted, of whatever
shape, the result respects MaxConditionNesting and the 1..16 operand limit; (2) decode ∘ encode = id on every
tree within the limits. The same for rules, and for signers in the binary format.
-/
import NeoModel.Proofs.WitnessItems
import NeoModel.Proofs.WitnessJson
import NeoModel.Proofs.WitnessEncode
import NeoModel.Proofs.WitnessSignerItem
import NeoModel.Proofs.WitnessScopeJson
import NeoModel.Generated.WitnessConsts
namespace NeoModel.Witness

/-! ### Stack items (WitnessRule.FromStackItem, condFromStackItem) -/

/-- C15-dec-si-1. For every stack item (any item types, lengths, nesting, Struct or Array) and any key decoder:
what `condFromStackItem` accepts has depth ≤ MaxConditionNesting and every And/Or has 1..16 operands. -/
theorem stackitem_decoder_bounded (dk : Bytes → Option Key) (it : Item) (c : Cond)
    (h : condFromItem dk maxConditionNesting it = some c) :
    c.depth ≤ maxConditionNesting ∧ c.widthOk = true ∧ admits c maxConditionNesting = true := by
  have := condFromItem_bounded dk _ it c h
  exact ⟨this.1, this.2, (admits_iff c _).mpr this⟩

/-- C15-dec-si-2. `condFromStackItem (ToStackItem c) = c` for every tree within the limits (hashes of 20
bytes, a key codec that round-trips): the decoder rejects no tree the limits allow. -/
theorem stackitem_decoder_complete (dk : Bytes → Option Key) (ek : Key → Bytes) (hk : ∀ k, dk (ek k) = some k)
    (c : Cond) (ha : admits c maxConditionNesting = true) (hh : c.hashesOk) :
    condFromItem dk maxConditionNesting (condToItem ek c) = some c := by
  have := (admits_iff c _).mp ha
  exact condFromItem_toItem dk ek hk c _ this.1 this.2 hh

/-- C15-dec-si-3. Rules: `FromStackItem` accepts only Deny / Allow with a condition within the limits, and
inverts `ToStackItem` on every such rule. -/
theorem stackitem_rule_roundtrip (dk : Bytes → Option Key) (ek : Key → Bytes) (hk : ∀ k, dk (ek k) = some k) :
    (∀ it r, ruleFromItem dk it = some r → r.wellFormed) ∧
    (∀ r : Rule, r.wellFormed → r.cond.hashesOk → ruleFromItem dk (ruleToItem ek r) = some r) :=
  ⟨ruleFromItem_wellformed dk, ruleFromItem_toItem dk ek hk⟩

-- shapes the decoder accepts beyond what ToStackItem produces: a Struct, the type as a ByteString or a
-- Boolean, a boolean payload given as an Integer; and shapes it rejects
example : condFromItem (fun _ => none) 3 (.struct [.bytes [0x01], .array [.bool false, .int 7]])
    = some (.not (.boolean true)) := by rfl
example : condFromItem (fun _ => none) 3 (.array [.int 0x20, .null]) = none := by decide          -- CalledByEntry takes no payload
example : condFromItem (fun _ => none) 3 (.array [.buffer [0x20]]) = none := by decide             -- a Buffer is no integer
example : condFromItem (fun _ => none) 3 (.array [.int 2, .array []]) = none := by decide          -- empty And
example : condFromItem (fun _ => none) 3
    (.array [.int 1, .array [.int 1, .array [.int 1, .array [.int 0, .bool true]]]]) = none := by decide   -- depth 4
example : condFromItem (fun _ => none) 3 (.array [.int 0x18, .int 5]) = none := by decide          -- 1 byte is no hash

/-- C15-dec-si-4. Signers as stack items: `Signer.FromStackItem` accepts, for any item, only a scope byte
(any value — unlike `DecodeBinary` it does not validate it), at most 16 contracts / groups / rules and
well-formed rules; and it inverts `ToStackItem` on every such signer with 20-byte hashes. -/
theorem stackitem_signer_roundtrip (dk : Bytes → Option Key) (ek : Key → Bytes) (hk : ∀ k, dk (ek k) = some k) :
    (∀ it s, signerFromItem dk it = some s →
      s.scopes ≤ 255 ∧ s.allowedContracts.length ≤ maxSubitems ∧ s.allowedGroups.length ≤ maxSubitems ∧
      s.rules.length ≤ maxSubitems ∧ ∀ r ∈ s.rules, r.wellFormed) ∧
    (∀ s : Signer, s.scopes ≤ 255 → s.hashesOk → s.allowedContracts.length ≤ maxSubitems →
      s.allowedGroups.length ≤ maxSubitems → s.rules.length ≤ maxSubitems → (∀ r ∈ s.rules, r.wellFormed) →
      signerFromItem dk (signerToItem ek s) = some s) :=
  ⟨signerFromItem_spec dk, signerFromItem_toItem dk ek hk⟩

-- the scope byte is not validated on this path: Global together with CalledByEntry is accepted (the wire
-- decoder refuses it, `signer_decoder_wellformed`), 0x100 is not a byte
example : (signerFromItem (fun _ => none) (.array [.bytes (beBytes 20 0xA1), .int 0x81, .array [], .array [], .array []])).map
    (·.scopes) = some 0x81 := by rfl
example : signerFromItem (fun _ => none) (.array [.bytes (beBytes 20 0xA1), .int 0x100, .array [], .array [], .array []])
    = none := by rfl

/-! ### JSON (UnmarshalConditionJSON, WitnessRule.UnmarshalJSON) on JSON values -/

/-- C15-dec-json-1. For every JSON value (members missing, repeated, null, of the wrong kind, keys in any
case, unknown members): what `UnmarshalConditionJSON` accepts has depth ≤ MaxConditionNesting and every
And/Or has 1..16 operands. -/
theorem json_decoder_bounded (dk : Bytes → Option Key) (v : J) (c : Cond)
    (h : condFromJ dk maxConditionNesting v = some c) :
    c.depth ≤ maxConditionNesting ∧ c.widthOk = true ∧ admits c maxConditionNesting = true := by
  have := condFromJ_bounded dk _ v c h
  exact ⟨this.1, this.2, (admits_iff c _).mpr this⟩

/-- C15-dec-json-2. `UnmarshalConditionJSON (MarshalJSON c) = c` for every tree within the limits. -/
theorem json_decoder_complete (dk : Bytes → Option Key) (ek : Key → Bytes) (hk : ∀ k, dk (ek k) = some k)
    (c : Cond) (ha : admits c maxConditionNesting = true) (hh : c.hashesOk) :
    condFromJ dk maxConditionNesting (condToJ ek c) = some c := by
  have := (admits_iff c _).mp ha
  exact condFromJ_toJ dk ek hk c _ this.1 this.2 hh

/-- C15-dec-json-3. Rules in JSON: only "Deny" / "Allow" with a condition within the limits; round trip. -/
theorem json_rule_roundtrip (dk : Bytes → Option Key) (ek : Key → Bytes) (hk : ∀ k, dk (ek k) = some k) :
    (∀ v r, ruleFromJ dk v = some r → r.wellFormed) ∧
    (∀ r : Rule, r.wellFormed → r.cond.hashesOk → ruleFromJ dk (ruleToJ ek r) = some r) :=
  ⟨ruleFromJ_wellformed dk, ruleFromJ_toJ dk ek hk⟩

/-- the JSON names of the condition types and of the actions are those of the linked code. -/
theorem json_names_regenerated :
    condTypeNames = Generated.WitnessConsts.condTypeNames.map String.toList ∧
    [nDeny, nAllow] = Generated.WitnessConsts.actionNames.map String.toList := by decide

-- quirks of the JSON decoder the model has as the code has them: a null expression is Boolean(false), keys
-- match case-insensitively, a later duplicate wins, a null type keeps the earlier one; and rejections
example : condFromJ (fun _ => none) 3 (.obj [("type".toList, .str nBoolean), ("expression".toList, .null)])
    = some (.boolean false) := by rfl
example : condFromJ (fun _ => none) 3 (.obj [("TYPE".toList, .str nCalledByEntry), ("junk".toList, .num 1)])
    = some .calledByEntry := by rfl
example : condFromJ (fun _ => none) 3 (.obj [("type".toList, .str nNot), ("type".toList, .str nCalledByEntry),
    ("type".toList, .null)]) = some .calledByEntry := by rfl
example : condFromJ (fun _ => none) 3 (.obj [("type".toList, .str nNot)]) = none := by decide            -- no expression
example : condFromJ (fun _ => none) 3 (.obj [("type".toList, .str nAnd), ("expressions".toList, .null)]) = none := by
  decide
example : condFromJ (fun _ => none) 3 (.obj [("type".toList, .str nScriptHash), ("hash".toList, .num 5)]) = none := by
  decide
example : condFromJ (fun _ => none) 3 (.obj [("type".toList, .num 5)]) = none := by decide
example : condFromJ (fun _ => none) 3 (.obj [("type".toList, .str nScriptHash),
    ("hash".toList, .str ("0xa1" ++ String.join (List.replicate 19 "00")).toList)])
    = some (.scriptHash 0xa1) := by rfl   -- the JSON form of a hash is little endian

/-- C15-dec-json-4. The scope of a signer on the JSON path (`ScopesFromString`, a comma-separated list of
names in any order, with blanks and repetitions) admits exactly the scope bytes of the binary path: every
accepted string denotes a byte `validScopes` accepts (no unknown bit — there is no name for one — and Global
only alone), and every such byte is written by `scopesToString` and read back. -/
theorem json_scopes_same_as_binary :
    (∀ s r, scopesFromString s = some r → validScopes r = true ∧ r < 256) ∧
    (∀ b : Fin 256, validScopes b.val = true → scopesFromString (scopesToString b.val) = some b.val) :=
  ⟨scopesFromString_valid, scopesFromString_toString⟩

/-- the scope names are those of the linked code. -/
theorem scope_names_regenerated :
    [snNone, snCalledByEntry, snCustomContracts, snCustomGroups, snRules, snGlobal]
      = Generated.WitnessConsts.scopeNames.map String.toList := by decide

example : scopesFromString " CustomGroups,CalledByEntry , CalledByEntry".toList = some 0x21 := by decide
example : scopesFromString "Global, CalledByEntry".toList = none := by decide
example : scopesFromString "CalledByEntry,".toList = none := by decide          -- the empty name
example : scopesFromString "None".toList = some 0 := by decide

/-! ### Binary (DecodeBinary ∘ EncodeBinary) for rules and signers -/

/-- C15-dec-bin-1. `WitnessRule.DecodeBinary (EncodeBinary r ++ rest) = (r, rest)` for every well-formed rule. -/
theorem binary_rule_roundtrip (dk : Bytes → Option (Key × Bytes)) (ek : Key → Bytes)
    (hk : ∀ k r, dk (ek k ++ r) = some (k, r)) (x : Rule) (r : Bytes) (hw : x.wellFormed) (hh : x.cond.hashesOk) :
    decodeRule dk (encodeRule ek x ++ r) = some (x, r) :=
  decodeRule_encode dk ek hk x r hw hh

/-- C15-dec-bin-2. `Signer.DecodeBinary (EncodeBinary s ++ rest) = (s, rest)` for every signer the wire format
admits (`signer_decoder_wellformed` is the converse: nothing else is ever decoded). -/
theorem binary_signer_roundtrip (dk : Bytes → Option (Key × Bytes)) (ek : Key → Bytes)
    (hk : ∀ k r, dk (ek k ++ r) = some (k, r)) (s : Signer) (r : Bytes) (hw : s.wellFormed) (hh : s.hashesOk)
    (hb : s.scopes < 256) : decodeSigner dk (encodeSigner ek s ++ r) = some (s, r) :=
  decodeSigner_encode dk ek hk s r hw hh hb

def exWireSigner : Signer :=
  { account := 0xA1, scopes := 0x51, allowedContracts := [7, 8], allowedGroups := [],
    rules := [⟨1, .or [.not (.group 2), .calledByEntry]⟩] }

example : decodeSigner dkU (encodeSigner ekU exWireSigner ++ [9]) = some (exWireSigner, [9]) :=
  binary_signer_roundtrip dkU ekU dkU_ekU _ _
    ⟨by decide, by decide, by decide, by decide,
      by intro r hr; simp [exWireSigner] at hr; subst hr; exact ⟨Or.inr rfl, by decide, by decide⟩,
      by intro h; exact absurd h (by decide), by intro _; rfl, by intro h; exact absurd h (by decide)⟩
    ⟨by decide, by intro h hm; simp [exWireSigner] at hm; rcases hm with rfl | rfl <;> decide,
      by intro r hr; simp [exWireSigner] at hr; subst hr; simp [Cond.hashesOk, hashesOkList]⟩
    (by decide)

end NeoModel.Witness
