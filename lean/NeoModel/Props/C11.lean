/-
C11 — trie node storage stays exact under reference counting and garbage collection.
Property theorems only (model: Model/MptRc.lean on top of the C10 trie model Model/Mpt.lean;
helper lemmas: Proofs/MptRc*.lean).

Vocabulary (all defined in the model / proof files, restated here in words):
  occ P t            number of positions of the unfolded trie `t` whose sub-trie satisfies `P`
  occH H t h         … whose sub-trie has hash `h`  (= the number of times node `h` occurs in `t`)
  putEv/deleteEv/putBatchTopEv    the addRef (+1) / removeRef (-1) calls the code makes, in order
  net P evs          the sum of those ±1 over the nodes satisfying `P`
  Store, Cell        DataMPT records: hash ↦ `rc bytes active num` (count, or deactivation height)
  runOps             a history: committed blocks (lists of Put/Delete/PutBatch), GC(g), restarts
  Heights none ops   the block heights of the history strictly increase
  Kept H s t hi      every node of `t` is in `s`: active, or inactive since a height > `hi`
  swalk              `GetState`: walk from a root hash through the store (the driver's read)
  blockL / Act / loadNode   a block on a partly loaded trie: events interleaved with re-loads of nodes
                     from the store, each refreshing the cached stored count of its refcount-map entry
  tryRunGC           blockchain.go tryRunGC = its Go→Lean translation Generated.GoFuncs.tryRunGC
                     (`tryRunGCSpec`: the hand-written reading, proved equal)
  Lay, Rep l s       MemCachedStore over the persistent store; `s` shows what the layers `l` show
  Chain, ChainEv, runChain   the node: blocks, Run's persist() / tryRunGC(oldPersisted), restarts
  traceable i h mtb  dao.go:829  i ≤ h ∧ h < i + mtb
-/
import NeoModel.Model.MptRc
import NeoModel.Proofs.MptRcOcc
import NeoModel.Proofs.MptRcBatch
import NeoModel.Proofs.MptRcFlush
import NeoModel.Proofs.MptRcExact
import NeoModel.Proofs.MptRcRun
import NeoModel.Proofs.MptRcLazy
import NeoModel.Proofs.MptRcDrop
import NeoModel.Proofs.MptRcRefine
import NeoModel.Proofs.MptRcGcIndex
import NeoModel.Proofs.MptRcGoTie
import NeoModel.Proofs.MptRcGoTie2
import NeoModel.Proofs.MptRcLayered
import NeoModel.Proofs.MptRcChain
import NeoModel.Proofs.MptRcSize
import NeoModel.Proofs.MptRcSizeNode
import NeoModel.Proofs.MptRcRead
import NeoModel.Proofs.MptRcRestore
import NeoModel.Proofs.MptRcPerm
namespace NeoModel.C11
open NeoModel.Mpt NeoModel.MptRc

/-! ## 1. the recorded reference-count events are exact -/

/-- C11.1a `Put`: for every node predicate (in particular "has hash h"), the occurrences after the
operation are the occurrences before plus the net of the recorded events. Any trie, any path. -/
theorem delta_exact_put (P : Node → Bool) (t : Node) (p : Path) (v : Val) :
    (occ P (put t p v) : Int) = occ P t + net P (putEv t p v) :=
  occ_put P t p v

/-- C11.1b `Delete` (incl. branch collapse into an extension and extension merging). -/
theorem delta_exact_delete (P : Node → Bool) (t : Node) (p : Path) :
    (occ P (delete t p) : Int) = occ P t + net P (deleteEv t p) :=
  occ_delete P t p

/-- C11.1c `PutBatch` — the separate batch code path (`putBatchInto*`, `newSubTrieMany`,
`addToBranch`, `stripBranch`, `mergeExtension`), any trie, any batch. -/
theorem delta_exact_putBatch (P : Node → Bool) (t : Node) (kv : Batch) :
    (occ P (putBatch t kv) : Int) = occ P t + net P (putBatchTopEv t kv) :=
  occ_putBatch P t kv

/-- C11.1d a whole block (any sequence of Put / Delete / PutBatch). -/
theorem delta_exact_block (P : Node → Bool) (t : Node) (ops : List SubOp) :
    (occ P (trieAfter t ops) : Int) = occ P t + net P (blockEvs t ops) :=
  occ_block P ops t

/-- C11.1e the refcount map records exactly those deltas: after `addRef/removeRef` for the events
`evs`, the map's delta for hash `k` has moved by the net of the events on nodes with hash `k`, and
the cached stored counts are untouched. -/
theorem refcount_map_exact (H : Bytes → Bytes) (m : RcMap) (evs : Evs) (hn : (mkeys m).Nodup) (hok : MapOK H m)
    (k : Bytes) :
    dlt (applyEvs H m evs) k = dlt m k + net (hP H k) evs ∧ ini (applyEvs H m evs) k = ini m k :=
  (applyEvs_spec H evs m hn hok).2.2 k

/-- C11.1f the refcount map is a Go map iterated in random order by `Flush` (trie.go:416): for any
two orders of the same entries, if no entry hits the negative-count panic, `Flush` succeeds for both
and leaves the same record under every hash and the same map entry for every hash. -/
theorem flush_order_irrelevant (mode : Mode) (idx : Nat) (m1 m2 : RcMap) (hp : m1.Perm m2)
    (hn : (mkeys m1).Nodup) (s : Store)
    (hok : ∀ k e, mget m1 k = some e → estep mode idx (sget s k) e ≠ none) :
    ∃ r1 r2, flush mode idx m1 s = some r1 ∧ flush mode idx m2 s = some r2 ∧
      ∀ k, sget r1.2 k = sget r2.2 k ∧ mget r1.1 k = mget r2.1 k :=
  MptRc.flush_order_irrelevant mode idx m1 m2 hp hn s hok

-- non-vacuity: the leaf `aa` occurs twice; deleting one key drops exactly one occurrence and the
-- events say so; a batch that re-creates it brings it back
def isAA : Node → Bool := fun n => match n with | .leaf v => v == [0xaa] | _ => false
def exT : Node := put (put .empty [1,2] [0xaa]) [1,3] [0xaa]

example : occ isAA exT = 2 := by decide
example : net isAA (deleteEv exT [1,2]) = -1 := by decide
example : (occ isAA (delete exT [1,2]) : Int) = 2 + -1 := by
  rw [delta_exact_delete]; decide
example : (occ isAA (putBatch exT [([1,4], some [0xaa])]) : Int) = 2 + net isAA (putBatchTopEv exT [([1,4], some [0xaa])]) :=
  delta_exact_putBatch _ _ _

/-! ## 2. ModeLatest: the store is exact after every block -/

/-- C11.2: in ModeLatest, for every history of committed blocks (strictly increasing heights;
restarts and — vacuous here — collections anywhere), `Flush` never panics, and afterwards the store
holds a record for hash `h` iff `h` occurs in the latest trie; the record is active, its count is the
number of occurrences, and its bytes hash to `h`. -/
theorem latest_exact (H : Bytes → Bytes) (ops : List Op) (hh : Heights none ops) :
    ∃ s, runOps H { mode := .latest } ops = some s ∧
      ∀ h, match sget s.store h with
        | none => occH H s.root h = 0
        | some c => ∃ b, c = .rc b true (occH H s.root h) ∧ 0 < occH H s.root h ∧ H b = h := by
  obtain ⟨s, top, hr, hinv⟩ := run_inv H .latest rfl ops none _ (inv_init H .latest) hh
  refine ⟨s, hr, fun h => ?_⟩
  have hc := hinv.exact.count h
  simp only [activeCnt] at hc
  cases hs : sget s.store h with
  | none => rw [hs] at hc; simpa [actC] using hc.symm
  | some c =>
    have hsh := hinv.exact.shape h c hs
    have hb := hinv.exact.bytes h c hs
    rw [hs] at hc
    cases c with
    | plain b => exact hsh.elim
    | rc b a n =>
      cases a with
      | false => simp [CellOK, Mode.gcF] at hsh
      | true =>
        simp only [actC] at hc
        simp only [CellOK] at hsh
        exact ⟨b, by rw [hc], by omega, hb⟩

-- non-vacuity: a concrete history (shared leaf, delete, re-create, restart)
example (H : Bytes → Bytes) : ∃ s, runOps H { mode := .latest }
    [.block 0 [.put [1,2] [0xaa], .put [3,4] [0xaa]], .block 1 [.del [1,2]], .reset,
     .block 5 [.batch [([1,2], some [0xaa]), ([3,4], none)]]] = some s ∧
    ∀ h, match sget s.store h with
      | none => occH H s.root h = 0
      | some c => ∃ b, c = .rc b true (occH H s.root h) ∧ 0 < occH H s.root h ∧ H b = h :=
  latest_exact H _ (by simp [Heights])

/-- C11.2b state-sync restore (billet.go:150-210): handing every (node, path) of a trie `t` to
`RestoreHashNode` once — the contract of the MPT pool — into an empty store leaves the store exact
for `t`: count = occurrences, every record active with a positive count and bytes hashing to its key. -/
theorem restore_exact (H : Bytes → Bytes) (mode : Mode) (hrc : mode.rc = true) (t : Node) :
    (∀ h, activeCnt (restoreAll H mode [] t) h = occH H t h) ∧
    (∀ h c, sget (restoreAll H mode [] t) h = some c → ∃ b n, c = .rc b true n ∧ 0 < n ∧ H b = h) := by
  obtain ⟨ha, _⟩ := restore_fold H mode hrc (positions t) [] (fun h c hc => by simp [sget] at hc)
  exact ⟨(restore_exact_store H mode hrc t).count, ha⟩

-- non-vacuity: the trie with the leaf `aa` at two positions; its record carries count 2
set_option maxRecDepth 100000 in
example : activeCnt (restoreAll toyH .latest [] exT) (hash toyH (.leaf [0xaa])) = 2 := by decide

/-! ## 3. ModeGC: retained roots stay complete; GC removes only what no retained root needs -/

/-- C11.3a: in ModeGC, for every history (blocks with increasing heights, `GC(g)` at any heights,
restarts) `Flush` never panics; afterwards (i) the active records are exactly the nodes of the latest
trie with count = occurrences, every other record is inactive; (ii) for every committed height `hi`
not below the largest collection index, every node of that height's trie is still in the store —
active, or inactive since a height `> hi`. -/
theorem gc_mode_exact (H : Bytes → Bytes) (ops : List Op) (hh : Heights none ops) :
    ∃ s, runOps H { mode := .gc } ops = some s ∧
      (∀ h, activeCnt s.store h = occH H s.root h) ∧
      (∀ h c, sget s.store h = some c → (∃ b n, c = .rc b true n ∧ 0 < n) ∨ (∃ b k, c = .rc b false k)) ∧
      (∀ e ∈ s.hist, s.gcAt ≤ e.1 → Kept H s.store e.2 e.1) := by
  obtain ⟨s, top, hr, hinv⟩ := run_inv H .gc rfl ops none _ (inv_init H .gc) hh
  refine ⟨s, hr, hinv.exact.count, ?_, hinv.kept rfl⟩
  intro h c hs
  have hsh := hinv.exact.shape h c hs
  cases c with
  | plain b => exact hsh.elim
  | rc b a n =>
    cases a with
    | true => exact Or.inl ⟨b, n, rfl, hsh⟩
    | false => exact Or.inr ⟨b, n, rfl⟩

/-- C11.3a' "present and decodable": in the situation of `gc_mode_exact`, for every retained height
the store holds, under the hash of each of that trie's node encodings, a record with exactly those
bytes (which `decodeTop` decodes back to the node: C10 `decodeTop_enc`) — provided `H` has no
collision among the stored byte strings and that trie's node encodings. -/
theorem retained_nodes_present (H : Bytes → Bytes) (ops : List Op) (hh : Heights none ops)
    (s : St) (hr : runOps H { mode := .gc } ops = some s)
    (e : Nat × Node) (he : e ∈ s.hist) (hge : s.gcAt ≤ e.1)
    (hcf : CollFree H (storeBytes s.store ++ nodeEncs H e.2)) :
    ∀ x ∈ nodeEncs H e.2, ∃ c, sget s.store (H x) = some c ∧ c.bytes = x := by
  obtain ⟨s', top, hr', hinv⟩ := run_inv H .gc rfl ops none _ (inv_init H .gc) hh
  rw [hr] at hr'; cases hr'
  intro x hx
  have hk := hinv.kept rfl e he hge (H x) (occH_pos_of_mem_nodeEncs H e.2 x hx)
  cases hs : sget s.store (H x) with
  | none => rw [hs] at hk; exact hk.elim
  | some c =>
    refine ⟨c, rfl, ?_⟩
    exact hcf _ (List.mem_append_left _ (bytes_mem_of_sget hs)) _ (List.mem_append_right _ hx)
      (hinv.exact.bytes _ _ hs)

/-- C11.3b what `GC(g)` does, per record: an inactive record whose height is `≤ g` disappears;
every other record (active, or inactive since a later height) is left exactly as it was. -/
theorem gc_deletes_only_old_inactive (g : Nat) (s : Store) (hn : StoreND s) (k : Bytes) :
    sget (gc g s) k =
      match sget s k with
      | some (.rc b false n) => if g < n then some (.rc b false n) else none
      | c => c :=
  sget_gc g s hn k

/-- C11.3c `gc_safe`: after any history in ModeGC, take any committed height `hi` that is not below
the largest collection index so far, and run one more `GC(g)` with `g ≤ hi`. Then reading the root
of height `hi` through the store (`GetState`, the driver's `swalk`) still returns exactly what that
height's trie holds: every present key is found with its value (given enough recursion fuel), and
nothing else is ever returned. Needs of `H`: 32-byte output and no collision among the stored byte
strings and that trie's node encodings. -/
theorem gc_safe (H : Bytes → Bytes) (h32 : ∀ b, (H b).length = 32) (ops : List Op) (hh : Heights none ops)
    (s : St) (hr : runOps H { mode := .gc } ops = some s) (g : Nat)
    (e : Nat × Node) (he : e ∈ s.hist) (hge : s.gcAt ≤ e.1) (hg : g ≤ e.1)
    (hne : e.2.isEmpty = false) (hb : Bounded e.2)
    (hcf : CollFree H (storeBytes (gc g s.store) ++ nodeEncs H e.2)) (p : Path) (v : Val) :
    (lookup e.2 p = some v → ∃ n, ∀ fuel, n ≤ fuel → swalk (gc g s.store) fuel (hash H e.2) p = .found v) ∧
    (∀ fuel, swalk (gc g s.store) fuel (hash H e.2) p = .found v → lookup e.2 p = some v) := by
  obtain ⟨s', top, hr', hinv⟩ := run_inv H .gc rfl ops none _ (inv_init H .gc) hh
  rw [hr] at hr'; cases hr'
  have hinv' := gc_inv H .gc top s g hinv
  have hk : Kept H (gc g s.store) e.2 e.1 :=
    hinv'.kept rfl e he (by show max s.gcAt g ≤ e.1; omega)
  have hin := nodeEncs_in_store hk hinv'.exact.bytes hcf
  have hcf' : CollFree H (storeBytes (gc g s.store)) :=
    collFree_subset hcf (fun x hx => List.mem_append_left _ hx)
  have hsw : ∀ f h p, swalk (gc g s.store) f h p = walk H (storeBytes (gc g s.store)) f h p :=
    swalk_eq_walk (H := H) hinv'.nd hinv'.exact.bytes
  obtain ⟨h1, h2⟩ := reopen_get h32 e.2 hb hne (storeBytes (gc g s.store)) hin hcf' p v
  refine ⟨fun hl => ?_, fun fuel hf => h1 fuel (by rw [← hsw]; exact hf)⟩
  obtain ⟨n, hn⟩ := h2 hl
  exact ⟨n, fun fuel hf => by rw [hsw]; exact hn fuel hf⟩

-- non-vacuity (toy hash): block 0 {12↦aa, 34↦bb}; block 1 deletes 12; GC(1); block 2 {12↦cc}.
-- The history is valid, three heights are recorded, the collection index is 1 …
def gcOps : List Op :=
  [.block 0 [.put [1,2] [0xaa], .put [3,4] [0xbb]], .block 1 [.del [1,2]], .gc 1, .block 2 [.put [1,2] [0xcc]]]

example : Heights none gcOps := by simp [gcOps, Heights]

set_option maxRecDepth 100000 in
example : ((runOps toyH { mode := .gc } gcOps).map fun s => (s.gcAt, s.hist.map (·.1), s.store.length)) =
    some (1, [2, 1, 0], 6) := by decide

-- … the roots of heights 2 and 1 (≥ the collection index) still read `34 ↦ bb`, the root of height
-- 0 (below the window: its branch node was deactivated at height 1 and collected) fails cleanly
set_option maxRecDepth 100000 in
example : ((runOps toyH { mode := .gc } gcOps).map fun s =>
    s.hist.map fun e => swalk s.store 10 (hash toyH e.2) [3,4]) =
    some [.found [0xbb], .found [0xbb], .notFound] := by decide

example : ∃ s, runOps toyH { mode := .gc } gcOps = some s ∧
    (∀ h, activeCnt s.store h = occH toyH s.root h) ∧
    (∀ h c, sget s.store h = some c → (∃ b n, c = .rc b true n ∧ 0 < n) ∨ (∃ b k, c = .rc b false k)) ∧
    (∀ e ∈ s.hist, s.gcAt ≤ e.1 → Kept toyH s.store e.2 e.1) :=
  gc_mode_exact toyH gcOps (by simp [gcOps, Heights])

/-! ## 4. a root that is no longer retained fails cleanly -/

/-- C11.4: after any history (either counting mode), reading ANY root hash — in particular the root
of a height below the retained window, whose nodes may be partly gone — through the store never
returns a wrong value: if the walk finds `v` under `key`, the trie with that root holds `v` there.
(Otherwise the read ends `notFound`.) Needs `H` collision-free on the stored byte strings and the
old trie's node encodings. -/
theorem stale_root_fails_clean (H : Bytes → Bytes) (h32 : ∀ b, (H b).length = 32) (mode : Mode) (hrc : mode.rc = true)
    (ops : List Op) (hh : Heights none ops) (s : St) (hr : runOps H { mode := mode } ops = some s)
    (t : Node) (hne : t.isEmpty = false) (hb : Bounded t)
    (hcf : CollFree H (storeBytes s.store ++ nodeEncs H t)) (fuel : Nat) (p : Path) (v : Val)
    (hw : swalk s.store fuel (hash H t) p = .found v) : lookup t p = some v := by
  obtain ⟨s', top, hr', hinv⟩ := run_inv H mode hrc ops none _ (inv_init H mode) hh
  rw [hr] at hr'; cases hr'
  rw [swalk_eq_walk (H := H) hinv.nd hinv.exact.bytes] at hw
  exact walk_sound hcf h32 (storeBytes s.store) (fun x hx => List.mem_append_left _ hx) t fuel p v hb hne
    (fun x hx => List.mem_append_right _ hx) hw

/-! ## 5. a block that is computed but never committed

The node drops a block by `AddMPTBatch` followed by `stateRoot.DropMPTBatch()` (storeBlock, every
error path after AddMPTBatch; /repo c513b1a): the module's trie is re-opened from the current local
root with a fresh refcount map — the model's `dropBlock`. Before that fix a dropped block was simply
not committed (`dropBlockNoReload`): the theorems after `uncommitted_block_store_untouched` are kept
as regression examples about that OLD rule (the API still behaves so if a caller omits
DropMPTBatch: AddMPTBatch without DropMPTBatch or UpdateCurrentLocal leaves the module dirty). -/

/-- C11.5 FULL statement: a dropped block leaves no trace. On every state reached by a history (either
counting mode): `AddMPTBatch` + `DropMPTBatch` does not panic; the node store, the root records, the
retained heights, the live trie and the collection index are unchanged (the refcount map is empty);
and any later history — blocks on a fully or partly loaded trie, collections, restarts, jumps — runs
from there exactly as if the block had never been computed: same tries at every height, same
collection index, under every hash a record with the same active flag and count / deactivation
height, both runs satisfying the history invariant (exact counts, retained roots complete). -/
theorem uncommitted_block_store_untouched (H : Bytes → Bytes) (mode : Mode) (hrc : mode.rc = true) (top : Option Nat)
    (s : St) (hinv : Inv H mode top s) (idx : Nat) (ops : List SubOp) (hh : ∀ h, top = some h → h < idx) :
    ∃ s', dropBlock H s idx ops = some s' ∧
      s'.store = s.store ∧ s'.roots = s.roots ∧ s'.hist = s.hist ∧ s'.root = s.root ∧ s'.gcAt = s.gcAt ∧
      s'.rc = [] ∧
      ∀ later, Heights top later →
        ∃ r r' top', runOps H s' later = some r ∧ runOps H s later = some r' ∧
          Inv H mode top' r ∧ Inv H mode top' r' ∧ r.root = r'.root ∧ r.hist = r'.hist ∧ r.gcAt = r'.gcAt ∧
          ∀ k, ctag (sget r.store k) = ctag (sget r'.store k) :=
  drop_no_trace H mode hrc top s hinv idx ops hh

-- non-vacuity: block 0, block 1' computed and dropped, block 1: the dropped key is NOT in the
-- committed trie, the store is exact (compare the witnesses of the old rule below)
set_option maxRecDepth 100000 in
example : ((commit toyH { mode := .latest } 0 [.put [1,2] [0xaa], .put [3,4] [0xbb]]).bind fun a =>
      (dropBlock toyH a 1 [.put [5,6] [0xcc]]).bind fun b => (commit toyH b 1 [.put [1,2] [0xdd]]).map fun s =>
        (lookup s.root [5,6], (sget s.store (hash toyH (.leaf [0xcc]))).isSome, activeCnt s.store (hash toyH (.leaf [0xdd])))) =
    some (none, false, 1) := by decide

/-! ### regression examples about the OLD rule (a drop without DropMPTBatch) -/

def wB0 : List SubOp := [.put [1,2] [0xaa], .put [3,4] [0xbb]]
def wDrop : List SubOp := [.put [5,6] [0xcc]]
def wB1 : List SubOp := [.put [1,2] [0xdd]]

/-- block 0, then block 1' computed and dropped, then block 1. -/
def withDrop : Option St := do
  let a ← commit toyH { mode := .latest } 0 wB0
  let b ← dropBlockNoReload toyH a 1 wDrop
  commit toyH b 1 wB1

/-- block 0, then block 1 (what a deep copy would give). -/
def withoutDrop : Option St := do
  let a ← commit toyH { mode := .latest } 0 wB0
  commit toyH (dropBlockSpec a) 1 wB1

set_option maxRecDepth 100000 in
/-- C11.5 (negation): the dropped block's key is in the committed state of the next block … -/
theorem uncommitted_block_not_harmless :
    (withDrop.map fun s => lookup s.root [5,6]) = some (some [0xcc]) ∧
    (withoutDrop.map fun s => lookup s.root [5,6]) = some none := by
  constructor <;> decide

set_option maxRecDepth 100000 in
/-- … and the store is no longer exact: the dropped leaf occurs in the latest trie but has no record. -/
theorem uncommitted_block_breaks_exactness :
    (withDrop.map fun s => (occH toyH s.root (hash toyH (.leaf [0xcc])),
        (sget s.store (hash toyH (.leaf [0xcc]))).isSome)) = some (1, false) := by
  decide

/-- C11.5b what a dropped block leaves behind, EXACTLY (the shape of every `uncommitted-block:*`
finding): `dropBlock` is `commit` with the node store, the root records and the retained heights put
back. The module continues from the live trie and the refcount map of a phantom state `c` — the state
it would be in had the block been committed —, which satisfies the history invariant on ITS store;
the real store differs from the phantom one exactly under the hashes the dropped block's events
touched with a non-zero net (old flag/count there instead of the dropped block's). So afterwards:
the committed roots contain the dropped changes (`uncommitted-block:root`); every cached count of the
shared map is the number of occurrences in the dropped block's trie, not the stored one
(`…:store:count-mismatch`, `garbage-node`, `unreachable-active`, `reachable-inactive`, a negative
count = `…:panic`); the dropped block's new nodes have no record (`…:store:*:node-missing`). -/
theorem uncommitted_block_leaves_phantom (H : Bytes → Bytes) (mode : Mode) (hrc : mode.rc = true) (top : Option Nat)
    (s : St) (idx : Nat) (ops : List SubOp) (hinv : Inv H mode top s) (hh : ∀ h, top = some h → h < idx) :
    ∃ c s', commit H s idx ops = some c ∧ dropBlockNoReload H s idx ops = some s' ∧
      Inv H mode (some idx) c ∧
      s'.root = c.root ∧ s'.rc = c.rc ∧ s'.store = s.store ∧ s'.roots = s.roots ∧ s'.hist = s.hist ∧
      c.root = trieAfter s.root ops ∧
      (∀ k, ctag (sget c.store k) = if net (hP H k) (blockEvs s.root ops) = 0 then ctag (sget s'.store k)
        else tagAfter mode idx (occH H c.root k)) ∧
      (∀ k e, mget s'.rc k = some e → e.delta = 0 ∧ (e.initial ≠ 0 → e.initial = occH H c.root k)) :=
  drop_phantom H mode hrc top s idx ops hinv hh

-- non-vacuity: the witness history above: after the drop the map caches count 1 for the dropped leaf
-- `cc`, which has no record
set_option maxRecDepth 100000 in
example : ((commit toyH { mode := .latest } 0 wB0).bind fun a => (dropBlockNoReload toyH a 1 wDrop).map fun b =>
    ((mget b.rc (hash toyH (.leaf [0xcc]))).map (·.initial), (sget b.store (hash toyH (.leaf [0xcc]))).isSome)) =
    some (some 1, false) := by decide

/-! ## 6. the node's own choice of the collection index (blockchain.go tryRunGC) -/

/-- C11.6a: whenever `tryRunGC` decides to collect, the index `g` it hands to `stateroot.Module.GC`
satisfies `g + MaxTraceableBlocks ≤ persisted height` — for every configuration
(GarbageCollectionPeriod, with or without the P2P state-exchange extensions and whatever the uint32
arithmetic of that branch wraps to), every MaxTraceableBlocks, every old and new persisted height. -/
theorem gc_index_bound (c : GcCfg) (mtb oldH newH g : Nat) (h : tryRunGC c mtb oldH newH = some g) :
    g + mtb ≤ newH :=
  tryRunGC_bound c mtb oldH newH g h

/-- C11.6b what the index is, exactly (no P2P extensions, heights fit 32 bits): persisted height −
MaxTraceableBlocks rounded down to the period; the collection runs iff that is above one period and
the persisted height has entered a new period since the previous tick. -/
theorem gc_index_exact (c : GcCfg) (hp : c.p2p = false) (mtb oldH newH : Nat) (h32 : newH < 4294967296) :
    tryRunGC c mtb oldH newH =
      if c.gcp < (newH - mtb) / c.gcp * c.gcp ∧ newH / c.gcp ≠ oldH / c.gcp
      then some ((newH - mtb) / c.gcp * c.gcp) else none :=
  tryRunGC_plain c hp mtb oldH newH h32

/-- C11.6b' the function the model runs, `tryRunGC`, IS the Go→Lean translation of blockchain.go
`tryRunGC` (Generated.GoFuncs.tryRunGC, regenerated from /repo's source on every check run): it equals
the hand-written reading `tryRunGCSpec` (Model/MptRc/GcIndex.lean, line by line) for all arguments.
A change of the Go function changes the generated definition and this proof stops checking. -/
theorem gc_index_is_translated_code (c : GcCfg) (mtb oldH newH : Nat) :
    (match Generated.GoFuncs.tryRunGC (oldH : Int) (newH : Int) (mtb : Int) c.p2p (c.ssi : Int) (c.gcp : Int) 0 with
      | some (t :: _) => some t.toNat
      | _ => none) = tryRunGCSpec c mtb oldH newH :=
  tryRunGC_eq_spec c mtb oldH newH

/-- C11.6b'' composed with the coordinator's `GoFuncsTie.tryRunGC_within_window` (proved directly on
the translated code): with a positive period and a persisted height that fits 32 bits the index is
above one period, a multiple of the period, and MaxTraceableBlocks below the persisted height. -/
theorem gc_index_window (c : GcCfg) (hg : 0 < c.gcp) (mtb oldH newH g : Nat) (h32 : newH < 2 ^ 32)
    (h : tryRunGC c mtb oldH newH = some g) : c.gcp < g ∧ g + mtb ≤ newH ∧ g % c.gcp = 0 :=
  tryRunGC_window c hg mtb oldH newH g h32 h

/-- C11.6b‴ MaxTraceableBlocks only goes down: what the TRANSLATED `Policy.setMaxTraceableBlocks`
(native/policy.go:816-837) stores, if anything, is the node model's `newMtbOf old (some v)` = `v`
with `0 < v ≤ old`; a rejected request stores nothing (the model's `newMtb = none`). So the `mtb`
of `node_gc_index_below_window` / `node_traceable_roots_readable` moves as the code moves it. -/
theorem policy_lowers_mtb_only (v old vub : Nat) (committee : Bool) (id : Int) (l : List Int)
    (h : Generated.GoFuncs.policySetMaxTraceableBlocks (v : Int) (old : Int) (vub : Int) committee id = some l) :
    l = [id, ((newMtbOf old (some v) : Nat) : Int)] ∧ newMtbOf old (some v) = v ∧ 0 < v ∧ v ≤ old :=
  policy_setter_is_newMtbOf v old vub committee id l h

example : Generated.GoFuncs.policySetMaxTraceableBlocks 3 5 1 true (-7) = some [-7, 3] ∧
    Generated.GoFuncs.policySetMaxTraceableBlocks 6 5 1 true (-7) = none ∧ newMtbOf 5 (some 6) = 5 := by decide

-- non-vacuity: persisted height 9, MaxTraceableBlocks 3, period 2: collect at 6; with the state-sync
-- point at 4 the target drops to 1, rounds to 0, no collection; nothing happens within one period
example : tryRunGC { gcp := 2 } 3 4 9 = some 6 := by decide
example : tryRunGC { gcp := 2, p2p := true, ssi := 4 } 3 4 9 = none := by decide
example : tryRunGC { gcp := 2, p2p := true, ssi := 4 } 1 4 15 = some 6 := by decide
example : tryRunGC { gcp := 4 } 3 8 9 = none := by decide

/-- C11.6c the node as a whole — blocks arriving at any time (trie partly loaded, MaxTraceableBlocks
lowered by committee transactions), the persist timer of `Run` as its two steps `persist()` and
`tryRunGC(oldPersisted)` with anything in between, persists from elsewhere, restarts; node store =
MemCachedStore over the persistent store, collections on the persistent store only. For EVERY such
event sequence and configuration: `Flush` never panics; the run is exactly the run of the
single-store model on the compiled history (so every theorem above applies to it); every index the
node ever collected with is at most persisted height − MaxTraceableBlocks (current value), and the
persisted height is below the number of blocks. -/
theorem node_gc_index_below_window (H : Bytes → Bytes) (cfg : GcCfg) (mtb : Nat) (evs : List ChainEv) :
    ∃ c s, runChain H { cfg := cfg, mtb := mtb } evs = some c ∧
      runOps H { mode := .gc } (compileRun H { cfg := cfg, mtb := mtb } evs) = some s ∧
      Rep c.lay s.store ∧ s.root = c.root ∧ s.hist = c.hist ∧
      (∀ g ∈ c.gcs, g + c.mtb ≤ c.persisted) ∧ c.persisted ≤ c.next - 1 ∧
      (s.gcAt = 0 ∨ s.gcAt + c.mtb ≤ c.persisted) := by
  obtain ⟨c, s, top, pn, hc, hr, hs⟩ := sim_run H evs _ _ none 0 (sim_init H cfg mtb)
  refine ⟨c, s, hc, hr, hs.rep, hs.root, hs.hist, hs.gcs, ?_, hs.gcAt⟩
  have := hs.pers; have := hs.pn_le; omega

/-- C11.6d traceable heights are never collected: after ANY run of the node (as in 6c), for every
height `hi` that is traceable at the current height (dao.go:829: `hi ≤ height ∧ hi +
MaxTraceableBlocks > height`), reading the state root of `hi` through the node's layered store
returns exactly the contents of that height's trie: every present key is found with its value (given
enough fuel), nothing else is ever returned. `H`: 32-byte output, no collision among the stored
byte strings and that trie's node encodings. -/
theorem node_traceable_roots_readable (H : Bytes → Bytes) (h32 : ∀ b, (H b).length = 32)
    (cfg : GcCfg) (mtb : Nat) (evs : List ChainEv) (c : Chain)
    (hc : runChain H { cfg := cfg, mtb := mtb } evs = some c)
    (e : Nat × Node) (he : e ∈ c.hist) (htr : traceable e.1 (c.next - 1) c.mtb = true)
    (hne : e.2.isEmpty = false) (hb : Bounded e.2)
    (hcf : CollFree H (storeBytes c.lay.view ++ nodeEncs H e.2)) (p : Path) (v : Val) :
    (lookup e.2 p = some v → ∃ n, ∀ fuel, n ≤ fuel → lwalk c.lay fuel (hash H e.2) p = .found v) ∧
    (∀ fuel, lwalk c.lay fuel (hash H e.2) p = .found v → lookup e.2 p = some v) := by
  obtain ⟨c', s, top, pn, hc', _, hs⟩ := sim_run H evs _ _ none 0 (sim_init H cfg mtb)
  rw [hc] at hc'; cases hc'
  simp only [traceable, Bool.and_eq_true, decide_eq_true_eq] at htr
  have hge : s.gcAt ≤ e.1 := by
    have := hs.pers; have := hs.pn_le
    rcases hs.gcAt with h | h <;> omega
  have hcf' : CollFree H (storeBytes s.store ++ nodeEncs H e.2) :=
    collFree_subset hcf (fun x hx => by
      rcases List.mem_append.mp hx with h | h
      · exact List.mem_append_left _ (storeBytes_sub_of_rep hs.rep hs.inv.nd x h)
      · exact List.mem_append_right _ h)
  have := inv_read h32 hs.inv e (by rw [hs.hist]; exact he) hge hne hb hcf' p v
  simpa only [lwalk_eq hs.rep] using this

/-- C11.6e the layering claim on its own: the collection works on the persistent store
(blockchain.go:1422 `GC(tgt, bc.store)`) while reads go through the MemCachedStore on top. If no
record waiting in the upper layer is an inactive one with height ≤ g, every read through the layers
after the collection is the read of the merged store collected at g. (The node guarantees the
condition: what waits in the upper layer was written by blocks above the persisted height, and
g ≤ persisted height − MaxTraceableBlocks — used in 6c/6d; `gcLow_needs_condition` shows it is needed.) -/
theorem gc_on_lower_layer_is_gc_on_merged (l : Lay) (hn : StoreND l.low) (g : Nat) (hup : UpAbove g l) (k : Bytes) :
    (l.gcLow g).get k = sget (gc g l.view) k :=
  rep_gcLow (rep_view l) hn (nd_view l hn) g hup k

-- non-vacuity: a node with period 1 and MaxTraceableBlocks 3, lowered to 2 by block 3; two timer
-- ticks with blocks arriving between `persist()` and `tryRunGC`; the second tick collects at
-- 4 − 2 = 2 while block 5 still waits in the upper layer; a node is re-loaded during block 2
def nodeEvs : List ChainEv :=
  [.addBlock [.put [1,2] [0xaa], .put [3,4] [0xbb]] [] none, .addBlock [.del [1,2]] [] none,
   .persist true, .runGC,
   .addBlock [.put [1,2] [0xcc]] [[hash toyH (.leaf [0xbb])]] none, .addBlock [] [] (some 2), .addBlock [] [] none,
   .persist true, .addBlock [.put [5,6] [0xdd]] [] none, .runGC]

set_option maxRecDepth 100000 in
example : ((runChain toyH { cfg := { gcp := 1 }, mtb := 3 } nodeEvs).map fun c =>
    (c.gcs, c.persisted, c.next, c.mtb, c.lay.up.length, c.lay.low.length)) = some ([2], 4, 6, 2, 4, 5) := by decide

-- … heights 5 and 4 are traceable and read `34 ↦ bb`; heights 1 and 0 are below the index and fail cleanly
set_option maxRecDepth 100000 in
example : ((runChain toyH { cfg := { gcp := 1 }, mtb := 3 } nodeEvs).map fun c =>
    c.hist.map fun e => (e.1, traceable e.1 (c.next - 1) c.mtb, lwalk c.lay 10 (hash toyH e.2) [3,4])) =
    some [(5, true, .found [0xbb]), (4, true, .found [0xbb]), (3, false, .found [0xbb]), (2, false, .found [0xbb]),
          (1, false, .notFound), (0, false, .notFound)] := by decide

example : ∃ c s, runChain toyH { cfg := { gcp := 1 }, mtb := 3 } nodeEvs = some c ∧
    runOps toyH { mode := .gc } (compileRun toyH { cfg := { gcp := 1 }, mtb := 3 } nodeEvs) = some s ∧
    Rep c.lay s.store ∧ s.root = c.root ∧ s.hist = c.hist ∧
    (∀ g ∈ c.gcs, g + c.mtb ≤ c.persisted) ∧ c.persisted ≤ c.next - 1 ∧
    (s.gcAt = 0 ∨ s.gcAt + c.mtb ≤ c.persisted) :=
  node_gc_index_below_window toyH _ _ nodeEvs

-- the layering condition holds in a concrete layered store and the two reads agree; without it they differ
example : (({ up := [([7], some (.rc [1] false 5))], low := [([8], .rc [2] false 1)] } : Lay).gcLow 3).get [8] = none := by decide
example : let l : Lay := { up := [([7], some (.rc [1] false 1))], low := [] }
    (l.gcLow 1).get [7] = some (.rc [1] false 1) ∧ sget (gc 1 l.view) [7] = none := gcLow_needs_condition

/-! ## 7. lazy loading: nodes re-resolved from the store during a block

All history theorems above (`latest_exact`, `gc_mode_exact`, `retained_nodes_present`, `gc_safe`,
`stale_root_fails_clean`, section 6) quantify over histories that contain `blockL` — blocks on a
partly loaded trie with any loads interleaved — and `reset` (Collapse / restart) anywhere. The
theorem below is the reason, stated on its own. -/

/-- C11.7: a block on a partly loaded trie. Start between two blocks with the store exact for `t`
and the refcount map clean (`MapGood`). Run the block's events with ANY loads interleaved (each load
of a hash that has a map entry overwrites the entry's cached stored count and bytes with what the
store holds, trie.go:534-542). Then for every hash `k`: the delta in the map is the net of the
block's events on `k` — so stored count + delta = number of occurrences of `k` in the new trie —, and
the cached count of the entry, if set, is the stored count. -/
theorem lazy_delta_exact (H : Bytes → Bytes) (mode : Mode) (hrc : mode.rc = true) (s : Store) (t : Node)
    (hx : Exact H mode s t) (m : RcMap) (hg : MapGood H m s) (ops : List SubOp) (ld : List (List Bytes)) (k : Bytes) :
    let m1 := applyActs H mode (sget s) m (interleave (blockEvs t ops) ld)
    (activeCnt s k : Int) + dlt m1 k = occH H (trieAfter t ops) k ∧
    (∀ e, mget m1 k = some e → e.initial ≠ 0 → e.initial = activeCnt s k) := by
  obtain ⟨hmid, hdl⟩ := applyActs_spec hrc hx (interleave (blockEvs t ops) ld) m (midGood_of_good hg)
  have hz : dlt m k = 0 := by
    simp only [dlt]
    cases hm : mget m k with
    | none => rfl
    | some e0 => exact hg.zero k e0 hm
  refine ⟨?_, fun e he hne => (hmid.cache k e he hne).symm⟩
  have h1 := hdl k
  rw [hz, evsOf_interleave] at h1
  have h2 := occ_block (hP H k) ops t
  have h3 := hx.count k
  simp only [occH] at h3 ⊢
  rw [h1, h3, h2]; omega

/-- C11.7b consequently the block's `Flush` does not panic and leaves the store exact for the new
trie and the map clean — whatever was re-loaded. -/
theorem lazy_block_exact (H : Bytes → Bytes) (mode : Mode) (hrc : mode.rc = true) (top : Option Nat) (s : St)
    (hinv : Inv H mode top s) (idx : Nat) (hh : ∀ h, top = some h → h < idx) (ops : List SubOp) (ld : List (List Bytes)) :
    ∃ s', commitL H s idx ops ld = some s' ∧ Inv H mode (some idx) s' ∧ s'.root = trieAfter s.root ops := by
  obtain ⟨s', hc, hinv', hr, _⟩ := commitL_inv H mode hrc top s idx ops ld hinv hh
  exact ⟨s', hc, hinv', hr⟩

-- non-vacuity: ModeLatest, restart, then a block that re-loads the shared leaf `aa` after its
-- first removal (an entry exists, the cached count is refreshed to the stored 2) — still exact
def lazyOps : List Op :=
  [.block 0 [.put [1,2] [0xaa], .put [3,4] [0xaa], .put [5,6] [0xbb]], .reset,
   .blockL 1 [.del [1,2], .del [3,4]] [[], [hash toyH (.leaf [0xaa])], [], [], [hash toyH (.leaf [0xaa])]],
   .blockL 2 [.put [1,2] [0xaa]] [[hash toyH (.leaf [0xbb])]]]

example : ∃ s, runOps toyH { mode := .latest } lazyOps = some s ∧
    ∀ h, match sget s.store h with
      | none => occH toyH s.root h = 0
      | some c => ∃ b, c = .rc b true (occH toyH s.root h) ∧ 0 < occH toyH s.root h ∧ toyH b = h :=
  latest_exact toyH lazyOps (by simp [lazyOps, Heights])

set_option maxRecDepth 100000 in
example : ((runOps toyH { mode := .latest } (lazyOps.take 3)).map fun s =>
    (sget s.store (hash toyH (.leaf [0xaa])), activeCnt s.store (hash toyH (.leaf [0xbb])))) = some (none, 1) := by decide

-- the load really refreshes the cached count: after the first removal of `aa` its entry is (0, -1);
-- the load sets the cached count to the stored 2
set_option maxRecDepth 100000 in
example : (mget (applyActs toyH .latest
      (sget [(hash toyH (.leaf [0xaa]), .rc (enc toyH (.leaf [0xaa])) true 2)]) []
      [.ev (false, .leaf [0xaa]), .load (hash toyH (.leaf [0xaa]))]) (hash toyH (.leaf [0xaa]))).map
        (fun e => (e.initial, e.delta)) = some (2, -1) := by decide

/-- C11.7c refinement lazy → expanded: run ANY history (blocks on a partly loaded trie with any loads
interleaved, collections, restarts / Collapse anywhere) and the same history with every load forgotten
(the fully expanded trie of the C10 model). Both succeed, go through the same tries, and leave under
every hash a record with the same active flag and the same count / deactivation height (the bytes
hash to the key in both: `latest_exact` / `gc_mode_exact`). -/
theorem lazy_refines_expanded (H : Bytes → Bytes) (mode : Mode) (hrc : mode.rc = true) (ops : List Op)
    (hh : Heights none ops) :
    ∃ s s2, runOps H { mode := mode } ops = some s ∧ runOps H { mode := mode } (ops.map stripOp) = some s2 ∧
      s.root = s2.root ∧ s.hist = s2.hist ∧ s.gcAt = s2.gcAt ∧
      ∀ k, ctag (sget s.store k) = ctag (sget s2.store k) := by
  obtain ⟨s, s2, top, h1, h2, htw⟩ := refine_run H mode hrc ops none _ _
    ⟨inv_init H mode, inv_init H mode, rfl, rfl, rfl, fun _ => rfl⟩ hh
  exact ⟨s, s2, h1, h2, htw.root, htw.hist, htw.gcAt, htw.tags⟩

-- non-vacuity: the history `lazyOps` above has two blocks with loads; stripped it has none
example : lazyOps.map stripOp =
    [.block 0 [.put [1,2] [0xaa], .put [3,4] [0xaa], .put [5,6] [0xbb]], .reset,
     .block 1 [.del [1,2], .del [3,4]], .block 2 [.put [1,2] [0xaa]]] := rfl

/-! ## 8. state-sync restore through the layers -/

/-- C11.8: `Billet.RestoreHashNode` over MemCachedStore layers with the store persisted between any
two restorations (`sched`): the layers show exactly what restoring into one store gives, hence
(with `restore_exact`) count = occurrences for every hash — in particular for a sub-trie restored at
two paths with a persist in between. -/
theorem restore_exact_layered (H : Bytes → Bytes) (mode : Mode) (hrc : mode.rc = true) (t : Node) (sched : List Bool) (h : Bytes) :
    (restoreL H mode {} (positions t) sched).get h = sget (restoreAll H mode [] t) h ∧
    actC ((restoreL H mode {} (positions t) sched).get h) = occH H t h := by
  have hr := restoreL_rep H mode (positions t) {} [] sched (fun _ => rfl) h
  refine ⟨hr, ?_⟩
  rw [hr]
  exact (restore_exact H mode hrc t).1 h

-- non-vacuity: the leaf `aa` at two positions, a persist before each restoration: count 2
set_option maxRecDepth 100000 in
example : actC ((restoreL toyH .latest {} (positions exT) [true, true, true, true, true, true, true]).get
    (hash toyH (.leaf [0xaa]))) = 2 := by decide

/-! ## 9. state jump (state sync + `Module.JumpToState`)

`Op.jump idx t` is a step of the history machine: the storage is cleaned, the trie `t` of the sync
point is restored node by node and installed as the live trie IN THE MODULE'S OWN MODE
(module.go:236). `latest_exact`, `gc_mode_exact`, `retained_nodes_present`, `gc_safe`,
`stale_root_fails_clean`, `lazy_refines_expanded` quantify over histories containing it: after a jump
the retained heights are the sync point and everything after it. -/

/-- C11.9 the jump through the MemCachedStore layers (`CleanStorage`, then `RestoreHashNode` for every
position with any persists in between) shows exactly the single-store model's state after `jump`:
count = occurrences of the restored trie for every hash. -/
theorem jump_layered_exact (H : Bytes → Bytes) (s : St) (hrc : s.mode.rc = true) (l : Lay) (idx : Nat) (t : Node)
    (sched : List Bool) (h : Bytes) :
    (jumpLay H s.mode l t sched).get h = sget (jumpSt H s idx t).store h ∧
    actC ((jumpLay H s.mode l t sched).get h) = occH H t h := by
  have hr := rep_jump H s l idx t sched h
  refine ⟨hr, ?_⟩
  rw [hr]
  exact (restore_exact H s.mode hrc t).1 h

-- non-vacuity (ModeGC): blocks 0-1, a jump to the trie {12↦aa, 34↦bb, 56↦aa} at height 5, block 6
-- deletes 12 (its nodes must be marked inactive at 6, not deleted), GC(5), block 7
def jumpOps : List Op :=
  [.block 0 [.put [7,7] [0xee]], .block 1 [.put [1,2] [0xaa]],
   .jump 5 (put (put (put .empty [1,2] [0xaa]) [3,4] [0xbb]) [5,6] [0xaa]),
   .block 6 [.del [1,2]], .gc 5, .blockL 7 [.put [1,2] [0xcc]] [[hash toyH (.leaf [0xbb])]]]

example : Heights none jumpOps := by simp [jumpOps, Heights]

-- the retained heights are 5, 6, 7; the root of 5 still reads 12 ↦ aa after block 6 deleted it
set_option maxRecDepth 100000 in
example : ((runOps toyH { mode := .gc } jumpOps).map fun s =>
    (s.hist.map (·.1), s.hist.map fun e => swalk s.store 10 (hash toyH e.2) [1,2])) =
    some ([7, 6, 5], [.found [0xcc], .notFound, .found [0xaa]]) := by decide

example : ∃ s, runOps toyH { mode := .gc } jumpOps = some s ∧
    (∀ h, activeCnt s.store h = occH toyH s.root h) ∧
    (∀ h c, sget s.store h = some c → (∃ b n, c = .rc b true n ∧ 0 < n) ∨ (∃ b k, c = .rc b false k)) ∧
    (∀ e ∈ s.hist, s.gcAt ≤ e.1 → Kept toyH s.store e.2 e.1) :=
  gc_mode_exact toyH jumpOps (by simp [jumpOps, Heights])

/-! ## 10. more of the code by translation (regenerated from /repo on every run) -/

/-- C11.10a `traceable` of section 6 IS the code's test: the translated dao.go `isTraceableBlock` and
native/ledger.go `Ledger.isTraceableBlock` (either hardfork branch), for `index + mtb < 2^32`. -/
theorem traceable_is_translated_code (index height mtb : Nat) (h32 : index + mtb < 4294967296) :
    Generated.GoFuncs.isTraceableBlock (height : Int) (mtb : Int) (index : Int) = traceable index height mtb ∧
    (∀ cfgMtb : Int, Generated.GoFuncs.ledgerIsTraceableBlock (index : Int) (height : Int) cfgMtb true (mtb : Int) = traceable index height mtb) ∧
    (∀ polMtb : Int, Generated.GoFuncs.ledgerIsTraceableBlock (index : Int) (height : Int) (mtb : Int) false polMtb = traceable index height mtb) :=
  traceable_is_translated index height mtb h32

/-- C11.10b the MaxTraceableBlocks the node uses is the translated `Blockchain.GetMaxTraceableBlocks`
(`getMtb`: config value before Echidna, Genesis value at height 0, the Policy's afterwards). Along the
chain it never grows, so every change of it — the hardfork switch included — is one of the lowerings
(`newMtbOf`) over which `node_gc_index_below_window` / `node_traceable_roots_readable` quantify:
PROVIDED 0 < Genesis.MaxTraceableBlocks ≤ MaxTraceableBlocks (not checked by NewBlockchain) and the
Policy value only went down from its initial Genesis value (`policy_lowers_mtb_only`). -/
theorem mtb_only_lowers_along_chain (cfgMtb genMtb : Nat) (echidna : Option Nat) (h h' : Nat) (p p' : Nat)
    (hh : h ≤ h') (h32 : h' < 4294967296) (hg0 : 0 < genMtb) (hg : genMtb ≤ cfgMtb)
    (hp0 : 0 < p') (hp : p' ≤ p) (hpg : p ≤ genMtb) :
    newMtbOf (getMtb cfgMtb genMtb echidna p h) (some (getMtb cfgMtb genMtb echidna p' h')) =
      getMtb cfgMtb genMtb echidna p' h' ∧
    getMtb cfgMtb genMtb echidna p' h' ≤ getMtb cfgMtb genMtb echidna p h :=
  getMtb_only_lowers cfgMtb genMtb echidna h h' p p' hh h32 hg0 hg hp0 hp hpg

example : getMtb 5 3 (some 10) 3 9 = 5 ∧ getMtb 5 3 (some 10) 2 12 = 2 ∧ getMtb 5 3 (some 0) 3 0 = 3 := by decide

/-- C11.10c (NEGATION of 10b without its proviso) a configuration with Genesis.MaxTraceableBlocks above
MaxTraceableBlocks and Echidna at a height > 0 makes the window GROW at the hardfork: MaxTraceableBlocks
2, Genesis value 5, Echidna at 10: at persisted height 9 the node collects at 7; at height 10 height 6
is traceable again, its state was collected. -/
theorem mtb_grows_at_hardfork_if_misconfigured :
    getMtb 2 5 (some 10) 5 9 = 2 ∧ getMtb 2 5 (some 10) 5 10 = 5 ∧
    tryRunGC { gcp := 1 } 2 8 9 = some 7 ∧ traceable 6 10 (getMtb 2 5 (some 10) 5 10) = true :=
  getMtb_can_grow_at_hardfork

/-- C11.10d the active flag the model keeps in `Cell.rc _ active _` is what the translated
`mpt.IsActiveValue` reads from a stored value `bytes ‖ flag ‖ counter`. -/
theorem is_active_value_translated (b : List UInt8) (flag : UInt8) (c0 c1 c2 c3 : UInt8) :
    let v := b ++ [flag, c0, c1, c2, c3]
    Generated.GoFuncs.mptIsActiveValue (v.length : Int) ((v.getD (v.length - 5) 0).toNat : Int) = decide (flag = 1) :=
  isActiveValue_flag b flag c0 c1 c2 c3

example : Generated.GoFuncs.mptIsActiveValue 7 1 = true ∧ Generated.GoFuncs.mptIsActiveValue 7 0 = false ∧
    Generated.GoFuncs.mptIsActiveValue 4 1 = false := by decide

/-! ## 11. hypotheses about reached states proved as invariants

`Bounded e.2` (every retained trie within the key/value limits), a hypothesis of the read theorems, is
an invariant of histories whose INPUTS respect the limits (`OpOK` / `EvOK`): trie.go `Put` rejects
longer keys / values, batches come from Go maps of contract storage items. -/

/-- C11.3c' `gc_safe` with the size bound PROVED instead of assumed: if the inputs of the history
respect the limits of `Put` / of contract storage (`OpOK`: key ≤ 136 nibbles, value ≤ 65539 bytes,
batches with distinct keys), every retained trie is `Bounded` — an invariant of the reachable states —
and the read of every retained root after one more GC(g ≤ hi) is exact. -/
theorem gc_safe_inputs (H : Bytes → Bytes) (h32 : ∀ b, (H b).length = 32) (ops : List Op) (hh : Heights none ops)
    (hok : ∀ o ∈ ops, OpOK o)
    (s : St) (hr : runOps H { mode := .gc } ops = some s) (g : Nat)
    (e : Nat × Node) (he : e ∈ s.hist) (hge : s.gcAt ≤ e.1) (hg : g ≤ e.1)
    (hne : e.2.isEmpty = false)
    (hcf : CollFree H (storeBytes (gc g s.store) ++ nodeEncs H e.2)) (p : Path) (v : Val) :
    (lookup e.2 p = some v → ∃ n, ∀ fuel, n ≤ fuel → swalk (gc g s.store) fuel (hash H e.2) p = .found v) ∧
    (∀ fuel, swalk (gc g s.store) fuel (hash H e.2) p = .found v → lookup e.2 p = some v) :=
  gc_safe H h32 ops hh s hr g e he hge hg hne
    (hist_bounded (run_sizeInv H .gc rfl ops none _ (inv_init H .gc) (sizeInv_init .gc) hh hok s hr) e he) hcf p v

/-- C11.6d' `node_traceable_roots_readable` with the size bound proved from the inputs of the blocks. -/
theorem node_traceable_roots_readable_inputs (H : Bytes → Bytes) (h32 : ∀ b, (H b).length = 32)
    (cfg : GcCfg) (mtb : Nat) (evs : List ChainEv) (hok : ∀ ev ∈ evs, EvOK ev) (c : Chain)
    (hc : runChain H { cfg := cfg, mtb := mtb } evs = some c)
    (e : Nat × Node) (he : e ∈ c.hist) (htr : traceable e.1 (c.next - 1) c.mtb = true)
    (hne : e.2.isEmpty = false)
    (hcf : CollFree H (storeBytes c.lay.view ++ nodeEncs H e.2)) (p : Path) (v : Val) :
    (lookup e.2 p = some v → ∃ n, ∀ fuel, n ≤ fuel → lwalk c.lay fuel (hash H e.2) p = .found v) ∧
    (∀ fuel, lwalk c.lay fuel (hash H e.2) p = .found v → lookup e.2 p = some v) := by
  obtain ⟨c', s, top, pn, hc', hs, hz⟩ := sim_run_size H evs _ _ none 0 (sim_init H cfg mtb) (sizeInv_init .gc) hok
  rw [hc] at hc'; cases hc'
  exact node_traceable_roots_readable H h32 cfg mtb evs c hc e he htr hne
    (hist_bounded hz e (by rw [hs.hist]; exact he)) hcf p v

-- non-vacuity: the inputs of the histories used above are within the limits
example : ∀ o ∈ gcOps, OpOK o := by
  intro o ho
  simp only [gcOps, List.mem_cons, List.mem_nil_iff, or_false] at ho
  rcases ho with rfl | rfl | rfl | rfl <;> simp [OpOK, SubOK, maxPathLength, maxValueLength]

end NeoModel.C11
