/-
C11 — trie node storage stays exact under reference counting and garbage collection.
Property theorems only (model: Model/MptRc.lean on top of the C10 trie model Model/Mpt.lean;
helper lemmas: Proofs/MptRc*.lean).

Vocabulary (all defined in the model / proof files, restated here in words):
  occ P t            number of positions of the unfolded trie `t` whose sub-trie satisfies `P`
  occH H t h         … whose sub-trie has hash `h`  (= the number of times node `h` occurs in `t`)
  putEv/deleteEv/putBatchTopEv    the addRef (+1) / removeRef (-1) calls the code makes, in order
  net P evs          the sum of those ±1 over the nodes satisfying `P`
  Store, Cell        DataMPT records: hash ↦ `rc bytes active num` (count, or deactivation height)
  runOps             a history: committed blocks (lists of Put/Delete/PutBatch), GC(g), restarts
  Heights none ops   the block heights of the history strictly increase
  Kept H s t hi      every node of `t` is in `s`: active, or inactive since a height > `hi`
  swalk              `GetState`: walk from a root hash through the store (the driver's read)
-/
import NeoModel.Model.MptRc
import NeoModel.Proofs.MptRcOcc
import NeoModel.Proofs.MptRcBatch
import NeoModel.Proofs.MptRcFlush
import NeoModel.Proofs.MptRcExact
import NeoModel.Proofs.MptRcRun
import NeoModel.Proofs.MptRcRead
import NeoModel.Proofs.MptRcRestore
import NeoModel.Proofs.MptRcPerm
namespace NeoModel.C11
open NeoModel.Mpt NeoModel.MptRc

/-! ## 1. the recorded reference-count events are exact -/

/-- C11.1a `Put`: for every node predicate (in particular "has hash h"), the occurrences after the
operation are the occurrences before plus the net of the recorded events. Any trie, any path. -/
theorem delta_exact_put (P : Node → Bool) (t : Node) (p : Path) (v : Val) :
    (occ P (put t p v) : Int) = occ P t + net P (putEv t p v) :=
  occ_put P t p v

/-- C11.1b `Delete` (incl. branch collapse into an extension and extension merging). -/
theorem delta_exact_delete (P : Node → Bool) (t : Node) (p : Path) :
    (occ P (delete t p) : Int) = occ P t + net P (deleteEv t p) :=
  occ_delete P t p

/-- C11.1c `PutBatch` — the separate batch code path (`putBatchInto*`, `newSubTrieMany`,
`addToBranch`, `stripBranch`, `mergeExtension`), any trie, any batch. -/
theorem delta_exact_putBatch (P : Node → Bool) (t : Node) (kv : Batch) :
    (occ P (putBatch t kv) : Int) = occ P t + net P (putBatchTopEv t kv) :=
  occ_putBatch P t kv

/-- C11.1d a whole block (any sequence of Put / Delete / PutBatch). -/
theorem delta_exact_block (P : Node → Bool) (t : Node) (ops : List SubOp) :
    (occ P (trieAfter t ops) : Int) = occ P t + net P (blockEvs t ops) :=
  occ_block P ops t

/-- C11.1e the refcount map records exactly those deltas: after `addRef/removeRef` for the events
`evs`, the map's delta for hash `k` has moved by the net of the events on nodes with hash `k`, and
the cached stored counts are untouched. -/
theorem refcount_map_exact (H : Bytes → Bytes) (m : RcMap) (evs : Evs) (hn : (mkeys m).Nodup) (hok : MapOK H m)
    (k : Bytes) :
    dlt (applyEvs H m evs) k = dlt m k + net (hP H k) evs ∧ ini (applyEvs H m evs) k = ini m k :=
  (applyEvs_spec H evs m hn hok).2.2 k

/-- C11.1f the refcount map is a Go map iterated in random order by `Flush` (trie.go:416): for any
two orders of the same entries, if no entry hits the negative-count panic, `Flush` succeeds for both
and leaves the same record under every hash and the same map entry for every hash. -/
theorem flush_order_irrelevant (mode : Mode) (idx : Nat) (m1 m2 : RcMap) (hp : m1.Perm m2)
    (hn : (mkeys m1).Nodup) (s : Store)
    (hok : ∀ k e, mget m1 k = some e → estep mode idx (sget s k) e ≠ none) :
    ∃ r1 r2, flush mode idx m1 s = some r1 ∧ flush mode idx m2 s = some r2 ∧
      ∀ k, sget r1.2 k = sget r2.2 k ∧ mget r1.1 k = mget r2.1 k :=
  MptRc.flush_order_irrelevant mode idx m1 m2 hp hn s hok

-- non-vacuity: the leaf `aa` occurs twice; deleting one key drops exactly one occurrence and the
-- events say so; a batch that re-creates it brings it back
def isAA : Node → Bool := fun n => match n with | .leaf v => v == [0xaa] | _ => false
def exT : Node := put (put .empty [1,2] [0xaa]) [1,3] [0xaa]

example : occ isAA exT = 2 := by decide
example : net isAA (deleteEv exT [1,2]) = -1 := by decide
example : (occ isAA (delete exT [1,2]) : Int) = 2 + -1 := by
  rw [delta_exact_delete]; decide
example : (occ isAA (putBatch exT [([1,4], some [0xaa])]) : Int) = 2 + net isAA (putBatchTopEv exT [([1,4], some [0xaa])]) :=
  delta_exact_putBatch _ _ _

/-! ## 2. ModeLatest: the store is exact after every block -/

/-- C11.2: in ModeLatest, for every history of committed blocks (strictly increasing heights;
restarts and — vacuous here — collections anywhere), `Flush` never panics, and afterwards the store
holds a record for hash `h` iff `h` occurs in the latest trie; the record is active, its count is the
number of occurrences, and its bytes hash to `h`. -/
theorem latest_exact (H : Bytes → Bytes) (ops : List Op) (hh : Heights none ops) :
    ∃ s, runOps H { mode := .latest } ops = some s ∧
      ∀ h, match sget s.store h with
        | none => occH H s.root h = 0
        | some c => ∃ b, c = .rc b true (occH H s.root h) ∧ 0 < occH H s.root h ∧ H b = h := by
  obtain ⟨s, top, hr, hinv⟩ := run_inv H .latest rfl ops none _ (inv_init H .latest) hh
  refine ⟨s, hr, fun h => ?_⟩
  have hc := hinv.exact.count h
  simp only [activeCnt] at hc
  cases hs : sget s.store h with
  | none => rw [hs] at hc; simpa [actC] using hc.symm
  | some c =>
    have hsh := hinv.exact.shape h c hs
    have hb := hinv.exact.bytes h c hs
    rw [hs] at hc
    cases c with
    | plain b => exact hsh.elim
    | rc b a n =>
      cases a with
      | false => simp [CellOK, Mode.gcF] at hsh
      | true =>
        simp only [actC] at hc
        simp only [CellOK] at hsh
        exact ⟨b, by rw [hc], by omega, hb⟩

-- non-vacuity: a concrete history (shared leaf, delete, re-create, restart)
example (H : Bytes → Bytes) : ∃ s, runOps H { mode := .latest }
    [.block 0 [.put [1,2] [0xaa], .put [3,4] [0xaa]], .block 1 [.del [1,2]], .reset,
     .block 5 [.batch [([1,2], some [0xaa]), ([3,4], none)]]] = some s ∧
    ∀ h, match sget s.store h with
      | none => occH H s.root h = 0
      | some c => ∃ b, c = .rc b true (occH H s.root h) ∧ 0 < occH H s.root h ∧ H b = h :=
  latest_exact H _ (by simp [Heights])

/-- C11.2b state-sync restore (billet.go:150-210): handing every (node, path) of a trie `t` to
`RestoreHashNode` once — the contract of the MPT pool — into an empty store leaves the store exact
for `t`: count = occurrences, every record active with a positive count and bytes hashing to its key. -/
theorem restore_exact (H : Bytes → Bytes) (mode : Mode) (hrc : mode.rc = true) (t : Node) :
    (∀ h, activeCnt (restoreAll H mode [] t) h = occH H t h) ∧
    (∀ h c, sget (restoreAll H mode [] t) h = some c → ∃ b n, c = .rc b true n ∧ 0 < n ∧ H b = h) := by
  obtain ⟨ha, _⟩ := restore_fold H mode hrc (positions t) [] (fun h c hc => by simp [sget] at hc)
  exact ⟨(restore_exact_store H mode hrc t).count, ha⟩

-- non-vacuity: the trie with the leaf `aa` at two positions; its record carries count 2
set_option maxRecDepth 100000 in
example : activeCnt (restoreAll toyH .latest [] exT) (hash toyH (.leaf [0xaa])) = 2 := by decide

/-! ## 3. ModeGC: retained roots stay complete; GC removes only what no retained root needs -/

/-- C11.3a: in ModeGC, for every history (blocks with increasing heights, `GC(g)` at any heights,
restarts) `Flush` never panics; afterwards (i) the active records are exactly the nodes of the latest
trie with count = occurrences, every other record is inactive; (ii) for every committed height `hi`
not below the largest collection index, every node of that height's trie is still in the store —
active, or inactive since a height `> hi`. -/
theorem gc_mode_exact (H : Bytes → Bytes) (ops : List Op) (hh : Heights none ops) :
    ∃ s, runOps H { mode := .gc } ops = some s ∧
      (∀ h, activeCnt s.store h = occH H s.root h) ∧
      (∀ h c, sget s.store h = some c → (∃ b n, c = .rc b true n ∧ 0 < n) ∨ (∃ b k, c = .rc b false k)) ∧
      (∀ e ∈ s.hist, s.gcAt ≤ e.1 → Kept H s.store e.2 e.1) := by
  obtain ⟨s, top, hr, hinv⟩ := run_inv H .gc rfl ops none _ (inv_init H .gc) hh
  refine ⟨s, hr, hinv.exact.count, ?_, hinv.kept rfl⟩
  intro h c hs
  have hsh := hinv.exact.shape h c hs
  cases c with
  | plain b => exact hsh.elim
  | rc b a n =>
    cases a with
    | true => exact Or.inl ⟨b, n, rfl, hsh⟩
    | false => exact Or.inr ⟨b, n, rfl⟩

/-- C11.3a' "present and decodable": in the situation of `gc_mode_exact`, for every retained height
the store holds, under the hash of each of that trie's node encodings, a record with exactly those
bytes (which `decodeTop` decodes back to the node: C10 `decodeTop_enc`) — provided `H` has no
collision among the stored byte strings and that trie's node encodings. -/
theorem retained_nodes_present (H : Bytes → Bytes) (ops : List Op) (hh : Heights none ops)
    (s : St) (hr : runOps H { mode := .gc } ops = some s)
    (e : Nat × Node) (he : e ∈ s.hist) (hge : s.gcAt ≤ e.1)
    (hcf : CollFree H (storeBytes s.store ++ nodeEncs H e.2)) :
    ∀ x ∈ nodeEncs H e.2, ∃ c, sget s.store (H x) = some c ∧ c.bytes = x := by
  obtain ⟨s', top, hr', hinv⟩ := run_inv H .gc rfl ops none _ (inv_init H .gc) hh
  rw [hr] at hr'; cases hr'
  intro x hx
  have hk := hinv.kept rfl e he hge (H x) (occH_pos_of_mem_nodeEncs H e.2 x hx)
  cases hs : sget s.store (H x) with
  | none => rw [hs] at hk; exact hk.elim
  | some c =>
    refine ⟨c, rfl, ?_⟩
    exact hcf _ (List.mem_append_left _ (bytes_mem_of_sget hs)) _ (List.mem_append_right _ hx)
      (hinv.exact.bytes _ _ hs)

/-- C11.3b what `GC(g)` does, per record: an inactive record whose height is `≤ g` disappears;
every other record (active, or inactive since a later height) is left exactly as it was. -/
theorem gc_deletes_only_old_inactive (g : Nat) (s : Store) (hn : StoreND s) (k : Bytes) :
    sget (gc g s) k =
      match sget s k with
      | some (.rc b false n) => if g < n then some (.rc b false n) else none
      | c => c :=
  sget_gc g s hn k

/-- C11.3c `gc_safe`: after any history in ModeGC, take any committed height `hi` that is not below
the largest collection index so far, and run one more `GC(g)` with `g ≤ hi`. Then reading the root
of height `hi` through the store (`GetState`, the driver's `swalk`) still returns exactly what that
height's trie holds: every present key is found with its value (given enough recursion fuel), and
nothing else is ever returned. Needs of `H`: 32-byte output and no collision among the stored byte
strings and that trie's node encodings. -/
theorem gc_safe (H : Bytes → Bytes) (h32 : ∀ b, (H b).length = 32) (ops : List Op) (hh : Heights none ops)
    (s : St) (hr : runOps H { mode := .gc } ops = some s) (g : Nat)
    (e : Nat × Node) (he : e ∈ s.hist) (hge : s.gcAt ≤ e.1) (hg : g ≤ e.1)
    (hne : e.2.isEmpty = false) (hb : Bounded e.2)
    (hcf : CollFree H (storeBytes (gc g s.store) ++ nodeEncs H e.2)) (p : Path) (v : Val) :
    (lookup e.2 p = some v → ∃ n, ∀ fuel, n ≤ fuel → swalk (gc g s.store) fuel (hash H e.2) p = .found v) ∧
    (∀ fuel, swalk (gc g s.store) fuel (hash H e.2) p = .found v → lookup e.2 p = some v) := by
  obtain ⟨s', top, hr', hinv⟩ := run_inv H .gc rfl ops none _ (inv_init H .gc) hh
  rw [hr] at hr'; cases hr'
  have hinv' := gc_inv H .gc top s g hinv
  have hk : Kept H (gc g s.store) e.2 e.1 :=
    hinv'.kept rfl e he (by show max s.gcAt g ≤ e.1; omega)
  have hin := nodeEncs_in_store hk hinv'.exact.bytes hcf
  have hcf' : CollFree H (storeBytes (gc g s.store)) :=
    collFree_subset hcf (fun x hx => List.mem_append_left _ hx)
  have hsw : ∀ f h p, swalk (gc g s.store) f h p = walk H (storeBytes (gc g s.store)) f h p :=
    swalk_eq_walk (H := H) hinv'.nd hinv'.exact.bytes
  obtain ⟨h1, h2⟩ := reopen_get h32 e.2 hb hne (storeBytes (gc g s.store)) hin hcf' p v
  refine ⟨fun hl => ?_, fun fuel hf => h1 fuel (by rw [← hsw]; exact hf)⟩
  obtain ⟨n, hn⟩ := h2 hl
  exact ⟨n, fun fuel hf => by rw [hsw]; exact hn fuel hf⟩

-- non-vacuity (toy hash): block 0 {12↦aa, 34↦bb}; block 1 deletes 12; GC(1); block 2 {12↦cc}.
-- The history is valid, three heights are recorded, the collection index is 1 …
def gcOps : List Op :=
  [.block 0 [.put [1,2] [0xaa], .put [3,4] [0xbb]], .block 1 [.del [1,2]], .gc 1, .block 2 [.put [1,2] [0xcc]]]

example : Heights none gcOps := by simp [gcOps, Heights]

set_option maxRecDepth 100000 in
example : ((runOps toyH { mode := .gc } gcOps).map fun s => (s.gcAt, s.hist.map (·.1), s.store.length)) =
    some (1, [2, 1, 0], 6) := by decide

-- … the roots of heights 2 and 1 (≥ the collection index) still read `34 ↦ bb`, the root of height
-- 0 (below the window: its branch node was deactivated at height 1 and collected) fails cleanly
set_option maxRecDepth 100000 in
example : ((runOps toyH { mode := .gc } gcOps).map fun s =>
    s.hist.map fun e => swalk s.store 10 (hash toyH e.2) [3,4]) =
    some [.found [0xbb], .found [0xbb], .notFound] := by decide

example : ∃ s, runOps toyH { mode := .gc } gcOps = some s ∧
    (∀ h, activeCnt s.store h = occH toyH s.root h) ∧
    (∀ h c, sget s.store h = some c → (∃ b n, c = .rc b true n ∧ 0 < n) ∨ (∃ b k, c = .rc b false k)) ∧
    (∀ e ∈ s.hist, s.gcAt ≤ e.1 → Kept toyH s.store e.2 e.1) :=
  gc_mode_exact toyH gcOps (by simp [gcOps, Heights])

/-! ## 4. a root that is no longer retained fails cleanly -/

/-- C11.4: after any history (either counting mode), reading ANY root hash — in particular the root
of a height below the retained window, whose nodes may be partly gone — through the store never
returns a wrong value: if the walk finds `v` under `key`, the trie with that root holds `v` there.
(Otherwise the read ends `notFound`.) Needs `H` collision-free on the stored byte strings and the
old trie's node encodings. -/
theorem stale_root_fails_clean (H : Bytes → Bytes) (h32 : ∀ b, (H b).length = 32) (mode : Mode) (hrc : mode.rc = true)
    (ops : List Op) (hh : Heights none ops) (s : St) (hr : runOps H { mode := mode } ops = some s)
    (t : Node) (hne : t.isEmpty = false) (hb : Bounded t)
    (hcf : CollFree H (storeBytes s.store ++ nodeEncs H t)) (fuel : Nat) (p : Path) (v : Val)
    (hw : swalk s.store fuel (hash H t) p = .found v) : lookup t p = some v := by
  obtain ⟨s', top, hr', hinv⟩ := run_inv H mode hrc ops none _ (inv_init H mode) hh
  rw [hr] at hr'; cases hr'
  rw [swalk_eq_walk (H := H) hinv.nd hinv.exact.bytes] at hw
  exact walk_sound hcf h32 (storeBytes s.store) (fun x hx => List.mem_append_left _ hx) t fuel p v hb hne
    (fun x hx => List.mem_append_right _ hx) hw

/-! ## 5. a block that is computed but never committed (DESIGN §6 item 11)

Full statement (what the property asks):
  uncommitted_block_harmless : dropBlock H s idx ops = some s' →
      commit H s' idx' ops' = commit H s idx' ops'          -- the dropped block leaves no trace
It is FALSE for the code as written: `AddMPTBatch` works on a shallow copy (`mpt := *s.mpt`), the
nodes are updated in place and the refcount map is shared. What does hold in the model: the store
itself is not written (the real code even violates that through slice aliasing, see props/C11.json).
Negation witness below (toy hash); the replay on the real code is corpus case 3 of stream `mptrc`. -/

theorem uncommitted_block_store_untouched_partial (H : Bytes → Bytes) (s s' : St) (idx : Nat) (ops : List SubOp)
    (h : dropBlock H s idx ops = some s') : s'.store = s.store ∧ s'.roots = s.roots := by
  simp only [dropBlock] at h
  cases hc : compute H s idx ops with
  | none => simp [hc] at h
  | some r =>
    obtain ⟨t', m', st'⟩ := r
    simp only [hc, Option.some.injEq] at h
    subst h; exact ⟨rfl, rfl⟩

def wB0 : List SubOp := [.put [1,2] [0xaa], .put [3,4] [0xbb]]
def wDrop : List SubOp := [.put [5,6] [0xcc]]
def wB1 : List SubOp := [.put [1,2] [0xdd]]

/-- block 0, then block 1' computed and dropped, then block 1. -/
def withDrop : Option St := do
  let a ← commit toyH { mode := .latest } 0 wB0
  let b ← dropBlock toyH a 1 wDrop
  commit toyH b 1 wB1

/-- block 0, then block 1 (what a deep copy would give). -/
def withoutDrop : Option St := do
  let a ← commit toyH { mode := .latest } 0 wB0
  commit toyH (dropBlockSpec a) 1 wB1

set_option maxRecDepth 100000 in
/-- C11.5 (negation): the dropped block's key is in the committed state of the next block … -/
theorem uncommitted_block_not_harmless :
    (withDrop.map fun s => lookup s.root [5,6]) = some (some [0xcc]) ∧
    (withoutDrop.map fun s => lookup s.root [5,6]) = some none := by
  constructor <;> decide

set_option maxRecDepth 100000 in
/-- … and the store is no longer exact: the dropped leaf occurs in the latest trie but has no record. -/
theorem uncommitted_block_breaks_exactness :
    (withDrop.map fun s => (occH toyH s.root (hash toyH (.leaf [0xcc])),
        (sget s.store (hash toyH (.leaf [0xcc]))).isSome)) = some (1, false) := by
  decide

end NeoModel.C11
