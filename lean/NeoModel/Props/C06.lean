/-
C06 — only valid chain extensions are accepted; a rejected block changes nothing.
Property theorems over the model `NeoModel.Model.AddBlock` (helper lemmas: Proofs/AddBlock*.lean).
-/
import NeoModel.Proofs.AddBlockHist
import NeoModel.Proofs.AddBlockMerkle
namespace NeoModel.AddBlock
variable {L : Type}

/-! ### concrete objects for the non-vacuity examples and the replays of the fixed defects -/

/-- a small concrete environment for the non-vacuity examples: witness `w` signs hash `h` for
address `a` iff `w = h + a`; Merkle = sum of ids; a tx is valid iff its witness equals its id; the
ledger is a pair (state, dirt): executing a block adds its index and tx ids to the state (and 1000 per
unit of dirt — a damaged trie computes other roots), the state root is the state, a block executed by
a storeBlock call that then fails leaves dirt behind. -/
def exEnv : Env (Nat × Nat) :=
  { signedBy := fun w h a => w == h + a, merkle := fun ids => ids.sum, txValid := fun _ _ t => t.wit == t.id,
    balance := fun _ _ => 100, apply := fun l b => some (l.1 + b.hdr.index + (b.txs.map (·.id)).sum + 1000 * l.2, l.2),
    rootOf := fun l => l.1, keep := fun _ _ => true, spoil := fun l _ => (l.1, l.2 + 1) }

theorem exEnv_root (l : Nat × Nat) (b : Block) : exEnv.rootOf (exEnv.spoil l b) = exEnv.rootOf l := rfl

def exCfg : Cfg := { sr := true, verifyTx := true, skip := false }
def g0 : Header := { index := 0, hash := 10, prevHash := 0, merkleRoot := 0, ts := 5, nextConsensus := 7, sre := true, prevStateRoot := 0, wit := 0 }
def exNode : Node (Nat × Nat) := { cfg := exCfg, blockHeight := 0, headers := [g0], ledger := (3, 0), pool := [] }
/-- a valid block 1 on `exNode` with one transaction -/
def h1 : Header := { index := 1, hash := 11, prevHash := 10, merkleRoot := 42, ts := 6, nextConsensus := 7, sre := true, prevStateRoot := 3, wit := 18 }
def t42 : Tx := { id := 42, wit := 42, sender := 1, fee := 5, netFee := 2, conflicts := [] }
def b1 : Block := { hdr := h1, txs := [t42] }
/-- a valid header 2 on top of `h1` (PrevStateRoot 46 = the root after `b1`) -/
def h2x : Header := { index := 2, hash := 12, prevHash := 11, merkleRoot := 0, ts := 7, nextConsensus := 7, sre := true, prevStateRoot := 46, wit := 19 }


/-! ### theorems -/

/-! ### C06 (2): a rejected block changes nothing

The FULL statement is `reject_changes_nothing` in Props/C06Rules.lean (since the fixes b358bb1 and
"reload the state trie when a block is processed but not stored" a failing storeBlock leaves no trace).
The two theorems below are the weaker forms proved while the code still violated the full statement; they
remain true and are kept as lemmas. The old behaviour and its negation witnesses: Props/C06Old.lean. -/

/-- C06 (2), partial: a rejected block changes neither configuration, height nor mempool; the ledger
is untouched unless storeBlock executed the block and then failed (`LedgerAfterReject`); the header
chain is untouched, or extended by exactly this block's header, which then (unless
SkipBlockVerification) is linked to the last recorded header — previous hash, next index, later
timestamp — and signed by the consensus address that header designates. -/
theorem reject_changes_nothing_partial (env : Env L) (s s' : Node L) (b : Block) (e : Err)
    (hne : s.headers ≠ []) (hix : Indexed s.headers)
    (h : addBlock env s b = (s', some e)) :
    s'.cfg = s.cfg ∧ s'.blockHeight = s.blockHeight ∧ LedgerAfterReject env s s' b e ∧ s'.pool = s.pool ∧
    (s'.headers = s.headers ∨
      (s'.headers = s.headers ++ [b.hdr] ∧ b.hdr.index = s.headerHeight + 1 ∧
        (s.cfg.skip = false → ∃ last, s.headers.getLast? = some last ∧ LinkOK env last b.hdr))) :=
  reject_changes_nothing_aux env s s' b e hne hix h

/-- C06 (2) at full strength for every rejection other than a storeBlock failure: nothing of the
ledger changes. -/
theorem reject_changes_nothing_unless_store (env : Env L) (s s' : Node L) (b : Block) (e : Err)
    (hne : s.headers ≠ []) (hix : Indexed s.headers) (he : e ≠ .store)
    (h : addBlock env s b = (s', some e)) : s'.ledger = s.ledger := by
  obtain ⟨_, _, hl, _⟩ := reject_changes_nothing_aux env s s' b e hne hix h
  rcases hl with hl | ⟨hs, _⟩
  · exact hl
  · exact absurd hs he

-- non-vacuity: a block whose header is validly signed and linked but whose transaction list was
-- emptied is rejected (Merkle root) and leaves exactly its header behind; `exNode` meets the hypotheses.
example : (addBlock exEnv exNode { b1 with txs := [] }).2 = some .merkle ∧
    (addBlock exEnv exNode { b1 with txs := [] }).1.headers = [g0, h1] := by decide
example : exNode.headers ≠ [] ∧ Indexed exNode.headers := by
  refine ⟨by decide, ?_⟩
  intro i h hg
  match i with
  | 0 => simp [exNode] at hg; subst hg; rfl
  | i + 1 => simp [exNode] at hg
-- and the untouched block is accepted
example : (addBlock exEnv exNode b1).2 = none ∧ (addBlock exEnv exNode b1).1.blockHeight = 1 := by decide

/-- the next header (index 2) is already recorded and carries a PrevStateRoot (99) that the valid
block 1 does not produce (46): storeBlock executes block 1 and then fails -/
def h2bad : Header := { index := 2, hash := 12, prevHash := 11, merkleRoot := 0, ts := 7, nextConsensus := 7, sre := true, prevStateRoot := 99, wit := 19 }
def exBadNext : Node (Nat × Nat) := { exNode with headers := [g0, h1, h2bad] }

-- the block is rejected (store) and the node is exactly what it was
example : (addBlock exEnv exBadNext b1).2 = some .store ∧
    (addBlock exEnv exBadNext b1).1.ledger = exBadNext.ledger := by decide

/-! ### C06 (1): only valid extensions are accepted -/

/-- C06 (1), full strength. If AddBlock accepts `b` (block verification on) at a node satisfying the
header-chain invariant, then `b` directly extends the tip (next index, previous hash, strictly later
timestamp), carries the Merkle root of its transactions, is signed — with the witness it presents —
by the consensus address the tip designates, has the configured state-root flag and, with state roots
in headers, the local state root as PrevStateRoot; its transaction hashes are pairwise different;
and with VerifyTransactions every transaction is individually valid and the transactions are
mutually compatible (no Conflicts reference between two of them, every sender can pay all of its
transactions of the block).

Hypotheses besides the invariant: no hash collision among the recorded headers and the block's header
(`HashBinds`); the mempool holds only transactions that are valid at this state (mempool soundness,
C07's subject) and a pooled transaction with the same hash and witness as a block transaction is
that transaction (`htx`, collision-freeness of the transaction hash). -/
theorem accept_only_valid (env : Env L) (s s' : Node L) (b : Block)
    (hskip : s.cfg.skip = false) (hinv : Inv env s) (hbind : HashBinds s b)
    (hpool : ∀ q ∈ s.pool, env.txValid s.ledger s.blockHeight q = true)
    (htx : ∀ q ∈ s.pool, ∀ t ∈ b.txs, q.id = t.id → q.wit = t.wit → q = t)
    (h : addBlock env s b = (s', none)) :
    ∃ tip, s.headers[s.blockHeight]? = some tip ∧
      b.hdr.index = s.blockHeight + 1 ∧
      b.hdr.prevHash = tip.hash ∧ tip.ts < b.hdr.ts ∧
      b.hdr.merkleRoot = env.merkle (b.txs.map (·.id)) ∧
      env.signedBy b.hdr.wit b.hdr.hash tip.nextConsensus = true ∧
      b.hdr.sre = s.cfg.sr ∧
      (s.cfg.sr = true → b.hdr.prevStateRoot = env.rootOf s.ledger) ∧
      (b.txs.map (·.id)).Nodup ∧
      (s.cfg.verifyTx = true → (∀ t ∈ b.txs, env.txValid s.ledger s.blockHeight t = true) ∧
        Compatible (env.balance s.ledger) b.txs) := by
  rcases addBlock_spec env s s' b none h with ⟨_, _, e, he⟩ | ⟨_, _, _, he⟩ | ⟨hbi, hbsr, s1, r1, hs1, hrest⟩
  · cases he
  · cases he
  rcases hrest with ⟨_, _, _, hn⟩ | ⟨hr1, hbody⟩
  · cases hn
  subst hr1
  obtain ⟨tip, htip, c1, c2, c3, c4⟩ := header_conjuncts env s s1 b hskip hinv hbind hbi hs1
  have hsame : s1.cfg = s.cfg ∧ s1.blockHeight = s.blockHeight ∧ s1.ledger = s.ledger ∧ s1.pool = s.pool := by
    rcases headerStep_spec env s s1 b none hinv.ne hs1 with ⟨_, hr, _⟩ | ⟨_, _, rfl, _⟩ | ⟨_, _, rfl, _⟩
    · cases hr
    · exact ⟨rfl, rfl, rfl, rfl⟩
    · exact ⟨rfl, rfl, rfl, rfl⟩
  obtain ⟨e1, e2, e3, e4⟩ := hsame
  obtain ⟨hm, hd, hl, _⟩ := bodyStep_ok env s1 s' b (by rw [e1]; exact hskip) hbody
  have hnd := hasDup_false_nodup _ hd
  refine ⟨tip, htip, hbi, c1, c2, hm, c4, hbsr, c3, hnd, ?_⟩
  intro hv
  have hv1 : s1.cfg.verifyTx = true := by rw [e1]; exact hv
  constructor
  · intro t ht
    have := txLoop_verified env s1 hv1 [] b.txs hl t ht
    rw [e2, e3] at this
    rcases this with hval | hps
    · exact hval
    · unfold pooledSame at hps
      rw [e4, List.any_eq_true] at hps
      obtain ⟨q, hq, hqe⟩ := hps
      simp only [Bool.and_eq_true, beq_iff_eq] at hqe
      have := htx q hq t ht hqe.1 hqe.2
      rw [← this]; exact hpool q hq
  · obtain ⟨p1, _, p3⟩ := txLoop_compatible env s1 hv1 [] b.txs hl
    refine ⟨hnd, p1, ?_⟩
    intro a ha
    have := p3 a ha
    rw [e3] at this
    simpa [sumFee, sumBy] using this

-- non-vacuity: `exNode`/`b1` meet the hypotheses and the block is accepted
example : Inv exEnv exNode ∧ (addBlock exEnv exNode b1).2 = none :=
  ⟨inv_genesis exEnv exCfg g0 (3, 0) [] rfl, by decide⟩

/-- the mempool-soundness hypothesis `hpool` of `accept_only_valid` is needed: a transaction that is
pooled (same hash, same witness) is not verified again, so if it lost its validity while pooled and the
mempool kept it, the block carrying it is accepted. The real mempool re-checks, after every block,
expiry and the ValidUntilBlock window, on-chain conflicts, policy (blocked signers), the size and
attribute fees, the verification cost of standard witnesses and the balance (IsTxStillRelevant /
RemoveStale; blocked signers and attribute fees since 397b691, the window since 0375dbe, the witness
cost since 4f45775 — this check had found a pooled transaction surviving a small FeePerByte raise;
its replay stays in the corpus). That the mempool is sound is C07's subject; here it is a hypothesis. -/
def tStale : Tx := { id := 60, wit := 61, sender := 1, fee := 5, netFee := 2, conflicts := [] }
def exStalePool : Node (Nat × Nat) := { exNode with pool := [tStale] }
def bStale : Block := { hdr := { h1 with hash := 13, merkleRoot := 60, wit := 20 }, txs := [tStale] }

theorem stale_pooled_tx_accepted :
    (addBlock exEnv exStalePool bStale).2 = none ∧ exStalePool.cfg.verifyTx = true ∧
      exEnv.txValid exStalePool.ledger exStalePool.blockHeight tStale = false := by decide

/-! The four defects this check found in the code as it was (now fixed: d99d969, ec0103c, d0c3ec8,
ab64b57) as concrete replays on the model: each block was accepted by the old decision logic and is
rejected now. -/

/-- header `h1` already recorded ahead of the tip (as after AddHeaders) -/
def exAhead : Node (Nat × Nat) := { exNode with headers := [g0, h1] }
/-- the valid block with a corrupted witness (19 instead of 18) -/
def b1BadWit : Block := { b1 with hdr := { h1 with wit := 19 } }

/-- (a) header already known, corrupted witness: rejected, nothing stored; the untouched block passes -/
theorem known_header_corrupted_witness_rejected :
    (addBlock exEnv exAhead b1BadWit).2 = some .witness ∧
      (addBlock exEnv exAhead b1BadWit).1.headers = exAhead.headers ∧ (addBlock exEnv exAhead b1).2 = none := by
  decide

/-- the mempool holds transaction 42 -/
def exPooled : Node (Nat × Nat) := { exNode with pool := [t42] }
/-- the valid block carrying transaction 42 with a corrupted witness -/
def b1BadTxWit : Block := { b1 with txs := [{ t42 with wit := 43 }] }

/-- (b) pooled transaction, block copy with a corrupted witness: rejected; the untouched block passes -/
theorem pooled_tx_corrupted_witness_rejected :
    (addBlock exEnv exPooled b1BadTxWit).2 = some .tx ∧ (addBlock exEnv exPooled b1).2 = none := by decide

/-- t50 names t42 in a Conflicts attribute, same sender, higher network fee -/
def t50 : Tx := { id := 50, wit := 50, sender := 1, fee := 6, netFee := 3, conflicts := [42] }
def b1Conflict : Block :=
  { hdr := { h1 with hash := 12, merkleRoot := 92, wit := 19 }, txs := [t42, t50] }

/-- (c) two valid but conflicting transactions in a block signed by the validators: rejected
(its validly signed header stays recorded) -/
theorem inblock_conflict_rejected :
    (addBlock exEnv exNode b1Conflict).2 = some .tx ∧
      (addBlock exEnv exNode b1Conflict).1.headers = [g0, b1Conflict.hdr] := by decide

/-- (d) a repeated transaction is rejected even without VerifyTransactions. (With the real Merkle
function the list [a,b,c,c] has the root of [a,b,c]; here the header simply carries the root of the
longer list.) -/
theorem duplicate_tx_rejected :
    (addBlock exEnv { exNode with cfg := { exCfg with verifyTx := false } }
      { hdr := { h1 with merkleRoot := 84 }, txs := [t42, t42] }).2 = some .dup := by decide

/-! ### C06 (3) -/

/-! The FULL statement (no ledger hypothesis) is `correct_still_accepted` in Props/C06Rules.lean. -/

/-- C06 (3), partial: after any rejected block `b'` that left the ledger alone (every rejection except
a storeBlock failure after execution, by `reject_changes_nothing_unless_store`), a block `b` that the
node would accept is still accepted and leads to exactly the same node as without `b'` — provided `b'`
did not leave the header of a *different* block behind (header chain untouched, or `b'`'s header hash is
`b`'s). In the excluded header case the validators signed two headers for one height; the recorded
one wins (`hashMismatch`). -/
theorem correct_still_accepted_partial (env : Env L) (s s' t : Node L) (b' b : Block) (e : Err)
    (hne : s.headers ≠ []) (hix : Indexed s.headers)
    (hrej : addBlock env s b' = (s', some e))
    (hacc : addBlock env s b = (t, none))
    (hsame : s'.headers = s.headers ∨ b'.hdr.hash = b.hdr.hash)
    (hled : s'.ledger = s.ledger) :
    addBlock env s' b = (t, none) :=
  correct_still_accepted_aux env s s' t b' b e hne hix hrej hacc hsame hled

/-- a node that skips block verification, with the headers of blocks 1 and 2 recorded -/
def exSkip : Node (Nat × Nat) := { exNode with cfg := { exCfg with skip := true }, headers := [g0, h1, h2x] }

-- a body with another transaction list under block 1's header is executed and refused by header 2's
-- PrevStateRoot; afterwards the valid block 1 is accepted (it was refused before the trie-reload fix)
example : (addBlock exEnv exSkip b1).2 = none ∧
    (addBlock exEnv exSkip { b1 with txs := [t42, t50] }).2 = some .store ∧
    (addBlock exEnv (addBlock exEnv exSkip { b1 with txs := [t42, t50] }).1 b1).2 = none := by decide

-- non-vacuity: the emptied block is rejected leaving its header, the real block is then accepted
example : (addBlock exEnv exNode { b1 with txs := [] }).2 = some .merkle ∧
    (addBlock exEnv (addBlock exEnv exNode { b1 with txs := [] }).1 b1).2 = none ∧
    (addBlock exEnv (addBlock exEnv exNode { b1 with txs := [] }).1 b1).1.headers = (addBlock exEnv exNode b1).1.headers := by
  decide

/-! ### the invariant holds along every history -/

/-- C06: `Inv` (headers ahead of the tip are linked, signed and, for the first one, carry the local
state root) is kept by every AddBlock call, accepted or not. With `inv_genesis` this makes
`accept_only_valid` applicable at every reachable state. -/
theorem inv_addBlock (env : Env L) (hroot : ∀ l b, env.rootOf (env.spoil l b) = env.rootOf l)
    (s s' : Node L) (b : Block) (r : Option Err)
    (hskip : s.cfg.skip = false) (hinv : Inv env s) (hbind : HashBinds s b)
    (h : addBlock env s b = (s', r)) : Inv env s' :=
  inv_addBlock_aux env hroot s s' b r hskip hinv hbind h

example : Inv exEnv (addBlock exEnv exNode b1).1 :=
  inv_addBlock exEnv exEnv_root exNode _ b1 _ rfl (inv_genesis exEnv exCfg g0 (3, 0) [] rfl)
    ⟨by intro kh hm hh; simp [exNode] at hm; subst hm; exact absurd hh (by decide),
     by intro x hx y hy _; simp [exNode] at hx hy; subst hx; subst hy; rfl⟩ rfl

/-- C06: AddHeaders (verification on) with any list of headers keeps the invariant. -/
theorem inv_addHeaders (env : Env L) (s s' : Node L) (hs : List Header) (r : Option Err)
    (hinv : Inv env s) (h : addHeaders env s true hs = (s', r)) : Inv env s' :=
  inv_addHeaders_aux env s s' hs r hinv h

-- non-vacuity: two linked, signed headers ahead of the genesis-only node are recorded
example : (addHeaders exEnv exNode true [h1, h2x]).1.headers = [g0, h1, h2x] ∧
    (addHeaders exEnv exNode true [h1, h2x]).2 = none := by decide

/-- C06, histories: along every sequence of AddBlock / AddHeaders calls (any blocks, any header
lists, accepted or rejected) starting from a node that satisfies the invariant — e.g. the node holding
only the genesis header (`inv_genesis`) — the invariant holds and the configuration is unchanged;
hence `accept_only_valid` applies at every reachable state. Hypothesis: the header hash determines
the hashable fields. -/
theorem inv_run (env : Env L) (hroot : ∀ l b, env.rootOf (env.spoil l b) = env.rootOf l)
    (hcoll : ∀ x y : Header, x.hash = y.hash → SameCore x y)
    (s : Node L) (hskip : s.cfg.skip = false) (hinv : Inv env s) (ops : List Op) :
    Inv env (run env s ops) ∧ (run env s ops).cfg = s.cfg :=
  inv_run_aux env hroot hcoll s hskip hinv ops

-- non-vacuity: a history with a rejected block, a header announcement and an accepted block
example : (run exEnv exNode [.block { b1 with txs := [] }, .headers [h2x], .block b1]).blockHeight = 1 ∧
    (run exEnv exNode [.block { b1 with txs := [] }, .headers [h2x], .block b1]).headers.length = 3 := by decide

/-- C06: no transaction of an accepted block stays in the mempool (a280843). -/
theorem accepted_txs_leave_pool (env : Env L) (s s' : Node L) (b : Block)
    (h : addBlock env s b = (s', none)) : ∀ q ∈ s'.pool, ∀ t ∈ b.txs, q.id ≠ t.id :=
  accepted_txs_leave_pool_aux env s s' b h

example : (addBlock exEnv exPooled b1).2 = none ∧ (addBlock exEnv exPooled b1).1.pool = [] := by decide

/-! ### why the duplicate check is needed: the Merkle root does not exclude a repeated last transaction -/

/-- C06, the duplicated-last-leaf forgery family at any length: for every list with an odd number
(≥ 3) of leaves, appending a copy of the last leaf gives the same Merkle root — for every two-to-one
hash on every carrier, in particular for double SHA-256 on 32-byte strings (the driver computes exactly
this function with the real hash and is compared with the node on every generated block). So the root
check alone never makes the transaction list unique; the duplicate check (ab64b57) is what excludes this
family (`duplicate_tx_rejected`). -/
theorem merkle_dup_last_any {α : Type} (h2 : α → α → α) (z : α) (pre : List α) (x : α) (n : Nat)
    (hn : pre.length = 2 * (n + 1)) :
    merkleRoot h2 z (pre ++ [x, x]) = merkleRoot h2 z (pre ++ [x]) :=
  merkle_dup_last h2 z pre x n hn

-- non-vacuity: 7 -> 8 leaves over strings with concatenation as the "hash"
example : merkleRoot (fun a b : String => "(" ++ a ++ b ++ ")") "" ["a", "b", "c", "d", "e", "f", "g", "g"] =
    merkleRoot (fun a b : String => "(" ++ a ++ b ++ ")") "" ["a", "b", "c", "d", "e", "f", "g"] := by decide

/-- further members of the family: when a level above the leaves has an odd number of nodes the last
subtree can be repeated: 5 leaves -> 7 or 8, 6 leaves -> 8. -/
theorem merkle_dup_subtree {α : Type} (h2 : α → α → α) (z a b c d e f : α) :
    merkleRoot h2 z [a, b, c, d, e, e, e] = merkleRoot h2 z [a, b, c, d, e] ∧
    merkleRoot h2 z [a, b, c, d, e, e, e, e] = merkleRoot h2 z [a, b, c, d, e] ∧
    merkleRoot h2 z [a, b, c, d, e, f, e, f] = merkleRoot h2 z [a, b, c, d, e, f] := ⟨rfl, rfl, rfl⟩

/-- the block [a,b,c,c] has the Merkle root of [a,b,c] (and so the same header hash and a valid
signature): the root check alone does not make the transaction list unique. -/
theorem merkle_dup_last3 {α : Type} (h2 : α → α → α) (z a b c : α) :
    merkleRoot h2 z [a, b, c, c] = merkleRoot h2 z [a, b, c] := rfl

theorem merkle_dup_last5 {α : Type} (h2 : α → α → α) (z a b c d e : α) :
    merkleRoot h2 z [a, b, c, d, e, e] = merkleRoot h2 z [a, b, c, d, e] := rfl

end NeoModel.AddBlock
