/-
C06 — the Merkle root check and the duplicate check together fix the transaction list of a header.
Helper lemmas: Proofs/AddBlockMerkleInj.
-/
import NeoModel.Proofs.AddBlockMerkleInj
namespace NeoModel.AddBlock

/-- C06: over a collision-free node hash (symbolic terms), two transaction lists WITHOUT a repeated
transaction that have the same Merkle root are equal. AddBlock checks both (Merkle root, then no
repeated hash), so the transaction list it accepts under a given header is unique; the Merkle check
alone does not achieve that (`merkle_dup_last_any`: [.., x] and [.., x, x] share the root). -/
theorem merkle_and_dup_check_fix_the_list (l1 l2 : List Nat) (hn1 : l1.Nodup) (hn2 : l2.Nodup)
    (h : merkleRoot MT.node MT.zero (l1.map MT.leaf) = merkleRoot MT.node MT.zero (l2.map MT.leaf)) : l1 = l2 :=
  merkle_root_determines_nodup_list l1 l2 hn1 hn2 h

-- non-vacuity, and the need for the Nodup hypotheses: [1,2,3] and [1,2,3,3] have the same root
example : merkleRoot MT.node MT.zero ([1, 2, 3].map MT.leaf) = merkleRoot MT.node MT.zero ([1, 2, 3, 3].map MT.leaf) ∧
    ([1, 2, 3] : List Nat).Nodup ∧ ¬ ([1, 2, 3, 3] : List Nat).Nodup := by decide
example : merkleRoot MT.node MT.zero ([1, 2, 3].map MT.leaf) ≠ merkleRoot MT.node MT.zero ([1, 3, 2].map MT.leaf) := by decide

/-- C06: the same for any concrete node hash `h2` (double SHA-256 in the node and in the driver), leaf
hashes `txh`, under the explicit hypothesis that `h2`/`txh` do not collide on the two Merkle terms. -/
theorem merkle_and_dup_check_fix_the_list_hash {α : Type} (txh : Nat → α) (h2 : α → α → α) (z : α)
    (l1 l2 : List Nat) (hn1 : l1.Nodup) (hn2 : l2.Nodup)
    (hcf : (merkleRoot MT.node MT.zero (l1.map MT.leaf)).eval txh h2 z =
             (merkleRoot MT.node MT.zero (l2.map MT.leaf)).eval txh h2 z →
           merkleRoot MT.node MT.zero (l1.map MT.leaf) = merkleRoot MT.node MT.zero (l2.map MT.leaf))
    (h : merkleRoot h2 z (l1.map txh) = merkleRoot h2 z (l2.map txh)) : l1 = l2 :=
  merkle_root_determines_nodup_list_hash txh h2 z l1 l2 hn1 hn2 hcf h

-- non-vacuity: strings with bracketed concatenation as the node hash; the collision-freeness hypothesis holds
example : merkleRoot (fun a b : String => "(" ++ a ++ "," ++ b ++ ")") "" ([1, 2, 3].map toString) ≠
    merkleRoot (fun a b : String => "(" ++ a ++ "," ++ b ++ ")") "" ([1, 2, 4].map toString) := by decide

end NeoModel.AddBlock
