/-
C08 — memory pool ordering, capacity, solvency and conflict invariants.
Property theorems only (helper lemmas live in Proofs/Mempool*.lean).
-/
import NeoModel.Proofs.MempoolBasic
namespace NeoModel.Mempool

/-- C08 (ordering, insertion step): inserting at the index computed by `Add` (the "equal to the last
→ append" shortcut or the binary search) keeps a sorted list sorted. -/
theorem insert_keeps_sorted (l : List Tx) (t : Tx) (hs : Sorted l) :
    Sorted (l.take (insertIdx l t) ++ [t] ++ l.drop (insertIdx l t)) := by
  obtain ⟨_, h2, h3⟩ := insertIdx_spec l t hs
  unfold Sorted at *
  have hsplit : l = l.take (insertIdx l t) ++ l.drop (insertIdx l t) := (List.take_append_drop _ _).symm
  rw [hsplit] at hs
  rw [List.pairwise_append] at hs
  obtain ⟨ha, hb, hab⟩ := hs
  rw [List.append_assoc, List.pairwise_append]
  refine ⟨ha, ?_, ?_⟩
  · rw [List.singleton_append, List.pairwise_cons]
    refine ⟨?_, hb⟩
    intro e he
    have := h3 e he
    unfold ge; omega
  · intro a haa b hbb
    rw [List.singleton_append, List.mem_cons] at hbb
    rcases hbb with rfl | hbb
    · exact h2 a haa
    · exact hab a haa b hbb

-- non-vacuity: a three-element sorted list and a transaction that lands in the middle
example :
    let a : Tx := { id := 0, sysFee := 0, netFee := 300, size := 100, signers := [2], high := false, conflicts := [], oracle := none }
    let b : Tx := { a with id := 1, netFee := 200 }
    let c : Tx := { a with id := 2, netFee := 100 }
    let t : Tx := { a with id := 3, netFee := 250 }
    insertIdx [a, b, c] t = 1 := by decide

end NeoModel.Mempool
