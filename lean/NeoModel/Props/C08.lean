/-
C08 — memory pool ordering, capacity, solvency and conflict invariants; a failed Add changes nothing.
Property theorems only (helper lemmas live in Proofs/Mempool*.lean). The model is
NeoModel/Model/Mempool.lean (a line-by-line functional model of pkg/core/mempool/mem_pool.go).

Reading guide
* `Inv U mp` (Proofs/MempoolInv.lean): not panicked ∧ |txs| ≤ capacity ∧ ids pairwise distinct ∧ txs sorted by
  `Compare` (most prioritized first) ∧ no pooled tx names a pooled tx in Conflicts ∧ ≤ 1 pooled response per
  oracle id ∧ verifiedMap / conflicts / oracleResp / fees are exactly what the list determines
  (fees: cached feeSum = Σ fees of the payer's pooled txs ≤ cached balance).
* `U` is the universe of transactions offered to the pool; `WF U` says ids behave like hashes
  (id determines the transaction, no transaction repeats a Conflicts hash, no two name each other).
* Every operation brings its own `Feer`; balances may differ from call to call. `FeerOk feer`: the balances it
  reports are below 2^255 (then the pool's uint256 additions are exact; all of the uint256 wrap-around of the
  code is in the model).
-/
import NeoModel.Proofs.MempoolRun
namespace NeoModel.Mempool.C08
open NeoModel.Mempool

/-! ## 1. The invariant holds in every reachable state -/

/-- `New` establishes the invariant. -/
theorem inv_new (U : Tx → Prop) (c : Nat) : Inv U (new c) := Mempool.inv_new U c

/-- `Add` (successful or not) preserves the invariant. -/
theorem inv_add {U : Tx → Prop} (hw : WF U) {mp : Pool} (hi : Inv U mp) {t : Tx} (ht : U t) (feer : Feer)
    (hF : FeerOk feer) (d : Nat) : Inv U (add mp t feer d).1 := Mempool.inv_add hw hi ht feer hF d

/-- `Remove` preserves the invariant and removes exactly the named transaction. -/
theorem inv_remove {U : Tx → Prop} (hw : WF U) {mp : Pool} (hi : Inv U mp) (h : Nat) :
    Inv U (remove mp h) ∧ (remove mp h).txs = mp.txs.filter (fun t => t.id != h) :=
  ⟨(inv_removeInternal hw hi h).1, (inv_removeInternal hw hi h).2.1⟩

/-- `RemoveStale` (any filter, any new balances, any new policy value) preserves the invariant and only drops. -/
theorem inv_removeStale {U : Tx → Prop} (hw : WF U) {mp : Pool} (hi : Inv U mp) (isOK : Tx → Bool) (feer : Feer)
    (hF : FeerOk feer) :
    Inv U (removeStale mp isOK feer) ∧ (removeStale mp isOK feer).txs.Sublist mp.txs :=
  ⟨(Mempool.inv_removeStale hw hi isOK feer hF).1, (Mempool.inv_removeStale hw hi isOK feer hF).2.1⟩

/-- `RemoveStale` with the resend bookkeeping (any `resendThreshold`, any block heights): the invariant still
holds — in particular the Conflicts index is rebuilt for every kept transaction, resent or not — and the
resend callback is called exactly for the kept transactions whose age is `resendThreshold * 2^k` blocks,
in list order. -/
theorem removeStale_resend {U : Tx → Prop} (hw : WF U) {mp : Pool} (hi : Inv U mp) (isOK : Tx → Bool) (feer : Feer)
    (hF : FeerOk feer) :
    Inv U (removeStale mp isOK feer) ∧
    (removeStale mp isOK feer).resent
      = ((removeStale mp isOK feer).txs.filter
          (fun t => dueForResend mp.resendThreshold feer.height (mp.stamp t.id))).map (fun t => (t.id, mp.data t.id)) :=
  ⟨(Mempool.inv_removeStale hw hi isOK feer hF).1, (removeStale_resent mp isOK feer).1⟩

/-- `Verify` preserves the invariant (it may only fill the balance cache). -/
theorem inv_verify {U : Tx → Prop} (hw : WF U) {mp : Pool} (hi : Inv U mp) {t : Tx} (ht : U t) (feer : Feer)
    (hF : FeerOk feer) :
    Inv U (verify mp t feer).1 ∧ CacheOnly mp (verify mp t feer).1 t feer :=
  ⟨(verify_spec hw hi ht feer hF).2, (verify_spec hw hi ht feer hF).1⟩

/-- C08, main theorem: after ANY sequence of Add / Remove / RemoveStale / Verify, with arbitrary transactions of
the universe, arbitrary capacity and an arbitrary `Feer` at every call, the invariant holds. -/
theorem inv_reachable {U : Tx → Prop} (hw : WF U) (c : Nat) (ops : List Op) (ho : OpsIn U ops) :
    Inv U (run c ops) := Mempool.inv_reachable hw c ops ho

/-- `item.Compare` is the order of the property statement: `a` may stand before `b` iff
(high-priority, fee per byte, network fee) of `b` is lexicographically ≤ that of `a`. -/
theorem compare_is_key_order (a b : Tx) : ge a b ↔ keyLe (key b) (key a) := compare_nonneg_iff a b

/-- The clauses of C08 spelled out for every reachable pool. -/
theorem reachable_unpacked {U : Tx → Prop} (hw : WF U) (c : Nat) (ops : List Op) (ho : OpsIn U ops) :
    let mp := run c ops
    mp.panicked = false ∧
    -- each transaction at most once
    (mp.txs.map (·.id)).Nodup ∧
    -- capacity
    mp.txs.length ≤ c ∧
    -- ordered by priority
    mp.txs.Pairwise (fun a b => keyLe (key b) (key a)) ∧
    -- no two pooled transactions conflict
    (∀ a ∈ mp.txs, ∀ b ∈ mp.txs, a.id ∉ b.conflicts) ∧
    -- at most one response per oracle request
    (∀ a ∈ mp.txs, ∀ b ∈ mp.txs, ∀ i, a.oracle = some i → b.oracle = some i → a = b) ∧
    -- the hash index and the Conflicts index are functions of the list
    (∀ h, containsKey mp h = true ↔ ∃ t ∈ mp.txs, t.id = h) ∧
    (∀ t, hasConflicts mp t = true ↔
      ((∃ e ∈ mp.txs, e.id = t.id) ∨ (∃ e ∈ mp.txs, t.id ∈ e.conflicts) ∨ (∃ e ∈ mp.txs, e.id ∈ t.conflicts))) ∧
    -- fee bookkeeping: cached sums are exact and within the cached balance
    (∀ q f, mp.fees q = some f → f.feeSum = sumFees q mp.txs ∧ sumFees q mp.txs ≤ f.balance) ∧
    (∀ q, mp.fees q = none → sumFees q mp.txs = 0) := by
  intro mp
  have hi : Inv U mp := Mempool.inv_reachable hw c ops ho
  have hcap : mp.capacity = c := capacity_run hw c ops ho
  have hck : ∀ h, containsKey mp h = true ↔ ∃ t ∈ mp.txs, t.id = h := by
    intro h
    unfold containsKey
    constructor
    · intro hs
      cases hv : mp.vmap h with
      | none => rw [hv] at hs; cases hs
      | some t => exact ⟨t, (hi.vmap h t).mp hv⟩
    · intro ⟨t, ht, hid⟩
      rw [(hi.vmap h t).mpr ⟨ht, hid⟩]; rfl
  refine ⟨hi.noPanic, hi.list.nodup, by rw [← hcap]; exact hi.cap, ?_, hi.list.noConf, hi.list.orcUniq, hck, ?_, ?_, ?_⟩
  · exact hi.list.sorted.imp (fun h => (compare_nonneg_iff _ _).mp h)
  · intro t
    unfold hasConflicts
    have h1 := hck t.id
    unfold containsKey at h1
    have h2 : (mp.conflicts t.id).isSome = true ↔ ∃ e ∈ mp.txs, t.id ∈ e.conflicts := by
      have := hi.conf t.id
      cases hc : mp.conflicts t.id with
      | none =>
        rw [hc] at this; simp only [ConfEntry] at this
        constructor
        · intro h; cases h
        · intro ⟨e, he, hh⟩; exact absurd hh (this e he)
      | some l =>
        rw [hc] at this; simp only [ConfEntry] at this
        constructor
        · intro _
          obtain ⟨hne, _, hmem⟩ := this
          cases l with
          | nil => exact absurd rfl hne
          | cons x r =>
            obtain ⟨e, he, _, hh⟩ := (hmem x).mp List.mem_cons_self
            exact ⟨e, he, hh⟩
        · intro _; rfl
    have h3 : t.conflicts.any (fun h => (mp.vmap h).isSome) = true ↔ ∃ e ∈ mp.txs, e.id ∈ t.conflicts := by
      rw [List.any_eq_true]
      constructor
      · intro ⟨h, hh, hs⟩
        obtain ⟨e, he, hid⟩ := (hck h).mp hs
        exact ⟨e, he, by rw [hid]; exact hh⟩
      · intro ⟨e, he, hh⟩
        exact ⟨e.id, hh, (hck e.id).mpr ⟨e, he, rfl⟩⟩
    rw [Bool.or_eq_true, Bool.or_eq_true, h1, h2, h3, or_assoc]
  · intro q f hq
    have := hi.fees q; rw [hq] at this; simp only [FeeEntry] at this
    exact ⟨this.1, by omega⟩
  · intro q hq
    have := hi.fees q; rw [hq] at this; exact this

/-! ## 2. Solvency against the balances the `Feer` reports -/

/-- C08 solvency: if every operation since the last `RemoveStale` (or since `New`) read its balances from the
same `Feer` `F` — balances change only with a block, and a block triggers `RemoveStale` — then for every payer
(ordinary sender `(a, 0)` or Notary depositor `(Notary, d)`) the system + network fees of its pooled
transactions sum to at most its balance. Operations before that `RemoveStale` are arbitrary. -/
theorem solvent_reachable {U : Tx → Prop} (hw : WF U) (c : Nat) (pre post : List Op) (F : Feer)
    (ho : OpsIn U (pre ++ post)) (hF : ∀ op ∈ post, UsesFeer F op)
    (hpre : pre = [] ∨ ∃ pre' isOK, pre = pre' ++ [Op.removeStale isOK F]) (q : Payer) :
    sumFees q (run c (pre ++ post)).txs ≤ F.balance q.1 q.2 := by
  apply solvent_of_balLe (Mempool.inv_reachable hw c _ ho)
  unfold run
  rw [List.foldl_append]
  apply balLe_foldl F post _ hF
  rcases hpre with h | ⟨pre', isOK, h⟩
  · subst h; intro q f hf; cases hf
  · subst h
    rw [List.foldl_append]
    exact balLe_removeStale F _ isOK

/-! ## 3. A failed addition leaves the pool unchanged -/

/-- C08: if `Add` returns an error (any of ErrDup, ErrConflictsAttribute, ErrInsufficientFunds, ErrConflict,
ErrOracleResponse, ErrOOM) on a pool satisfying the invariant, then the list, the hash index, the Conflicts
index, the oracle index, capacity and policy are unchanged, nothing panicked, and `fees` is unchanged except
that the new transaction's payer may have received the cache entry (balance from the `Feer`, fee sum 0) —
exactly what a later lookup would compute anyway (`add_fail_feeview`). -/
theorem add_fail_unchanged {U : Tx → Prop} (hw : WF U) {mp : Pool} (hi : Inv U mp) {t : Tx} (ht : U t) (feer : Feer)
    (hF : FeerOk feer) {d : Nat} {mp' : Pool} {e : Err} (h : add mp t feer d = (mp', some e)) : CacheOnly mp mp' t feer :=
  ((add_spec hw hi ht feer hF d).1 mp' e h).1

/-- ... and the balance/fee-sum the pool uses for any payer (`getPayerFee` with the same `Feer`) is the same
before and after the failed `Add`. -/
theorem add_fail_feeview {U : Tx → Prop} (hw : WF U) {mp : Pool} (hi : Inv U mp) {t : Tx} (ht : U t) (feer : Feer)
    (hF : FeerOk feer) {d : Nat} {mp' : Pool} {e : Err} (h : add mp t feer d = (mp', some e)) (q : Payer) :
    (getPayerFee q mp'.fees feer).1 = (getPayerFee q mp.fees feer).1 := by
  obtain ⟨_, _, _, _, _, _, _, hf, _⟩ := add_fail_unchanged hw hi ht feer hF h
  rcases hf with hf | ⟨hnone, hf⟩
  · rw [hf]
  · rw [hf]
    by_cases hq : q = payerOf t
    · subst hq
      unfold getPayerFee
      rw [upd_same, hnone]
    · unfold getPayerFee
      rw [upd_other _ _ hq]

/-! ## 4. Only conflicting transactions, a replaced oracle response and the lowest-priority entry disappear -/

/-- C08: when `Add` succeeds, the new transaction is pooled, nothing else is new, and every transaction `x`
that disappeared either names / is named by the new transaction in a Conflicts attribute, or is the response
to the same oracle request with a smaller network fee, or was evicted for capacity — and then the resulting
pool is full, `x` is not above any remaining entry, and the new transaction is strictly above `x`. -/
theorem evicts_lowest {U : Tx → Prop} (hw : WF U) {mp : Pool} (hi : Inv U mp) {t : Tx} (ht : U t) (feer : Feer)
    (hF : FeerOk feer) {d : Nat} {mp' : Pool} (h : add mp t feer d = (mp', none)) :
    t ∈ mp'.txs ∧ (∀ x ∈ mp'.txs, x = t ∨ x ∈ mp.txs) ∧
    (∀ x ∈ mp.txs, x ∉ mp'.txs →
      t.id ∈ x.conflicts ∨ x.id ∈ t.conflicts ∨
      (x.oracle = t.oracle ∧ t.oracle ≠ none ∧ x.netFee < t.netFee) ∨
      (mp'.txs.length = mp'.capacity ∧ (∀ y ∈ mp'.txs, ge y x) ∧ 0 < compare t x)) := by
  obtain ⟨_, _, _, h4, h5, h6, _⟩ := (add_spec hw hi ht feer hF d).2 mp' h
  exact ⟨h4, h5, h6⟩

/-- C08 (ordering, insertion step): inserting at the index computed by `Add` (the "equal to the last → append"
shortcut or the binary search `sort.Search`) keeps a sorted list sorted. -/
theorem insert_keeps_sorted (l : List Tx) (t : Tx) (hs : Sorted l) :
    Sorted (l.take (insertIdx l t) ++ [t] ++ l.drop (insertIdx l t)) := by
  obtain ⟨_, h2, h3⟩ := insertIdx_spec l t hs
  unfold Sorted at *
  have hsplit : l = l.take (insertIdx l t) ++ l.drop (insertIdx l t) := (List.take_append_drop _ _).symm
  rw [hsplit] at hs
  rw [List.pairwise_append] at hs
  obtain ⟨ha, hb, hab⟩ := hs
  rw [List.append_assoc, List.pairwise_append]
  refine ⟨ha, ?_, ?_⟩
  · rw [List.singleton_append, List.pairwise_cons]
    refine ⟨?_, hb⟩
    intro e he
    have := h3 e he
    unfold ge; omega
  · intro a haa b hbb
    rw [List.singleton_append, List.mem_cons] at hbb
    rcases hbb with rfl | hbb
    · exact h2 a haa
    · exact hab a haa b hbb

/-! ## Non-vacuity: concrete instances meeting the hypotheses -/

section Examples

/-- a finite universe given by a list is well-formed if three decidable checks pass -/
theorem wf_of_list (L : List Tx)
    (h1 : ∀ a ∈ L, ∀ b ∈ L, a.id = b.id → a = b)
    (h2 : ∀ a ∈ L, a.conflicts.Nodup)
    (h3 : ∀ a ∈ L, ∀ b ∈ L, a.id ∈ b.conflicts → b.id ∉ a.conflicts) : WF (· ∈ L) :=
  ⟨fun a b ha hb => h1 a ha b hb, h2, fun a b ha hb => h3 a ha b hb⟩

-- two Notary depositors (accounts 5 and 6; account 1 is the Notary contract) and an ordinary sender 2
def a0 : Tx := { id := 0, sysFee := 0, netFee := 15, size := 100, signers := [1, 5], high := false, conflicts := [], oracle := none }
def b0 : Tx := { id := 1, sysFee := 0, netFee := 10, size := 100, signers := [1, 6], high := false, conflicts := [], oracle := none }
/-- depositor 5's second transaction conflicts with depositor 6's (they share the Notary signer) -/
def a1 : Tx := { id := 2, sysFee := 0, netFee := 12, size := 109, signers := [1, 5], high := false, conflicts := [1], oracle := none }
def c0 : Tx := { id := 3, sysFee := 5, netFee := 400, size := 100, signers := [2], high := false, conflicts := [], oracle := some 7 }
def c1 : Tx := { id := 4, sysFee := 5, netFee := 900, size := 100, signers := [2, 1], high := true, conflicts := [0], oracle := some 7 }
def univ : List Tx := [a0, b0, a1, c0, c1]
def F : Feer := { balance := fun p s => if p = 1 ∧ s = 5 then 20 else if p = 1 ∧ s = 6 then 100 else if p = 2 then 2000 else 0,
                  feePerByte := 0 }
def F' : Feer := { F with balance := fun p s => if p = 1 ∧ s = 5 then 14 else F.balance p s, feePerByte := 1 }

theorem wf_univ : WF (· ∈ univ) := wf_of_list univ (by decide) (by decide) (by decide)

theorem feerOk_F : FeerOk F := by
  intro p s; unfold F H256 U256; simp only
  repeat' split
  all_goals decide

theorem feerOk_F' : FeerOk F' := by
  intro p s; unfold F' F H256 U256; simp only
  repeat' split
  all_goals decide

def demoOps : List Op :=
  [.add a0 F, .add b0 F, .add a1 F, .add c0 F, .verify c1 F, .add c1 F, .remove 1, .removeStale (fun _ => true) F', .add b0 F']

theorem demo_in : OpsIn (· ∈ univ) demoOps := by
  intro op hop
  simp only [demoOps, List.mem_cons, List.not_mem_nil, or_false] at hop
  rcases hop with rfl | rfl | rfl | rfl | rfl | rfl | rfl | rfl | rfl <;>
    simp [OpOk, univ, feerOk_F, feerOk_F']

-- inv_reachable / reachable_unpacked apply to a run that exercises Notary payers, a Conflicts replacement,
-- an oracle replacement, eviction at capacity 3, a removal and a refresh with changed balances and policy
example : Inv (· ∈ univ) (run 3 demoOps) := inv_reachable wf_univ 3 demoOps demo_in
example : (run 3 demoOps).txs.map (·.id) = [4, 1] := by decide
-- the regression of the fixed defect eb15b2a: depositor 5 has balance 20 and 15 pooled; its new transaction
-- (fee 12) conflicting with depositor 6's transaction (fee 10) is rejected with ErrConflict
example : (add (run 3 [.add a0 F, .add b0 F]) a1 F 0).2 = some .conflict := by decide
-- add_fail_unchanged applies to it (hypotheses met by a reachable state)
example : CacheOnly (run 3 [.add a0 F, .add b0 F]) (add (run 3 [.add a0 F, .add b0 F]) a1 F 0).1 a1 F :=
  add_fail_unchanged wf_univ
    (inv_reachable wf_univ 3 [.add a0 F, .add b0 F]
      (by intro op hop; simp at hop; rcases hop with rfl | rfl <;> simp [OpOk, univ, feerOk_F]))
    (by simp [univ]) F feerOk_F (d := 0) (e := .conflict) (Prod.ext rfl (by decide))
-- evicts_lowest: capacity 2, pool [a0, b0] is full, c0 (fee per byte 4) evicts the last one (b0)
example : ((add (run 2 [.add a0 F, .add b0 F]) c0 F 0).1.txs.map (·.id), (add (run 2 [.add a0 F, .add b0 F]) c0 F 0).2) = ([3, 0], none) := by
  decide
-- solvent_reachable: the suffix after the refresh uses F'
example (q : Payer) : sumFees q (run 3 demoOps).txs ≤ F'.balance q.1 q.2 :=
  solvent_reachable wf_univ 3
    [.add a0 F, .add b0 F, .add a1 F, .add c0 F, .verify c1 F, .add c1 F, .remove 1, .removeStale (fun _ => true) F']
    [.add b0 F'] F' demo_in (by intro op hop; simp at hop; subst hop; rfl)
    (Or.inr ⟨[.add a0 F, .add b0 F, .add a1 F, .add c0 F, .verify c1 F, .add c1 F, .remove 1], fun _ => true, rfl⟩) q
-- removeStale_resend: threshold 1, c1 (Conflicts = [a0]) pooled at height 10, block 11 arrives: c1 is kept,
-- resent, and still blocks a0 through the rebuilt Conflicts index
example :
    let mp := run 3 [.setResendThreshold 1, .add c1 { F with height := 10 } 77, .removeStale (fun _ => true) { F with height := 11 }]
    (mp.txs.map (·.id), mp.resent, hasConflicts mp a0) = ([4], [(4, 77)], true) := by decide
-- insert_keeps_sorted: a transaction that lands in the middle
example : insertIdx [c1, c0, a0] { c0 with id := 9, netFee := 200 } = 2 := by decide

end Examples

end NeoModel.Mempool.C08
