import NeoModel.Props.C03Roots
import NeoModel.Props.C03Find
namespace NeoModel.StateCommit.Roots
variable {T : Type}

/-- storing further blocks never touches the record of an existing height, and appends to the chain. -/
theorem run_blocks (O : TrieOps T) (more : List (List Change)) : ∀ (s s' : St T),
    run O s (more.map Op.block) = some s' →
    s'.chain = s.chain ++ more ∧
      ∀ h, h < s.chain.length → kvGet s'.m.store (rootKey h) = kvGet s.m.store (rootKey h) := by
  induction more with
  | nil => intro s s' h; simp only [List.map_nil, run, Option.some.injEq] at h; subst h; simp
  | cons b rest ih =>
    intro s s' h
    simp only [List.map_cons, run, step] at h
    split at h
    · rename_i hlt
      simp only [Option.bind_some] at h
      obtain ⟨hc, hk⟩ := ih _ s' h
      refine ⟨by simp [hc], ?_⟩
      intro hh hhl
      rw [hk hh (by simp; omega)]
      simp only [storeBlock, addMPTBatch, kvGet_addLocal, rootKey_ne_local, if_false]
      rw [if_neg (rootKey_ne hh s.chain.length (by omega) hlt (by omega))]
    · simp at h

/-- **C03.R3 — the historic view of a height does not depend on when it is evaluated.** Take the
node after any history, and let it store any further blocks `more`. For every height `h` it already
had: `GetStateRoot h` returns the very same record afterwards, and the trie re-opened from that
record reads under every key what contract storage held after the first `h+1` change sets of the
chain — a function of those change sets only, whatever `more` writes, deletes or creates. -/
theorem historic_view_stable (O : TrieOps T) (hre : ∀ t, O.reopen (O.rootOf t) = t)
    (h32 : ∀ t, (O.rootOf t).length = 32) (ops : List Op) (hok : ∀ b, Op.block b ∈ ops → O.M.okBatch b)
    (more : List (List Change)) (s s' : St T) (hrun : run O (genesis O) ops = some s)
    (hrun' : run O s (more.map Op.block) = some s') (h : Nat) (hh : h < s.chain.length) :
    ∃ r, getStateRoot s'.m h = some r ∧ getStateRoot s.m h = some r ∧
      s'.chain.take (h + 1) = s.chain.take (h + 1) ∧
      ∀ k, O.M.lookup (O.reopen r.root) k = storageAt (s.chain.take (h + 1)) k := by
  obtain ⟨r, hr, hk⟩ := recorded_root_commits O hre h32 ops hok s hrun h hh
  obtain ⟨hc, hst⟩ := run_blocks O more s s' hrun'
  refine ⟨r, ?_, hr, ?_, hk⟩
  · unfold getStateRoot at hr ⊢
    rw [hst h hh]; exact hr
  · rw [hc, List.take_append_of_le_length (by omega)]

/-- the C10 MPT as the trie side. -/
def mptOps (rootOf : Mpt.Node → Bytes) (reopen : Bytes → Mpt.Node)
    (hz : rootOf Mpt.Node.empty = List.replicate 32 0) : TrieOps Mpt.Node :=
  { M := mptMap, rootOf := rootOf, reopen := reopen, rootOf_empty := hz }

/-- … and so does every System.Storage.Find of a historic invocation against that root: whenever it
is evaluated — before or after later blocks were stored, whatever they changed — and whatever the
invocation itself wrote (`layers`), the outcome is the one over the trie of the first `h+1` change
sets, i.e. (by `historic_find_eq_live`) what the live node answered at height `h`. -/
theorem historic_find_stable (rootOf : Mpt.Node → Bytes) (reopen : Bytes → Mpt.Node) (hz : rootOf Mpt.Node.empty = List.replicate 32 0)
    (hre : ∀ t, reopen (rootOf t) = t) (h32 : ∀ t, (rootOf t).length = 32) (ops : List Op)
    (more : List (List Change)) (s s' : St Mpt.Node)
    (hrun : run (mptOps rootOf reopen hz) (genesis (mptOps rootOf reopen hz)) ops = some s)
    (hrun' : run (mptOps rootOf reopen hz) s (more.map Op.block) = some s') (h : Nat) (hh : h < s.chain.length) :
    ∃ r, getStateRoot s'.m h = some r ∧
      ∀ layers sp id pfx opts,
        Find.findHistoric (reopen r.root) layers sp id pfx opts =
          Find.findHistoric (trieAt mptMap (s.chain.take (h + 1))) layers sp id pfx opts := by
  obtain ⟨r, hr, _, hroot⟩ := (roots_per_height (mptOps rootOf reopen hz) hre h32 ops s hrun).1 h hh
  obtain ⟨_, hst⟩ := run_blocks (mptOps rootOf reopen hz) more s s' hrun'
  refine ⟨r, ?_, ?_⟩
  · unfold getStateRoot at hr ⊢
    rw [hst h hh]; exact hr
  · intro layers sp id pfx opts
    rw [hroot]
    show Find.findHistoric (reopen (rootOf _)) _ _ _ _ _ = _
    rw [hre]; rfl

theorem rootHash_length (H : Bytes → Bytes) (h32 : ∀ b, (H b).length = 32) (t : Mpt.Node) :
    (Mpt.rootHash H t).length = 32 := by
  unfold Mpt.rootHash
  split
  · simp [Mpt.zero32]
  · exact h32 _

/-- the same with the real root hash function `rootHash H` (state root = hash of the root node, zero for the
empty trie): the hypotheses "root hashes have 32 bytes" and "the empty trie has the zero root" are facts of
the model, only `H`'s output length and the re-opening of tries by hash remain. -/
theorem historic_find_stable_mpt (H : Bytes → Bytes) (hH : ∀ b, (H b).length = 32) (reopen : Bytes → Mpt.Node)
    (hre : ∀ t, reopen (Mpt.rootHash H t) = t) (ops : List Op) (more : List (List Change)) (s s' : St Mpt.Node)
    (hrun : run (mptOps (Mpt.rootHash H) reopen rfl) (genesis (mptOps (Mpt.rootHash H) reopen rfl)) ops = some s)
    (hrun' : run (mptOps (Mpt.rootHash H) reopen rfl) s (more.map Op.block) = some s') (h : Nat) (hh : h < s.chain.length) :
    ∃ r, getStateRoot s'.m h = some r ∧
      ∀ layers sp id pfx opts,
        Find.findHistoric (reopen r.root) layers sp id pfx opts =
          Find.findHistoric (trieAt mptMap (s.chain.take (h + 1))) layers sp id pfx opts :=
  historic_find_stable (Mpt.rootHash H) reopen rfl hre (rootHash_length H hH) ops more s s' hrun hrun' h hh

-- non-vacuity (the one-key toy trie): after the example history (which ends at height 2 with 05),
-- two more blocks delete and rewrite the key; the record of height 1 and what it commits to (02) stay
example : ∃ s s', run toyOps (genesis toyOps) toyHistory = some s ∧
    run toyOps s ([[(toyKey, none)], [(toyKey, some [9])]].map Op.block) = some s' ∧
    ∃ r, getStateRoot s'.m 1 = some r ∧ getStateRoot s.m 1 = some r ∧
      toyMap.lookup (toyOps.reopen r.root) toyKey = some [2] ∧
      toyMap.lookup s'.m.mpt toyKey = some [9] := by
  refine ⟨_, _, rfl, rfl, ?_⟩
  obtain ⟨r, h1, h2, _, hk⟩ := historic_view_stable toyOps toy_reopen toy_len toyHistory
    (by
      intro b hb
      simp only [toyHistory, List.mem_cons, Op.block.injEq, List.not_mem_nil, or_false, reduceCtorEq, false_or] at hb
      rcases hb with rfl | rfl | rfl | rfl <;> (intro c hc; simp at hc; subst hc; simp [toyKey]))
    [[(toyKey, none)], [(toyKey, some [9])]] _ _ rfl rfl 1 (by decide)
  exact ⟨r, h1, h2, (hk toyKey).trans (by decide), by decide⟩

end NeoModel.StateCommit.Roots
