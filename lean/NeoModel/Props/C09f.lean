/-
C09 (sixth part) — SeekAsync / dao.SeekAsync / System.Storage.Find are pinned to the moment of the call
(model `Model/Store/Async.lean`, lemmas `Proofs/StoreAsync.lean`).
-/
import NeoModel.Proofs.StoreAsync
namespace NeoModel.Store.C09

/-- C09 (SeekAsync is a scan AS OF THE CALL): for EVERY interleaving of the caller's later writes to the
same store (Put / Delete / PutChangeSet — e.g. Storage.Put after Storage.Find in one transaction) with the
start of the seeking goroutine and the consumer's reads, what the consumer has received is a prefix of the
answer the ordered map gives at the moment of the call (any stack, backend, prefix, start, direction,
SearchDepth, prefix trimming), and what is still to come completes exactly that answer. -/
theorem seek_async_pinned_to_call (L : Layer) (ps : Store) (rng : SeekRange) (cut : Bool) (es : List AEv) :
    (asyncRun false rng cut (asyncCall false L ps rng) es).got <+: (Store.cached L ps).seekObs rng cut 0 ∧
    (∀ q, (asyncRun false rng cut (asyncCall false L ps rng) es).queue = some q →
      (asyncRun false rng cut (asyncCall false L ps rng) es).got ++ q = (Store.cached L ps).seekObs rng cut 0) :=
  seekAsync_pinned L ps rng cut es

-- non-vacuity: Find, then a Put under the prefix, the goroutine starts, a Delete of the first item, two reads
example :
    let L : Layer := { priv := true, mem := [], stor := [([0x70, 1], some [1]), ([0x70, 3], some [3])] }
    let rng : SeekRange := { pfx := [0x70], start := [], bw := false, depth := 0 }
    (asyncRun false rng true (asyncCall false L (.level [([0x70, 2], [2])]) rng)
      [.write [0x70, 0] (some [9]), .start, .write [0x70, 1] none, .recv, .recv]).got <+:
      (Store.cached L (.level [([0x70, 2], [2])])).seekObs rng true 0 :=
  (seek_async_pinned_to_call _ _ _ _ _).1

/-- the stream's `seekaw` line (SeekAsync, the caller's writes to the same store, then `lim` reads or the
drain): the consumer gets the first `lim` items of the call-time answer; the store has the writes. -/
theorem seek_async_then_writes (L : Layer) (ps : Store) (rng : SeekRange) (cut : Bool) (lim : Nat) (ws : List KVE) :
    (seekAsyncThenWrites L ps rng cut lim ws).1 = (Store.cached L ps).seekObs rng cut lim ∧
    (seekAsyncThenWrites L ps rng cut lim ws).2 = ws.foldl (fun l w => l.set w.1 w.2) L :=
  seekaw_spec L ps rng cut lim ws

/-- regression example, the rule of seeded change C09-m7 (snapshot inside the goroutine): the caller's later
Put shows up and its later Delete removes an item — the iteration is not the map as of the call. -/
theorem seek_async_lazy_snapshot_leaks :
    let L : Layer := { priv := true, mem := [], stor := [([0x70, 1], some [1])] }
    let rng : SeekRange := { pfx := [0x70], start := [], bw := false, depth := 0 }
    let es := [AEv.write [0x70, 2] (some [2]), .write [0x70, 1] none, .start, .recv, .recv]
    (asyncRun true rng false (asyncCall true L (.memB [] []) rng) es).got = [([0x70, 2], [2])] ∧
    (asyncRun false rng false (asyncCall false L (.memB [] []) rng) es).got = [([0x70, 1], [1])] :=
  lazy_snapshot_leaks

end NeoModel.Store.C09
