/-
C15 — witness scopes over EXECUTIONS. Property theorems only.

Props/C15.lean states the scope rules for a given environment (executing frame + chain of calling frames).
Here the environment is what the frame machine of Model/Witness/Frames.lean — the VM's loaders, CALL, RET,
unwinding, System.Contract.Call, CALLT, System.Runtime.LoadScript, native callbacks, InitVerificationContext —
has built: the invariants the scope rules rest on (calling hash = hash of the loading script, constant entry
hash, shrinking flags, returns restore) are proved for all step sequences, and the main theorems are restated
for every reachable state. (helpers: Proofs/WitnessFrames.lean, Proofs/WitnessExec.lean)
-/
import NeoModel.Proofs.WitnessExec
import NeoModel.Proofs.WitnessTry
import NeoModel.Model.Witness.Wiring
import NeoModel.Generated.WitnessFrames
import NeoModel.Props.C15
namespace NeoModel.Witness



/-! ### 0. What every way of loading a script gives the new context -/

/-- C15-frames-0. What a new script context gets, for every way of loading a script: `Op.frame` is the table
(script hash, calling hash, call flags per kind of load, as functions of the executing context); after the
step the getters return exactly that; the stack below — hence the entry script hash, unless the load is
`LoadWithFlags`, which starts a new invocation — is untouched. -/
theorem load_attributes {v v' : VM} (op : Op) (fr : FrameRec) (init : Bool) (h : v.step op = .ok v')
    (hf : op.frame v = some (fr, init)) :
    v'.currentHash = fr.hash ∧ v'.callingHash = some fr.caller ∧ v'.flags = some fr.flags ∧
    op.base v <:+ v'.istack ∧ (op.base v ≠ [] → v'.entryHash = (VM.mk (op.base v)).entryHash) := by
  rcases step_shape op h with ⟨fr', init', hf', hs⟩ | ⟨hc, _⟩ | ⟨n, hn, _⟩
  · rw [hf] at hf'
    simp only [Option.some.injEq, Prod.mk.injEq] at hf'
    obtain ⟨rfl, rfl⟩ := hf'
    obtain ⟨s, rest, hp, hfr⟩ := pushSC_top (op.base v) fr
    obtain ⟨x, hx⟩ := pushSC_cons (op.base v) fr
    have htop : ∃ rest', v'.istack = s :: rest' ∧ op.base v <:+ rest' := by
      rw [hs, hp]
      have hsuf : op.base v <:+ rest := by
        rw [hp] at hx
        simp only [List.cons.injEq] at hx
        rw [hx.2]; exact List.suffix_refl _
      cases init
      · exact ⟨rest, by simp, hsuf⟩
      · exact ⟨s :: rest, by simp [dupTop_top], List.IsSuffix.trans hsuf (List.suffix_cons _ _)⟩
    obtain ⟨rest', hv', hsuf⟩ := htop
    have hsuf' : op.base v <:+ v'.istack := by rw [hv']; exact List.IsSuffix.trans hsuf (List.suffix_cons _ _)
    refine ⟨by simp [VM.currentHash, hv', hfr], by simp [VM.callingHash, hv', hfr], by simp [VM.flags, hv', hfr],
      hsuf', ?_⟩
    intro hne
    obtain ⟨t, ht⟩ := hsuf'
    have : v'.istack.getLast? = (op.base v).getLast? := by
      rw [← ht, List.getLast?_append]
      cases hb : (op.base v).getLast? with
      | none => simp [List.getLast?_eq_none_iff] at hb; exact absurd hb hne
      | some b => simp
    simp [VM.entryHash, this]
  · rw [hc] at hf; cases hf
  · rcases hn with ⟨hr, _⟩ | hu
    · rw [hr] at hf; cases hf
    · rw [hu] at hf; cases hf

-- System.Contract.Call of a Safe method from a ReadOnly context: hash = the target, calling hash = the executing
-- script, flags = ReadOnly & requested & ~(WriteStates|AllowNotify)
example : Op.frame (VM.mk [.root ⟨0xE0, 0, fReadOnly⟩]) (.contractCall 0xC1 fAll true false)
    = some (⟨0xC1, 0xE0, fReadOnly⟩, false) := by decide
-- a native callback: the caller is whatever the native passes, the flags are the native frame's
example : Op.frame (VM.mk [.child ⟨0x6A5, 0xE0, fAll⟩ (.root ⟨0xE0, 0, fAll⟩), .root ⟨0xE0, 0, fAll⟩]) (.nativeCall 0x6A5 0xC1 true)
    = some (⟨0xC1, 0x6A5, fAll⟩, true) := by decide
-- System.Runtime.LoadScript: never more than ReadOnly
example : Op.frame (VM.mk [.root ⟨0xE0, 0, fAll⟩]) (.runtimeLoadScript 0xD1 fAll) = some (⟨0xD1, 0xE0, fReadOnly⟩, false) := by
  decide


/-! ### 1. The invocation stack is a chain; the witness check reads the live loads -/

/-- C15-frames-1. In every reachable state the invocation stack is a chain: each context shares the script
context of the one below (CALL) or has it as `callingContext` (load), the bottom one has none. -/
theorem frames_form_chain {v : VM} (h : Reachable v) : Chain v.istack := reach_chain h

/-- C15-frames-2. In every reachable state with an executing context, the environment read by
`CheckHashedWitness` is the one the chain layer (`Env.ofCalls`) builds from the frames of the live loads,
entry script first: returned scripts have left no trace and CALL contexts add nothing. -/
theorem env_is_live_loads {v : VM} (h : Reachable v) (k : Hash → Option (List Key)) (e : Env)
    (he : v.env k = some e) :
    ∃ f0 fs, ((live v.istack).map (·.frame.toFrame)).reverse = f0 :: fs ∧ e = Env.ofCalls k f0 fs := by
  have hc := reach_chain h
  cases hv : v.istack with
  | nil => simp [VM.env, hv] at he
  | cons s rest =>
    rw [hv] at hc
    have he' : e = envSC k s := by
      simp only [VM.env, hv, Option.some.injEq] at he; exact he.symm
    obtain ⟨f0, fs, h1, h2⟩ := envSC_ofCalls k s
    exact ⟨f0, fs, by rw [chain_live s rest hc, ← framesUp_chainList, h1], by rw [he', h2]⟩

-- entry 0xE0 calls 0xC2, which returns, then calls 0xC1 (with `_initialize`): the witness check in 0xC1 sees
-- two frames, exactly as `Env.ofCalls` predicts from the two live loads
example : ((VM.empty.run [.loadWithFlags 0xE0 fAll, .contractCall 0xC2 fAll false false, .ret,
      .contractCall 0xC1 fReadOnly false true]).toOption.bind (·.env exContracts)).map Env.view
    = some (Env.ofCalls exContracts ⟨0xE0, 0, true⟩ [⟨0xC1, 0xE0, true⟩]).view := by decide

/-- C15-frames-3. What the getters return in a state reached by honest steps: the calling hash is the hash
of the script that loaded the executing one (zero in the entry script) — a CALL in between changes nothing —,
the entry hash is the bottom of the stack, `IsCalledByEntry` counts live loads. -/
theorem getters_of_execution {v : VM} (h : Honest v) (k : Hash → Option (List Key)) (e : Env)
    (he : v.env k = some e) :
    e.calling = v.loaderHash ∧ e.current = v.currentHash ∧ e.entry = v.entryHash ∧
    e.isCalledByEntry = decide (v.liveLoads ≤ 2) ∧ e.parents.length + 1 = v.liveLoads := by
  have hc := reach_chain h
  have hl := reach_linked (fun _ _ hp => hp) h
  cases hv : v.istack with
  | nil => simp [VM.env, hv] at he
  | cons s rest =>
    rw [hv] at hc hl
    have he' : e = envSC k s := by
      simp only [VM.env, hv, Option.some.injEq] at he; exact he.symm
    have hlive := chain_live s rest hc
    have hlen : e.parents.length + 1 = v.liveLoads := by
      rw [he']; unfold VM.liveLoads; rw [hv, hlive]; exact parents_length s
    refine ⟨?_, ?_, ?_, ?_, hlen⟩
    · rw [he', calling_linked k s (hl s (by simp))]
      unfold VM.loaderHash
      rw [hv, hlive]
      cases s with
      | root f => rfl
      | child f p =>
        obtain ⟨t, ht⟩ := chainList_head p
        simp [SC.chainList, ht]
    · rw [he']; simp [VM.currentHash, hv, envSC, Env.current, FrameRec.toFrame]
    · rw [he', env_entry_root, ← entryHash_root s rest hc]
      cases v; simp_all
    · have := isCalledByEntry_iff e
      unfold Env.directFromEntry at this
      cases hb : e.isCalledByEntry
      · have h2 : ¬ e.parents.length ≤ 1 := by rw [← this, hb]; simp
        have : ¬ v.liveLoads ≤ 2 := by omega
        simp [this]
      · have h2 : e.parents.length ≤ 1 := this.mp hb
        have : v.liveLoads ≤ 2 := by omega
        simp [this]

/-! ### 2. CALL, returns, the entry hash, the call flags -/

/-- C15-frames-4. CALL / CALL_L / CALLA create a context that shares the script context: the environment of
the witness check — current hash, calling hash, flags, entry relation — is unchanged. -/
theorem call_transparent {v v' : VM} (k : Hash → Option (List Key)) (h : v.step .call = .ok v') :
    v'.env k = v.env k := by
  obtain ⟨s, rest, h1, h2⟩ := call_ok h
  simp [VM.env, h1, h2]

/-- C15-frames-5. Returns restore: after any run that starts at height `n`, never resets the VM, never pops
below `n` and ends at height `n`, the invocation stack is identical — so the caller's witness checks give
the same answers after a callee returned as before it was called. -/
theorem return_restores_environment {v v' : VM} (ops : List Op) (k : Hash → Option (List Key)) (ic : IC) (h : Hash)
    (hs : StaysAbove v.istack.length v ops) (hr : v.run ops = .ok v')
    (hl : v'.istack.length = v.istack.length) :
    v' = v ∧ checkWitnessVM k ic v' h = checkWitnessVM k ic v h := by
  have := returns_restore ops hs hr hl
  exact ⟨this, by rw [this]⟩

example : ((VM.mk [.root ⟨0xE0, 0, fAll⟩]).run [.contractCall 0xC2 fAll false true, .ret, .call,
      .runtimeLoadScript 0xD1 fAll, .contractCall 0xC1 fAll true false, .unwind 2, .ret, .ret]).toOption.map (·.istack)
    = some [.root ⟨0xE0, 0, fAll⟩] := by decide

theorem entry_hash_constant {v v' : VM} (ops : List Op) (hne : v.istack ≠ [])
    (hs : StaysAbove 1 v ops) (hr : v.run ops = .ok v') : v'.entryHash = v.entryHash := by
  simp [VM.entryHash, bottom_constant ops hne hs hr]

/-- C15-frames-7. Call flags only shrink: in a state reached by a node's steps (an entry point, then only the
interop layer's loads) the flags of every script context are within those of the script context that loaded
it, hence within the flags of the entry script. -/
theorem flags_only_shrink {v : VM} (h : Exec v) (s : SC) (rest : List SC) (hv : v.istack = s :: rest) :
    s.shrinks ∧ Flags.sub s.frame.flags s.rootFrame.flags ∧
    (∀ need, s.frame.flags.has need = true → s.rootFrame.flags.has need = true) := by
  have hs := reach_shrinks (fun _ _ hp => hp.2) h s (by simp [hv])
  exact ⟨hs, shrinks_root s hs, fun need hn => Flags.sub_has (shrinks_root s hs) hn⟩

-- a dynamic script loaded by a contract that was itself called with ReadStates|AllowNotify: only ReadStates is left
example : ((VM.empty.run [.loadWithFlags 0xE0 fAll, .contractCall 0xC2 (fReadStates ||| fAllowCall ||| fAllowNotify) false false,
      .runtimeLoadScript 0xD1 fAll]).toOption.bind (·.flags)) = some fReadOnly := by decide

/-- C15-frames-10. The entry relation at EVERY depth. In every reachable state the invocation stack holds at
most MaxInvocationStackSize contexts (the regenerated constant), and `IsCalledByEntry` of the executing
context depends only on whether its calling context is the entry context (the bottom of the stack) or there
is none — for every number of live loads, an unbounded natural number in the model: it is true for 1 and 2 live
loads and false for every larger number; there is no period at which it becomes true again. -/
theorem entry_relation_all_depths {v : VM} (hv : Honest v) (s : SC) (rest : List SC) (hst : v.istack = s :: rest) :
    v.istack.length ≤ maxInvocationStackSize ∧
    maxInvocationStackSize = Generated.WitnessFrames.maxInvocationStackSize ∧
    (s.isCalledByEntry = true ↔ (s.calling? = none ∨ s.calling? = v.istack.getLast?)) ∧
    (s.isCalledByEntry = true ↔ v.liveLoads ≤ 2) ∧
    (∀ n, v.liveLoads = n + 3 → s.isCalledByEntry = false) := by
  have hc : Chain (s :: rest) := by rw [← hst]; exact reach_chain hv
  have hlast : v.istack.getLast? = some (.root s.rootFrame) := by rw [hst]; exact chain_getLast s rest hc
  have hg := getters_of_execution hv (fun _ => none) _ (env_of_cons _ hst)
  have hcbe : s.isCalledByEntry = decide (v.liveLoads ≤ 2) := by
    rw [← hg.2.2.2.1, isCalledByEntry_env]
  refine ⟨reach_bounded hv, rfl, ?_, by rw [hcbe]; simp, ?_⟩
  · rw [hlast]
    cases s with
    | root f => simp [SC.isCalledByEntry, SC.calling?]
    | child f p =>
      cases p with
      | root g => simp [SC.isCalledByEntry, SC.calling?, SC.rootFrame]
      | child g q => simp [SC.isCalledByEntry, SC.calling?]
  · intro n hn
    rw [hcbe, hn]; simp


-- three live loads (entry -> 0xC2 -> 0xC1): not called by entry, by the theorem
example : (SC.child ⟨0xC1, 0xC2, fAll⟩ (.child ⟨0xC2, 0xE0, fAll⟩ (.root ⟨0xE0, 0, fAll⟩))).isCalledByEntry = false := by
  decide

/-! ### 2b. Exceptions: the unwinding depth is computed from the try stacks -/

/-- C15-frames-8. THROW (and an ENDFINALLY that re-throws): the contexts popped are exactly those above the
first context — from the top — that has a handler still in its try block, or in its catch block with a
finally to run (`handlerDepth`); that context keeps its script context and everything below it is untouched,
try stacks included; without such a context the VM faults. -/
theorem throw_pops_to_first_handler {t t' : VMT} (h : t.step .throw = .ok t') :
    ∃ n, handlerDepth t.ctxs = some n ∧ n < t.ctxs.length ∧
      t'.base.istack = t.base.istack.drop n ∧ t'.ctxs.tail = t.ctxs.drop (n + 1) := by
  simp only [VMT.step] at h
  split at h
  · cases h
  · rename_i cs p hh
    cases h
    obtain ⟨n, h1, h2, h3, h4⟩ := handle_spec _ _ _ hh
    exact ⟨n, h1, h2, by simpa [VMT.base] using h3, h4⟩

theorem throw_unhandled_iff (t : VMT) : t.step .throw = .error .unhandled ↔ handlerDepth t.ctxs = none := by
  simp only [VMT.step]
  rw [← handle_none_iff]
  cases handle t.ctxs <;> simp

/-- C15-frames-9. Every step of the machine with exceptions — TRY, ENDTRY, ENDFINALLY, THROW or a step of the
frame machine — is on the script contexts a run of the frame machine (the step itself, nothing, or an
unwinding of the computed depth). Hence states reached with exceptions are `Exec` / `Honest` states and
every theorem of this file holds in them: exceptions cannot forge a calling hash, an entry hash, a flag or
the CalledByEntry relation. -/
theorem exec_with_exceptions (ops : List TOp) (t : VMT)
    (hall : TAllAlong (fun v op => op.honest v ∧ op.entryOrInterop v) VMT.empty ops)
    (hr : VMT.empty.run ops = .ok t) : Exec t.base ∧ Honest t.base :=
  have hx : Exec t.base :=
    reach_trun (P := fun v op => op.honest v ∧ op.entryOrInterop v)
      (fun _ _ => ⟨trivial, Or.inr rfl⟩) ops (t := VMT.empty) Reach.empty hall hr
  ⟨hx, hx.honest⟩

-- entry (TRY catch) -> dynamic script (TRY finally only) -> contract that throws: the finally block of the
-- dynamic script runs first (one context popped, exception pending), its ENDFINALLY re-throws and the
-- entry script's catch takes it (one more popped); after the catch block's ENDTRY the entry's try stack is empty
example : (VMT.empty.run [.base (.loadWithFlags 0xE0 fAll), .try_ true false,
      .base (.runtimeLoadScript 0xD1 fAll), .try_ false true, .base (.contractCall 0xC1 fAll false false),
      .throw]).toOption.map (fun t => (t.base.istack.length, t.pending))
    = some (2, true) := by decide
example : (VMT.empty.run [.base (.loadWithFlags 0xE0 fAll), .try_ true false,
      .base (.runtimeLoadScript 0xD1 fAll), .try_ false true, .base (.contractCall 0xC1 fAll false false),
      .throw, .endFinally, .endTry]).toOption
    = some ⟨[(.root ⟨0xE0, 0, fAll⟩, [])], false⟩ := by decide
example : VMT.empty.run [.base (.loadWithFlags 0xE0 fAll), .base (.contractCall 0xC1 fAll false false), .throw]
    = .error .unhandled := by decide

/-! ### 3. The witness check over executions -/

/-- C15-exec-main. For every state reached by honest steps, with signers present and the ReadStates flag in
the executing context: `CheckHashedWitness(h)` is true exactly when `h` is the (non-zero) hash of the script
that loaded the executing one, or the first signer with account `h` has a scope that covers the executing
context; otherwise it is false. The environment in `allowedX` is the one of `getters_of_execution`. -/
theorem exec_checkWitness_iff {v : VM} (hv : Honest v) (k : Hash → Option (List Key)) (ic : IC) (h : Hash)
    (hne : v.istack ≠ []) (hs : ic.signers ≠ []) (hrs : ∀ f, v.flags = some f → f.has fReadStates = true) :
    (cwIs k ic v h (.ok true) ↔
      ((v.loaderHash ≠ 0 ∧ h = v.loaderHash) ∨ ∃ s, decides ic.signers h s ∧ allowedX k v s)) ∧
    (cwIs k ic v h (.ok false) ↔
      ¬ ((v.loaderHash ≠ 0 ∧ h = v.loaderHash) ∨ ∃ s, decides ic.signers h s ∧ allowedX k v s)) := by
  cases hst : v.istack with
  | nil => exact absurd hst hne
  | cons s rest =>
    have he : v.env k = some (envSC k s) := env_of_cons k hst
    have hg := getters_of_execution hv k _ he
    have hrs' : (envSC k s).cur.readStates = true := by
      have := hrs s.frame.flags (by simp [VM.flags, hst])
      simpa [envSC, FrameRec.toFrame] using this
    have hmain := checkWitness_iff (envSC k s) ic.signers h hs hrs'
    have hax : ∀ sg, allowedX k v sg ↔ allowed (envSC k s) sg := by
      intro sg; unfold allowedX; rw [he]; simp
    unfold cwIs checkWitnessVM
    rw [he]
    simp only [Option.map_some, Option.some.injEq]
    unfold Spec at hmain
    rw [hg.1] at hmain
    simp only [hax]
    exact hmain

/-- C15-exec-caller. A contract always witnesses the calls it makes itself: whatever the signers, in a state
reached by honest steps the hash of the script that loaded the executing one passes. -/
theorem exec_caller_always {v : VM} (hv : Honest v) (k : Hash → Option (List Key)) (ic : IC)
    (hne : v.istack ≠ []) (hl : v.loaderHash ≠ 0) : cwIs k ic v v.loaderHash (.ok true) := by
  cases hst : v.istack with
  | nil => exact absurd hst hne
  | cons s rest =>
    have he : v.env k = some (envSC k s) := env_of_cons k hst
    have hg := getters_of_execution hv k _ he
    unfold cwIs checkWitnessVM
    rw [he]
    simp only [Option.map_some, Option.some.injEq]
    rw [← hg.1] at hl ⊢
    exact caller_always _ _ hl

/-- C15-exec-entry. CalledByEntry alone: exactly in the entry script and in scripts the entry script loaded
itself — counted in live loads, so a script the entry script calls after another one returned is direct,
and CALLs do not count. -/
theorem exec_entry_only_direct {v : VM} (hv : Honest v) (k : Hash → Option (List Key)) (ic : IC) (h : Hash)
    (s : Signer) (hne : v.istack ≠ []) (hd : decides ic.signers h s) (hsc : s.scopes = scCalledByEntry)
    (hc : ¬ (v.loaderHash ≠ 0 ∧ h = v.loaderHash)) :
    cwIs k ic v h (.ok (decide (v.liveLoads ≤ 2))) := by
  cases hst : v.istack with
  | nil => exact absurd hst hne
  | cons sc rest =>
    have he : v.env k = some (envSC k sc) := env_of_cons k hst
    have hg := getters_of_execution hv k _ he
    unfold cwIs checkWitnessVM
    rw [he]
    simp only [Option.map_some, Option.some.injEq]
    rw [entry_only_direct (envSC k sc) ic.signers h s hd hsc (by rw [hg.1]; exact hc)]
    have : ((envSC k sc).parents.length ≤ 1) ↔ (v.liveLoads ≤ 2) := by
      have := hg.2.2.2.2; omega
    simp [this]

-- entry → A → (returns) → B : B is direct; entry → A → B : B is not; a CALL inside B changes nothing
example : cwIs exContracts ⟨none, some [sg 0xA1 scCalledByEntry]⟩
    ((VM.empty.run [.loadWithFlags 0xE0 fAll, .contractCall 0xC2 fAll false false, .ret,
      .contractCall 0xC1 fAll false false, .call]).toOption.getD VM.empty) 0xA1 (.ok true) := by unfold cwIs; decide

example : cwIs exContracts ⟨none, some [sg 0xA1 scCalledByEntry]⟩
    ((VM.empty.run [.loadWithFlags 0xE0 fAll, .contractCall 0xC2 fAll false false,
      .contractCall 0xC1 fAll false false]).toOption.getD VM.empty) 0xA1 (.ok false) := by unfold cwIs; decide

/-- C15-exec-entry-hash. IsCalledByEntry is about script CONTEXTS, not script hashes. In a state reached by
honest steps the context-based test implies the hash-based one (calling hash zero or equal to the entry
hash) ... -/
theorem calledByEntry_implies_hash_form {v : VM} (hv : Honest v) (k : Hash → Option (List Key)) (e : Env)
    (he : v.env k = some e) (hcbe : e.isCalledByEntry = true) : e.calling = 0 ∨ e.calling = e.entry := by
  have hl := reach_linked (fun _ _ hp => hp) hv
  cases hst : v.istack with
  | nil => simp [VM.env, hst] at he
  | cons s rest =>
    have he' : e = envSC k s := by
      rw [env_of_cons k hst] at he; exact (Option.some.inj he).symm
    have hs := hl s (by simp [hst])
    subst he'
    rw [isCalledByEntry_env] at hcbe
    rw [calling_linked k s hs, env_entry_root]
    cases s with
    | root f => exact Or.inl rfl
    | child f p =>
      cases p with
      | root g => exact Or.inr rfl
      | child g q => simp [SC.isCalledByEntry] at hcbe

/-- ... but not conversely: when the entry script's hash comes back deeper in the chain — a contract loads a
dynamic script that is a byte-for-byte copy of the entry script, and that script calls a contract — the
innermost context's calling hash IS the entry hash, four loads deep. The code (and the model) refuse a
CalledByEntry signer there; a check by hashes would let it pass. -/
theorem hash_form_is_not_enough :
    ∃ v : VM, Exec v ∧ ∃ e, v.env exContracts = some e ∧
      e.calling = e.entry ∧ e.calling ≠ 0 ∧ e.isCalledByEntry = false ∧ v.liveLoads = 4 ∧
      cwIs exContracts ⟨none, some [sg 0xA1 scCalledByEntry]⟩ v 0xA1 (.ok false) := by
  let s1 : SC := .root ⟨0xE0, 0, fAll⟩
  let s2 : SC := .child ⟨0xC2, 0xE0, fAll⟩ s1
  let s3 : SC := .child ⟨0xE0, 0xC2, fReadOnly⟩ s2
  let s4 : SC := .child ⟨0xC1, 0xE0, fReadOnly⟩ s3
  have h1 : VM.empty.step (.loadWithFlags 0xE0 fAll) = .ok ⟨[s1]⟩ := by decide
  have h2 : (VM.mk [s1]).step (.contractCall 0xC2 fAll false false) = .ok ⟨[s2, s1]⟩ := by decide
  have h3 : (VM.mk [s2, s1]).step (.runtimeLoadScript 0xE0 fAll) = .ok ⟨[s3, s2, s1]⟩ := by decide
  have h4 : (VM.mk [s3, s2, s1]).step (.contractCall 0xC1 fAll false false) = .ok ⟨[s4, s3, s2, s1]⟩ := by decide
  have r1 : Exec ⟨[s1]⟩ := Reach.step (op := .loadWithFlags 0xE0 fAll) Reach.empty ⟨trivial, Or.inl rfl⟩ h1
  have r2 : Exec ⟨[s2, s1]⟩ := Reach.step (op := .contractCall 0xC2 fAll false false) r1 ⟨trivial, Or.inr rfl⟩ h2
  have r3 : Exec ⟨[s3, s2, s1]⟩ := Reach.step (op := .runtimeLoadScript 0xE0 fAll) r2 ⟨trivial, Or.inr rfl⟩ h3
  have r4 : Exec ⟨[s4, s3, s2, s1]⟩ := Reach.step (op := .contractCall 0xC1 fAll false false) r3 ⟨trivial, Or.inr rfl⟩ h4
  refine ⟨_, r4, envSC exContracts s4, rfl, by decide, by decide, by decide, by decide, ?_⟩
  unfold cwIs; decide

/-- C15-exec-custom. CustomContracts alone: exactly when the executing script's hash is listed. -/
theorem exec_custom_contracts {v : VM} (hv : Honest v) (k : Hash → Option (List Key)) (ic : IC) (h : Hash)
    (s : Signer) (hne : v.istack ≠ []) (hd : decides ic.signers h s) (hsc : s.scopes = scCustomContracts)
    (hc : ¬ (v.loaderHash ≠ 0 ∧ h = v.loaderHash)) :
    cwIs k ic v h (.ok (decide (v.currentHash ∈ s.allowedContracts))) := by
  cases hst : v.istack with
  | nil => exact absurd hst hne
  | cons sc rest =>
    have he : v.env k = some (envSC k sc) := env_of_cons k hst
    have hg := getters_of_execution hv k _ he
    unfold cwIs checkWitnessVM
    rw [he]
    simp only [Option.map_some, Option.some.injEq]
    rw [custom_contracts_exact (envSC k sc) ic.signers h s hd hsc (by rw [hg.1]; exact hc), hg.2.1]

/-- C15-exec-nonsigner. An account that did not sign and is not the loader never passes, in any reachable
state, whatever the source of the signers. -/
theorem exec_non_signer_never {v : VM} (hv : Honest v) (k : Hash → Option (List Key)) (ic : IC) (h : Hash)
    (hns : ∀ s ∈ ic.signers, s.account ≠ h) (hc : ¬ (v.loaderHash ≠ 0 ∧ h = v.loaderHash)) :
    ¬ cwIs k ic v h (.ok true) := by
  cases hst : v.istack with
  | nil => simp [cwIs, checkWitnessVM, VM.env, hst]
  | cons sc rest =>
    have he : v.env k = some (envSC k sc) := env_of_cons k hst
    have hg := getters_of_execution hv k _ he
    unfold cwIs checkWitnessVM
    rw [he]
    simp only [Option.map_some, Option.some.injEq]
    exact (non_signer_never (envSC k sc) ic.signers h hns (by rw [hg.1]; exact hc)).1

/-- C15-exec-explicit. In a state reached by honest steps, `allowedX` (the scope covers the environment the
witness check reads) is the property's text over the execution itself: Global; CalledByEntry and at most two
live loads; the executing script's hash listed; a listed group in the executing contract's manifest; or the
first rule whose condition holds — over the executing script's hash, the LOADER's hash, their manifests'
groups and the live-load count — is an Allow rule. -/
theorem allowedX_iff_allowedExec {v : VM} (hv : Honest v) (k : Hash → Option (List Key)) (s : Signer)
    (hne : v.istack ≠ []) : allowedX k v s ↔ allowedExec k v s := by
  cases hst : v.istack with
  | nil => exact absurd hst hne
  | cons sc rest =>
    have he : v.env k = some (envSC k sc) := env_of_cons k hst
    have hg := getters_of_execution hv k _ he
    have hdir : (envSC k sc).directFromEntry ↔ v.liveLoads ≤ 2 := by
      unfold Env.directFromEntry; have := hg.2.2.2.2; omega
    have hh := holds_iff_holdsX k v (envSC k sc) rfl hg.2.1 hg.1 hdir
    have hfm : ∀ r, firstMatch (envSC k sc) s.rules r ↔ firstMatchX k v s.rules r := by
      intro r; unfold firstMatch firstMatchX; simp only [hh]
    unfold allowedX allowedExec
    rw [he]
    simp only [Option.some.injEq, exists_eq_left']
    unfold allowed
    simp only [hdir, hg.2.1, hfm, Env.hasGroup]
    rfl


/-- C15-exec-main, explicit form: `CheckHashedWitness(h)` is true exactly when `h` is the non-zero hash of the
script that loaded the executing one, or the first signer with account `h` has a scope that covers the
executing context in the sense of `allowedExec`. -/
theorem exec_checkWitness_explicit {v : VM} (hv : Honest v) (k : Hash → Option (List Key)) (ic : IC) (h : Hash)
    (hne : v.istack ≠ []) (hs : ic.signers ≠ []) (hrs : ∀ f, v.flags = some f → f.has fReadStates = true) :
    (cwIs k ic v h (.ok true) ↔
      ((v.loaderHash ≠ 0 ∧ h = v.loaderHash) ∨ ∃ s, decides ic.signers h s ∧ allowedExec k v s)) ∧
    (cwIs k ic v h (.ok false) ↔
      ¬ ((v.loaderHash ≠ 0 ∧ h = v.loaderHash) ∨ ∃ s, decides ic.signers h s ∧ allowedExec k v s)) := by
  have := exec_checkWitness_iff hv k ic h hne hs hrs
  simp only [allowedX_iff_allowedExec hv k _ hne] at this
  exact this

-- entry 0xE0 -> 0xC2 -> 0xC1 (group 0x61): a rule "CalledByContract 0xC2 and Group 0x61" holds in 0xC1
example : holdsX exContracts
    ((VM.empty.run [.loadWithFlags 0xE0 fAll, .contractCall 0xC2 fAll false false,
      .contractCall 0xC1 fAll false false]).toOption.getD VM.empty)
    (.and [.calledByContract 0xC2, .group 0x61, .not .calledByEntry]) := by
  simp only [holdsX, holdsAllX]
  refine ⟨by decide, ⟨[0x61], by decide, by simp⟩, by decide, trivial⟩

/-! ### 4. Where the signers come from -/

/-- C15-signers. `ic.Signers()`: the list given to `UseSigners` when there is one, else the transaction's,
else none — and without any signer the check faults unless the loader itself is checked. So with a block or
an extensible payload as container (no transaction, no override) no account passes by scope. -/
theorem signers_source (ic : IC) :
    (∀ l, ic.useSigners = some l → ic.signers = l) ∧
    (∀ l, ic.useSigners = none → ic.tx = some l → ic.signers = l) ∧
    (ic.useSigners = none → ic.tx = none → ic.signers = []) := by
  refine ⟨?_, ?_, ?_⟩ <;> intros <;> simp_all [IC.signers]

theorem no_transaction_no_scope {v : VM} (hv : Honest v) (k : Hash → Option (List Key)) (h : Hash)
    (hne : v.istack ≠ []) (hc : ¬ (v.loaderHash ≠ 0 ∧ h = v.loaderHash)) :
    cwIs k ⟨none, none⟩ v h (.err .noSigners) := by
  cases hst : v.istack with
  | nil => exact absurd hst hne
  | cons sc rest =>
    have he : v.env k = some (envSC k sc) := env_of_cons k hst
    have hg := getters_of_execution hv k _ he
    unfold cwIs checkWitnessVM
    rw [he]
    simp only [Option.map_some, Option.some.injEq]
    have hc' : ((envSC k sc).calling != 0 && h == (envSC k sc).calling) = false := by
      rw [hg.1]; simpa using hc
    simp [checkWitness, hc', checkScope, IC.signers]

/-! ### 5. Witness verification (trigger Verification) -/

/-- C15-verif-1. What `InitVerificationContext` builds on the fresh VM: the verification script is the
entry script (hash = the account being verified, calling hash zero, flags ReadOnly); the invocation script
runs first, on top of it, with no flags, loaded *by the verification script* (calling hash = the account). -/
theorem verification_contexts (acct : Hash) (contract : Option Bool) (inv : Option Hash) :
    ∃ v, VM.empty.run (initVerification acct contract inv) = .ok v ∧ Exec v ∧
      v.istack.getLast? = some (verifRoot acct) ∧
      live v.istack = (match inv with
        | none => [verifRoot acct]
        | some h => [.child ⟨resolveHash h 0, acct, fNone⟩ (verifRoot acct), verifRoot acct]) := by
  have hstep1 : ∀ op, op = Op.verifyScript acct ∨ (∃ i, op = Op.verifyContract acct i) →
      ∀ v1, VM.empty.step op = .ok v1 → Exec v1 := by
    intro op hop v1 h1
    refine Reach.step Reach.empty ⟨?_, Or.inl ?_⟩ h1
    · rcases hop with rfl | ⟨i, rfl⟩ <;> simp [Op.honest, VM.empty]
    · rcases hop with rfl | ⟨i, rfl⟩ <;> rfl
  cases contract with
  | none =>
    have h1 : VM.empty.step (.verifyScript acct) = .ok ⟨[verifRoot acct]⟩ := by
      simp [VM.step, VM.load, VM.empty, maxInvocationStackSize, VM.currentHash, resolveHash_zero, verifRoot]
    have hx := hstep1 _ (Or.inl rfl) _ h1
    cases inv with
    | none => exact ⟨_, by simp [initVerification, VM.run, h1], hx, rfl, rfl⟩
    | some h =>
      have h2 : (VM.mk [verifRoot acct]).step (.invocationScript h)
          = .ok ⟨[.child ⟨resolveHash h 0, acct, fNone⟩ (verifRoot acct), verifRoot acct]⟩ := by
        simp [VM.step, VM.load, maxInvocationStackSize, VM.currentHash, verifRoot, SC.frame]
      refine ⟨_, by simp [initVerification, VM.run, h1, h2], Reach.step (op := .invocationScript h) hx ⟨trivial, Or.inr rfl⟩ h2, rfl, ?_⟩
      simp [live, SC.child_ne]
  | some init =>
    have h1 : VM.empty.step (.verifyContract acct init)
        = .ok ⟨if init then [verifRoot acct, verifRoot acct] else [verifRoot acct]⟩ := by
      cases init <;>
        simp [VM.step, VM.loadNEF, VM.load, VM.call, VM.empty, maxInvocationStackSize, resolveHash_zero, verifRoot]
    have hx := hstep1 _ (Or.inr ⟨init, rfl⟩) _ h1
    cases inv with
    | none =>
      refine ⟨_, by simp [initVerification, VM.run, h1], hx, ?_, ?_⟩ <;>
      cases init <;> simp [live]
    | some h =>
      have h2 : (VM.mk (if init then [verifRoot acct, verifRoot acct] else [verifRoot acct])).step (.invocationScript h)
          = .ok ⟨.child ⟨resolveHash h 0, acct, fNone⟩ (verifRoot acct) ::
              (if init then [verifRoot acct, verifRoot acct] else [verifRoot acct])⟩ := by
        cases init <;>
          simp [VM.step, VM.load, maxInvocationStackSize, VM.currentHash, verifRoot, SC.frame]
      refine ⟨_, by simp [initVerification, VM.run, h1, h2], Reach.step (op := .invocationScript h) hx ⟨trivial, Or.inr rfl⟩ h2, ?_, ?_⟩ <;>
      cases init <;> simp [live, SC.child_ne]

/-- C15-verif-2. Inside verification of the witness of `acct`, whatever the scripts do next (interop-layer
steps, not emptying the stack): the state is one of `Exec`, so every theorem above applies — the scope rules
are those of any execution — with the entry script = the verification script: `GetEntryScriptHash` is
`acct` throughout, and every context's flags stay within ReadOnly. -/
theorem verification_follows_scope_rules (acct : Hash) (contract : Option Bool) (inv : Option Hash)
    (v0 v : VM) (ops : List Op) (h0 : VM.empty.run (initVerification acct contract inv) = .ok v0)
    (hops : AllAlong (fun v op => op.honest v ∧ op.interop = true) v0 ops) (hab : StaysAbove 1 v0 ops)
    (hr : v0.run ops = .ok v) :
    Exec v ∧ Honest v ∧ v.entryHash = acct ∧ (∀ f, v.flags = some f → Flags.sub f fReadOnly) := by
  obtain ⟨v0', h0', hx0, hbot, _⟩ := verification_contexts acct contract inv
  rw [h0] at h0'; cases h0'
  have hall : AllAlong (fun v op => op.honest v ∧ op.entryOrInterop v) v0 ops :=
    AllAlong.mono (fun _ _ hp => ⟨hp.1, Or.inr hp.2⟩) ops hops
  have hx : Exec v := Reach.run ops hx0 hall hr
  have hne : v0.istack ≠ [] := by intro he; rw [he] at hbot; simp at hbot
  have hbot' : v.istack.getLast? = some (verifRoot acct) := by rw [bottom_constant ops hne hab hr, hbot]
  refine ⟨hx, hx.honest, by simp [VM.entryHash, hbot', verifRoot, SC.frame], ?_⟩
  intro f hf
  cases hst : v.istack with
  | nil => simp [VM.flags, hst] at hf
  | cons s rest =>
    have hfl := (flags_only_shrink hx s rest hst).2.1
    have hc := reach_chain hx
    rw [hst] at hc hbot'
    have hroot : s.rootFrame = ⟨acct, 0, fReadOnly⟩ := by
      rw [chain_getLast s rest hc] at hbot'
      simpa [verifRoot] using hbot'
    simp [VM.flags, hst] at hf
    rw [← hf]; rw [hroot] at hfl
    exact hfl

/-- C15-verif-3. `CheckWitness(h)` executed by the verification script itself (or its `verify` method, also
inside CALLed subroutines): there is no loader, so no hash passes by the caller shortcut; the first signer
with account `h` decides by its scope, with the executing script = the entry script = the account being
verified: a CalledByEntry bit always passes, the empty scope (None) never does. -/
theorem verification_script_itself (acct : Hash) (contract : Option Bool) (v0 : VM)
    (h0 : VM.empty.run (initVerification acct contract none) = .ok v0)
    (k : Hash → Option (List Key)) (ic : IC) (h : Hash) (hs : ic.signers ≠ []) :
    v0.loaderHash = 0 ∧ v0.liveLoads = 1 ∧ v0.currentHash = acct ∧
    (cwIs k ic v0 h (.ok true) ↔ ∃ s, decides ic.signers h s ∧ allowedX k v0 s) ∧
    (cwIs k ic v0 h (.ok false) ↔ ¬ ∃ s, decides ic.signers h s ∧ allowedX k v0 s) ∧
    (∀ s, decides ic.signers h s → hasScope s.scopes scCalledByEntry = true → cwIs k ic v0 h (.ok true)) ∧
    (∀ s, decides ic.signers h s → s.scopes = 0 → cwIs k ic v0 h (.ok false)) := by
  obtain ⟨v0', h0', hx0, hbot, hlive⟩ := verification_contexts acct contract none
  rw [h0] at h0'; cases h0'
  have hl : v0.loaderHash = 0 := by unfold VM.loaderHash; rw [hlive]
  have hn : v0.liveLoads = 1 := by unfold VM.liveLoads; rw [hlive]; rfl
  have hne : v0.istack ≠ [] := by intro he; rw [he] at hbot; simp at hbot
  obtain ⟨rest, htop⟩ : ∃ rest, v0.istack = verifRoot acct :: rest := by
    have hc := reach_chain hx0
    cases hst : v0.istack with
    | nil => exact absurd hst hne
    | cons s rest =>
      rw [hst] at hc hlive
      rw [chain_live s rest hc] at hlive
      obtain ⟨t, ht⟩ := chainList_head s
      rw [ht] at hlive
      simp at hlive
      exact ⟨rest, by rw [hlive.1]⟩
  have hfl : ∀ f, v0.flags = some f → f.has fReadStates = true := by
    intro f hf
    simp [VM.flags, htop, verifRoot, SC.frame] at hf
    subst hf; decide
  have hcur : v0.currentHash = acct := by simp [VM.currentHash, htop, verifRoot, SC.frame]
  have hmain := exec_checkWitness_iff hx0.honest k ic h hne hs hfl
  simp only [hl, ne_eq, not_true_eq_false, false_and, false_or] at hmain
  refine ⟨hl, hn, hcur, hmain.1, hmain.2, ?_, ?_⟩
  · intro s hd hsc
    refine hmain.1.mpr ⟨s, hd, envSC k (verifRoot acct), env_of_cons k htop, ?_⟩
    right; left
    exact ⟨hsc, by simp [Env.directFromEntry, envSC, verifRoot, SC.parents]⟩
  · intro s hd hsc
    refine hmain.2.mpr ?_
    rintro ⟨s', hd', e, _, ha⟩
    rw [← decides_unique hd hd'] at ha
    unfold allowed at ha
    rw [hsc] at ha
    simp [hasScope, scGlobal, scCalledByEntry, scCustomContracts, scCustomGroups, scRules] at ha

/-- C15-verif-4. While the invocation script of the witness runs, it is a script loaded by the verification
script: the calling hash is the account being verified, so `CheckWitness(acct)` passes there by the caller
shortcut whatever the signers (the result only lands on the stack handed to the verification script); it
has no call flags. -/
theorem invocation_script_context (acct hinv : Hash) (contract : Option Bool) (v1 : VM)
    (h1 : VM.empty.run (initVerification acct contract (some hinv)) = .ok v1)
    (k : Hash → Option (List Key)) (ic : IC) :
    v1.loaderHash = acct ∧ v1.liveLoads = 2 ∧ v1.flags = some fNone ∧ v1.entryHash = acct ∧
    (acct ≠ 0 → cwIs k ic v1 acct (.ok true)) := by
  obtain ⟨v1', h1', hx, hbot, hlive⟩ := verification_contexts acct contract (some hinv)
  rw [h1] at h1'; cases h1'
  have hl : v1.loaderHash = acct := by unfold VM.loaderHash; rw [hlive]; rfl
  have hn : v1.liveLoads = 2 := by unfold VM.liveLoads; rw [hlive]; rfl
  have hne : v1.istack ≠ [] := by intro he; rw [he] at hbot; simp at hbot
  obtain ⟨rest, htop⟩ : ∃ rest, v1.istack = .child ⟨resolveHash hinv 0, acct, fNone⟩ (verifRoot acct) :: rest := by
    have hc := reach_chain hx
    cases hst : v1.istack with
    | nil => exact absurd hst hne
    | cons s rest =>
      rw [hst] at hc hlive
      rw [chain_live s rest hc] at hlive
      obtain ⟨t, ht⟩ := chainList_head s
      rw [ht] at hlive
      simp at hlive
      exact ⟨rest, by rw [hlive.1]⟩
  refine ⟨hl, hn, by simp [VM.flags, htop, SC.frame], by simp [VM.entryHash, hbot, verifRoot, SC.frame], ?_⟩
  intro ha
  have := exec_caller_always hx.honest k ic hne (by rw [hl]; exact ha)
  rw [hl] at this; exact this

/-- C15-verif-5. Verification of a block's or an extensible payload's witness (the container is not a
transaction, nothing was given to `UseSigners`): every `CheckWitness` of the verification script faults with
"no valid signers". -/
theorem verification_without_transaction (acct : Hash) (contract : Option Bool) (v0 : VM)
    (h0 : VM.empty.run (initVerification acct contract none) = .ok v0)
    (k : Hash → Option (List Key)) (h : Hash) : cwIs k ⟨none, none⟩ v0 h (.err .noSigners) := by
  obtain ⟨v0', h0', hx0, hbot, hlive⟩ := verification_contexts acct contract none
  rw [h0] at h0'; cases h0'
  have hl : v0.loaderHash = 0 := by unfold VM.loaderHash; rw [hlive]
  have hne : v0.istack ≠ [] := by intro he; rw [he] at hbot; simp at hbot
  exact no_transaction_no_scope hx0.honest k h hne (by simp [hl])

example : cwIs exContracts ⟨none, some [sg 0xA1 scCalledByEntry]⟩
    ((VM.empty.run (initVerification 0xA1 none none)).toOption.getD VM.empty) 0xA1 (.ok true) := by
  unfold cwIs; decide

example : cwIs exContracts ⟨none, some [sg 0xA1 0]⟩
    ((VM.empty.run (initVerification 0xA1 (some true) none)).toOption.getD VM.empty) 0xA1 (.ok false) := by
  unfold cwIs; decide

-- a contract called from the verification script sees the verified account as its caller
example : cwIs exContracts ⟨none, some [sg 0xA1 0]⟩
    ((VM.empty.run (initVerification 0xA1 none none ++ [.contractCall 0xC1 fAll false false])).toOption.getD VM.empty)
    0xA1 (.ok true) := by
  unfold cwIs; decide


/-! ### 6. The model's wiring and constants are those of the source (regenerated on every run) -/

/-- The expressions the source passes as calling hash / script hash / call flags in every loader and interop
function the frame machine mirrors, and the getters the witness check reads, are literally those the model
was written against. -/
theorem wiring_regenerated : Generated.WitnessFrames.wiring = wiringExpected := rfl

/-- Every native contract that calls back into a contract passes its own hash as the calling hash (so the
step is `Op.honest`), except Policy.recoverFund, which passes the blocked account it acts for. -/
theorem native_callers_regenerated :
    Generated.WitnessFrames.nativeCallSites = nativeCallSitesExpected ∧
    (∀ s ∈ Generated.WitnessFrames.nativeCallSites,
      s.2.2 ∈ ["m.Hash", "c.Hash", "n.Hash", "o.Hash"] ∨ (s.1 = "policy.go" ∧ s.2.1 = "recoverFundDeferrable")) := by
  refine ⟨rfl, ?_⟩
  decide

/-- call flag values, the invocation stack limit, the opcodes and the interop id of the signature contract,
and the call flags the syscalls require, are those of the linked code. -/
theorem frames_consts_regenerated :
    fReadStates = Generated.WitnessFrames.flagReadStates ∧ fWriteStates = Generated.WitnessFrames.flagWriteStates ∧
    fAllowCall = Generated.WitnessFrames.flagAllowCall ∧ fAllowNotify = Generated.WitnessFrames.flagAllowNotify ∧
    fStates = Generated.WitnessFrames.flagStates ∧ fReadOnly = Generated.WitnessFrames.flagReadOnly ∧
    fAll = Generated.WitnessFrames.flagAll ∧ fNone = Generated.WitnessFrames.flagNone ∧
    maxInvocationStackSize = Generated.WitnessFrames.maxInvocationStackSize ∧
    opPUSHDATA1.toNat = Generated.WitnessFrames.opPUSHDATA1 ∧ opSYSCALL.toNat = Generated.WitnessFrames.opSYSCALL ∧
    beVal checkSigId.reverse = Generated.WitnessFrames.checkSigId ∧
    syscallFlags "System.Contract.Call" = some (fReadStates ||| fAllowCall) ∧
    syscallFlags "System.Runtime.LoadScript" = some fAllowCall ∧
    syscallFlags "System.Runtime.CheckWitness" = some fNone ∧
    syscallFlags "System.Runtime.GetCallingScriptHash" = some fNone ∧
    syscallFlags "System.Runtime.GetExecutingScriptHash" = some fNone ∧
    syscallFlags "System.Runtime.GetEntryScriptHash" = some fNone := by decide

/-! ### 7. CheckWitness with a public-key argument -/

/-- C15-key-1. The syscall with 20 bytes checks that script hash; with a valid public key (either encoding)
it checks the account of the key: `H` (Hash160) of the key's signature-check contract; anything else faults.
So every theorem about `checkWitness e signers h` holds for a key with `h = H (sigContract key)`. -/
theorem checkWitnessArg_cases (H : Bytes → Hash) (dk : Bytes → Option Bytes) (e : Env) (signers : List Signer)
    (arg : Bytes) :
    (arg.length = 20 → checkWitnessArg H dk e signers arg = some (checkWitness e signers (beVal arg))) ∧
    (arg.length ≠ 20 → ∀ k, dk arg = some k →
      checkWitnessArg H dk e signers arg = some (checkWitness e signers (H (sigContract k)))) ∧
    (arg.length ≠ 20 → dk arg = none → checkWitnessArg H dk e signers arg = none) := by
  unfold checkWitnessArg
  refine ⟨fun h => by simp [h], fun h k hk => by simp [h, hk], fun h hk => by simp [h, hk]⟩

/-- C15-key-2. With signers present and the ReadStates flag: `CheckWitness(key)` is true exactly when the
key's account is the (non-zero) calling contract or the first signer with that account has a scope covering
the environment. -/
theorem key_witness_iff (H : Bytes → Hash) (dk : Bytes → Option Bytes) (e : Env) (signers : List Signer)
    (arg k : Bytes) (hl : arg.length ≠ 20) (hk : dk arg = some k) (hs : signers ≠ [])
    (hrs : e.cur.readStates = true) :
    (checkWitnessArg H dk e signers arg = some (.ok true) ↔ Spec e signers (H (sigContract k))) ∧
    (checkWitnessArg H dk e signers arg = some (.ok false) ↔ ¬ Spec e signers (H (sigContract k))) := by
  rw [((checkWitnessArg_cases H dk e signers arg).2.1 hl) k hk]
  simp only [Option.some.injEq]
  exact checkWitness_iff e signers _ hs hrs

/-- C15-key-3. If Hash160 does not collide on the two signature contracts, two keys (33-byte compressed
forms) have the same account only if they are the same key: a signer entry for one key never witnesses for
another key. -/
theorem key_accounts_distinct (H : Bytes → Hash) (k1 k2 : Bytes) (h1 : k1.length = 33) (h2 : k2.length = 33)
    (hinj : H (sigContract k1) = H (sigContract k2) → sigContract k1 = sigContract k2)
    (hacc : H (sigContract k1) = H (sigContract k2)) : k1 = k2 :=
  sigContract_injective (hinj hacc) (by rw [h1, h2])

-- the signature contract of a key is PUSHDATA1 33 key SYSCALL System.Crypto.CheckSig (40 bytes)
example : sigContract (List.replicate 33 0x02) = [0x0C, 0x21] ++ List.replicate 33 0x02 ++ [0x41, 0x56, 0xe7, 0xb3, 0x27] := by
  decide
example : checkWitnessArg (fun _ => 0xA1) (fun b => if b.length = 33 then some b else none) exDeep
    [sg 0xA1 scGlobal] (List.replicate 33 0x03) = some (.ok true) := by decide
example : checkWitnessArg (fun _ => 0xA1) (fun b => if b.length = 33 then some b else none) exDeep
    [sg 0xA1 scGlobal] [1, 2, 3] = none := by decide


end NeoModel.Witness
