/-
C09 (fourth part) — a failing flush: the locking discipline of `persist` at the level of Go map objects
(model `Model/Store/Locks.lean`, lemmas `Proofs/StoreLocks.lean`) and what a failed flush leaves readable.

History: until /repo 3a75687 the error branch of persist copied the new writes INTO the tempstore's maps and
made them the store's maps again, while concurrent Seeks iterate tempstore maps without the store's lock
(memcached_store.go:401-404): a runtime crash on the real code (finding persist-failure-map-race, now
`fixed:`). `persist_failure_race_witness` keeps that as a regression example about the OLD rule; the model
mirrors the code as it is now, and the discipline holds for ALL schedules.
-/
import NeoModel.Proofs.StoreLocks
import NeoModel.Proofs.StoreFlush
namespace NeoModel.Store.C09
open NeoModel.Store.Locks

/-- C09 (flush vs lock-free readers): for EVERY schedule of client writes (Put / Delete / PutChangeSet, to
either map), flush beginnings, successful AND failing flush ends, from any state whose own maps were never
lent: no critical section of a shared MemCachedStore writes a map object that has ever been handed to a
tempstore — so Seeks may iterate tempstore maps without the store's lock. -/
theorem persist_maps_discipline (s : PState) (lent : List Nat) (h : Good s lent) (es : List Locks.Ev) :
    raceIn s lent es = false :=
  no_race s lent h es

-- non-vacuity: a successful flush, then a failing one, with writes before, during and after them
example : raceIn init [] [.write true, .begin, .write true, .write false, .finishOk, .write true, .begin,
    .write false, .finishFail, .write false, .write true, .begin, .finishOk] = false :=
  persist_maps_discipline init [] init_good _

/-- regression example about the error branch as it was before 3a75687: a flush that begins and fails
wrote the two map objects lent to its tempstore (maps 0 and 1), they became the store's maps again and the
next client write went to a lent map object; under the rule of the code as it is the same schedule is
race-free. -/
theorem persist_failure_race_witness :
    raceInG true init [] [.begin, .finishFail] = true ∧
    (stepG true (stepG true init .begin).1 .finishFail).1.mem = 0 ∧
    raceInG true (stepG true (stepG true init .begin).1 .finishFail).1 [0, 1] [.write false] = true ∧
    raceIn init [] [.begin, .finishFail, .write false, .write true] = false :=
  race_on_failure_old

/-- what the stream observes on the real store (addresses of the map objects before and after the last
step of a flush): after a successful AND after a failed flush the store works on maps that are not the
tempstore's (the old rule handed the tempstore's maps back). -/
theorem persist_alias_observation :
    aliasedAfter .finishOk = false ∧ aliasedAfter .finishFail = false ∧ aliasedAfterG true .finishFail = true :=
  aliased_values

/-- C09 (what a failed flush leaves readable): after the error branch the store's own maps say, for every
key, what the new maps said, else what the swapped-out maps said — the union, newer values winning;
the result is well-formed and the whole stack stands for the same ordered map as before the failure
(nothing lost, nothing resurrected, the tempstore gone from the chain). -/
theorem failed_flush_keeps_union (F T : Layer) (ps : Store) (hw : (Store.cached F (.cached T ps)).WF) :
    (Store.cached F (.cached T ps)).persist3Fail = .cached (fillLayer F T) ps ∧
    (∀ q, layerSays (fillLayer F T) q = match layerSays F q with | some x => some x | none => layerSays T q) ∧
    (fillLayer F T).WF ∧
    (Store.cached F (.cached T ps)).persist3Fail.flatten = (Store.cached F (.cached T ps)).flatten :=
  ⟨rfl, layerSays_fill F T, Layer.WF_fill F T hw.1 hw.2.1, flatten_persist3Fail F T ps hw.1⟩

-- non-vacuity: a key overwritten and a key deleted during the failing flush, a key only in the old maps
example :
    let F : Layer := { priv := false, mem := [], stor := [([0x70, 1], some [9]), ([0x70, 2], none)] }
    let T : Layer := { priv := false, mem := [], stor := [([0x70, 1], some [1]), ([0x70, 2], some [2]), ([0x70, 3], some [3])] }
    let s := (Store.cached F (.cached T (.level []))).persist3Fail
    s.get [0x70, 1] = some [9] ∧ s.get [0x70, 2] = none ∧ s.get [0x70, 3] = some [3] := by decide

end NeoModel.Store.C09
