/-
C06 — the stand-alone verification of a transaction (verifyAndPoolTx / verifyTxWitnesses /
verifyTxAttributes / dao.HasTransaction) inside the model: property theorems over
`NeoModel.Model.AddBlock.TxVerify` and their connection to `accept_only_valid`.
Helper lemmas: Proofs/AddBlockTxVerify, AddBlockTxLoop, AddBlockPool.
-/
import NeoModel.Props.C06
import NeoModel.Proofs.AddBlockTxVerify
import NeoModel.Proofs.AddBlockPool
namespace NeoModel.AddBlock
variable {L : Type}

/-! ### concrete objects for the non-vacuity examples -/

/-- a chain view: height `h`, ValidUntilBlock window 100, FeePerByte 10, Conflicts attribute fee 7,
account 9 blocked, hash 70 is a transaction on chain, hash 71 carries a conflict record of account 1
made at height 0, traceable for 5 blocks. -/
def exChain (h : Nat) : Chain :=
  { height := h, maxVUBInc := 100, maxBlockSysFee := 1000, feePerByte := 10, maxVerGas := 50, mtb := 5,
    p2pSigExt := false, reservedAttrs := false, notaryActive := true,
    attrFee := fun t => if t == 0x21 then 7 else 0, blocked := fun a => a == 9,
    lookup := fun x => if x == 70 then .tx else if x == 71 then .stub 0 [(1, 0)] else .none,
    committee := 5, oracleHash := none, notary := 6 }

/-- a sound single-signature witness costing 20 -/
def wOK : Witness := .script true false true true 20

/-- a well-formed transaction of account `a` with hash `id`: size 10, network fee 120 = 10·10 + 20 -/
def vtx (id a : Nat) : VTx :=
  { id := id, wit := id, scriptOk := true, sysFee := 3, netFee := 120, vub := 50, size := 10,
    signers := [{ account := a, scopeNone := false }], wits := [wOK], attrs := [] }

/-! ### C06: the stand-alone verification of a transaction, modelled -/

/-- C06: the error that verifyAndPoolTx (before pool.Add) answers is the class of the FIRST check, in
the order the code performs them (script, expiry, ValidUntilBlock window, blocked signers, size, network
fee, on-chain record, conflict record, witnesses, attributes), that the transaction fails. -/
theorem tx_verdict_is_first_failing_check (c : Chain) (t : VTx) :
    verifyTx c t = firstFailing (checks c t) := verifyTx_eq_firstFailing c t

-- non-vacuity: expired AND blocked AND underpaying -> expired; blocked and underpaying -> policy
example : verifyTx (exChain 60) { vtx 1 9 with netFee := 0 } = some .expired ∧
    verifyTx (exChain 0) { vtx 1 9 with netFee := 0 } = some .policy ∧
    verifyTx (exChain 0) { vtx 1 1 with netFee := 0 } = some .smallNetFee ∧
    verifyTx (exChain 0) (vtx 1 1) = none := by decide

/-- C06: a transaction passes iff every conjunct holds: script well-formed, height < ValidUntilBlock ≤
height + MaxValidUntilBlockIncrement, no signer blocked, size ≤ MaxTransactionSize, NetworkFee ≥
size·FeePerByte + attribute fees, no transaction and no traceable conflict record of one of its signers
on chain under its hash, every witness verifies within the GAS the fee leaves, every attribute is
admissible. -/
theorem tx_accepted_iff_all_conjuncts (c : Chain) (t : VTx) : verifyTx c t = none ↔ TxValid c t :=
  verifyTx_none_iff c t

example : TxValid (exChain 0) (vtx 1 1) := (verifyTx_none_iff _ _).mp (by decide)

/-- C06: a verified transaction with script witnesses pays for its size, its attributes and the
verification of all of its witnesses, every witness is sound and none costs more than
MaxVerificationGas. -/
theorem tx_fee_covers_verification (c : Chain) (t : VTx) (hs : ∀ w ∈ t.wits, w.isScript = true)
    (h : verifyTx c t = none) :
    t.size * c.feePerByte + attrsFee c t.signers.length t.attrs + sumCost t.wits ≤ t.netFee ∧
      ∀ w ∈ t.wits, w.sound = true ∧ w.cost ≤ c.maxVerGas :=
  valid_fee_covers_verification c t hs h

-- non-vacuity, at the boundary: fee 120 = 100 + 20 passes, 119 does not (the witness runs out of GAS);
-- with a Conflicts attribute (fee 7 per signer) 127 is needed
example : verifyTx (exChain 0) (vtx 1 1) = none ∧ verifyTx (exChain 0) { vtx 1 1 with netFee := 119 } = some .witness ∧
    verifyTx (exChain 0) { vtx 1 1 with attrs := [.conflicts 99], netFee := 127 } = none ∧
    verifyTx (exChain 0) { vtx 1 1 with attrs := [.conflicts 99], netFee := 126 } = some .witness ∧
    verifyTx (exChain 0) { vtx 1 1 with attrs := [.conflicts 99], netFee := 106 } = some .smallNetFee := by decide

/-- C06: the conflict record under the transaction's hash counts only while traceable and only for the
signers it names. -/
example : verifyTx (exChain 4) (vtx 71 1) = some .hasConflicts ∧ verifyTx (exChain 5) (vtx 71 1) = none ∧
    verifyTx (exChain 4) (vtx 71 2) = none ∧ verifyTx (exChain 4) (vtx 70 1) = some .alreadyExists := by decide

/-- C06: what the verdict reads of the chain state — see `verifyTx_frame`: the scalar settings without
MaxBlockSystemFee, the blocked flag of the signers, the fees of the attribute types present, the
on-chain record under the transaction's hash and under the hashes its Conflicts attributes name. No
memory pool is an argument of `verifyTx`. -/
theorem tx_verdict_frame (c c' : Chain) (t : VTx)
    (h1 : c.height = c'.height) (h2 : c.maxVUBInc = c'.maxVUBInc) (h3 : c.feePerByte = c'.feePerByte)
    (h4 : c.maxVerGas = c'.maxVerGas) (h5 : c.mtb = c'.mtb) (h6 : c.p2pSigExt = c'.p2pSigExt)
    (h7 : c.reservedAttrs = c'.reservedAttrs) (h8 : c.notaryActive = c'.notaryActive)
    (h9 : c.committee = c'.committee) (h10 : c.oracleHash = c'.oracleHash) (h11 : c.notary = c'.notary)
    (hb : ∀ a ∈ t.accounts, c.blocked a = c'.blocked a)
    (hf : ∀ a ∈ t.attrs, c.attrFee a.typ = c'.attrFee a.typ)
    (hl : c.lookup t.id = c'.lookup t.id)
    (hc : ∀ x ∈ t.conflictHashes, c.lookup x = c'.lookup x) :
    verifyTx c t = verifyTx c' t :=
  verifyTx_frame c c' t h1 h2 h3 h4 h5 h6 h7 h8 h9 h10 h11 hb hf hl hc

-- non-vacuity: another MaxBlockSystemFee, other blocked accounts, other records elsewhere: same verdict
def exChain' : Chain :=
  { exChain 0 with
    maxBlockSysFee := 0
    blocked := fun a => a == 9 || a == 8
    lookup := fun x => if x == 300 then .tx else (exChain 0).lookup x }
example : verifyTx exChain' (vtx 1 1) = verifyTx (exChain 0) (vtx 1 1) := by decide

/-- C06: VerifyTx (the off-chain entry) accepts iff SystemFee ≤ MaxBlockSystemFee, the in-block
verification passes, and the sender can pay both fees. The in-block path applies neither the first nor —
before the scratch pool — the last. -/
theorem offchain_accepts_iff (c : Chain) (bal : Nat) (t : VTx) :
    verifyOffChain c bal t = none ↔ t.sysFee ≤ c.maxBlockSysFee ∧ verifyTx c t = none ∧ t.sysFee + t.netFee ≤ bal := by
  unfold verifyOffChain
  by_cases h1 : t.sysFee > c.maxBlockSysFee
  · simp [h1]; omega
  · simp only [h1, if_false]
    cases h2 : verifyTx c t with
    | some e => simp
    | none =>
      by_cases h3 : bal < t.sysFee + t.netFee
      · simp [h3]; try omega
      · simp [h3]; try omega

example : verifyOffChain (exChain 0) 1000 { vtx 1 1 with sysFee := 1001 } = some .sysFeeLimit ∧
    verifyTx (exChain 0) { vtx 1 1 with sysFee := 1001 } = none := by decide

/-! ### C06 (1) with the modelled predicate instead of an opaque label -/

/-- the environment's stand-alone verification is the modelled one: `view` = what the verification
reads of a ledger at a height, `obj t` = the received transaction object whose scratch-pool view is `t`. -/
def Modelled (env : Env L) (view : L → Nat → Chain) (obj : Tx → VTx) : Prop :=
  ∀ l h t, env.txValid l h t = (verifyTx (view l h) (obj t)).isNone

/-- C06 (1) with stand-alone transaction validity spelled out: if AddBlock (block verification and
VerifyTransactions on) accepts `b`, every transaction of `b` satisfies every conjunct of `TxValid` at
the node's state, besides the header conjuncts and mutual compatibility of `accept_only_valid`. -/
theorem accept_only_valid_modelled (env : Env L) (view : L → Nat → Chain) (obj : Tx → VTx)
    (hm : Modelled env view obj) (s s' : Node L) (b : Block)
    (hskip : s.cfg.skip = false) (hinv : Inv env s) (hbind : HashBinds s b)
    (hpool : ∀ q ∈ s.pool, TxValid (view s.ledger s.blockHeight) (obj q))
    (htx : ∀ q ∈ s.pool, ∀ t ∈ b.txs, q.id = t.id → q.wit = t.wit → q = t)
    (hvt : s.cfg.verifyTx = true)
    (h : addBlock env s b = (s', none)) :
    (∀ t ∈ b.txs, TxValid (view s.ledger s.blockHeight) (obj t)) ∧
      Compatible (env.balance s.ledger) b.txs ∧
      ∃ tip, s.headers[s.blockHeight]? = some tip ∧ b.hdr.index = s.blockHeight + 1 ∧
        b.hdr.prevHash = tip.hash ∧ tip.ts < b.hdr.ts ∧
        b.hdr.merkleRoot = env.merkle (b.txs.map (·.id)) ∧
        env.signedBy b.hdr.wit b.hdr.hash tip.nextConsensus = true := by
  have hpool' : ∀ q ∈ s.pool, env.txValid s.ledger s.blockHeight q = true := by
    intro q hq
    rw [hm, (verifyTx_none_iff _ _).mpr (hpool q hq)]; rfl
  obtain ⟨tip, h1, h2, h3, h4, h5, h6, _, _, _, h10⟩ := accept_only_valid env s s' b hskip hinv hbind hpool' htx h
  obtain ⟨hv, hc⟩ := h10 hvt
  refine ⟨?_, hc, tip, h1, h2, h3, h4, h5, h6⟩
  intro t ht
  have := hv t ht
  rw [hm] at this
  apply (verifyTx_none_iff _ _).mp
  cases hx : verifyTx (view s.ledger s.blockHeight) (obj t) with
  | none => rfl
  | some e => rw [hx] at this; cases this

/-- the environment of the examples with the modelled verification: the chain view at a height is
`exChain`, the object of a scratch-pool transaction is `vtx id sender` with the transaction's witness -/
def exObj (t : Tx) : VTx := { vtx t.id t.sender with wit := t.wit, wits := [.script true false true (t.wit == t.id) 20] }
def exEnvM : Env (Nat × Nat) := { exEnv with txValid := fun _ h t => (verifyTx (exChain h) (exObj t)).isNone }

theorem exEnvM_modelled : Modelled exEnvM (fun _ h => exChain h) exObj := fun _ _ _ => rfl

-- non-vacuity: the block b1 = [t42] is accepted by the node with the modelled verification,
-- the same block with the witness of t42 corrupted is refused for that reason
example : (addBlock exEnvM exNode b1).2 = none ∧ (addBlock exEnvM exNode b1BadTxWit).2 = some .tx ∧
    verifyTx (exChain 0) (exObj { t42 with wit := 43 }) = some .witness := by decide

/-! ### C06: the first failing transaction decides -/

/-- C06: when AddBlock (block verification and VerifyTransactions on) refuses a block because of a
transaction, there is a first transaction `t` such that all the ones before it passed (so the scratch
pool held exactly those) and `t` failed its turn — the stand-alone verification (class of its first
failing check) unless it is pooled with the same witnesses, else the scratch pool (funds, Conflicts), else
the eviction test — with the reported reason `e`. -/
theorem rejected_tx_is_first_failing (env : Env L) (s s' : Node L) (b : Block) (why : Tx → Option TxErr)
    (hw : ∀ t, env.txValid s.ledger s.blockHeight t = (why t).isNone)
    (hvt : s.cfg.verifyTx = true)
    (h : addBlock env s b = (s', some .tx)) :
    ∃ pre t post e, b.txs = pre ++ t :: post ∧ txLoop env s [] pre = true ∧
      txStepE env s why pre t = .error e ∧ txLoopE env s why 0 [] b.txs = some (pre.length, e) := by
  have hloop : txLoop env s [] b.txs = false := by
    unfold addBlock at h
    split at h
    · split at h <;> cases h
    split at h
    · cases h
    split at h
    · rename_i s1 e hs
      have := headerStep_ne_tx env s b
      rw [hs] at this
      cases h
      exact absurd rfl this
    · rename_i s1 hs
      obtain ⟨hl, hx⟩ := headerStep_onlyHeaders env s b
      rw [hs] at hx
      simp only at hx
      subst hx
      unfold bodyStep at h
      split at h; · cases h
      split at h; · cases h
      split at h
      · rename_i hc
        simp only [Bool.and_eq_true, Bool.not_eq_true'] at hc
        rw [← hc.2]
        exact txLoop_congr env s { s with headers := hl } rfl rfl rfl rfl [] b.txs
      · have := (storeBlock_err env _ s' b _ h).2
        cases this
  cases hE : txLoopE env s why 0 [] b.txs with
  | none =>
    rw [(txLoopE_none_iff env s why hvt hw 0 [] b.txs).mp hE] at hloop
    cases hloop
  | some je =>
    obtain ⟨j, e⟩ := je
    obtain ⟨pre, t, post, h1, h2, h3, h4⟩ := txLoopE_some env s why 0 [] b.txs j e hE
    refine ⟨pre, t, post, e, h1, (txLoopE_none_iff env s why hvt hw 0 [] pre).mp h3, by simpa using h4, ?_⟩
    rw [h2]; simp

-- non-vacuity: [t42, a copy of t50 with a corrupted witness, t50]: position 1 is reported, for its witness;
-- the block [t42, t50] (t50 names t42 in a Conflicts attribute) is refused at position 1 for the eviction
example : txLoopE exEnvM exNode (fun t => verifyTx (exChain 0) (exObj t)) 0 [] [t42, { t50 with wit := 51, conflicts := [] }, t50] =
      some (1, .witness) ∧
    txLoopE exEnvM exNode (fun t => verifyTx (exChain 0) (exObj t)) 0 [] [t42, t50] = some (1, .inBlockConflict) := by decide

/-! ### C06: the mempool does not decide -/

/-- C06: whether AddBlock accepts a block, and the error class if not, do not depend on the content of
the mempool, as long as the mempool shortcut is sound at both pools (a block transaction found pooled
with the same hash and witnesses passes the stand-alone verification — C07's subject). Together with
`tx_verdict_frame` (no pool among the arguments of the stand-alone verification) and the scratch pool
starting empty: the mempool only decides what is left in it afterwards. -/
theorem verdict_independent_of_mempool (env : Env L) (s : Node L) (q : List Tx) (b : Block)
    (h1 : ShortcutSound env s b) (h2 : ShortcutSound env (withPool s q) b) :
    (addBlock env (withPool s q) b).2 = (addBlock env s b).2 :=
  addBlock_verdict_pool_irrelevant env s q b h1 h2

example : (addBlock exEnvM (withPool exNode [t42]) b1).2 = (addBlock exEnvM exNode b1).2 ∧
    ShortcutSound exEnvM (withPool exNode [t42]) b1 := by
  refine ⟨by decide, ?_⟩
  intro t ht _
  simp [b1] at ht
  subst ht
  decide

end NeoModel.AddBlock
