/-
C11, section 12 — kept in a module of its own: it depends on the regenerated table Generated/GcCompare.lean,
so a change of stateroot.Module.GC's comparison breaks these three theorems only.
-/
import NeoModel.Proofs.MptRcGcFact
namespace NeoModel.C11
open NeoModel.MptRc

/-! ## 12. the collection compares the DECODED height (regenerated source fact) -/

/-- C11.12a what `stateroot.Module.GC`'s callback does, read from /repo's syntax tree on every run:
inactive-value test, `binary.LittleEndian.Uint32` of the last four bytes, `h <= index`. -/
theorem gc_compares_decoded_height :
    Generated.GcCompare.callee = "store.SeekGC" ∧
    Generated.GcCompare.conds = ["!mpt.IsActiveValue(v)", "h <= index"] ∧
    Generated.GcCompare.assigns = ["h := binary.LittleEndian.Uint32(v[len(v)-4:])"] ∧
    Generated.GcCompare.returns = ["return false, true", "return true, true"] :=
  gc_source_fact

/-- C11.12b on the stored 4 little-endian bytes that is the numeric comparison the model's `gc` makes
(`gc_deletes_only_old_inactive`: heights are numbers there), for every height below 2^32 … -/
theorem gc_predicate_is_numeric (h g : Nat) (hh : h < 4294967296) : (decLE32 (le32b h) ≤ g) ↔ h ≤ g :=
  gc_predicate_numeric h g hh

/-- C11.12c … and not a bytewise comparison of the encodings (seed C11-m8): 256 vs 255, 65536 vs 65535. -/
theorem gc_bytewise_would_be_wrong :
    lexLe (le32b 256) (le32b 255) = true ∧ ¬ (256 ≤ 255) ∧
    lexLe (le32b 255) (le32b 256) = false ∧ 255 ≤ 256 ∧
    lexLe (le32b 65536) (le32b 65535) = true :=
  bytewise_is_not_numeric

end NeoModel.C11
