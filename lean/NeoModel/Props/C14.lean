/-
C14 — compiled contracts behave like the Go source.  Property theorems for the modelled core
(MiniGo → NeoVM); helper lemmas live in Proofs/Compile*.lean.

Reading guide.  `evalE fuel P env e = .ok v` is the Go semantics (64-bit ints, `.overflow` when an
intermediate leaves the range — the property's side condition — `.panic` where Go panics).
`compE cx sc e m nl` is what codegen.go emits for `e` (m = .val: Visit/emitBinaryExpr leave the value on the
stack; m = .jump cond t: emitBoolExpr jumps to label t iff the value equals cond).  `Reach C s s'`: the
assembly machine runs from s to s' without stopping.  `Placed C pc c`: the code c sits in the program C at
index pc.  `VarsRel cx sc env locals args`: the compile-time scopes `sc` (vars.go) and the machine's slots
describe the run-time environment `env`.
-/
import NeoModel.Proofs.CompileAsm
import NeoModel.Proofs.CompileFault
import NeoModel.Proofs.CompileLayout
import NeoModel.Proofs.CompileOverflow
import NeoModel.Proofs.CompileOperands
import NeoModel.Proofs.CompileDebug
import NeoModel.Proofs.CompileOpTable
import NeoModel.Proofs.CompileAccepted
namespace NeoModel.C14
open NeoModel.MiniVm NeoModel.MiniVm.Asm NeoModel.MiniGo NeoModel.Compile NeoModel.CompileProofs

/-- slot allocation (vars.go newLocal): a new local gets the slot `cnt`, which no earlier local has. -/
theorem newLocal_slot (st : St) (x : String) :
    lookupSlot (st.newLocal x).scopes x = some st.cnt ∧ (st.newLocal x).cnt = st.cnt + 1 := by
  unfold St.newLocal
  cases h : st.scopes <;> simp [lookupSlot, List.lookup]

example : lookupSlot (({ nl := 0, cnt := 3, scopes := [[("y", 0)]] } : St).newLocal "x").scopes "x" = some 3 :=
  (newLocal_slot _ _).1

/-- compile_correct, expression + locals fragment, value context:
    if the Go semantics gives `e` the value `v` (no overflow, no panic), the emitted code pushes `v` and
    leaves everything else (stack below, slots, frames) unchanged.  Call-free expressions. -/
theorem compile_expr_correct (P : Prog) (cx : Ctx) (sc : Scopes) (env : Env) (fuel : Nat)
    (e : Expr) (nl : Nat) (C : Code) (s : State) (v : Val)
    (hnc : NoCall e) (hev : evalE fuel P env e = .ok v)
    (hp : Placed C s.pc (compE cx sc e .val nl).1) (hn : (labelsOf C).Nodup)
    (hrel : VarsRel cx sc env s.locals s.args) :
    Reach C s { s with pc := s.pc + (compE cx sc e .val nl).1.length, stack := v :: s.stack } :=
  exprOK P cx sc env fuel e .val nl C s v hnc hev hp hn hrel

/-- compile_correct, condition context (emitBoolExpr with needJump): the code jumps to the label `t` exactly
    when the value of `e` equals `cond`, otherwise falls through; the stack is unchanged (the stack-depth
    discipline at jump targets). -/
theorem compile_cond_correct (P : Prog) (cx : Ctx) (sc : Scopes) (env : Env) (fuel : Nat)
    (e : Expr) (cond : Bool) (t tp nl : Nat) (C : Code) (s : State) (b : Bool)
    (hnc : NoCall e) (hev : evalE fuel P env e = .ok (.bool b))
    (hp : Placed C s.pc (compE cx sc e (.jump cond t) nl).1) (hn : (labelsOf C).Nodup)
    (hrel : VarsRel cx sc env s.locals s.args) (ht : findLabel C t = some tp) :
    Reach C s { s with pc := if b == cond then tp else s.pc + (compE cx sc e (.jump cond t) nl).1.length } := by
  have := exprOK P cx sc env fuel e (.jump cond t) nl C s (.bool b) hnc hev hp hn hrel
  simpa [Post, Val.toBool] using this tp ht

/-! non-vacuity: `a0 < 3 && !(a1 == 7)` with a0 = 2, a1 = 5, in value and in condition context -/
section example_
def exE : Expr := .bin .land (.bin .lt (.var "a0") (.lit 3)) (.not (.paren (.bin .eq (.var "a1") (.lit 7))))
def exCx : Ctx := { funcs := [], args := ["a0", "a1"] }
def exEnv : Env := { frames := [[]], args := [("a0", .int 2), ("a1", .int 5)] }
def exS : State := { pc := 0, stack := [], locals := [], args := [.int 2, .int 5], frames := [] }

example : evalE 10 [] exEnv exE = .ok (.bool true) := by rfl
example : NoCall exE := by simp [exE, NoCall]
example : VarsRel exCx [[]] exEnv exS.locals exS.args :=
  ⟨by simp [exEnv, FramesRel, FrameRel], rfl, rfl⟩
example : Reach (compE exCx [[]] exE .val 0).1 exS
    { exS with pc := (compE exCx [[]] exE .val 0).1.length, stack := [.bool true] } := by
  have := compile_expr_correct [] exCx [[]] exEnv 10 exE 0 (compE exCx [[]] exE .val 0).1 exS (.bool true)
    (by simp [exE, NoCall]) (by rfl) ⟨[], [], by simp, rfl⟩ (by decide)
    ⟨by simp [exEnv, FramesRel, FrameRel], rfl, rfl⟩
  simpa [exS] using this
end example_

/-
Full statement of compile_correct (DESIGN §C14), kept for reference:

    theorem compile_correct (p : Prog) (f : String) (a : List Val) (v : Val) :
        runFunc fuel p f a = .ok [v] → ByteVm.run (compile p) (offset f) a = HALT [v]
      ∧ (runFunc fuel p f a = .panic → ByteVm.run (compile p) (offset f) a = FAULT)

What is proved below is `_partial` in four ways: (1) statements without calls, loops, break/continue and
without `var x T = e` (see `varDecl_shadow_witness`); (2) against the assembly machine, not the byte machine
(`assemble` is tied byte-for-byte, not proved); (3) under the hypothesis that label marks are unique;
(4) only the success direction (value → HALT with that value), not panic → FAULT.
-/

/-- compile_correct, statement level (forward simulation, `_partial`): a call-free, loop-free statement that the
    Go semantics executes normally runs from its first to its last instruction, leaves the evaluation stack and
    the invocation stack as they were (stack-depth discipline) and re-establishes the scope/slot relation for the
    new environment; one that returns reaches a RET with exactly the returned value pushed. -/
theorem compile_stmt_correct_partial (P : Prog) (cx : Ctx) (fuel : Nat)
    (s : Stmt) (lp : LoopCtx) (st : St) (env : Env) (C : Code) (σ : State) (out : SOut)
    (hz : totalSz lp = 0) (hs : Simple s) (hex : exec fuel P env s = .ok out)
    (hp : Placed C σ.pc (compS cx lp s st).1) (hn : (labelsOf C).Nodup)
    (hrel : VarsRel cx st.scopes env σ.locals σ.args) (hwf : Wf st)
    (hcnt : (compS cx lp s st).2.cnt ≤ σ.locals.length) :
    StmtPost cx C σ (compS cx lp s st).1.length (compS cx lp s st).2 out :=
  stmtOK P cx fuel s lp hz st env C σ out hs hex hp hn hrel hwf hcnt

/-- compile_correct, function level (`_partial`): a function with a call-free, loop-free body, entered at its
    label with the arguments on the stack (first argument on top), halts with the value the Go semantics returns
    on top of whatever was below the arguments. -/
theorem compile_func_correct_partial (P : Prog) (tbl : List (String × Nat × Nat)) (d : FuncDecl) (label nl : Nat)
    (C : Code) (pc0 : Nat) (vs rest : List Val) (v : Val) (fuel : Nat)
    (hsimple : Simple d.body) (hlen : d.params.length = vs.length)
    (hex : exec fuel P { frames := [[]], args := d.params.zip vs } (.block d.body) = .ok (.ret [v]))
    (hp : Placed C pc0 (compFunc tbl d label nl).1) (hn : (labelsOf C).Nodup) :
    ∃ n, Asm.run C n { pc := pc0, stack := vs ++ rest, locals := [], args := [], frames := [] } = .halt (v :: rest) :=
  func_correct P tbl d label nl C pc0 vs rest v fuel hsimple hlen hex hp hn

/-! non-vacuity: `func f(a0 int, a1 bool) int { x := a0 * 2; if a1 && x > 3 { x += 10 } else { return x - 1 }; return x }` -/
section example_func
def exD : FuncDecl :=
  { name := "f", params := ["a0", "a1"], nres := 1,
    body := .seq (.define "x" (.bin .mul (.var "a0") (.lit 2)))
      (.seq (.ite (.bin .land (.var "a1") (.bin .gt (.var "x") (.lit 3)))
              (.seq (.opAssign "x" .add (.lit 10)) .skip) .block
              (.seq (.ret (some (.bin .sub (.var "x") (.lit 1)))) .skip))
      (.seq (.ret (some (.var "x"))) .skip)) }

example : Simple exD.body := by simp [exD, Simple, NoCall, Strict]
example : exec 20 [exD] { frames := [[]], args := exD.params.zip [.int 5, .bool true] } (.block exD.body)
    = .ok (.ret [.int 20]) := by rfl
example : ∃ n, Asm.run (compFunc [] exD 0 1).1 n { pc := 0, stack := [.int 5, .bool true], locals := [], args := [], frames := [] }
    = .halt [.int 20] := by
  have := compile_func_correct_partial [exD] [] exD 0 1 (compFunc [] exD 0 1).1 0 [.int 5, .bool true] [] (.int 20) 20
    (by simp [exD, Simple, NoCall, Strict]) rfl (by rfl) ⟨[], [], by simp, rfl⟩ (by decide)
  simpa using this
end example_func

/-! ## Stage 4: loops, break/continue, calls and recursion, label uniqueness

`Allowed il s`: every MiniGo statement; `var x T = e` only when `x` does not occur in `e` (otherwise the compiled
scoping differs from Go's, see `varDecl_as_define` / `varDecl_shadow_witness`); `break`/`continue` only inside a loop body (`il`), a `for` post statement that declares
nothing, call statements that are calls, `op=` with an arithmetic operator.  MiniGo has no labeled
break/continue, so those stay outside.  The invocation-stack bound: the VM FAULTs beyond 1024 nested contexts, Go
does not; the theorems are for evaluations whose fuel (an upper bound of the call depth) fits.  -/

/-- (4) label marks are unique in the compiler's own output, and every function's code sits in it: the hypotheses of
    the simulation theorems hold for `compProg P`. -/
theorem compile_labels_unique (P : Prog) (hw : ∀ d ∈ P, WfS false d.body) :
    (labelsOf (compProg P)).Nodup ∧ ProgCode (compProg P) P :=
  ⟨(progCode_compProg P hw).nodup, progCode_compProg P hw⟩

/-- (1) compile_stmt_correct with loops, `switch`, break/continue (plain and labeled) and calls: forward simulation
    for every allowed statement of a function of `P`, inside the compiled program.  `lp` = the enclosing `for` /
    `switch` statements as the compiler tracks them (labelList), `ls` = their (label, is-a-for) signatures as `Allowed`
    sees them; `Inv` ties the two together (and says: no Go label is waiting, the stack holds the tags of the
    enclosing `switch` statements); `Deep`: every enclosing statement's scope is further out than the current one.
    Normal completion: the code runs to its end, stack and invocation stack unchanged, the slots describe the new
    environment.  `return`: the tags of all enclosing `switch` statements have been dropped, a RET is reached with
    the value pushed.  `break`/`continue` (`.brk l`/`.cont l`): the end / post mark of the statement it refers to
    (`findBrk`/`findCont`) is reached with the tags of the `switch` statements it leaves dropped (`SameD dr`) and the
    slots describing the frames of that statement's scope depth. -/
theorem compile_stmt_correct_partial' (P : Prog) (hall : ∀ d ∈ P, Allowed [] d.body) (cx : Ctx)
    (htab : cx.funcs = funcTable P) (fuel : Nat)
    (s : Stmt) (lp : LoopCtx) (ls : Sigs) (st : St) (env : Env) (σ : State) (out : SOut)
    (hal : Allowed ls s) (hinv : Inv lp ls st σ)
    (hd : Deep lp st.scopes.length ∨ (∃ b, s = .block b) ∧ Deepish lp st.scopes.length)
    (hex : exec fuel P env s = .ok out)
    (hp : Placed (compProg P) σ.pc (compS cx lp s st).1)
    (hrel : VarsRel cx st.scopes env σ.locals σ.args) (hwf : Wf st)
    (hcnt : (compS cx lp s st).2.cnt ≤ σ.locals.length) (hdep : σ.frames.length + fuel < 1024) :
    StmtPostF cx (compProg P) σ (σ.pc + (compS cx lp s st).1.length) (compS cx lp s st).2.scopes st.scopes lp out :=
  (allOK (progCode_of_allowed P hall) hall fuel).stmt cx htab s lp ls st env σ out hal hinv hd hex hp hrel hwf hcnt hdep

/-- (2) calls: a CALL of a function of the program whose Go evaluation returns `v` (recursion included) comes back
    to the instruction after the CALL with `v` in place of the arguments and the caller's frame — slots,
    arguments, rest of the stack, invocation stack — exactly as before (stack/slot discipline across CALL/RET). -/
theorem compile_call_correct_partial (P : Prog) (hall : ∀ d ∈ P, Allowed [] d.body) (fuel : Nat)
    (f : String) (vs : List Val) (v : Val) (σ : State) (rest : List Val)
    (hc : callF fuel P f vs = .ok v) (hs : σ.stack = vs ++ rest)
    (hf : (compProg P)[σ.pc]? = some (.ins (.call (fnLabel P f)))) (hdep : σ.frames.length + fuel < 1024) :
    Reach (compProg P) σ { σ with pc := σ.pc + 1, stack := v :: rest } :=
  (allOK (progCode_of_allowed P hall) hall fuel).call f vs v σ rest hc hs hf hdep

/-- (2) compile_func_correct without the call-free / loop-free restriction, program level: invoking function `f`
    of the compiled program with the arguments on the stack halts with the value the Go semantics returns. -/
theorem compile_prog_correct_partial (P : Prog) (hall : ∀ d ∈ P, Allowed [] d.body)
    (f : String) (vs rest : List Val) (v : Val) (fuel : Nat)
    (hrun : callF fuel P f vs = .ok v) (hdep : fuel < 1024) :
    ∃ pc0 n, findLabel (compProg P) (fnLabel P f) = some pc0 ∧
      Asm.run (compProg P) n { pc := pc0, stack := vs ++ rest, locals := [], args := [], frames := [] } = .halt (v :: rest) :=
  entry_halt (progCode_of_allowed P hall) hall hrun hdep

/-! non-vacuity: recursion, a loop with continue and break, a call inside the loop
      func fact(n int) int { if n <= 1 { return 1 }; return n * fact(n-1) }
      func sum(n int) int { s := 0; for i := 0; i < n; i++ { if i == 3 { continue }; if i > 5 { break }; s += fact(i) }; return s } -/
section example_prog
def exFact : FuncDecl :=
  { name := "fact", params := ["n"], nres := 1,
    body := .seq (.ite (.bin .le (.var "n") (.lit 1)) (.seq (.ret (some (.lit 1))) .skip) .none .skip)
      (.seq (.ret (some (.bin .mul (.var "n") (.call1 "fact" (.bin .sub (.var "n") (.lit 1)))))) .skip) }
def exSum : FuncDecl :=
  { name := "sum", params := ["n"], nres := 1,
    body := .seq (.define "s" (.lit 0))
      (.seq (.loop (.define "i" (.lit 0)) (some (.bin .lt (.var "i") (.var "n"))) (.inc "i")
              (.seq (.ite (.bin .eq (.var "i") (.lit 3)) (.seq .cont .skip) .none .skip)
              (.seq (.ite (.bin .gt (.var "i") (.lit 5)) (.seq .brk .skip) .none .skip)
              (.seq (.opAssign "s" .add (.call1 "fact" (.var "i"))) .skip))))
      (.seq (.ret (some (.var "s"))) .skip)) }
def exP : Prog := [exFact, exSum]

theorem exP_allowed : ∀ d ∈ exP, Allowed [] d.body := by
  intro d hd
  simp only [exP, List.mem_cons, List.mem_nil_iff, or_false] at hd
  rcases hd with rfl | rfl <;> simp [exFact, exSum, Allowed, NoDecl, Strict]

example : callF 60 exP "sum" [.int 10] = .ok (.int 148) := by rfl
example : ∃ pc0 n, findLabel (compProg exP) (fnLabel exP "sum") = some pc0 ∧
    Asm.run (compProg exP) n { pc := pc0, stack := [.int 10], locals := [], args := [], frames := [] } = .halt [.int 148] := by
  simpa using compile_prog_correct_partial exP exP_allowed "sum" [.int 10] [] (.int 148) 60 (by rfl) (by decide)
example : (labelsOf (compProg exP)).Nodup := (compile_labels_unique exP (fun d hd => allowed_wfS _ _ (exP_allowed d hd))).1
end example_prog

/-- (3) the assembler (writeJumps + removeNOPs): under the decidable layout condition `layoutOK c` the byte machine
    on `assemble c` simulates the assembly machine on `c` — whatever the assembly machine reaches in `n` steps
    (a running state, HALT with a stack, FAULT) the byte machine reaches in at most `n` steps, with every program
    counter (current and saved return addresses) replaced by the final byte offset of that item.  `_partial`: the
    layout condition is evaluated per program (driver `layout` line; `decide` below), not proved for all of them. -/
theorem assemble_simulates_partial (c : Code) (hl : layoutOK c = true) (n : Nat) (s : State) :
    ∃ m, m ≤ n ∧ Byte.run (assemble c) m (mapS c s) = mapO c (Asm.run c n s) :=
  asm_run_sim c hl n s

/-- (3') the layout condition is a theorem, not a per-program evaluation: for every assembly program that is
    `encodable` — each operand representable in the byte encoding (integers within 256 bits, slot / argument
    indices and INITSLOT counts below 256: `itemEnc`), every jump or call target marked (`targetsMarked`) and the long
    layout shorter than 2^31 bytes — the one-pass writeJumps + removeNOPs of codegen.go:2882-3075 as modelled by
    `assemble` puts every item at an offset where the byte machine decodes it back, with the relative offset of its
    target's mark.  The arithmetic core (`fpos_closer`): deleting bytes moves items closer together without
    reordering them, so a jump whose long-layout offset fits a signed byte still fits, and the target of a removed
    `JMPL +5` lands on the jump's own offset. -/
theorem layoutOK_of_encodable (c : Code) (h : encodable c = true) : layoutOK c = true :=
  CompileProofs.layoutOK_of_encodable c h

/-- … so the assembler simulation needs no layout hypothesis beyond `encodable`. -/
theorem assemble_simulates (c : Code) (h : encodable c = true) (n : Nat) (s : State) :
    ∃ m, m ≤ n ∧ Byte.run (assemble c) m (mapS c s) = mapO c (Asm.run c n s) :=
  asm_run_sim c (layoutOK_of_encodable c h) n s

/-! non-vacuity: the compiled example program is encodable (a linear scan, no assembler or decoder involved) -/
example : encodable (compProg exP) = true := by decide
example : layoutOK (compProg exP) = true := layoutOK_of_encodable _ (by decide)

/-- (2)+(3) composed, down to the script bytes: the offset the assembler assigns to the mark of function `f` is a
    valid entry point of `compile P`, and the byte machine started there with the arguments on the stack halts with
    the value the Go semantics returns. -/
theorem compile_bytes_correct_partial (P : Prog) (hall : ∀ d ∈ P, Allowed [] d.body)
    (hl : layoutOK (compProg P) = true)
    (f : String) (vs rest : List Val) (v : Val) (fuel : Nat)
    (hrun : callF fuel P f vs = .ok v) (hdep : fuel < 1024) :
    ∃ off m, labelOffset (compProg P) (fnLabel P f) = some off ∧
      Byte.run (compile P) m { pc := off, stack := vs ++ rest, locals := [], args := [], frames := [] } = .halt (v :: rest) := by
  obtain ⟨pc0, n, hf, hr⟩ := compile_prog_correct_partial P hall f vs rest v fuel hrun hdep
  obtain ⟨m, _, hm⟩ := asm_halt_sim _ hl n _ _ hr
  exact ⟨fposAt (compProg P) pc0, m, labelOffset_of_findLabel _ _ _ hf, by simpa [mapS, compile] using hm⟩

/-- … and so is the offset the debug info / manifest lists for the method (`debugOffset` = `labelOffset`: every
    compiled function is listed, also one whose code is a single instruction — the former known finding
    debug-single-instr-method, repaired in /repo). -/
theorem manifest_offset_correct_partial (P : Prog) (hall : ∀ d ∈ P, Allowed [] d.body)
    (hl : layoutOK (compProg P) = true)
    (f : String) (vs rest : List Val) (v : Val) (fuel off : Nat)
    (hoff : debugOffset (compProg P) P.length (fnLabel P f) = some off)
    (hrun : callF fuel P f vs = .ok v) (hdep : fuel < 1024) :
    ∃ m, Byte.run (compile P) m { pc := off, stack := vs ++ rest, locals := [], args := [], frames := [] } = .halt (v :: rest) := by
  obtain ⟨off', m, ho, hm⟩ := compile_bytes_correct_partial P hall hl f vs rest v fuel hrun hdep
  have : off = off' := by
    unfold debugOffset at hoff
    rw [ho] at hoff
    cases hoff; rfl
  exact ⟨m, this ▸ hm⟩

/-! non-vacuity: the layout condition holds for the compiled example program (kernel evaluation of the assembler and
    the decoder on its 54 script bytes), the manifest offset of `sum` is listed, and the script run from it returns 148. -/
theorem exP_layout : layoutOK (compProg exP) = true := by decide
example : debugOffset (compProg exP) exP.length (fnLabel exP "sum") = some 17 := by decide
example : ∃ m, Byte.run (compile exP) m { pc := 17, stack := [.int 10], locals := [], args := [], frames := [] } = .halt [.int 148] := by
  simpa using manifest_offset_correct_partial exP exP_allowed exP_layout "sum" [.int 10] [] (.int 148) 60 17 (by decide) (by rfl) (by decide)


/-- (5) panic → FAULT, expressions: an expression of a function of `P` whose Go evaluation panics — an integer
    division or remainder by zero in the expression, or a division by zero / an explicit `panic(v)` in a function
    it calls (the run-time panics of the core) — FAULTs the machine, in value context and in jump context alike. -/
theorem compile_expr_fault_partial (P : Prog) (hall : ∀ d ∈ P, Allowed [] d.body) (cx : Ctx)
    (htab : cx.funcs = funcTable P) (sc : Scopes) (env : Env) (fuel : Nat)
    (e : Expr) (m : Mode) (nl : Nat) (s : State)
    (hev : evalE fuel P env e = .panic)
    (hp : Placed (compProg P) s.pc (compE cx sc e m nl).1)
    (hrel : VarsRel cx sc env s.locals s.args) (hdep : s.frames.length + fuel < 1024)
    (hlbl : ∀ c t, m = .jump c t → ∃ tp, findLabel (compProg P) t = some tp) :
    ∃ n, Asm.run (compProg P) n s = .fault :=
  (allFault (progCode_of_allowed P hall) hall fuel).expr cx sc env htab e m nl s hev hp hrel hdep hlbl

/-- (5) panic → FAULT, statements: `panic(e)` (the argument is evaluated, THROW without a handler), `x /= e` and
    `x %= e` by zero, a panic in any expression, loop clause or body at any iteration, or in a callee. -/
theorem compile_stmt_fault_partial (P : Prog) (hall : ∀ d ∈ P, Allowed [] d.body) (cx : Ctx)
    (htab : cx.funcs = funcTable P) (fuel : Nat)
    (s : Stmt) (lp : LoopCtx) (ls : Sigs) (st : St) (env : Env) (σ : State)
    (hal : Allowed ls s) (hinv : Inv lp ls st σ)
    (hd : Deep lp st.scopes.length ∨ (∃ b, s = .block b) ∧ Deepish lp st.scopes.length)
    (hex : exec fuel P env s = .panic)
    (hp : Placed (compProg P) σ.pc (compS cx lp s st).1)
    (hrel : VarsRel cx st.scopes env σ.locals σ.args) (hwf : Wf st)
    (hcnt : (compS cx lp s st).2.cnt ≤ σ.locals.length) (hdep : σ.frames.length + fuel < 1024) :
    ∃ n, Asm.run (compProg P) n σ = .fault :=
  (allFault (progCode_of_allowed P hall) hall fuel).stmt cx htab s lp ls st env σ hal hinv hd hex hp hrel hwf hcnt hdep

/-- (5) program level: invoking a function of the compiled program whose Go evaluation panics FAULTs. -/
theorem compile_prog_fault_partial (P : Prog) (hall : ∀ d ∈ P, Allowed [] d.body)
    (f : String) (vs rest : List Val) (fuel : Nat)
    (hrun : callF fuel P f vs = .panic) (hdep : fuel < 1024) :
    ∃ pc0 n, findLabel (compProg P) (fnLabel P f) = some pc0 ∧
      Asm.run (compProg P) n { pc := pc0, stack := vs ++ rest, locals := [], args := [], frames := [] } = .fault :=
  entry_fault (progCode_of_allowed P hall) hall hrun hdep

/-- (5)+(3) down to the script bytes: the byte machine started at the method's offset FAULTs. -/
theorem compile_bytes_fault_partial (P : Prog) (hall : ∀ d ∈ P, Allowed [] d.body)
    (hl : layoutOK (compProg P) = true)
    (f : String) (vs rest : List Val) (fuel : Nat)
    (hrun : callF fuel P f vs = .panic) (hdep : fuel < 1024) :
    ∃ off m, labelOffset (compProg P) (fnLabel P f) = some off ∧
      Byte.run (compile P) m { pc := off, stack := vs ++ rest, locals := [], args := [], frames := [] } = .fault := by
  obtain ⟨pc0, n, hf, hr⟩ := compile_prog_fault_partial P hall f vs rest fuel hrun hdep
  obtain ⟨m, _, hm⟩ := asm_fault_sim _ hl n _ hr
  exact ⟨fposAt (compProg P) pc0, m, labelOffset_of_findLabel _ _ _ hf, by simpa [mapS, compile] using hm⟩

/-! non-vacuity: a division by zero in a callee, reached in the fourth iteration of a loop
      func quot(a, b int) int { return a / b }
      func f(n int) int { s := 0; for i := 3; i >= 0; i-- { s += quot(n, i) }; return s } -/
section example_fault
def exQuot : FuncDecl :=
  { name := "quot", params := ["a", "b"], nres := 1,
    body := .seq (.ret (some (.bin .div (.var "a") (.var "b")))) .skip }
def exF : FuncDecl :=
  { name := "f", params := ["n"], nres := 1,
    body := .seq (.define "s" (.lit 0))
      (.seq (.loop (.define "i" (.lit 3)) (some (.bin .ge (.var "i") (.lit 0))) (.dec "i")
              (.seq (.opAssign "s" .add (.call2 "quot" (.var "n") (.var "i"))) .skip))
      (.seq (.ret (some (.var "s"))) .skip)) }
def exQ : Prog := [exQuot, exF]

theorem exQ_allowed : ∀ d ∈ exQ, Allowed [] d.body := by
  intro d hd
  simp only [exQ, List.mem_cons, List.mem_nil_iff, or_false] at hd
  rcases hd with rfl | rfl <;> simp [exQuot, exF, Allowed, NoDecl, Strict]

example : callF 40 exQ "quot" [.int 7, .int 2] = .ok (.int 3) := by rfl
example : callF 40 exQ "f" [.int 10] = .panic := by rfl
theorem exQ_layout : layoutOK (compProg exQ) = true := by decide
example : ∃ off m, labelOffset (compProg exQ) (fnLabel exQ "f") = some off ∧
    Byte.run (compile exQ) m { pc := off, stack := [.int 10], locals := [], args := [], frames := [] } = .fault := by
  simpa using compile_bytes_fault_partial exQ exQ_allowed exQ_layout "f" [.int 10] [] 40 (by rfl) (by decide)

/- explicit panic in a callee
      func lim(x int) int { if x > 2 { panic(x) }; return x }
      func g(n int) int { s := 0; for i := 0; i < n; i++ { s += lim(i) }; return s } -/
def exLim : FuncDecl :=
  { name := "lim", params := ["x"], nres := 1,
    body := .seq (.ite (.bin .gt (.var "x") (.lit 2)) (.seq (.panicS (.var "x")) .skip) .none .skip)
      (.seq (.ret (some (.var "x"))) .skip) }
def exG : FuncDecl :=
  { name := "g", params := ["n"], nres := 1,
    body := .seq (.define "s" (.lit 0))
      (.seq (.loop (.define "i" (.lit 0)) (some (.bin .lt (.var "i") (.var "n"))) (.inc "i")
              (.seq (.opAssign "s" .add (.call1 "lim" (.var "i"))) .skip))
      (.seq (.ret (some (.var "s"))) .skip)) }
def exR : Prog := [exLim, exG]

theorem exR_allowed : ∀ d ∈ exR, Allowed [] d.body := by
  intro d hd
  simp only [exR, List.mem_cons, List.mem_nil_iff, or_false] at hd
  rcases hd with rfl | rfl <;> simp [exLim, exG, Allowed, NoDecl, Strict]

example : callF 40 exR "g" [.int 3] = .ok (.int 3) := by rfl
example : callF 40 exR "g" [.int 5] = .panic := by rfl
theorem exR_layout : layoutOK (compProg exR) = true := by decide
example : ∃ off m, labelOffset (compProg exR) (fnLabel exR "g") = some off ∧
    Byte.run (compile exR) m { pc := off, stack := [.int 5], locals := [], args := [], frames := [] } = .fault := by
  simpa using compile_bytes_fault_partial exR exR_allowed exR_layout "g" [.int 5] [] 40 (by rfl) (by decide)
example : ∃ off m, labelOffset (compProg exR) (fnLabel exR "g") = some off ∧
    Byte.run (compile exR) m { pc := off, stack := [.int 3], locals := [], args := [], frames := [] } = .halt [.int 3] := by
  simpa using compile_bytes_correct_partial exR exR_allowed exR_layout "g" [.int 3] [] (.int 3) 40 (by rfl) (by decide)
end example_fault

/-! ## The byte-level theorems without a layout hypothesis

`layoutOK (compProg P)` is now a theorem for every program of allowed functions within the size limits of the
encoding: `SmallFn d` (at most 255 parameters, `declBound d.body` ≤ 255 local slots — what writeJumps itself
enforces, codegen.go:2925-2927 — and integer literals below 2^255, which every Go `int` literal is) and a long layout
below 2^31 bytes (the int32 jump operands, codegen.go:2979-2982).  Nothing is evaluated per program any more. -/

/-- the instruction encoding is self-inverse: an instruction whose operands are representable (`encOK`: integers
    within 256 bits, long jump operands int32, short ones int8, slot indices and INITSLOT counts one byte), followed by
    any bytes, decodes to itself and to its own length (all 49 instruction forms of the model; PUSHINT by the general
    two's-complement little-endian round trip `leInt_leBytes`). -/
theorem encoding_round_trip (long : Bool) (op : Op Int) (rest : Bytes) (h : encOK long op = true) :
    Byte.decode (Byte.encode long op ++ rest) = some (op, (Byte.encode long op).length) :=
  decode_encode long op rest h

example : Byte.decode (Byte.encode true (.jmpCmp .ge (-70000)) ++ [0x40]) = some (.jmpCmp .ge (-70000), 5) :=
  encoding_round_trip true _ _ (by decide)

/-- **The model's encoding against /repo's opcode table** (regenerated on every run): for every instruction and both
    operand forms, the first byte of `Byte.encode` is the opcode pkg/vm/opcode gives the instruction's mnemonic, the
    table row has no length prefix and its operand size is the number of bytes the model writes after the opcode. A
    renumbered opcode or a changed operand width in /repo makes this theorem fail instead of silently leaving the
    byte model (and `encoding_round_trip`, `compile_bytes_correct`) about a different instruction set. -/
theorem encoding_agrees_opcode_table (long : Bool) (op : Op Int) :
    agreesB (mnemonic long op) (Byte.encode long op) = true :=
  encode_agrees_table long op

example : mnemonic true (.jmpCmp .ge 7) = "JMPGE_L" ∧ rowOf "JMPGE_L" = some (0x2f, "JMPGE_L", 0, 4, 2) ∧
    mnemonic false (.ldloc 9) = "LDLOC" ∧ rowOf "LDLOC" = some (0x6f, "LDLOC", 0, 1, 2) := by decide +kernel

/-- every jump and call target of the compiler's output is marked, for every program whose `fallthrough`s have a
    next clause (`FtOK`, implied by `Allowed`): targets are the statement's own marks, function labels, label 0, or
    the end / post marks of enclosing `for` / `switch` statements — all of which exist in `compProg P`. -/
theorem targets_marked (P : Prog) (hft : ∀ d ∈ P, FtOK d.body) : targetsMarked (compProg P) = true :=
  targetsMarked_compProg P hft

/-- every operand of the compiler's output is representable, from source-level size conditions. -/
theorem operands_encodable (P : Prog) (hall : ∀ d ∈ P, Allowed [] d.body) (hs : ∀ d ∈ P, SmallFn d)
    (hlen : longLen (compProg P) < 2 ^ 31) : encodable (compProg P) = true :=
  encodable_compProg P hall hs hlen

/-- the layout condition holds for the compiler's output (Proofs/CompileOperands.lean: every operand representable;
    CompileTargets.lean: every jump / call target marked; CompileLayout.lean: the one-pass shortening is consistent). -/
theorem layoutOK_compProg (P : Prog) (hall : ∀ d ∈ P, Allowed [] d.body) (hs : ∀ d ∈ P, SmallFn d)
    (hlen : longLen (compProg P) < 2 ^ 31) : layoutOK (compProg P) = true :=
  layoutOK_of_encodable _ (encodable_compProg P hall hs hlen)

/-- **The layout condition from the compiler's own acceptance** (hypotheses `SmallFn` and `longLen < 2^31` removed):
    `accepted P` models the three size errors of pkg/compiler (more than 255 arguments — codegen.go:595; more than 255
    local slots — writeJumps, :2926; a jump offset beyond int32 — :2979); a program of allowed functions (literals
    within 256 bits, which go/types guarantees) that the compiler does not reject has a `layoutOK` output. -/
theorem layoutOK_accepted (P : Prog) (hall : ∀ d ∈ P, Allowed [] d.body) (hl : ∀ d ∈ P, LitsS d.body)
    (hacc : accepted P = true) : layoutOK (compProg P) = true :=
  layoutOK_of_accepted P hall hl hacc

/-- compile_correct down to the script bytes for every accepted program (no size hypotheses besides acceptance). -/
theorem compile_bytes_correct_accepted (P : Prog) (hall : ∀ d ∈ P, Allowed [] d.body) (hl : ∀ d ∈ P, LitsS d.body)
    (hacc : accepted P = true) (f : String) (vs rest : List Val) (v : Val) (fuel : Nat)
    (hrun : callF fuel P f vs = .ok v) (hdep : fuel < 1024) :
    ∃ off m, labelOffset (compProg P) (fnLabel P f) = some off ∧
      Byte.run (compile P) m { pc := off, stack := vs ++ rest, locals := [], args := [], frames := [] } = .halt (v :: rest) :=
  compile_bytes_correct_partial P hall (layoutOK_of_accepted P hall hl hacc) f vs rest v fuel hrun hdep

/-- the previous source-level conditions are sufficient for acceptance (so nothing was lost). -/
theorem accepted_of_smallFn (P : Prog) (hs : ∀ d ∈ P, SmallFn d) (hlen : longLen (compProg P) < 2 ^ 31) : accepted P = true :=
  accepted_of_small P hs hlen

/-- compile_correct down to the script bytes, success direction: the byte machine started at the offset the
    assembler gives the function's mark halts with the value the Go semantics returns. -/
theorem compile_bytes_correct (P : Prog) (hall : ∀ d ∈ P, Allowed [] d.body) (hs : ∀ d ∈ P, SmallFn d)
    (hlen : longLen (compProg P) < 2 ^ 31)
    (f : String) (vs rest : List Val) (v : Val) (fuel : Nat)
    (hrun : callF fuel P f vs = .ok v) (hdep : fuel < 1024) :
    ∃ off m, labelOffset (compProg P) (fnLabel P f) = some off ∧
      Byte.run (compile P) m { pc := off, stack := vs ++ rest, locals := [], args := [], frames := [] } = .halt (v :: rest) :=
  compile_bytes_correct_partial P hall (layoutOK_compProg P hall hs hlen) f vs rest v fuel hrun hdep

/-- … at the offset the debug info / manifest lists for the method. -/
theorem manifest_offset_correct (P : Prog) (hall : ∀ d ∈ P, Allowed [] d.body) (hs : ∀ d ∈ P, SmallFn d)
    (hlen : longLen (compProg P) < 2 ^ 31)
    (f : String) (vs rest : List Val) (v : Val) (fuel off : Nat)
    (hoff : debugOffset (compProg P) P.length (fnLabel P f) = some off)
    (hrun : callF fuel P f vs = .ok v) (hdep : fuel < 1024) :
    ∃ m, Byte.run (compile P) m { pc := off, stack := vs ++ rest, locals := [], args := [], frames := [] } = .halt (v :: rest) :=
  manifest_offset_correct_partial P hall (layoutOK_compProg P hall hs hlen) f vs rest v fuel off hoff hrun hdep

/-- … and the failure direction: where the Go evaluation panics the script FAULTs. -/
theorem compile_bytes_fault (P : Prog) (hall : ∀ d ∈ P, Allowed [] d.body) (hs : ∀ d ∈ P, SmallFn d)
    (hlen : longLen (compProg P) < 2 ^ 31)
    (f : String) (vs rest : List Val) (fuel : Nat)
    (hrun : callF fuel P f vs = .panic) (hdep : fuel < 1024) :
    ∃ off m, labelOffset (compProg P) (fnLabel P f) = some off ∧
      Byte.run (compile P) m { pc := off, stack := vs ++ rest, locals := [], args := [], frames := [] } = .fault :=
  compile_bytes_fault_partial P hall (layoutOK_compProg P hall hs hlen) f vs rest fuel hrun hdep

/-- the debug-info / manifest clause for parameter counts ("name the same methods, offsets and parameter counts that
    the bytecode implements"): the entry the model's `debugInfo` (mirrored addMethodsToDebugInfo) lists for method
    `i` carries the Go parameter count, and the script at the listed offset begins with `INITSLOT <locals> <that
    count>`: the method takes exactly that many arguments from the evaluation stack. -/
theorem debug_params_correct (P : Prog) (hall : ∀ d ∈ P, Allowed [] d.body) (hs : ∀ d ∈ P, SmallFn d)
    (hlen : longLen (compProg P) < 2 ^ 31) (i : Nat) (d : FuncDecl) (hi : P[i]? = some d) (hpar : d.params ≠ []) :
    ∃ off l sz, (debugInfo P)[i]? = some (d.name, some off, d.params.length) ∧
      Byte.decode ((compile P).drop off) = some (.initSlot l d.params.length, sz) := by
  obtain ⟨off, l, sz, ho, hd⟩ := initslot_at_offset P (fun d hd => allowed_wfS d.body [] (hall d hd))
    (layoutOK_compProg P hall hs hlen) i d hi hpar
  exact ⟨off, l, sz, by rw [debugInfo_get P i d hi, ho], hd⟩

/-! non-vacuity: `sum(n)` of the example program: listed at offset 17 with one parameter; byte 17.. is INITSLOT 2,1 -/
example : ∃ off l sz, (debugInfo exP)[1]? = some ("sum", some off, 1) ∧
    Byte.decode ((compile exP).drop off) = some (.initSlot l 1, sz) := by
  have h := debug_params_correct exP exP_allowed (by
      intro d hd
      simp only [exP, List.mem_cons, List.mem_nil_iff, or_false] at hd
      rcases hd with rfl | rfl <;> refine ⟨by decide, by decide, ?_⟩ <;> simp [exFact, exSum, LitsS, LitsE, LitsO])
    (by decide) 1 exSum rfl (by simp [exSum])
  simpa [exSum] using h

/-! ## Stage 5: `switch` (with / without tag, `default` last, `fallthrough`), Go labels, `break L` / `continue L`

The statement theorems above (`compile_stmt_correct_partial'`, `compile_prog_correct_partial`, the `*_fault_*` and the
`*_bytes_*` ones) now range over these constructs as well: `Allowed ls s` admits `switch` statements whose clause
chain ends with `default` or nothing (`AllowedCl`; a `default` elsewhere is the known finding switch-early-default),
`fallthrough` except in the last clause, `break`/`continue` inside `switch` inside `for`, labels on `for`/`switch` and
`break L`/`continue L` to any enclosing statement so labeled (`continue` only to a `for`), at most three nested
`switch` statements (a fourth tag would be dropped with PACK, which MiniVm does not execute).  What is proved about
them (Proofs/CompileSwitch.lean, CompileLoop.lean): the tag stays on the evaluation stack from the first test to the
DROP behind the end mark; a `break` that concerns the switch lands on the end mark with the tag still there; whatever
goes further out (`break L`, `continue`, `continue L`, `return`) first drops the tags of all the `switch` statements
it leaves (`SameD`, `totalSz`), exactly as BranchStmt / ReturnStmt of codegen.go do with `labelList`; the labeled
branch's dead `LDLOC` of a phantom local named after the label (Visit falls through to the label identifier,
codegen.go:1425-1450) is modelled (`St.phantom`) and shown harmless.

non-vacuity:
      func g(n int) int {
        s := 0
      L:
        for i := 0; i < n; i++ {
          switch i % 4 {
          case 0, 1: s += 1; fallthrough
          case 2:    if i == 5 { continue L }; if i > 7 { break L }; s += 10
          default:   if s > 1000 { break }; continue
          }
          s += 100
        }
        return s
      }                                                   g(10) = 555 -/
section example_switch
def exSwCl : Stmt :=
  .caseS (.lit 0) (some (.lit 1)) (.seq (.opAssign "s" .add (.lit 1)) .skip) true
    (.caseS (.lit 2) none
      (.seq (.ite (.bin .eq (.var "i") (.lit 5)) (.seq (.contL "L") .skip) .none .skip)
      (.seq (.ite (.bin .gt (.var "i") (.lit 7)) (.seq (.brkL "L") .skip) .none .skip)
      (.seq (.opAssign "s" .add (.lit 10)) .skip))) false
      (.defaultS (.seq (.ite (.bin .gt (.var "s") (.lit 1000)) (.seq .brk .skip) .none .skip) (.seq .cont .skip))))

def exSw : FuncDecl :=
  { name := "g", params := ["n"], nres := 1,
    body := .seq (.define "s" (.lit 0))
      (.seq (.labeled "L" (.loop (.define "i" (.lit 0)) (some (.bin .lt (.var "i") (.var "n"))) (.inc "i")
              (.seq (.switchS (some (.bin .mod (.var "i") (.lit 4))) true exSwCl)
              (.seq (.opAssign "s" .add (.lit 100)) .skip))))
      (.seq (.ret (some (.var "s"))) .skip)) }

theorem exSw_allowed : ∀ d ∈ [exSw], Allowed [] d.body := by
  intro d hd
  simp only [List.mem_cons, List.mem_nil_iff, or_false] at hd
  subst hd
  simp [exSw, exSwCl, Allowed, AllowedCl, NoDecl, Strict, swCount, contTarget, IsClause]
example : callF 200 [exSw] "g" [.int 10] = .ok (.int 555) := by rfl
theorem exSw_layout : layoutOK (compProg [exSw]) = true := layoutOK_of_encodable _ (by decide)
example : ∃ off m, labelOffset (compProg [exSw]) (fnLabel [exSw] "g") = some off ∧
    Byte.run (compile [exSw]) m { pc := off, stack := [.int 10], locals := [], args := [], frames := [] } = .halt [.int 555] := by
  simpa using compile_bytes_correct_partial [exSw] exSw_allowed exSw_layout "g" [.int 10] [] (.int 555) 200 (by rfl) (by decide)
theorem exSw_small : ∀ d ∈ [exSw], SmallFn d := by
  intro d hd
  simp only [List.mem_cons, List.mem_nil_iff, or_false] at hd
  subst hd
  refine ⟨by decide, by decide, ?_⟩
  simp [exSw, exSwCl, LitsS, LitsE, LitsO]
example : ∃ off m, labelOffset (compProg [exSw]) (fnLabel [exSw] "g") = some off ∧
    Byte.run (compile [exSw]) m { pc := off, stack := [.int 10], locals := [], args := [], frames := [] } = .halt [.int 555] := by
  simpa using compile_bytes_correct [exSw] exSw_allowed exSw_small (by decide) "g" [.int 10] [] (.int 555) 200 (by rfl) (by decide)
end example_switch

/-- (1d) calls for two values: a CALL of a function whose Go evaluation returns `v, w` (`x, y := f(…)`; operands of
    `return e1, e2` evaluated left to right in the Go semantics, right to left by the compiled code — invisible here
    because expression evaluation is pure) comes back to the instruction after the CALL with `v` on top of `w` in
    place of the arguments and the caller's frame as before. -/
theorem compile_call2_correct_partial (P : Prog) (hall : ∀ d ∈ P, Allowed [] d.body) (fuel : Nat)
    (f : String) (vs : List Val) (v w : Val) (σ : State) (rest : List Val)
    (hc : callF2 fuel P f vs = .ok (v, w)) (hs : σ.stack = vs ++ rest)
    (hf : (compProg P)[σ.pc]? = some (.ins (.call (fnLabel P f)))) (hdep : σ.frames.length + fuel < 1024) :
    Reach (compProg P) σ { σ with pc := σ.pc + 1, stack := v :: w :: rest } :=
  (allOK (progCode_of_allowed P hall) hall fuel).call2 f vs v w σ rest hc hs hf hdep

/-- … and FAULTs when that evaluation panics. -/
theorem compile_call2_fault_partial (P : Prog) (hall : ∀ d ∈ P, Allowed [] d.body) (fuel : Nat)
    (f : String) (vs : List Val) (σ : State) (rest : List Val)
    (hc : callF2 fuel P f vs = .panic) (hs : σ.stack = vs ++ rest)
    (hf : (compProg P)[σ.pc]? = some (.ins (.call (fnLabel P f)))) (hdep : σ.frames.length + fuel < 1024) :
    Faults (compProg P) σ :=
  (allFault (progCode_of_allowed P hall) hall fuel).call2 f vs σ rest hc hs hf hdep

/-- the carve-out of return-operands-reversed in `Allowed`: the first operand of `return e1, e2` cannot panic, or the
    second is `true` / `false`; an expression without calls, `/` and `%` does not panic. -/
theorem ret2_carve_out (ls : Sigs) (e1 e2 : Expr) :
    (Allowed ls (.ret2 e1 e2) ↔ (NoPanic e1 ∨ IsBoolLit e2)) ∧
    (NoPanic e1 → ∀ fuel P env, evalE fuel P env e1 ≠ .panic) :=
  ⟨by simp [Allowed], fun h fuel P env => noPanic_eval e1 h fuel P env⟩

/-! non-vacuity:
    `func dm(a, b int) (int, bool) { if b == 0 { return 0, false }; return a / b, true }`
    `func g(n, k int) int { q, ok := dm(n, k); if ok { return q + 1 }; return -1 }` -/
section example_two
def exDm : FuncDecl :=
  { name := "dm", params := ["a", "b"], nres := 2,
    body := .seq (.ite (.bin .eq (.var "b") (.lit 0)) (.seq (.ret2 (.lit 0) .ff) .skip) .none .skip)
      (.seq (.ret2 (.bin .div (.var "a") (.var "b")) .tt) .skip) }
def exG2 : FuncDecl :=
  { name := "g", params := ["n", "k"], nres := 1,
    body := .seq (.define2 "q" "ok" (.call2 "dm" (.var "n") (.var "k")))
      (.seq (.ite (.var "ok") (.seq (.ret (some (.bin .add (.var "q") (.lit 1)))) .skip) .none .skip)
      (.seq (.ret (some (.neg (.lit 1)))) .skip)) }
def exTwo : Prog := [exDm, exG2]

theorem exTwo_allowed : ∀ d ∈ exTwo, Allowed [] d.body := by
  intro d hd
  simp only [exTwo, List.mem_cons, List.mem_nil_iff, or_false] at hd
  rcases hd with rfl | rfl <;> simp [exDm, exG2, Allowed, IsCall2, NoPanic, IsBoolLit]
example : callF2 50 exTwo "dm" [.int 17, .int 5] = .ok (.int 3, .bool true) := by rfl
example : callF 50 exTwo "g" [.int 17, .int 5] = .ok (.int 4) ∧ callF 50 exTwo "g" [.int 17, .int 0] = .ok (.int (-1)) := ⟨by rfl, by rfl⟩
theorem exTwo_small : ∀ d ∈ exTwo, SmallFn d := by
  intro d hd
  simp only [exTwo, List.mem_cons, List.mem_nil_iff, or_false] at hd
  rcases hd with rfl | rfl <;> refine ⟨by decide, by decide, ?_⟩ <;> simp [exDm, exG2, LitsS, LitsE, LitsO]
example : ∃ off m, labelOffset (compProg exTwo) (fnLabel exTwo "g") = some off ∧
    Byte.run (compile exTwo) m { pc := off, stack := [.int 17, .int 5], locals := [], args := [], frames := [] } = .halt [.int 4] := by
  simpa using compile_bytes_correct exTwo exTwo_allowed exTwo_small (by decide) "g" [.int 17, .int 5] [] (.int 4) 50 (by rfl) (by decide)
example : accepted exTwo = true := by decide
example : ∃ off m, labelOffset (compProg exTwo) (fnLabel exTwo "g") = some off ∧
    Byte.run (compile exTwo) m { pc := off, stack := [.int 17, .int 0], locals := [], args := [], frames := [] } = .halt [.int (-1)] := by
  simpa using compile_bytes_correct_accepted exTwo exTwo_allowed (fun d hd => (exTwo_small d hd).2.2) (by decide) "g" [.int 17, .int 0] [] (.int (-1)) 50 (by rfl) (by decide)
end example_two

/-- (1a) `var x T = e` compiles to exactly the code and compile-time state of `x := e` and has the same Go semantics:
    the initialiser is evaluated in the OUTER scope (Go: the scope of `x` begins after its ValueSpec; the compiler
    allocates the local after walking the initialiser — the former known finding var-decl-shadow-self, repaired in
    /repo), also when `x` occurs in `e`.  `Allowed` admits every `var` declaration. -/
theorem varDecl_as_define (cx : Ctx) (lp : LoopCtx) (x : String) (b : Bool) (e : Expr) (st : St) (fuel : Nat) (P : Prog) (env : Env) :
    compS cx lp (.varDecl x b (some e)) st = compS cx lp (.define x e) st ∧
    exec fuel P env (.varDecl x b (some e)) = exec fuel P env (.define x e) ∧
    (∀ il, Allowed il (.varDecl x b (some e))) :=
  ⟨compS_varDecl_define cx lp x b e st, exec_varDecl_define fuel P env x b e, fun _ => trivial⟩

/-! non-vacuity: a `var` declaration that shadows the argument `x` without reading it in its own initialiser
      func f(x int) int { r := 0; { var y int = x + 1; var x int = y * 2; r = x }; return r + x }     f(3) = 11 -/
def shadowOK : FuncDecl :=
  { name := "f", params := ["x"], nres := 1,
    body := .seq (.define "r" (.lit 0))
      (.seq (.block (.seq (.varDecl "y" false (some (.bin .add (.var "x") (.lit 1))))
                    (.seq (.varDecl "x" false (some (.bin .mul (.var "y") (.lit 2))))
                    (.seq (.assign "r" (.var "x")) .skip))))
      (.seq (.ret (some (.bin .add (.var "r") (.var "x")))) .skip)) }

theorem shadowOK_allowed : ∀ d ∈ [shadowOK], Allowed [] d.body := by
  intro d hd
  simp only [List.mem_cons, List.mem_nil_iff, or_false] at hd
  subst hd
  simp [shadowOK, Allowed]

example : callF 20 [shadowOK] "f" [.int 3] = .ok (.int 11) := by rfl
theorem shadowOK_layout : layoutOK (compProg [shadowOK]) = true := by decide
example : ∃ off m, labelOffset (compProg [shadowOK]) (fnLabel [shadowOK] "f") = some off ∧
    Byte.run (compile [shadowOK]) m { pc := off, stack := [.int 3], locals := [], args := [], frames := [] } = .halt [.int 11] := by
  simpa using compile_bytes_correct_partial [shadowOK] shadowOK_allowed shadowOK_layout "f" [.int 3] [] (.int 11) 20 (by rfl) (by decide)

/-! ## The integer-semantics gap (64-bit wrapping Go ints vs 256-bit VM integers) -/

/-- the side condition of every theorem above, spelled out: `evalE … = .ok v` (no intermediate result of the
    evaluation left the int64 range) implies that Go's real, wrapping arithmetic (`evalW`, `wrap64`) computes the same
    `v` — on call-free expressions, where the wrapping semantics is defined structurally. -/
theorem no_overflow_is_go (P : Prog) (env : Env) (fuel : Nat) (e : Expr) (v : Val) (hnc : NoCall e)
    (h : evalE fuel P env e = .ok v) : evalW env e = some v :=
  evalE_ok_evalW P env fuel e v hnc h

/-- … and it is necessary: `func f(a int) int { return (a + a) / 2 }` at a = 2^62.  Go wraps a + a to -2^63 and
    returns -2^62; the checked semantics reports `.overflow` (no claim); the compiled script, run by the byte machine
    with 256-bit integers, halts with +2^62. -/
theorem overflow_side_condition_necessary :
    callF 20 [ovD] "f" [.int (2 ^ 62)] = .overflow ∧
    evalW ovEnv ovE = some (.int (-(2 ^ 62))) ∧
    Byte.run (compile [ovD]) 20 { pc := 0, stack := [.int (2 ^ 62)], locals := [], args := [], frames := [] } = .halt [.int (2 ^ 62)] :=
  overflow_witness

example : evalE 10 [] ovEnv (.bin .add (.var "a") (.lit 5)) = .ok (.int (2 ^ 62 + 5)) := by rfl
example : evalW ovEnv (.bin .add (.var "a") (.lit 5)) = some (.int (2 ^ 62 + 5)) :=
  no_overflow_is_go [] ovEnv 10 _ _ (by simp [NoCall]) (by rfl)

/-- the self-referring declaration, formerly excluded (the compiled code read the fresh Null slot and FAULTed):
    `func f(x int) int { r := 0; { var x int = x + 1; r = x }; return r + x }` returns 2x+1 in Go and in the compiled
    script — `x + 1` reads the outer x. -/
def shadowD : FuncDecl :=
  { name := "f", params := ["x"], nres := 1,
    body := .seq (.define "r" (.lit 0))
      (.seq (.block (.seq (.varDecl "x" false (some (.bin .add (.var "x") (.lit 1))))
                    (.seq (.assign "r" (.var "x")) .skip)))
      (.seq (.ret (some (.bin .add (.var "r") (.var "x")))) .skip)) }

theorem varDecl_self_reference :
    runFunc 20 [shadowD] "f" [.int 3] = .ok [.int 7] ∧
    (∃ off m, labelOffset (compProg [shadowD]) (fnLabel [shadowD] "f") = some off ∧
      Byte.run (compile [shadowD]) m { pc := off, stack := [.int 3], locals := [], args := [], frames := [] } = .halt [.int 7]) := by
  refine ⟨by rfl, ?_⟩
  have hall : ∀ d ∈ [shadowD], Allowed [] d.body := by
    intro d hd
    simp only [List.mem_cons, List.mem_nil_iff, or_false] at hd
    subst hd
    simp [shadowD, Allowed]
  simpa using compile_bytes_correct_partial [shadowD] hall (by decide) "f" [.int 3] [] (.int 7) 20 (by rfl) (by decide)

/-- **A statement's Go label is bound before anything of the statement is compiled** (model of
    generateLabel-before-Walk in ForStmt / SwitchStmt, codegen.go): in `L: for init; cond; post { body }` the init
    statement is compiled with no label waiting (`nextLabel = none`, so no statement nested in it could take `L`)
    and the body under the labelList entry named `L`; in `L: switch tag { clauses }` the clause chain is compiled
    under the entry named `L` with no label waiting.  (Expressions of MiniGo contain no statements; in the real
    compiler an inlined call in a header does — the dialect generator and the corpus exercise that.) -/
theorem label_bound_before_parts (cx : Ctx) (lp : LoopCtx) (l : String) (st : St) :
    (∀ init cond post body,
      compS cx lp (.labeled l (.loop init cond post body)) st =
        compS cx lp (.loop init cond post body) { st with nextLabel := some l } ∧
      (forEnt { st with nextLabel := some l }).name = some l ∧
      (forSt0 { st with nextLabel := some l }).nextLabel = none) ∧
    (∀ tag ti cl,
      compS cx lp (.labeled l (.switchS tag ti cl)) st =
        compS cx lp (.switchS tag ti cl) { st with nextLabel := some l } ∧
      (swEnt cx tag ti { st with nextLabel := some l }).name = some l ∧
      (swSt1 cx tag cl { st with nextLabel := some l }).nextLabel = none) :=
  ⟨fun _ _ _ _ => ⟨rfl, rfl, rfl⟩, fun _ _ _ => ⟨rfl, rfl, rfl⟩⟩

end NeoModel.C14
