/-
C14 — compiled contracts behave like the Go source.  Property theorems for the modelled core
(MiniGo → NeoVM); helper lemmas live in Proofs/Compile*.lean.

Reading guide.  `evalE fuel P env e = .ok v` is the Go semantics (64-bit ints, `.overflow` when an
intermediate leaves the range — the property's side condition — `.panic` where Go panics).
`compE cx sc e m nl` is what codegen.go emits for `e` (m = .val: Visit/emitBinaryExpr leave the value on the
stack; m = .jump cond t: emitBoolExpr jumps to label t iff the value equals cond).  `Reach C s s'`: the
assembly machine runs from s to s' without stopping.  `Placed C pc c`: the code c sits in the program C at
index pc.  `VarsRel cx sc env locals args`: the compile-time scopes `sc` (vars.go) and the machine's slots
describe the run-time environment `env`.
-/
import NeoModel.Proofs.CompileExpr
namespace NeoModel.C14
open NeoModel.MiniVm NeoModel.MiniVm.Asm NeoModel.MiniGo NeoModel.Compile NeoModel.CompileProofs

/-- slot allocation (vars.go newLocal): a new local gets the slot `cnt`, which no earlier local has. -/
theorem newLocal_slot (st : St) (x : String) :
    lookupSlot (st.newLocal x).scopes x = some st.cnt ∧ (st.newLocal x).cnt = st.cnt + 1 := by
  unfold St.newLocal
  cases h : st.scopes <;> simp [lookupSlot, List.lookup]

example : lookupSlot (({ nl := 0, cnt := 3, scopes := [[("y", 0)]] } : St).newLocal "x").scopes "x" = some 3 :=
  (newLocal_slot _ _).1

/-- compile_correct, expression + locals fragment, value context:
    if the Go semantics gives `e` the value `v` (no overflow, no panic), the emitted code pushes `v` and
    leaves everything else (stack below, slots, frames) unchanged.  Call-free expressions. -/
theorem compile_expr_correct (P : Prog) (cx : Ctx) (sc : Scopes) (env : Env) (fuel : Nat)
    (e : Expr) (nl : Nat) (C : Code) (s : State) (v : Val)
    (hnc : NoCall e) (hev : evalE fuel P env e = .ok v)
    (hp : Placed C s.pc (compE cx sc e .val nl).1) (hn : (labelsOf C).Nodup)
    (hrel : VarsRel cx sc env s.locals s.args) :
    Reach C s { s with pc := s.pc + (compE cx sc e .val nl).1.length, stack := v :: s.stack } :=
  exprOK P cx sc env fuel e .val nl C s v hnc hev hp hn hrel

/-- compile_correct, condition context (emitBoolExpr with needJump): the code jumps to the label `t` exactly
    when the value of `e` equals `cond`, otherwise falls through; the stack is unchanged (the stack-depth
    discipline at jump targets). -/
theorem compile_cond_correct (P : Prog) (cx : Ctx) (sc : Scopes) (env : Env) (fuel : Nat)
    (e : Expr) (cond : Bool) (t tp nl : Nat) (C : Code) (s : State) (b : Bool)
    (hnc : NoCall e) (hev : evalE fuel P env e = .ok (.bool b))
    (hp : Placed C s.pc (compE cx sc e (.jump cond t) nl).1) (hn : (labelsOf C).Nodup)
    (hrel : VarsRel cx sc env s.locals s.args) (ht : findLabel C t = some tp) :
    Reach C s { s with pc := if b == cond then tp else s.pc + (compE cx sc e (.jump cond t) nl).1.length } := by
  have := exprOK P cx sc env fuel e (.jump cond t) nl C s (.bool b) hnc hev hp hn hrel
  simpa [Post, Val.toBool] using this tp ht

/-! non-vacuity: `a0 < 3 && !(a1 == 7)` with a0 = 2, a1 = 5, in value and in condition context -/
section example_
def exE : Expr := .bin .land (.bin .lt (.var "a0") (.lit 3)) (.not (.paren (.bin .eq (.var "a1") (.lit 7))))
def exCx : Ctx := { funcs := [], args := ["a0", "a1"] }
def exEnv : Env := { frames := [[]], args := [("a0", .int 2), ("a1", .int 5)] }
def exS : State := { pc := 0, stack := [], locals := [], args := [.int 2, .int 5], frames := [] }

example : evalE 10 [] exEnv exE = .ok (.bool true) := by rfl
example : NoCall exE := by simp [exE, NoCall]
example : VarsRel exCx [[]] exEnv exS.locals exS.args :=
  ⟨by simp [exEnv, FramesRel, FrameRel], rfl, rfl⟩
example : Reach (compE exCx [[]] exE .val 0).1 exS
    { exS with pc := (compE exCx [[]] exE .val 0).1.length, stack := [.bool true] } := by
  have := compile_expr_correct [] exCx [[]] exEnv 10 exE 0 (compE exCx [[]] exE .val 0).1 exS (.bool true)
    (by simp [exE, NoCall]) (by rfl) ⟨[], [], by simp, rfl⟩ (by decide)
    ⟨by simp [exEnv, FramesRel, FrameRel], rfl, rfl⟩
  simpa [exS] using this
end example_

end NeoModel.C14
