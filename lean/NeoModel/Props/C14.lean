/-
C14 — compiled contracts behave like the Go source.  Property theorems for the modelled core
(MiniGo → NeoVM): helper lemmas live in Proofs/Compile*.lean.
-/
import NeoModel.Model.Compile
namespace NeoModel.C14
open NeoModel.MiniVm NeoModel.MiniGo NeoModel.Compile

/-- slot allocation (vars.go newLocal): a new local gets the slot `cnt`, which no earlier local has. -/
theorem newLocal_slot (st : St) (x : String) :
    lookupSlot (st.newLocal x).scopes x = some st.cnt ∧ (st.newLocal x).cnt = st.cnt + 1 := by
  unfold St.newLocal
  cases h : st.scopes <;> simp [lookupSlot, List.lookup]

example : lookupSlot (({ nl := 0, cnt := 3, scopes := [[("y", 0)]] } : St).newLocal "x").scopes "x" = some 3 :=
  (newLocal_slot _ _).1

end NeoModel.C14
