/-
C06 — mempool soundness (hypothesis `hpool` of `accept_only_valid`) as an invariant of AddBlock: preserved
by an accepted block when the post-block filter is IsTxStillRelevant as modelled (the driver instantiates
`keep` with it and compares the surviving pool with the node's), and trivially by a rejected one.
-/
import NeoModel.Props.C06Pool
import NeoModel.Proofs.AddBlockReasons
namespace NeoModel.AddBlock
variable {L : Type}

/-- C06: mempool soundness (the hypothesis `hpool` of `accept_only_valid`) is preserved by an ACCEPTED
block when the environment's post-block filter `keep` is IsTxStillRelevant as modelled (with the scratch
pool's conflict test against the block's transactions `txv`): every transaction left in the pool passes
the stand-alone verification at the new state. `view` relates ledger and height to what the verification
reads; the state after the block has height + 1, the same MaxTraceableBlocks / MaxVerificationGas and the
records the block's transactions leave. -/
theorem pool_sound_after_accept (env : Env L) (view : L → Nat → Chain) (obj : Tx → VTx) (txv : List VTx)
    (stub : Nat → Rec) (s s' : Node L) (b : Block)
    (hk : ∀ l q, env.keep l q = true →
      stillRelevant (view l (s.blockHeight + 1)) (obj q) (blockConflict txv (obj q)) ((obj q).wits.map Witness.stdCost) = true)
    (hview : ∀ l', env.apply s.ledger b = some l' →
      (view l' (s.blockHeight + 1)).height = (view s.ledger s.blockHeight).height + 1 ∧
      (view l' (s.blockHeight + 1)).mtb = (view s.ledger s.blockHeight).mtb ∧
      (view l' (s.blockHeight + 1)).maxVerGas = (view s.ledger s.blockHeight).maxVerGas ∧
      (view l' (s.blockHeight + 1)).lookup = lookupAfter (view s.ledger s.blockHeight).lookup txv stub)
    (hidx : ∀ q ∈ s.pool, recIndicesLe ((view s.ledger s.blockHeight).lookup (obj q).id) (view s.ledger s.blockHeight).height)
    (hs : ∀ q ∈ s.pool, ∀ w ∈ (obj q).wits, w.isScript = true → w.sound = true ∧ w.cost ≤ (view s.ledger s.blockHeight).maxVerGas)
    (hpool : ∀ q ∈ s.pool, TxValid (view s.ledger s.blockHeight) (obj q))
    (h : addBlock env s b = (s', none)) :
    ∀ q ∈ s'.pool, TxValid (view s'.ledger s'.blockHeight) (obj q) := by
  rcases addBlock_spec env s s' b none h with ⟨_, _, e, he⟩ | ⟨_, _, _, he⟩ | ⟨hbi, _, s1, r1, hs1, hrest⟩
  · cases he
  · cases he
  rcases hrest with ⟨_, _, _, hn⟩ | ⟨_, hbody⟩
  · cases hn
  obtain ⟨hl, hx⟩ := headerStep_onlyHeaders env s b
  rw [hs1] at hx; simp only at hx
  obtain ⟨l', hap, _, rfl⟩ := storeBlock_ok env s1 s' b (bodyStep_none_store env s1 s' b hbody)
  subst hx
  intro q hq
  simp only [commit, List.mem_filter, Bool.and_eq_true] at hq
  obtain ⟨hqm, _, hkeep⟩ := hq
  have hv := hview l' hap
  show TxValid (view l' b.hdr.index) (obj q)
  rw [hbi]
  exact survivor_valid_after_block _ _ (obj q) txv stub (hpool q hqm) hv.1 hv.2.1 hv.2.2.1 hv.2.2.2
    (hidx q hqm) (hs q hqm) (hk l' q hkeep)

/-- … and by a REJECTED block trivially: nothing the verification reads has changed (full C06 (2)). -/
theorem pool_sound_after_reject (env : Env L) (view : L → Nat → Chain) (obj : Tx → VTx) (s s' : Node L) (b : Block) (e : Err)
    (hpool : ∀ q ∈ s.pool, TxValid (view s.ledger s.blockHeight) (obj q))
    (h : addBlock env s b = (s', some e)) :
    ∀ q ∈ s'.pool, TxValid (view s'.ledger s'.blockHeight) (obj q) := by
  have hl := reject_ledger_same env s s' b e h
  have hrest : s'.blockHeight = s.blockHeight ∧ s'.pool = s.pool := by
    unfold addBlock at h
    split at h; · cases h; exact ⟨rfl, rfl⟩
    split at h; · cases h; exact ⟨rfl, rfl⟩
    obtain ⟨hh, hx⟩ := headerStep_onlyHeaders env s b
    split at h
    · rename_i s1 e1 hs
      rw [hs] at hx; simp only at hx
      cases h; rw [hx]; exact ⟨rfl, rfl⟩
    · rename_i s1 hs
      rw [hs] at hx; simp only at hx
      have := bodyStep_err_same env s1 s' b e h
      rw [this, hx]; exact ⟨rfl, rfl⟩
  rw [hl, hrest.1, hrest.2]
  exact hpool

/-- the example environment with the modelled post-block filter (conflict test against the block [t42]) -/
def exEnvK : Env (Nat × Nat) :=
  { exEnvM with keep := fun _ q => stillRelevant (exChain 1) (exObj q) (blockConflict [exObj t42] (exObj q)) [some 20] }

/-- a pooled transaction of account 2, unrelated to block b1 -/
def tq : Tx := { id := 77, wit := 77, sender := 2, fee := 5, netFee := 2, conflicts := [] }

-- non-vacuity: tq is pooled and valid at height 0; b1 = [t42] is accepted; tq survives and is valid at height 1;
-- a pooled transaction that names t42 in a Conflicts attribute does not survive
example : verifyTx (exChain 0) (exObj tq) = none ∧
    (addBlock exEnvK { exNode with pool := [tq] } b1).2 = none ∧
    (addBlock exEnvK { exNode with pool := [tq] } b1).1.pool = [tq] ∧
    verifyTx (exChain 1) (exObj tq) = none := by decide

end NeoModel.AddBlock
