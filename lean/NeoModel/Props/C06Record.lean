/-
C06 — the on-chain conflict record: writer (dao.StoreAsTransaction) and reader (dao.HasTransaction)
against the specification. Helper lemmas: Proofs/AddBlockRecord.
-/
import NeoModel.Proofs.AddBlockRecord
namespace NeoModel.AddBlock

/-- C06: writer and reader of the conflict record agree with the specification. For every history of
conflicting transactions (block index, signers) stored in block order and every non-empty signer list of
the asking transaction: HasTransaction's conflict answer on the record StoreAsTransaction has built equals
"some conflicting transaction that shares a signer with it is inside the traceability window". -/
theorem conflict_record_meets_spec (h mtb : Nat) (hist : List (Nat × List Nat)) (sg : List Nat)
    (hs : hist.Pairwise (fun p q => p.1 ≤ q.1)) (hle : ∀ p ∈ hist, p.1 ≤ h) (hsg : sg ≠ []) :
    stubHits (recordOf hist) sg h mtb = conflictInWindow hist sg h mtb :=
  stubHits_recordOf h mtb hist sg hs hle hsg

-- non-vacuity, window of 2 blocks, account 1 asks:
-- B1 (by 1) in block 2, B2 (by 1) in block 3: at height 4 B1 is out, B2 is in -> conflict (the C06-m6 scenario);
-- B2 by account 7 instead: the stub is refreshed but no transaction of account 1 is in the window -> no conflict;
-- at height 5 nothing is in the window
example : stubHits (recordOf [(2, [1]), (3, [1])]) [1] 4 2 = true ∧
    stubHits (recordOf [(2, [1]), (3, [7])]) [1] 4 2 = false ∧
    stubHits (recordOf [(2, [1]), (3, [1])]) [1] 5 2 = false ∧
    stubHits (recordOf [(2, [1])]) [1] 3 2 = true := by decide

/-- what goes wrong if the writer keeps the FIRST index in the stub (seeded change C06-m6): the same
history is answered "no conflict" although B2 is inside the window. -/
def storeConflictKeepFirst (r : Rec) (idx : Nat) (signers : List Nat) : Rec :=
  match r with
  | .stub i recs => .stub i (signers.map (fun a => (a, idx)) ++ recs.filter (fun p => !signers.contains p.1))
  | r => storeConflict r idx signers

theorem keep_first_index_breaks_spec :
    stubHits ([(2, [1]), (3, [1])].foldl (fun r p => storeConflictKeepFirst r p.1 p.2) Rec.none) [1] 4 2 = false ∧
    conflictInWindow [(2, [1]), (3, [1])] [1] 4 2 = true := by decide

end NeoModel.AddBlock
