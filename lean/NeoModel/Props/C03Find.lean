/-
C03 — System.Storage.Find, live and historic: property theorems.

The model is `Model/StateCommit/Find.lean` (option check, Iterator.Value, dao.SeekAsync over a stack of
MemCachedStore layers, TrieStore.Seek), lemmas `Proofs/StateCommitFind{Layers,Trie}.lean`.
`IsSpecSeek f rng r` (C09) says that `r` is THE ordered range of the map `f`: strictly ordered in the
direction of the scan, exactly the pairs of `f` whose key has the prefix (nothing missing, nothing
extra); such an `r` is unique (`C09.seek_unique`).
-/
import NeoModel.Props.C03
import NeoModel.Props.C09
import NeoModel.Proofs.StateCommitFindLayers
import NeoModel.Proofs.StateCommitFindTrie
namespace NeoModel.StateCommit.Find
open NeoModel.Store (SeekRange KV Layer SpecMap IsSpecSeek overlay)
open NeoModel.Generated
open NeoModel.Wire (Item)

/-! ## 1. the option check -/

/-- C03.F1 (regenerated table): on every option byte the model's validity check returns what the
conditions of `findWithContext` in the current find.go return (index of the first failing check,
table `Generated/FindOpts.lean` computed from the syntax trees on every run); any int64 with a bit
above the low byte set — negative numbers included — is rejected by the unknown-flag check. -/
theorem checkOpts_is_source (opts : Int) :
    checkOpts (int64Bits opts) =
      if int64Bits opts < 256 then
        (if FindOpts.firstFailing[int64Bits opts]! = 0 then none else some FindOpts.firstFailing[int64Bits opts]!)
      else some 1 := by
  split
  · next h => exact checkOpts_table _ h
  · next h => exact checkOpts_high _ (by omega) (int64Bits_lt opts)

example : checkOpts (int64Bits 0x8a) = none ∧ checkOpts (int64Bits 5) = some 3 ∧
    checkOpts (int64Bits (-1)) = some 1 ∧ checkOpts (int64Bits (2 ^ 64 + 9)) = some 2 := by decide

/-! ## 2. what the iterator yields is the image of the ordered range -/

/-- the range System.Storage.Find scans (find.go:122, dao.go:437). -/
def findRange (sp : UInt8) (id : Nat) (pfx : Bytes) (u : Nat) : SeekRange :=
  { pfx := storageKey sp id pfx, start := [], bw := has u FindOpts.findBackwards, depth := 0 }

/-- the image of an ordered range `r` (full store keys) under the iterator: item by item, in order. -/
def image (u : Nat) (sp : UInt8) (id : Nat) (pfx : Bytes) (r : List KV) : Out :=
  match checkOpts u with
  | some i => .invalid i
  | none =>
    if keyBufOverflow pfx then .fault
    else
    match drain u pfx (r.map fun e => (e.1.drop (storageKey sp id pfx).length, e.2)) with
    | none => .fault
    | some l => .ok l

/-- C03.F2: System.Storage.Find on any stack of well-formed cache layers (`L :: Ls`: the DAO's own
store and the private layers of the invocation, whatever they hold) over ANY backend that answers
range scans correctly for a map `f`: for every contract id, prefix and option word, the outcome is
the image of the ordered prefix range of the overlaid map — the option error if the word is invalid,
else `Iterator.Value` of every pair of the range, in the order of the scan, none skipped, none added. -/
theorem find_spec (base : SeekRange → List KV) (f : SpecMap)
    (hb : ∀ rng : SeekRange, rng.pfx ≠ [] → rng.depth = 0 → IsSpecSeek f rng (base rng))
    (L : Layer) (Ls : List Layer) (hw : ∀ L' ∈ L :: Ls, L'.WF)
    (sp : UInt8) (id : Nat) (pfx : Bytes) (opts : Int) (r : List KV)
    (hr : IsSpecSeek (overlays (L :: Ls) f) (findRange sp id pfx (int64Bits opts)) r) :
    find (layersSeekAsync base (L :: Ls)) sp id pfx opts = image (int64Bits opts) sp id pfx r := by
  unfold find image
  simp only
  cases checkOpts (int64Bits opts) with
  | some i => rfl
  | none =>
    simp only
    by_cases ho : keyBufOverflow pfx = true
    · simp only [ho, if_true]
    simp only [ho, Bool.false_eq_true, if_false]
    rw [layersSeekAsync_eq]
    have hs := layersSeek_spec base f hb (L :: Ls) hw (findRange sp id pfx (int64Bits opts))
      (by simp [findRange, storageKey]) rfl
    have : layersSeek base (L :: Ls) (findRange sp id pfx (int64Bits opts)) = r :=
      Store.C09.seek_unique _ _ _ _ hs hr
    unfold findRange at this
    rw [this]
    rfl

/-- the same for the live node: the DAO's store is a C09 store stack (any number of cache layers with
pending writes and tombstones over MemoryStore / LevelDB / BoltDB). -/
theorem findLive_spec (L : Layer) (ps : Store.Store)
    (sp : UInt8) (id : Nat) (pfx : Bytes) (opts : Int) :
    findLive (.cached L ps) sp id pfx opts =
      image (int64Bits opts) sp id pfx ((Store.Store.cached L ps).seek (findRange sp id pfx (int64Bits opts))) := by
  unfold findLive find image
  simp only
  cases checkOpts (int64Bits opts) with
  | some i => rfl
  | none =>
    simp only
    by_cases ho : keyBufOverflow pfx = true
    · simp only [ho, if_true]
    simp only [ho, Bool.false_eq_true, if_false]
    rw [Store.C09.seek_observed]
    simp only [Store.specObs, Store.cutKey, findRange, beq_self_eq_true, if_true]
    rfl

/-! ## 3. shape of the items: keys are the contract's keys, trimming is injective, nothing faults
without Deserialize -/

/-- the key an item shows (`ByteString` alone with KeysOnly, first field of the Struct otherwise). -/
def itemKey : Item → Option Bytes
  | .byteArray k => some k
  | .struct [.byteArray k, _] => some k
  | _ => none

/-- C03.F3: with a valid option word without Deserialize the iterator never faults and the item of the
pair `(k, v)` is: the key alone (KeysOnly), the value alone (ValuesOnly), else `Struct[key, value]`;
the key is the delivered one (RemovePrefix) or `prefix ‖ delivered`, i.e. the contract's own key. -/
theorem iterValue_plain (u : Nat) (pfx k v : Bytes) (hv : checkOpts u = none)
    (hd : has u FindOpts.findDeserialize = false) :
    iterValue u pfx k v = some
      (let key := if has u FindOpts.findRemovePrefix then k else pfx ++ k
       if has u FindOpts.findKeysOnly then .byteArray key
       else if has u FindOpts.findValuesOnly then .byteArray v
       else .struct [.byteArray key, .byteArray v]) := by
  have hp : has u FindOpts.findPick0 = false ∧ has u FindOpts.findPick1 = false := by
    unfold checkOpts at hv
    split at hv; · simp at hv
    split at hv; · simp at hv
    split at hv; · simp at hv
    split at hv; · simp at hv
    split at hv
    · simp at hv
    · rename_i h5
      simpa [hd] using h5
  unfold iterValue
  simp only [hd, hp.1, hp.2, Bool.false_eq_true, if_false]
  split
  · rfl
  · split <;> rfl

/-- every pair of the range under the prefix is delivered with the prefix cut, and putting the
prefix back gives the key the contract wrote (dao.go:437-438, find.go:64-66). -/
theorem key_roundtrip (sp : UInt8) (id : Nat) (pfx k : Bytes) (h : storageKey sp id pfx <+: k) :
    pfx ++ k.drop (storageKey sp id pfx).length = k.drop 5 := by
  obtain ⟨rest, rfl⟩ := h
  simp [storageKey, le32, Wire.leBytes]

/-- C03.F4 (prefix trimming is injective): the pairs of one range, cut by the length of the scanned
prefix, still have pairwise different keys — no two items of one Find show the same key. -/
theorem cut_keys_nodup (f : SpecMap) (rng : SeekRange) (r : List KV) (h : IsSpecSeek f rng r) :
    (r.map fun e => e.1.drop rng.pfx.length).Nodup := by
  rw [List.nodup_iff_pairwise_ne, List.pairwise_map]
  have hne : r.Pairwise (fun a b => a.1 ≠ b.1) := by
    refine List.Pairwise.imp ?_ h.1
    intro a b hlt e
    rw [e, Store.ltDir_irrefl] at hlt
    exact Bool.false_ne_true hlt
  refine List.Pairwise.imp_of_mem ?_ hne
  intro a b ha hb hab e
  exact hab (Store.C09.cut_injective f rng r h a ha b hb e)

theorem mapM_some {α β : Type} (g : α → β) (l : List α) : l.mapM (fun x => some (g x)) = some (l.map g) := by
  induction l with
  | nil => rfl
  | cons a l ih => simp [List.mapM_cons, ih]

/-- C03.F5 (completeness, no extras, order — item level): with a valid option word without
Deserialize, Find over the range `r` never faults and yields exactly one item per pair of `r`, in
the order of `r`, showing the contract's key (or its remainder after the prefix) and the value. -/
theorem image_plain (u : Nat) (sp : UInt8) (id : Nat) (pfx : Bytes) (r : List KV)
    (hv : checkOpts u = none) (hd : has u FindOpts.findDeserialize = false)
    (hlen : pfx.length ≤ 64) (hpre : ∀ e ∈ r, storageKey sp id pfx <+: e.1) :
    image u sp id pfx r = .ok (r.map fun e =>
      let key := if has u FindOpts.findRemovePrefix then (e.1.drop 5).drop pfx.length else e.1.drop 5
      if has u FindOpts.findKeysOnly then Item.byteArray key
      else if has u FindOpts.findValuesOnly then Item.byteArray e.2
      else Item.struct [.byteArray key, .byteArray e.2]) := by
  unfold image drain
  have ho : keyBufOverflow pfx = false := by simp [keyBufOverflow]; omega
  simp only [hv, ho, Bool.false_eq_true, if_false]
  have hfun : (fun kv : KV => iterValue u pfx kv.1 kv.2) = fun kv => some
      (let key := if has u FindOpts.findRemovePrefix then kv.1 else pfx ++ kv.1
       if has u FindOpts.findKeysOnly then Item.byteArray key
       else if has u FindOpts.findValuesOnly then Item.byteArray kv.2
       else Item.struct [.byteArray key, .byteArray kv.2]) := by
    funext kv; exact iterValue_plain u pfx kv.1 kv.2 hv hd
  rw [hfun, mapM_some, List.map_map]
  simp only [Out.ok.injEq]
  apply List.map_congr_left
  intro e he
  have hcut : e.1.drop (storageKey sp id pfx).length = (e.1.drop 5).drop pfx.length := by
    rw [List.drop_drop]; congr 1; simp [storageKey, le32, Wire.leBytes]; omega
  simp only [Function.comp, key_roundtrip sp id pfx e.1 (hpre e he)]
  rw [hcut]

/-! ## 4. historic = live -/

/-- a range scan only sees the keys under its prefix. -/
theorem isSpecSeek_congr (f g : SpecMap) (rng : SeekRange) (r : List KV)
    (h : ∀ k, rng.pfx <+: k → f k = g k) (hf : IsSpecSeek f rng r) : IsSpecSeek g rng r := by
  refine ⟨hf.1, ?_⟩
  intro k v
  rw [hf.2]
  constructor
  · rintro ⟨h1, h2⟩; exact ⟨by rw [← h k h2.1]; exact h1, h2⟩
  · rintro ⟨h1, h2⟩; exact ⟨by rw [h k h2.1]; exact h1, h2⟩

theorem overlays_empty (E : List Layer) (hE : ∀ L ∈ E, L.mem = [] ∧ L.stor = []) (f : SpecMap) :
    overlays E f = f := by
  induction E with
  | nil => rfl
  | cons L E ih =>
    simp only [overlays]
    rw [ih (fun L' h' => hE L' (by simp [h']))]
    obtain ⟨h1, h2⟩ := hE L (by simp)
    obtain ⟨pr, m, s, nm⟩ := L
    simp only at h1 h2
    subst h1 h2
    exact Store.overlay_empty_layer pr nm f

theorem wf_of_empty (L : Layer) (h : L.mem = [] ∧ L.stor = []) : L.WF := by
  obtain ⟨pr, m, s, nm⟩ := L
  simp only at h
  obtain ⟨rfl, rfl⟩ := h
  simp [Layer.WF, Store.MapWF, Store.Placed]

/-- every trie of the chain of state tries has byte-string keys only. -/
theorem byteKeyed_trieAt (bs : List (List Change)) (hok : ∀ b ∈ bs, DistinctKeys b) :
    ByteKeyed (trieAt mptMap bs) := by
  unfold trieAt
  suffices h : ∀ (t : Mpt.Node), ByteKeyed t → ByteKeyed (bs.foldl mptMap.putBatch t) by
    apply h
    intro p v hl
    simp [mptMap, Mpt.lookup] at hl
  induction bs with
  | nil => intro t ht; exact ht
  | cons b rest ih =>
    intro t ht
    simp only [List.foldl_cons]
    apply ih (fun c hc => hok c (by simp [hc]))
    intro p v hl
    simp only [mptMap] at hl
    rw [Mpt.lookup_putBatch_map t (b.map toKV) (mpt_distinct b (hok b (by simp)))] at hl
    unfold Mpt.applyBatch at hl
    cases hlk : List.lookup p (b.map toKV) with
    | none => rw [hlk] at hl; exact ht p v hl
    | some ov =>
      obtain ⟨l1, l2, heq, _⟩ := List.lookup_eq_some_iff.mp hlk
      have hmem : (p, ov) ∈ b.map toKV := by rw [heq]; simp
      simp only [List.mem_map] at hmem
      obtain ⟨c, _, hc⟩ := hmem
      simp only [toKV, Prod.mk.injEq] at hc
      exact ⟨c.1, hc.1.symm⟩

/-- the map a TrieStore over the trie of a height stands for is the storage of that height. -/
theorem trieFlat_trieAt (bs : List (List Change)) (hok : ∀ b ∈ bs, DistinctKeys b) (sp : UInt8)
    (hsp : sp = 0x70 ∨ sp = 0x71) (k : Bytes) :
    trieFlat (trieAt mptMap bs) (sp :: k) = storageAt bs k := by
  simp only [trieFlat, hsp, if_true]
  exact mpt_root_commits bs hok k

/-- **C03.F6 — historic invocation = live invocation, for System.Storage.Find.** Take any block
history `bs`; let the live node's store `S` (any C09 stack, pending layers and tombstones included)
hold under the storage prefix exactly the contract storage after `bs`. Run the same invocation on
both sides: its own uncommitted writes `W` (any well-formed layer) on top of `S`, and on top of the
empty cache layers `E` a historic DAO puts over `TrieStore(root of the trie after bs)`. Then
System.Storage.Find returns the same outcome on both — for every contract id, prefix and option
word: the same option error, the same fault, or the same item sequence — and that outcome is the
image of the ordered prefix range of the live store. -/
theorem historic_find_eq_live (bs : List (List Change)) (hok : ∀ b ∈ bs, DistinctKeys b)
    (S : Store.Store) (hS : S.WF) (sp : UInt8) (hsp : sp = 0x70 ∨ sp = 0x71)
    (hagree : ∀ k, S.flatten (sp :: k) = storageAt bs k)
    (W : Layer) (hW : W.WF) (E : List Layer) (hE : ∀ L ∈ E, L.mem = [] ∧ L.stor = [])
    (id : Nat) (pfx : Bytes) (opts : Int) :
    findHistoric (trieAt mptMap bs) (W :: E) sp id pfx opts = findLive (.cached W S) sp id pfx opts := by
  rw [findLive_spec W S]
  unfold findHistoric
  have hbk := byteKeyed_trieAt bs hok
  apply find_spec (trieStoreSeek (trieAt mptMap bs)) (trieFlat (trieAt mptMap bs))
  · intro rng hp _
    exact trieStoreSeek_spec _ hbk rng hp
  · intro L' hL'
    simp only [List.mem_cons] at hL'
    rcases hL' with rfl | h
    · exact hW
    · exact wf_of_empty L' (hE L' h)
  · -- the live range is also the range of the historic map: they agree under the storage prefix
    have hlive := Store.C09.seek_spec (.cached W S) ⟨hW, hS⟩ (findRange sp id pfx (int64Bits opts))
      (by simp [findRange, storageKey])
    simp only [overlays]
    rw [overlays_empty E hE]
    refine isSpecSeek_congr _ _ _ _ ?_ hlive
    intro k hk
    simp only [findRange, storageKey] at hk
    obtain ⟨rest, rfl⟩ := hk
    show Store.Store.flattenD 0 (.cached W S) _ = _
    simp only [Store.Store.flattenD, Store.Store.flatten, overlay, List.cons_append]
    rw [hagree, trieFlat_trieAt bs hok sp hsp]

/-! non-vacuity: a two-block history (a key written and deleted again, an empty value, keys that are
prefixes of each other), LevelDB under one cache layer on the live side, the trie of the history
under two empty layers on the historic side; a backward KeysOnly scan of prefix 01 of contract 5. -/
def exBs : List (List Change) :=
  [[([5,0,0,0,1,2], some [9]), ([5,0,0,0,1], some [7])], [([5,0,0,0,1,2], none), ([5,0,0,0,1,3], some [])]]
def exS : Store.Store :=
  .cached (Layer.fresh false) (.level [([0x70,5,0,0,0,1], [7]), ([0x70,5,0,0,0,1,3], [])])
/-- the items as serialised bytes (to compare outcomes by `decide`). -/
def encs : Out → Option (List Bytes)
  | .ok l => some (l.map Item.enc)
  | _ => none

theorem exAgree : ∀ k, exS.flatten (0x70 :: k) = storageAt exBs k := by
  intro k
  simp only [exS, Store.Store.flatten, Layer.fresh, Store.overlay_empty_layer, storageAt, exBs,
    List.foldl_cons, List.foldl_nil, applyBatch, applyChange]
  by_cases h1 : k = [5,0,0,0,1,3]
  · subst h1; decide
  · by_cases h2 : k = [5,0,0,0,1,2]
    · subst h2; decide
    · by_cases h3 : k = [5,0,0,0,1]
      · subst h3; decide
      · have e1 : (k == [5,0,0,0,1,3]) = false := by simpa using h1
        have e3 : (k == [5,0,0,0,1]) = false := by simpa using h3
        simp [h1, h2, h3, List.lookup_cons, e1, e3]

example : encs (findLive (.cached (Layer.fresh true) exS) 0x70 5 [1] 0x81) =
    some [Item.enc (.byteArray [1,3]), Item.enc (.byteArray [1])] := by
  rw [← historic_find_eq_live exBs (by intro b hb; simp [exBs] at hb; rcases hb with rfl | rfl <;> simp [DistinctKeys])
    exS (by simp [exS, Store.Store.WF, Layer.WF, Layer.fresh, Store.MapWF, Store.Placed, Store.DbWF])
    0x70 (Or.inl rfl) exAgree (Layer.fresh true) (by simp [Layer.WF, Layer.fresh, Store.MapWF, Store.Placed])
    [Layer.fresh false] (by simp [Layer.fresh])]
  decide +kernel

theorem exOk : ∀ b ∈ exBs, DistinctKeys b := by
  intro b hb; simp [exBs] at hb; rcases hb with rfl | rfl <;> simp [DistinctKeys]

-- F3: default options with RemovePrefix on a delivered pair
example : iterValue 2 [1] [3] [9] = some (.struct [.byteArray [3], .byteArray [9]]) := by
  rw [iterValue_plain 2 [1] [3] [9] (by decide) (by decide)]; rfl
-- the trie of the example history is byte-keyed and TrieStore.Seek over it is the specified range
example : IsSpecSeek (trieFlat (trieAt mptMap exBs)) (findRange 0x70 5 [1] 0x80)
    (trieStoreSeek (trieAt mptMap exBs) (findRange 0x70 5 [1] 0x80)) :=
  trieStoreSeek_spec _ (byteKeyed_trieAt exBs exOk) _ (by simp [findRange, storageKey])
example : trieStoreSeek (trieAt mptMap exBs) (findRange 0x70 5 [1] 0x80) =
    [([0x70,5,0,0,0,1,3], []), ([0x70,5,0,0,0,1], [7])] := by decide +kernel
-- F4 on the live example store
example : (((exS.seek (findRange 0x70 5 [1] 0)).map fun e => e.1.drop (findRange 0x70 5 [1] 0).pfx.length)).Nodup :=
  cut_keys_nodup _ _ _ (Store.C09.seek_spec exS
    (by simp [exS, Store.Store.WF, Layer.WF, Layer.fresh, Store.MapWF, Store.Placed, Store.DbWF]) _ (by simp [findRange, storageKey]))
-- F5: the forward default scan of the two pairs under prefix 01
example : image 0 0x70 5 [1] [([0x70,5,0,0,0,1], [7]), ([0x70,5,0,0,0,1,3], [])] =
    .ok [.struct [.byteArray [1], .byteArray [7]], .struct [.byteArray [1,3], .byteArray []]] := by
  rw [image_plain 0 0x70 5 [1] _ (by decide) (by decide) (by decide) (by
    intro e he; simp at he; rcases he with rfl | rfl <;> decide)]
  rfl

end NeoModel.StateCommit.Find
