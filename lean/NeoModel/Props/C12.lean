/-
C12 — the VM is total, bounded and memory-safe on every script; its item accounting never
under-counts and is exact without cycles; a statically checked script never executes a
non-boundary offset.  (stage 1: first theorems; the main ones follow)
-/
import NeoModel.Model.VmAcct
import NeoModel.Generated.Opcodes
namespace NeoModel.C12
open NeoModel.VmAcct

/-- running a list of (instruction, unwinding outcome) pairs on the accounting machine -/
def runOps : St → List (Op × Option (Nat × Bool)) → Option St
  | s, [] => some s
  | s, (o, u) :: r => match step s o u false with
    | none => none
    | some s' => runOps s' r

/-- DESIGN §6 item 8 as an instruction stream of the model: caller `TRY SYSCALL(load callee)`,
callee `PUSH1 PUSH2 PUSH3 PUSH0 THROW`, the caller's CATCH receives the exception. -/
def unwindWitness : List (Op × Option (Nat × Bool)) :=
  [(.nop, none), (.load 0 0, none), (.s (.generic 0 1), none), (.s (.generic 0 1), none), (.s (.generic 0 1), none),
   (.s (.generic 0 1), none), (.throw_, some (1, true))]

/-- FINDING `unwind-across-estack` (negation of "exact without cycles" on a concrete run): after
the exception crossed a context that owned its evaluation stack the counter says 4 while one item
is reachable; no compound item exists at all. -/
theorem refs_exact_fails_on_unwind :
    (runOps St.init unwindWitness).map (fun s => (s.c.refs, s.reach, s.c.heap.length)) = some (4, 1, 0) := by
  simp [runOps, unwindWitness, step, exec, execS, St.init, St.w, St.setW, St.cur, St.setCur, curOf, setCurOf, ok, W.popN,
    W.pushPrims, W.push, W.pop, Ctr.add, Ctr.rem, Ctr.addAll, Ctr.remAll, addW, remW, Item.cid, unwind, unwindFrames,
    unloadSlots, slotItems, St.reach, reachFrom, St.roots, Frame.roots, walk, childSum, maxStackSize, maxInvocationStackSize]

/-- generated fact (pkg/core/fee/opcode.go): every valid opcode except ABORT, ABORTMSG, RET and
SYSCALL has a price coefficient ≥ 1. -/
theorem price_pos_table :
    (Generated.Opcodes.table.all fun e =>
      e.2.1 == "ABORT" || e.2.1 == "ABORTMSG" || e.2.1 == "RET" || e.2.1 == "SYSCALL" || decide (1 ≤ e.2.2.2.2)) = true := by
  decide

end NeoModel.C12
