/-
C12 — the VM is total, bounded and memory-safe on every script; its item accounting never
under-counts and is exact without cycles; a statically checked script never executes a
non-boundary offset.

Part 1 (this section): the item accounting. Model: NeoModel/Model/VmAcct (the VM's counter as
vm.go / ref_counter.go / stack.go / slot.go maintain it, `reach` = what a walk finds).
-/
import NeoModel.Proofs.VmAcctBase
import NeoModel.Proofs.VmAcctDepth
import NeoModel.Proofs.VmAcctGasSim
import NeoModel.Proofs.VmAcctTry
import NeoModel.Proofs.VmAcctAlign
import NeoModel.Proofs.VmAcctGasZero
import NeoModel.Proofs.VmAcctGas
import NeoModel.Proofs.VmAcctSpecSizeRun
import NeoModel.Proofs.ScriptCheck
import NeoModel.Proofs.VmAcctOrder
import NeoModel.Generated.Opcodes
namespace NeoModel.C12
open NeoModel.VmAcct

/-- running a list of (instruction, unwinding outcome) pairs on the accounting machine -/
def runOps : St → List (Op × Option (Nat × Bool)) → Option St
  | s, [] => some s
  | s, (o, u) :: r => match step s o u false with
    | none => none
    | some s' => runOps s' r

theorem run_of_runOps : ∀ (ops : List (Op × Option (Nat × Bool))) (s s' : St), Run s → runOps s ops = some s' → Run s' := by
  intro ops
  induction ops with
  | nil => intro s s' hr h; simp only [runOps, Option.some.injEq] at h; rw [← h]; exact hr
  | cons a t ih =>
    intro s s' hr h
    obtain ⟨o, u⟩ := a
    simp only [runOps] at h
    cases hs : step s o u false with
    | none => simp [hs] at h
    | some s1 =>
      simp only [hs] at h
      exact ih s1 s' (Run.step o u false hr hs) h

/-! ## soundness: the counter never under-counts -/

/-- **refs_sound.** In EVERY state the accounting machine reaches from the initial state — through
any sequence of instructions with any resolved arguments, unwinding outcomes and external faults; no
side condition on the states or on the instructions: all frame-level instructions (slots, CALL*, RET
with value moving and context unloading, script loading, THROW/ENDFINALLY with exception unwinding
*including* unwinding across evaluation stacks), the stack instructions, NEWARRAY*/NEWSTRUCT*/NEWMAP,
PACK, PACKSTRUCT, PACKMAP, UNPACK, KEYS, VALUES, CONVERT, APPEND, SETITEM, REMOVE, CLEARITEMS,
POPITEM, PICKITEM, REVERSEITEMS, Struct cloning in APPEND/SETITEM/VALUES; cyclic structures allowed —
what a walk over stacks, slots and compounds finds never exceeds the implementation's counter.
(That map keys are primitives and a map's children come in pairs, which the per-instruction lemmas
need, is itself an invariant of the machine: `map_shape`.) -/
theorem refs_sound (s : St) (h : Run s) : (s.reach : Int) ≤ s.c.refs := VmAcct.refs_sound h

/-- non-vacuity: a run that builds a self-containing array (`NEWARRAY0 DUP DUP APPEND DROP`) and
leaves it as garbage: the counter stays at 1 with nothing reachable — over-count, as allowed. -/
def cycleOps : List (Op × Option (Nat × Bool)) :=
  [(.s (.newEmpty .arr), none), (.s .dup, none), (.s .dup, none), (.s .append, none), (.s (.generic 1 0), none)]

set_option maxRecDepth 20000 in
example : ∃ s, Run s ∧ s.c.refs = 1 ∧ s.reach = 0 := by
  have h : (runOps St.init cycleOps).map (fun s => (s.c.refs, s.reach)) = some (1, 0) := by
    simp [runOps, cycleOps, step, exec, execS, St.init, St.w, St.setW, St.cur, St.setCur, curOf, setCurOf, ok, okW, W.popN,
      W.pushPrims, W.push, W.pop, W.alloc, W.setHeap, W.cloneIfStruct, Ctr.add, Ctr.rem, addW, remW, Item.cid,
      Kind.mk, rcOf, chOf, incRC, decRC, setCh, St.reach, reachFrom, St.roots, Frame.roots, slotItems, walk, childSum,
      maxStackSize]
  cases hr : runOps St.init cycleOps with
  | none => simp [hr] at h
  | some s =>
    simp only [hr, Option.map_some, Option.some.injEq, Prod.mk.injEq] at h
    exact ⟨s, run_of_runOps cycleOps St.init s Run.init hr, h.1, h.2⟩

/-! ## the shape of Maps is an invariant -/

/-- **map_shape.** In every reachable state there is a kind assignment `km` (cell id ↦ "is a Map")
such that every reference anywhere an instruction can take one from (the VM's stack object, every
frame's evaluation stack and slots, the pending exception, the children of every heap cell) points
at an existing cell of the kind the reference says, and the children of every Map cell come in
key/value pairs whose keys are primitives. The model faults on a compound key where the real VM
does (`validateMapKey`, vm.go:1454 SETITEM; `Map.Add`, item.go:875 PACKMAP). -/
theorem map_shape (s : St) (h : Run s) : MapInv s := run_mapInv h

/-- consequence used by KEYS/VALUES: a Map on top of the current stack of a reachable state has
an even number of children and primitive keys -/
theorem map_top_pairs (s : St) (h : Run s) (id : Nat) (r : List Item) (hst : s.cur = .map id :: r) :
    (chOf s.c.heap id).length % 2 = 0 ∧ ∀ x ∈ evens (chOf s.c.heap id), x.cid = none := by
  obtain ⟨km, g⟩ := run_mapInv h
  have : Good km s.c.heap.length (.map id) := g.cur _ (by rw [hst]; exact List.mem_cons_self ..)
  exact g.h.pairs id this.2

/-- non-vacuity: `NEWMAP DUP PUSH PUSH SETITEM` reaches a state with a Map of one pair on top. -/
def mapOps : List (Op × Option (Nat × Bool)) :=
  [(.s (.newEmpty .map), none), (.s .dup, none), (.s (.generic 0 1), none), (.s (.generic 0 1), none), (.s (.setitem (-1)), none)]

set_option maxRecDepth 20000 in
example : ∃ s, Run s ∧ s.cur = [.map 0] ∧ chOf s.c.heap 0 = [.prim, .prim] := by
  have h : (runOps St.init mapOps).map (fun s => (s.cur, chOf s.c.heap 0)) = some ([.map 0], [.prim, .prim]) := by
    simp [runOps, mapOps, step, exec, execS, setitemTail, St.init, St.w, St.setW, St.cur, St.setCur, curOf, setCurOf, ok, okW, W.popN,
      W.pushPrims, W.push, W.pop, W.popNoRef, W.alloc, W.setHeap, W.cloneIfStruct, Ctr.add, Ctr.rem, addW, remW, Item.cid,
      Kind.mk, rcOf, chOf, incRC, decRC, setCh, maxStackSize]
  cases hr : runOps St.init mapOps with
  | none => simp [hr] at h
  | some s =>
    simp only [hr, Option.map_some, Option.some.injEq, Prod.mk.injEq] at h
    exact ⟨s, run_of_runOps mapOps St.init s Run.init hr, h.1, h.2⟩

/-- the model faults on a compound map key, as `validateMapKey` does: `NEWMAP DUP NEWARRAY0 PUSH SETITEM` -/
example : runOps St.init [(.s (.newEmpty .map), none), (.s .dup, none), (.s (.newEmpty .arr), none), (.s (.generic 0 1), none),
    (.s (.setitem (-1)), none)] = none := by
  simp [runOps, step, exec, execS, setitemTail, St.init, St.w, St.setW, St.cur, St.setCur, curOf, setCurOf, ok, okW, W.popN,
    W.pushPrims, W.push, W.pop, W.popNoRef, W.alloc, W.setHeap, W.cloneIfStruct, Ctr.add, Ctr.rem, addW, remW, Item.cid,
    Kind.mk, rcOf, chOf, incRC, decRC, setCh, maxStackSize]

/-! ## exactness without cycles -/

/-- **refs_exact.** If no cyclic structure was ever built during the run (the heap, garbage
included, was acyclic before every step and is acyclic now), the implementation's counter EQUALS what a
walk finds — also after exception unwinding across contexts that own their evaluation stacks (the former
finding unwind-across-estack, repaired in /repo 65b0965: `handleException` clears the stack a dropped
context owns; the model's `unwindFrames` does the same). No other hypothesis: any instructions, any
arguments, any unwinding. -/
theorem refs_exact (s : St) (h : RunExact s) (ha : Acyclic s.c.heap) : s.c.refs = (s.reach : Int) :=
  VmAcct.refs_exact h ha

/-- non-vacuity: `PUSH PUSH PUSH2 PACK DUP` (an array of two items, referenced twice) is an exact run
with an acyclic heap; counter = walk = 4. -/
def packOps : List (Op × Option (Nat × Bool)) :=
  [(.s (.generic 0 1), none), (.s (.generic 0 1), none), (.s (.generic 0 1), none), (.s (.pack .arr 2), none), (.s .dup, none)]

theorem acyclic_of_prims (h : Heap) (hp : ∀ j, ∀ x ∈ chOf h j, x = .prim) : Acyclic h :=
  ⟨fun _ => 0, fun j x hx d hd => by rw [hp j x hx] at hd; cases hd⟩

set_option maxRecDepth 20000 in
example : ∃ s, RunExact s ∧ Acyclic s.c.heap ∧ s.c.refs = 4 ∧ s.reach = 4 := by
  have step1 : ∀ s op s', step s op none false = some s' → Acyclic s.c.heap →
      RunExact s → RunExact s' := by
    intro s op s' hs ha hr
    exact RunExact.step op none false hr ha hs
  let s1 : St := { St.init with c := { heap := [], refs := 1 }, frames := [{ own := some [.prim], isScript := true, retCount := 1 }] }
  let s2 : St := { St.init with c := { heap := [], refs := 2 }, frames := [{ own := some [.prim, .prim], isScript := true, retCount := 1 }] }
  let s3 : St := { St.init with c := { heap := [], refs := 3 }, frames := [{ own := some [.prim, .prim, .prim], isScript := true, retCount := 1 }] }
  let h1 : Heap := [{ rc := 1, ch := [.prim, .prim] }]
  let h2 : Heap := [{ rc := 2, ch := [.prim, .prim] }]
  let s4 : St := { St.init with c := { heap := h1, refs := 3 }, frames := [{ own := some [.arr 0], isScript := true, retCount := 1 }] }
  let s5 : St := { St.init with c := { heap := h2, refs := 4 }, frames := [{ own := some [.arr 0, .arr 0], isScript := true, retCount := 1 }] }
  have a0 : Acyclic ([] : Heap) := acyclic_of_prims _ (by intro j x hx; simp [chOf] at hx)
  have a1 : Acyclic ([{ rc := 1, ch := [.prim, .prim] }] : Heap) := acyclic_of_prims _ (by
    intro j x hx
    cases j with
    | zero => simpa [chOf] using hx
    | succ j => simp [chOf] at hx)
  have a2 : Acyclic ([{ rc := 2, ch := [.prim, .prim] }] : Heap) := acyclic_of_prims _ (by
    intro j x hx
    cases j with
    | zero => simpa [chOf] using hx
    | succ j => simp [chOf] at hx)
  have r1 : RunExact s1 := step1 St.init (.s (.generic 0 1)) s1 (by
    simp [s1, step, exec, execS, St.init, St.w, St.setW, St.cur, St.setCur, curOf, setCurOf, ok, W.popN, W.pushPrims, W.push,
      Ctr.add, addW, Item.cid, maxStackSize]) a0 RunExact.init
  have r2 : RunExact s2 := step1 s1 (.s (.generic 0 1)) s2 (by
    simp [s1, s2, step, exec, execS, St.init, St.w, St.setW, St.cur, St.setCur, curOf, setCurOf, ok, W.popN, W.pushPrims, W.push,
      Ctr.add, addW, Item.cid, maxStackSize]) a0 r1
  have r3 : RunExact s3 := step1 s2 (.s (.generic 0 1)) s3 (by
    simp [s2, s3, step, exec, execS, St.init, St.w, St.setW, St.cur, St.setCur, curOf, setCurOf, ok, W.popN, W.pushPrims, W.push,
      Ctr.add, addW, Item.cid, maxStackSize]) a0 r2
  have r4 : RunExact s4 := step1 s3 (.s (.pack .arr 2)) s4 (by
    simp [s3, s4, h1, step, exec, execS, St.init, St.w, St.setW, St.cur, St.setCur, curOf, setCurOf, ok, okW, W.pop, W.alloc,
      W.setHeap, W.pushNoRef, W.addRefs, Kind.mk, Ctr.rem, remW, Item.cid, maxStackSize]) a0 r3
  have r5 : RunExact s5 := step1 s4 (.s .dup) s5 (by
    simp [s4, s5, h1, h2, step, exec, execS, St.init, St.w, St.setW, St.cur, St.setCur, curOf, setCurOf, ok, okW, W.push,
      Ctr.add, addW, Item.cid, rcOf, incRC, maxStackSize]) a1 r4
  refine ⟨s5, r5, a2, rfl, ?_⟩
  simp [s5, h2, St.init, St.reach, reachFrom, St.roots, Frame.roots, slotItems, walk, Item.cid, chOf, childSum]

/-! ## the two places where the implementation broke the property (both repaired) -/

/-- DESIGN §6 item 8 as an instruction stream of the model: caller `TRY SYSCALL(load callee)`,
callee `PUSH1 PUSH2 PUSH3 PUSH0 THROW`, the caller's CATCH receives the exception. -/
def unwindWitness : List (Op × Option (Nat × Bool)) :=
  [(.nop, none), (.load 0 0, none), (.s (.generic 0 1), none), (.s (.generic 0 1), none), (.s (.generic 0 1), none),
   (.s (.generic 0 1), none), (.throw_, some (1, true))]

/-- the run that exposed the defect `unwind-across-estack`, on the repaired model: after the exception
crossed a context that owned its evaluation stack, counter = walk = 1 (it was 4 vs 1 before 65b0965). -/
theorem unwind_witness_after_fix :
    (runOps St.init unwindWitness).map (fun s => (s.c.refs, s.reach, s.c.heap.length)) = some (1, 1, 0) := by
  simp [runOps, unwindWitness, step, exec, execS, St.init, St.w, St.setW, St.cur, St.setCur, curOf, setCurOf, ok, W.popN,
    W.pushPrims, W.push, W.pop, Ctr.add, Ctr.rem, Ctr.addAll, Ctr.remAll, addW, remW, Item.cid, unwind, unwindFrames,
    unloadSlots, slotItems, St.reach, reachFrom, St.roots, Frame.roots, walk, childSum, maxStackSize, maxInvocationStackSize]

/-- the OLD rule of `handleException` (before 65b0965): contexts are unloaded, nothing is removed from a
dropped evaluation stack. Kept only for the regression example below. -/
def unwindFramesOld : Nat → List Frame → Ctr → Option (List Frame × Ctr)
  | 0, fs, c => some (fs, c)
  | _ + 1, [], _ => none
  | k + 1, f :: fs, c => unwindFramesOld k fs (unloadSlots f c)

/-- regression example about the old rule (the former FINDING `unwind-across-estack`): unloading the
callee of the witness (three items left on its own stack) under the old rule leaves the counter at 3 with
nothing of it reachable; the current rule brings it to 0. -/
theorem refs_exact_fails_on_unwind :
    (unwindFramesOld 1 [{ own := some [.prim, .prim, .prim], isScript := true, retCount := 1 }, { own := some [], isScript := true, retCount := 1 }]
      { heap := [], refs := 3 }).map (fun p => (p.1.length, p.2.refs)) = some (1, 3) ∧
    (unwindFrames 1 [{ own := some [.prim, .prim, .prim], isScript := true, retCount := 1 }, { own := some [], isScript := true, retCount := 1 }]
      { heap := [], refs := 3 }).map (fun p => (p.1.length, p.2.refs)) = some (1, 0) := by
  constructor <;> simp [unwindFramesOld, unwindFrames, unloadSlots, slotItems, Ctr.remAll, remW, Item.cid]

theorem acyclic_nil : Acyclic ([] : Heap) := ⟨fun _ => 0, fun j x hx => by simp [chOf] at hx⟩

/-! ### evaluation stacks shared between contexts, invocation depth -/

/-- **shared_stack_unwind.** Which evaluation stacks are shared: CALL* never gives the callee its own
evaluation stack, a loaded script shares the caller's stack exactly when it is loaded with rvcount = −1
and the caller's stack is empty after the arguments were taken (vm.go:490), and an exception that
crosses only contexts sharing the handler's stack drops nothing (stacks OWNED by dropped contexts are
cleared): the handler continues on the thrower's
stack with the callee's items still there (counted and reachable), under the exception if it is a
CATCH. -/
theorem shared_stack_unwind :
    (∀ (s : St) (pops : Nat) (r : Res), exec (.call pops) s = some r → ∃ f rest, r.s.frames = f :: rest ∧ f.own = none) ∧
    (∀ (s : St) (mode nargs : Nat) (r : Res), exec (.load mode nargs) s = some r →
      ∃ f rest, r.s.frames = f :: rest ∧ (f.own = none ↔ (mode ≠ 0 ∧ s.cur.length = nargs))) ∧
    (∀ (s s' : St) (x : Item) (k : Nat) (c : Bool), unwind s x k c = some s' → (∀ f ∈ s.frames.take k, f.own = none) →
      s'.cur = (if c then x :: s.cur else s.cur)) :=
  ⟨fun _ _ _ h => call_shares h, fun _ _ _ _ h => load_shares_iff h, fun _ _ _ _ _ h hs => unwind_shared h hs⟩

/-- the corpus case `unwind-shared-estack` as an instruction stream: the callee (loaded with rvcount −1
on an empty caller stack) pushes four items and throws the top one; the caller's CATCH finds the three
others under the exception, everything counted and reachable: 4 = 4. -/
def sharedWitness : List (Op × Option (Nat × Bool)) :=
  [(.nop, none), (.load 1 0, none), (.s (.generic 0 1), none), (.s (.generic 0 1), none), (.s (.generic 0 1), none),
   (.s (.generic 0 1), none), (.throw_, some (1, true))]

theorem shared_witness :
    (runOps St.init sharedWitness).map (fun s => (s.c.refs, s.reach, s.cur.length)) = some (4, 4, 4) := by
  simp [runOps, sharedWitness, step, exec, execS, St.init, St.w, St.setW, St.cur, St.setCur, curOf, setCurOf, ok, W.popN,
    W.pushPrims, W.push, W.pop, Ctr.add, Ctr.rem, Ctr.addAll, Ctr.remAll, addW, remW, Item.cid, unwind, unwindFrames,
    unloadSlots, slotItems, St.reach, reachFrom, St.roots, Frame.roots, walk, childSum, maxStackSize, maxInvocationStackSize]

/-- **acct_depth.** The invocation depth is an invariant of the accounting machine (the one tied to
the real VM instruction by instruction): in every reachable state it is at most MaxInvocationStackSize
and, until the machine halts, at least 1; and every step meets what `Eff.okFor` of the abstract priced
machine assumes about depths: a step that does not halt leaves 1 ≤ depth ≤ maxDepth, only a RET at
depth 1 halts, no step raises the depth by more than one. -/
theorem acct_depth (s : St) (h : Run s) :
    s.depth ≤ maxInvocationStackSize ∧ (s.halted = true ∨ 1 ≤ s.depth) ∧
    ∀ (op : Op) (unw : Option (Nat × Bool)) (ext : Bool) (s' : St), step s op unw ext = some s' →
      (s'.halted = false → 1 ≤ s'.depth ∧ s'.depth ≤ VmGas.maxDepth) ∧ (s'.halted = true → op = .ret ∧ s.depth = 1) ∧
        s'.depth ≤ s.depth + 1 :=
  ⟨(run_depth h).1, (run_depth h).2, fun _ _ _ _ hs => acct_eff_ok h hs⟩

/-- non-vacuity: `CALL` from the entry context reaches depth 2, the two RETs halt the machine from depth 1 -/
example : (runOps St.init [(.call 0, none), (.ret, none), (.ret, none)]).map (fun s => (s.depth, s.halted)) = some (0, true) ∧
    (runOps St.init [(.call 0, none)]).map (fun s => s.depth) = some 2 := by
  constructor <;>
  simp [runOps, step, exec, St.init, St.w, St.setW, St.cur, St.setCur, curOf, setCurOf, ok, W.popN, unloadSlots, slotItems,
    Ctr.remAll, remW, St.depth, maxStackSize, maxInvocationStackSize]

/-- the corpus case `map-remove-cyclic` as an instruction stream of the model: `m[1] = [m]`, all
other references dropped, then `REMOVE(m, 1)`. -/
def mapRemoveWitness : List (Op × Option (Nat × Bool)) :=
  [(.initslot 2 0, none), (.s (.newEmpty .map), none), (.st .loc 0, none), (.s (.newEmpty .arr), none), (.st .loc 1, none),
   (.ld .loc 1, none), (.ld .loc 0, none), (.s .append, none),
   (.ld .loc 0, none), (.s (.generic 0 1), none), (.ld .loc 1, none), (.s (.setitem (-1)), none),
   (.s (.generic 0 1), none), (.st .loc 1, none), (.ld .loc 0, none), (.s (.generic 0 1), none), (.st .loc 0, none),
   (.s (.generic 0 1), none), (.s (.remove 0), none)]

/-- The run that exposed the defect `under-count-after-REMOVE` (REMOVE of a Map entry whose value
leads back to the map; the key used to be discounted twice: counter 1 with 2 items reachable).
vm.go now detaches the entry before discounting it (fix commit 9265597), the model follows, and the
run is an ordinary covered run: counter = walk = 2. -/
theorem map_remove_run_after_fix :
    (runOps St.init mapRemoveWitness).map (fun s => (s.c.refs, s.reach)) = some (2, 2) := by
  simp [runOps, mapRemoveWitness, step, exec, execS, St.init, St.w, St.setW, St.cur, St.setCur, curOf, setCurOf, ok, okW, W.popN,
    W.pushPrims, W.push, W.pop, W.popNoRef, W.alloc, W.setHeap, W.cloneIfStruct, setitemTail, Ctr.add, Ctr.rem, addW, remW, Item.cid,
    slotGet, slotSet, slotItems, Kind.mk, rcOf, chOf, incRC, decRC, setCh,
    St.reach, reachFrom, St.roots, Frame.roots, walk, childSum, maxStackSize]

/-! ## Part 2: termination and gas (abstract priced machine, Model/VmAcct/Gas.lean) -/

open NeoModel.VmGas in
/-- generated fact: every valid opcode except RET, SYSCALL, ABORT, ABORTMSG has a price
coefficient ≥ 1 (`decide` over the table regenerated from pkg/core/fee/opcode.go on every run). -/
theorem price_pos (op : Nat) (hv : isValidOp op = true) (h1 : op ≠ opRET) (h2 : op ≠ opSYSCALL) (h3 : op ≠ opABORT)
    (h4 : op ≠ opABORTMSG) : 1 ≤ coeff op := VmGas.price_pos op hv h1 h2 h3 h4

open NeoModel.VmGas in
/-- **total.** Under any gas limit and any price base ≥ 1, for every sequence of instructions and
of their (data-dependent) effects, the machine has left the running state — HALT or FAULT — after
at most `(limit + 1) · (MaxInvocationStackSize + 1) + 2` steps: every instruction that is not RET
costs at least one unit (`price_pos`; SYSCALL through its handler, assumption `1 ≤ charge`), RET
lowers the invocation depth, and `gstep` is a total function. -/
theorem total (cfg : Cfg) (hb : 1 ≤ cfg.base) (sch : Sched) (hv : ∀ i, (sch i).2.okFor (sch i).1) :
    (run cfg sch ((cfg.limit + 1) * (maxDepth + 1) + 2) {}).status ≠ .running := by
  apply run_terminates cfg hb _ sch {} hv
  · exact ⟨fun _ => Nat.zero_le _, fun _ => ⟨Nat.le_refl _, by decide⟩⟩
  · simp [mu]

open NeoModel.VmGas in
/-- **gas_bound.** Whenever the machine is in HALT (or still running) it has not consumed more than
the limit: the price is added and compared BEFORE the instruction executes (vm.go:740-746), and a
SYSCALL's own charge is compared again (AddGas). -/
theorem gas_bound (cfg : Cfg) (hb : 1 ≤ cfg.base) (sch : Sched) (hv : ∀ i, (sch i).2.okFor (sch i).1) (n : Nat)
    (hh : (run cfg sch n {}).status = .halt) : (run cfg sch n {}).gas ≤ cfg.limit := by
  have := run_ok cfg hb n sch {} hv ⟨fun _ => Nat.zero_le _, fun _ => ⟨Nat.le_refl _, by decide⟩⟩
  exact this.gas (by rw [hh]; decide)

set_option maxRecDepth 50000 in
open NeoModel.VmGas in
/-- non-vacuity: `PUSH1 (0x11), RET` under limit 5, base 5 halts having consumed exactly the limit;
under limit 4 it faults. -/
example : (run { limit := 5, base := 5 } (fun i => if i = 0 then (0x11, .cont 1) else (0x40, .ret)) 2 {}).status = .halt ∧
    (run { limit := 5, base := 5 } (fun i => if i = 0 then (0x11, .cont 1) else (0x40, .ret)) 2 {}).gas = 5 ∧
    (run { limit := 4, base := 5 } (fun i => if i = 0 then (0x11, .cont 1) else (0x40, .ret)) 2 {}).status = .fault := by
  decide

open NeoModel.VmGas in
/-- **check_order.** The link of the abstract machine to vm.go: (a) the order of its phases — price,
add to the consumed gas, compare with the limit, execute (PUSHINT* fast path or the opcode switch),
then the deferred recover and size check — IS the order of vm.execute in the current source (table
Generated/VmOrder.lean, regenerated with go/ast on every run: statements of the body in source order,
the charging block flattened, the deferred function last); (b) `gstep` is the interpretation of that
ordered list; (c) the comparison that raises "gas limit exceeded" is the source's operator. -/
theorem check_order :
    order.map Phase.name = Generated.VmOrder.executeSeq ∧
    (∀ cfg g op e, gstep cfg g op e = gstepWith order cfg g op e) ∧
    (∀ (cfg : Cfg) (g : G) (op : Nat) (e : Eff), g.status = .running →
      cmpOf Generated.VmOrder.gasCompareOp (g.gas + cfg.base * coeff op : Nat) cfg.limit = true → (gstep cfg g op e).status = .fault) :=
  ⟨order_eq_table, gstep_eq_order, fun cfg g op e hr => (gas_check_tied cfg g op e hr).1⟩

open NeoModel.VmGas in
/-- **limit_readings.** What "passing the check" means for each limit, with the operator and the
position the source has now: size check `v.refs > MaxStackSize` deferred (after the instruction, only
without a panic) ⇒ refs ≤ 2048; `len(v.istack) >= MaxInvocationStackSize` first in `call` /
`loadScriptWithCallingHash`, before the append ⇒ depth ≤ 1024 after the push;
`ctx.tryStack.Len() >= MaxTryNestingDepth` before the push ⇒ try depth ≤ 16 after it. -/
theorem limit_readings (a lim : Int) :
    (cmpOf Generated.VmOrder.sizeCheckOp a lim = false ↔ a ≤ lim) ∧
    (cmpOf Generated.VmOrder.depthCheckOp a lim = false ↔ a + 1 ≤ lim) ∧
    (cmpOf Generated.VmOrder.tryCheckOp a lim = false ↔ a + 1 ≤ lim) ∧
    Generated.VmOrder.sizeCheckOnlyWithoutPanic = true ∧ Generated.VmOrder.tryCheckBeforePush = true :=
  ⟨(size_check_reading a lim).2.2.2, (depth_check_reading a lim).2.2.2, (try_check_reading a lim).2.2.2, rfl, rfl⟩

/-! ### gas inside the machine that is tied to the real VM, and its refinement to the abstract machine -/

open NeoModel.VmGas in
/-- **acct_gas_bound.** The accounting machine with gas (`gasStep`: tied to the real VM instruction by
instruction, the consumed gas is an observation and the FAULT "gas limit exceeded" is predicted by the
model) never reaches a state — HALT included — with more gas consumed than the limit. -/
theorem acct_gas_bound (L base : Nat) (g : GSt) (n : Nat) (h : GRun L base g n) : g.gas ≤ L := VmAcct.acct_gas_bound h

open NeoModel.VmGas in
/-- **acct_refines.** Projected to (gas, depth, status), every successful instruction of that machine IS
one step of the abstract priced machine of `total` / `gas_bound`, with an explicit effect that satisfies
`Eff.okFor` (hypothesis `Compat`: the opcode byte fits the instruction — RET iff 0x40, valid opcode — and
a SYSCALL handler charges at least 1). -/
theorem acct_refines (g g' : GSt) (L b burn : Nat) (op : Op) (unw : Option (Nat × Bool)) (ext : Bool) (hr : Run g.s)
    (hL : g.limit = some L) (hc : Compat b op burn) (h : gasStep g b op burn unw ext = some g') :
    gstep { limit := L, base := g.base } g.proj b (effOf op b burn g') = g'.proj ∧ (effOf op b burn g').okFor b :=
  ⟨(acct_sim hr hL hc h).1, acct_eff_okFor hr hc h⟩

open NeoModel.VmGas in
/-- **acct_total.** Hence the termination bound holds for the tied machine itself: under a gas limit L and
a price base ≥ 1 no sequence of successfully executed instructions is longer than
(L+1)·(MaxInvocationStackSize+1)+1. -/
theorem acct_total (L base : Nat) (hb : 1 ≤ base) (g : GSt) (n : Nat) (h : GRun L base g n) :
    n ≤ (L + 1) * (maxDepth + 1) + 1 := (VmAcct.acct_total hb h).1

set_option maxRecDepth 50000 in
open NeoModel.VmGas in
/-- non-vacuity: `PUSH1` (0x11) under limit 5, base 5 is such a run and consumes exactly the limit; under
limit 4 the model faults before executing it. -/
example : (∃ g, GRun 5 5 g 1 ∧ g.gas = 5) ∧ gasStep { limit := some 4, base := 5 } 0x11 (.s (.generic 0 1)) 0 none false = none := by
  constructor
  · have hc : Compat 0x11 (.s (.generic 0 1)) 0 :=
      ⟨by decide, ⟨fun h => by simp [Op.isRet] at h, fun h => by simp [opRET] at h⟩, fun h => by simp [opSYSCALL] at h, fun h => absurd rfl h⟩
    have hs : gasStep { limit := some 5, base := 5 } 0x11 (.s (.generic 0 1)) 0 none false =
        some { s := { St.init with c := { heap := [], refs := 1 }, frames := [{ own := some [.prim], isScript := true, retCount := 1 }] },
               gas := 5, limit := some 5, base := 5 } := by
      have hcoeff : coeff 0x11 = 1 := by decide
      simp [gasStep, overLimit, isAbortOp, opABORT, opABORTMSG, hcoeff, step, exec, execS, St.init, St.w, St.setW, St.cur, St.setCur, curOf, setCurOf,
        ok, W.popN, W.pushPrims, W.push, Ctr.add, addW, Item.cid, maxStackSize]
    exact ⟨_, GRun.step 0x11 _ 0 none false GRun.init hc hs, rfl⟩
  · have hcoeff : coeff 0x11 = 1 := by decide
    simp [gasStep, overLimit, hcoeff]

/-! ### try stacks inside the machine that is tied to the real VM -/

/-- **try_depth.** The try machine (`tstep`: one try stack per context, TRY / ENDTRY / ENDFINALLY as vm.go
has them, the exception handler found by the model's own `findHandler` — compared with what the real VM
did on every raising instruction — on top of the accounting machine with gas) never reaches a state in
which a try stack has more than MaxTryNestingDepth = 16 entries; and its accounting state is a `Run`
state, so every theorem above applies to the states it reaches. -/
theorem try_depth (t : TSt) (h : TRun t) : (∀ st ∈ t.tries, st.length ≤ maxTryNestingDepth) ∧ Run t.g.s :=
  VmAcct.try_depth h

/-- non-vacuity: a context with 16 open TRY blocks — the 17th TRY is a FAULT predicted by the model, the
16 are within the bound; and the handler search: an exception raised two contexts above a TRY with a
CATCH unloads 2 contexts and delivers it (k = 2, c = true). -/
example : tryBad { tries := [List.replicate 16 { hasCatch := true, hasFinally := false }] } .nop (.try_ true false) = true ∧
    tryBad { tries := [List.replicate 15 { hasCatch := true, hasFinally := false }] } .nop (.try_ true false) = false ∧
    (findHandler [[], [], [{ hasCatch := true, hasFinally := false }]] 0).map (fun r => (r.1, r.2.1)) = some (2, true) := by
  decide

/-- **try_aligned.** In every state the try machine reaches there is exactly one try stack per context of
the invocation stack: CALL* / script loading push an empty one, RET and exception unwinding drop exactly
the ones of the unloaded contexts (`findHandler` returns `k` and the try stacks of the remaining
contexts; `unwind` removes `k` frames). So the model's handler search walks the contexts that
`handleException` walks — an invariant now, not only a tie by comparing outcomes. (The model faults on a
TRY / ENDTRY kind attached to anything but the plain instruction: `topBad`.) -/
theorem try_aligned (t : TSt) (h : TRun t) : t.tries.length = t.g.s.frames.length := VmAcct.try_aligned h

open NeoModel.VmGas in
/-- **acct_total_z.** The termination bound WITHOUT the assumption "every SYSCALL handler charges ≥ 1":
exactly seven system calls of the regenerated table have price 0 (`zero_priced_interops`), all others
charge price · BaseExecFee ≥ 1. A zero-charge SYSCALL leaves the gas alone and raises the depth by at
most one, so after `n` successful instructions, `z` of them zero-charge SYSCALLs,
n ≤ (L+1)·(MaxInvocationStackSize+1) + 1 + 2·z. Only "the opcode byte fits the instruction" is assumed. -/
theorem acct_total_z (L base : Nat) (hb : 1 ≤ base) (g : GSt) (n z : Nat) (h : GRunZ L base g n z) :
    n ≤ (L + 1) * (maxDepth + 1) + 1 + 2 * z := (VmAcct.acct_total_z hb h).1

set_option maxRecDepth 50000 in
open NeoModel.VmGas in
/-- non-vacuity: a zero-charge SYSCALL (the harness's `push`) under limit 5 is a counted step of such a run:
n = 1, z = 1, gas still 0. -/
example : ∃ g, GRunZ 5 5 g 1 1 ∧ g.gas = 0 := by
  have hc : CompatZ 0x41 (.s (.generic 0 1)) 0 :=
    ⟨by decide, ⟨fun h => by simp [Op.isRet] at h, fun h => by simp [opRET] at h⟩, fun h => absurd rfl h⟩
  have hs : gasStep { limit := some 5, base := 5 } 0x41 (.s (.generic 0 1)) 0 none false =
      some { s := { St.init with c := { heap := [], refs := 1 }, frames := [{ own := some [.prim], isScript := true, retCount := 1 }] },
             gas := 0, limit := some 5, base := 5 } := by
    have hcoeff : coeff 0x41 = 0 := coeff_syscall
    simp [gasStep, overLimit, isAbortOp, opABORT, opABORTMSG, hcoeff, step, exec, execS, St.init, St.w, St.setW, St.cur, St.setCur, curOf, setCurOf,
      ok, W.popN, W.pushPrims, W.push, Ctr.add, addW, Item.cid, maxStackSize]
  exact ⟨_, GRunZ.step 0x41 _ 0 none false GRunZ.init hc hs, rfl⟩

/-! ## Part 3: the static script check (Model/ScriptCheck.lean) -/

open NeoModel.ScriptCheck in
/-- **boundaries.** If a script passes `isScriptCorrect` (scparser.IsScriptCorrect), then along
every control-flow path — next instruction, JMP*/CALL*/ENDTRY* targets, a return to a saved return
address, CALLA through any pointer made by PUSHA, a jump to any registered CATCH/FINALLY/END
offset — the instruction pointer is an instruction boundary of the script or its length. -/
theorem boundaries (p : Prog) (hc : isScriptCorrect p = true) :
    ∃ bs, ScriptCheck.boundaries p = some bs ∧ ∀ s, Reach p s → s.ip ∈ bs ∨ s.ip = p.length := by
  obtain ⟨bs, hb, h⟩ := boundaries_inv p hc
  exact ⟨bs, hb, fun s hr => (h s hr).ip⟩

set_option maxRecDepth 50000 in
open NeoModel.ScriptCheck in
/-- non-vacuity: `PUSH1 JMP +3 ABORT RET` passes the check with boundaries 0,1,3,4; the same script
with `JMP +2`... is rejected when the target is moved into the middle of `PUSHINT16`. -/
example : isScriptCorrect [0x11, 0x22, 0x03, 0x38, 0x40] = true ∧
    ScriptCheck.boundaries [0x11, 0x22, 0x03, 0x38, 0x40] = some [0, 1, 3, 4] ∧
    isScriptCorrect [0x22, 0x03, 0x01, 0x07, 0x00, 0x40] = false := by
  decide

end NeoModel.C12

namespace NeoModel.C12

/-! ## Part 4: the same theorems for the executable NeoVM specification `NeoModel.Vm`
(Model/Vm/Machine.lean: `step`, `run`, `Cfg.price`; the machine that C13 ties to the real VM
instruction by instruction). -/

open NeoModel.Vm in
/-- the regenerated price table satisfies the hypothesis of `spec_total` / `spec_gas_bound` for any
base ≥ 1: every valid opcode except RET, SYSCALL, ABORT, ABORTMSG has price ≥ 1 -/
theorem spec_price_ok (base : Nat) (hb : 1 ≤ base) : PriceOk (tablePrice base) := tablePrice_ok base hb

open NeoModel.Vm in
/-- **total, for the specification machine.** For every program, arguments, initial heap, gas limit
`L` and price getter `p` with `PriceOk p`, the run of `NeoModel.Vm` is in HALT or FAULT after at
most `(L + 1) · (MaxInvocationStackSize + 1) + 2` steps. Hypotheses on `Cfg`: a price getter is
set (`cfg.price = some p`) and `PriceOk p`; on the machine: a gas limit is set (`some L`).
(RET: price 0 in the table, lowers the depth or halts; SYSCALL, ABORT, ABORTMSG: price 0, FAULT in
this machine; the implicit RET past the end of the script is not charged.) -/
theorem spec_total (cfg : Cfg) (p : UInt8 → Nat) (hp : cfg.price = some p) (hpos : PriceOk p)
    (prog : Array UInt8) (args : List Item) (L : Nat) (heap : Heap) :
    (run cfg ((L + 1) * (maxInvocationStackSize + 1) + 2) (Vm.load prog args (some L) heap)).state = .halt ∨
    (run cfg ((L + 1) * (maxInvocationStackSize + 1) + 2) (Vm.load prog args (some L) heap)).state = .fault := by
  obtain ⟨hg, hmu⟩ := load_good prog args L heap
  have hstop := run_stops cfg p hp hpos L ((L + 1) * (maxInvocationStackSize + 1) + 1) _ hg (Nat.le_of_eq hmu)
  have hgood := run_good cfg p hp hpos L ((L + 1) * (maxInvocationStackSize + 1) + 1 + 1) _ hg
  have hnb := hgood.nobrk
  cases hs : (run cfg ((L + 1) * (maxInvocationStackSize + 1) + 1 + 1) (Vm.load prog args (some L) heap)).state with
  | none => exact absurd hs hstop
  | halt => exact Or.inl rfl
  | fault => exact Or.inr rfl
  | brk => exact absurd hs hnb

open NeoModel.Vm in
/-- **gas_bound, for the specification machine.** After any number of steps, a machine that is in
HALT (or still running) has consumed at most the limit. -/
theorem spec_gas_bound (cfg : Cfg) (p : UInt8 → Nat) (hp : cfg.price = some p) (hpos : PriceOk p)
    (prog : Array UInt8) (args : List Item) (L : Nat) (heap : Heap) (n : Nat)
    (hh : (run cfg n (Vm.load prog args (some L) heap)).state = .halt) :
    (run cfg n (Vm.load prog args (some L) heap)).gas ≤ L :=
  (run_good cfg p hp hpos L n _ (load_good prog args L heap).1).gas (by rw [hh]; decide)

open NeoModel.Vm in
/-- **limits, for the specification machine.** For every price getter and gas limit (set or not):
in every state of the run that has not faulted the invocation depth is ≤ 1024, every try stack has
at most 16 entries and at most 2048 references are reachable (the machine faults on
`reach > MaxStackSize` by construction; the hypothesis is that the loaded arguments respect it).
Integers are within 256 bits by the type of `Item.int` (`Int256` carries the range proof). -/
theorem spec_limits (cfg : Cfg) (prog : Array UInt8) (args : List Item) (gasLimit : Option Nat) (heap : Heap)
    (h0 : reach (Vm.load prog args gasLimit heap) ≤ maxStackSize) (n : Nat) :
    Lim (run cfg n (Vm.load prog args gasLimit heap)) := by
  apply run_lim
  refine ⟨fun _ => by simp [Vm.load, Vm.depth, maxInvocationStackSize], fun _ => ?_, fun _ => h0⟩
  intro f hf
  simp only [Vm.load, List.mem_singleton] at hf
  subst hf
  intro c hc
  simp only [List.mem_singleton] at hc
  subst hc
  simp [maxTryNestingDepth]

open NeoModel.Vm in
/-- **item size, for the specification machine.** For every program, price getter, gas limit (set or
not) and number of steps: if the loaded arguments and the initial heap contain no byte string or
buffer longer than MaxSize (= 131070), then in EVERY state of the run (faulted ones included) every
ByteString item and every Buffer object — on any evaluation stack, in any static / local / argument
slot, inside any Array, Struct or Map (keys and values), in the result stack, pending as uncaught
exception — has at most MaxSize bytes. `VmOk` is that invariant (Proofs/VmAcctSpecSizeRun.lean). It is
preserved by every instruction: the operand of a decoded instruction (PUSHDATA*) is within MaxSize
(`decode_param_size`), CAT and NEWBUFFER check the size of their result, SUBSTR/LEFT/RIGHT/MEMCPY/
SETITEM/REVERSEITEMS on bytes never lengthen anything, CONVERT makes at most 32 bytes from an integer,
the diagnostic message of the catchable out-of-range exception is 39 bytes at most, cloning copies,
and everything else moves items (`execPure_ok`: one lemma per opcode; `exec_size`, `raise_size`,
`step_size`). Integers are within 256 bits by the type of `Item.int`. -/
theorem spec_item_size (cfg : Cfg) (prog : Array UInt8) (args : List Item) (gasLimit : Option Nat) (heap : Heap)
    (ha : StackOk args) (hh : HeapOk heap) (n : Nat) : VmOk (run cfg n (Vm.load prog args gasLimit heap)) :=
  run_size cfg n _ (load_size prog args gasLimit heap ha hh)

open NeoModel.Vm in
/-- the same in plain terms, for the two places the oracle looks at first: every ByteString on the
current evaluation stack and every Buffer of the heap is within MaxSize -/
theorem spec_item_size_estack (cfg : Cfg) (prog : Array UInt8) (args : List Item) (gasLimit : Option Nat) (heap : Heap)
    (ha : StackOk args) (hh : HeapOk heap) (n : Nat) :
    (∀ b, Item.bytes b ∈ (run cfg n (Vm.load prog args gasLimit heap)).estack → b.length ≤ maxItemSize) ∧
    (∀ id b, (run cfg n (Vm.load prog args gasLimit heap)).heap.getBuf id = some b → b.length ≤ maxItemSize) := by
  have ok := spec_item_size cfg prog args gasLimit heap ha hh n
  refine ⟨fun b hb => ?_, fun id b hb => ok.heap.getBuf hb⟩
  unfold Vm.estack at hb
  split at hb
  · rename_i f fs hf
    have := ok.frames f (by rw [hf]; exact List.mem_cons_self ..)
    exact this.1 _ hb
  · exact ok.result _ hb

open NeoModel.Vm in
/-- non-vacuity: the hypotheses hold for an argument list with a byte string and a heap with a buffer;
and the bound is tight: `PUSHINT32 131070 NEWBUFFER` makes a buffer of exactly MaxSize bytes (driver
`vmops`, corpus case `newbuffer-max` of stream `vm`), one more faults (`newbuffer-max+1`). -/
example : StackOk [Item.bytes [1, 2], Item.int ⟨5, by decide⟩] ∧ HeapOk #[HeapObj.buf [3], HeapObj.items [Item.bytes [4]]] := by
  constructor
  · intro x hx
    simp only [List.mem_cons, List.not_mem_nil, or_false] at hx
    rcases hx with rfl | rfl
    · show ([1, 2] : Bytes).length ≤ maxItemSize; decide
    · trivial
  · intro i o ho
    match i with
    | 0 => simp at ho; subst ho; show ([3] : Bytes).length ≤ maxItemSize; decide
    | 1 =>
      simp at ho; subst ho
      intro x hx
      simp only [List.mem_singleton] at hx
      subst hx
      show ([4] : Bytes).length ≤ maxItemSize; decide
    | k + 2 => simp at ho

open NeoModel.Vm in
/-- non-vacuity: the hypotheses are met by the node's own configuration (price table with base 30,
the default ExecFeeFactor), for any program; e.g. for `PUSH1 PUSH2 ADD` under limit 300 the driver
of stream `vmops` prints HALT with gas 300 (= the limit) and FAULT under limit 299. -/
example : ∃ (cfg : Cfg) (p : UInt8 → Nat), cfg.price = some p ∧ PriceOk p ∧
    ((run cfg ((300 + 1) * (maxInvocationStackSize + 1) + 2) (Vm.load #[0x11, 0x12, 0x9E] [] (some 300))).state = .halt ∨
     (run cfg ((300 + 1) * (maxInvocationStackSize + 1) + 2) (Vm.load #[0x11, 0x12, 0x9E] [] (some 300))).state = .fault) :=
  ⟨{ price := some (tablePrice 30) }, tablePrice 30, rfl, spec_price_ok 30 (by decide),
    spec_total _ _ rfl (spec_price_ok 30 (by decide)) _ _ _ _⟩

end NeoModel.C12
