/-
C17 — wire formats round-trip. Property theorems only (helper lemmas live in Proofs/).
-/
import NeoModel.Proofs.WireVarUint
import NeoModel.Proofs.WireCodec
namespace NeoModel.Wire

/-- C17 (var-uint): decode (encode v ++ rest) = (v, rest) for every 64-bit `v`. -/
theorem varuint_roundtrip (v : Nat) (r : Bytes) (h : v < 2 ^ 64) :
    readVarUint (putVarUint v ++ r) = some (v, r) := readVarUint_putVarUint v r h

-- non-vacuity: the hypothesis is met at the top of the range
example : readVarUint (putVarUint (2^64 - 1) ++ [7]) = some (2^64 - 1, [7]) :=
  varuint_roundtrip _ _ (by decide)

/-- C17 (var-uint): the reported size is the length of the encoding (for lengths, i.e. < 2^32). -/
theorem varuint_size_eq (v : Nat) : (putVarUint v).length = (if v ≤ 0xFFFFFFFF then varUintSize v else 9) :=
  putVarUint_length v

end NeoModel.Wire
