/-
C17 — wire formats round-trip; size = length of encoding; identity depends only on content; decoders
terminate and allocate boundedly. Property theorems only (helper lemmas live in Proofs/).

Reading guide. A `Codec α` (Model/Wire/Codec.lean) is the model of one EncodeBinary/DecodeBinary pair; the five
laws of the property are the fields of `Codec.Lawful` plus `Codec.Strict`:
  roundtrip        wf v → dec (enc v ++ r) = some (v, r)
  size_eq          wf v → size v = (enc v).length
  reencode_stable  dec b = some (v, r) → wf v ∧ dec (enc v) = some (v, [])        (from dec_wf + roundtrip)
  dec_consumes     dec b = some (v, r) → r.length < b.length                      (Strict; r is a suffix of b)
  alloc_bounded    alloc b ≤ allocK * b.length + allocC     for EVERY input b     (every count is compared with its
                   cap before the dependent `make`; allocK/allocC are computed from the regenerated caps)
They are proved once per combinator (Proofs/WireCodec.lean); each instance below follows by composition.
`cv : Curve` stands for the elliptic-curve checks of keys.PublicKey (not modelled); the only fact used is
`cv.Sound` (compressing a valid point gives a valid compressed key), an explicit hypothesis.
-/
import NeoModel.Proofs.WireVarUint
import NeoModel.Proofs.WireCodec
import NeoModel.Proofs.WireTx
import NeoModel.Proofs.WireItem
import NeoModel.Proofs.WireMpt
import NeoModel.Proofs.WireNef
import NeoModel.Proofs.WireExec
import NeoModel.Proofs.WireCons
import NeoModel.Proofs.WireP2P
namespace NeoModel.Wire
open Codec
open NeoModel.Generated

/-! ## var-uint -/

/-- C17 (var-uint): decode (encode v ++ rest) = (v, rest) for every 64-bit `v`. -/
theorem varuint_roundtrip (v : Nat) (r : Bytes) (h : v < 2 ^ 64) :
    readVarUint (putVarUint v ++ r) = some (v, r) := readVarUint_putVarUint v r h

-- non-vacuity: the hypothesis is met at the top of the range
example : readVarUint (putVarUint (2^64 - 1) ++ [7]) = some (2^64 - 1, [7]) :=
  varuint_roundtrip _ _ (by decide)

/-- C17 (var-uint): the reported size is the length of the encoding (for lengths, i.e. < 2^32). -/
theorem varuint_size_eq (v : Nat) : (putVarUint v).length = (if v ≤ 0xFFFFFFFF then varUintSize v else 9) :=
  putVarUint_length v

/-- C17 (var-uint): the reader accepts non-minimal forms — the root of the path-dependent transaction hash. -/
theorem varuint_nonminimal_accepted : readVarUint [0xfd, 0x01, 0x00] = some (1, []) ∧ putVarUint 1 = [0x01] := by
  decide

/-! ## the laws, for any lawful codec (used for every instance below) -/

/-- reencode_stable: whatever a lawful decoder accepts is well-formed, and its re-encoding decodes to the same
value with nothing left. -/
theorem codec_reencode_stable {α : Type} (c : Codec α) (h : c.Lawful) (b : Bytes) (v : α) (r : Bytes)
    (hd : c.dec b = some (v, r)) : c.wf v ∧ c.dec (c.enc v) = some (v, []) := h.reencode_stable hd

/-- alloc_bounded: for EVERY input (accepted or not) the memory requested by count-sized `make` calls is at most
`allocK` bytes per input byte plus the constant `allocC`. -/
theorem codec_alloc_bounded {α : Type} (c : Codec α) (h : c.Lawful) (b : Bytes) :
    c.alloc b ≤ c.allocK * b.length + c.allocC := h.alloc_le b

/-- two well-formed values with the same encoding are equal (identity is a function of content). -/
theorem codec_enc_injective {α : Type} (c : Codec α) (h : c.Lawful) (v w : α) (hv : c.wf v) (hw : c.wf w)
    (he : c.enc v = c.enc w) : v = w := h.enc_inj hv hw he

/-! ## instances: witness, condition, rule, signer, attribute -/

/-- C17 (witness): all laws. -/
theorem witness_lawful : witnessC.Lawful ∧ witnessC.Strict := ⟨witnessC_lawful, witnessC_strict⟩

example : witnessC.dec (witnessC.enc ⟨[1, 2], [3]⟩ ++ [9]) = some (⟨[1, 2], [3]⟩, [9]) := by rfl

/-- C17 (witness condition, nesting depth `d`): all laws, for every depth. -/
theorem cond_lawful (cv : Curve) (hs : cv.Sound) (d : Nat) : (condC cv d).Lawful ∧ (condC cv d).Strict :=
  ⟨condC_lawful cv hs d, condC_strict cv hs d⟩

/-- a curve predicate that accepts everything: meets `Curve.Sound` (non-vacuity of the hypothesis). -/
def anyCurve : Curve := ⟨fun _ => true, fun _ _ => true⟩
theorem anyCurve_sound : anyCurve.Sound := fun _ _ _ _ _ => rfl

-- non-vacuity + the depth bound: three levels decode, four do not (MaxConditionNesting = 3)
example : (condC anyCurve WireLimits.maxConditionNesting).dec [1, 1, 0, 1]
    = some (.not (.not (.bool true)), []) := by rfl
example : (condC anyCurve WireLimits.maxConditionNesting).dec [1, 1, 1, 0, 1] = none := by rfl

/-- C17 (witness rule): all laws. -/
theorem rule_lawful (cv : Curve) (hs : cv.Sound) : (ruleC cv).Lawful ∧ (ruleC cv).Strict :=
  ⟨ruleC_lawful cv hs, ruleC_strict cv hs⟩

/-- C17 (signer): all laws. -/
theorem signer_lawful (cv : Curve) (hs : cv.Sound) : (signerC cv).Lawful ∧ (signerC cv).Strict :=
  ⟨signerC_lawful cv hs, signerC_strict cv hs⟩

/-- C17 (attribute): all laws. -/
theorem attr_lawful : attrC.Lawful ∧ attrC.Strict := ⟨attrC_lawful, attrC_strict⟩

example : attrC.dec [0x20, 5, 0, 0, 0] = some (⟨0x20, .notValidBefore 5⟩, []) := by rfl

/-! ## transaction -/

/-- C17 (transaction) roundtrip. -/
theorem tx_roundtrip (cv : Curve) (hs : cv.Sound) (t : Tx) (r : Bytes) (hw : (txC cv).wf t) :
    (txC cv).dec ((txC cv).enc t ++ r) = some (t, r) := (txC_lawful cv hs).roundtrip t r hw

/-- C17 (transaction) size = length of the encoding. -/
theorem tx_size_eq (cv : Curve) (hs : cv.Sound) (t : Tx) (hw : (txC cv).wf t) :
    (txC cv).size t = ((txC cv).enc t).length := (txC_lawful cv hs).size_eq t hw

/-- C17 (transaction) an accepted input gives a well-formed value whose re-encoding decodes to it. -/
theorem tx_reencode_stable (cv : Curve) (hs : cv.Sound) (b : Bytes) (t : Tx) (r : Bytes)
    (hd : (txC cv).dec b = some (t, r)) : (txC cv).wf t ∧ (txC cv).dec ((txC cv).enc t) = some (t, []) :=
  (txC_lawful cv hs).reencode_stable hd

/-- C17 (transaction) decoding consumes input strictly. -/
theorem tx_dec_consumes (cv : Curve) (hs : cv.Sound) (b : Bytes) (t : Tx) (r : Bytes)
    (hd : (txC cv).dec b = some (t, r)) : r.length < b.length := txC_strict cv hs b t r hd

/-- C17 (transaction) allocation while decoding ANY input is linear in the input plus a constant. -/
theorem tx_alloc_bounded (cv : Curve) (hs : cv.Sound) (b : Bytes) :
    (txC cv).alloc b ≤ (txC cv).allocK * b.length + (txC cv).allocC := (txC_lawful cv hs).alloc_le b

/-- … and with the caps and element sizes the current source has, the constants are small: at most 256 bytes
per input byte (slice elements), and a constant below 2 × io.MaxArraySize (it is dominated by the
default cap of a Reserved attribute's ReadVarBytes). Re-checked against the regenerated table. -/
theorem tx_alloc_constants (cv : Curve) :
    (txC cv).allocK ≤ 256 ∧ (txC cv).allocC ≤ 2 * WireLimits.maxArraySize :=
  ⟨txC_allocK_le cv, txC_allocC_le cv⟩

/-- the smallest valid transaction: 1 signer (CalledByEntry), script 0x51, empty witness. -/
def tx0 : Tx :=
  ⟨⟨0, 7, 1, 2, 9, [⟨[1,2,3,0,0,0,0,0,0,0,0,0,0,0,0,0,0,0,0,0], 1, [], [], []⟩], [], [0x51]⟩, [⟨[], []⟩]⟩

def tx0Bytes : Bytes := (txC anyCurve).enc tx0

/-- the same content with the number of signers written as `fd 01 00` (DESIGN §6 item 12). -/
def tx0NonMinimal : Bytes := tx0Bytes.take 25 ++ [0xfd, 0x01, 0x00] ++ tx0Bytes.drop 26

theorem tx0_decodes : (txC anyCurve).dec tx0NonMinimal = some (tx0, []) := by rfl

-- non-vacuity of the hypotheses of the transaction theorems: tx0 is well-formed
example : (txC anyCurve).wf tx0 := (txC_lawful anyCurve anyCurve_sound).dec_wf _ _ _ tx0_decodes
example : (txC anyCurve).dec (tx0Bytes ++ [1]) = some (tx0, [1]) :=
  tx_roundtrip anyCurve anyCurve_sound tx0 [1] ((txC_lawful anyCurve anyCurve_sound).dec_wf _ _ _ tx0_decodes)

/-
hash_path_independent, full statement (FALSE on the unchanged tree):
  ∀ H b t, (txC cv).dec b = some (t, []) →
     txFromBytes H cv b = some (t, h₁, n₁) → txFromStream H cv b = some (t, h₂, n₂, []) → h₁ = h₂ ∧ n₁ = n₂
NewTransactionFromBytes hashes (and sizes) the received bytes, DecodeBinary the re-encoding, and the decoder accepts
encodings that are not the canonical one (non-minimal var-uints, uncompressed keys, bool bytes ≠ 0/1).
Proved below: the negation on a concrete witness, and the statement for canonical input.
-/

/-- C17 (transaction) identity and size do not depend on the path WHEN the bytes are the canonical encoding. -/
theorem tx_hash_path_independent_partial (H : Bytes → Bytes) (cv : Curve) (hs : cv.Sound) (t : Tx)
    (hw : (txC cv).wf t) :
    txFromBytes H cv ((txC cv).enc t)
        = some (t, H ((txBodyC cv).enc t.body), ((txC cv).enc t).length)
    ∧ txFromStream H cv ((txC cv).enc t)
        = some (t, H ((txBodyC cv).enc t.body), (txC cv).size t, [])
    ∧ (txC cv).size t = ((txC cv).enc t).length := by
  have hr := (txC_lawful cv hs).roundtrip t [] hw
  simp only [List.append_nil] at hr
  have henc : (txC cv).enc t = (txBodyC cv).enc t.body ++ (txWitnessesC t.body.signers.length).enc t.witnesses := rfl
  have hb : (txBodyC cv).dec ((txC cv).enc t)
      = some (t.body, (txWitnessesC t.body.signers.length).enc t.witnesses) := by
    rw [henc]; exact (txBodyC_lawful cv hs).roundtrip _ _ hw.1.1
  refine ⟨?_, ?_, (txC_lawful cv hs).size_eq t hw⟩
  · simp only [txFromBytes, hr, hb]
    congr 3
    rw [henc]; simp
  · simp only [txFromStream, hr]

/-- C17 (transaction) NEGATION of hash_path_independent on the unchanged tree: the bytes `tx0NonMinimal` decode
to `tx0` on both paths, but for every injective hash the two paths report different hashes, and different sizes
(55 vs 53). -/
theorem tx_hash_path_dependent (H : Bytes → Bytes) (hinj : ∀ x y, H x = H y → x = y) :
    ∃ h₁ n₁ h₂ n₂,
      txFromBytes H anyCurve tx0NonMinimal = some (tx0, h₁, n₁)
      ∧ txFromStream H anyCurve tx0NonMinimal = some (tx0, h₂, n₂, [])
      ∧ h₁ ≠ h₂ ∧ n₁ ≠ n₂ := by
  refine ⟨H (tx0NonMinimal.take 52), 55, H ((txBodyC anyCurve).enc tx0.body), 53, by rfl, by rfl, ?_, by decide⟩
  intro he
  have := hinj _ _ he
  revert this
  decide

/-! ## header, block, state root, extensible payload -/

/-- C17 (header; `sr` = StateRootInHeader): all laws. -/
theorem header_lawful (sr : Bool) : (headerC sr).Lawful ∧ (headerC sr).Strict :=
  ⟨headerC_lawful sr, headerC_strict sr⟩

/-- C17 (header) the identity of a header is a function of its decoded content alone (Header.Hash re-encodes
the hashable fields, header.go:96-129): two inputs that decode to the same header have the same hash — also
when the witness count is written non-minimally. -/
theorem header_hash_path_independent (H : Bytes → Bytes) (sr : Bool) (b₁ b₂ : Bytes) (h₁ h₂ : Header) (r₁ r₂ : Bytes)
    (d₁ : (headerC sr).dec b₁ = some (h₁, r₁)) (d₂ : (headerC sr).dec b₂ = some (h₂, r₂)) (he : h₁ = h₂) :
    headerHash H sr h₁ = headerHash H sr h₂ := by
  subst he; rfl

/-- C17 (block): all laws. -/
theorem block_lawful (cv : Curve) (hs : cv.Sound) (sr : Bool) : (blockC cv sr).Lawful ∧ (blockC cv sr).Strict :=
  ⟨blockC_lawful cv hs sr, map_strict (seq_strict_left (headerC_strict sr)
    (array_lawful (txC_lawful cv hs) (txC_strict cv hs)))⟩

/-- C17 (state root): all laws. -/
theorem stateroot_lawful : stateRootC.Lawful := stateRootC_lawful

/-- C17 (extensible payload): all laws. -/
theorem extensible_lawful : extensibleC.Lawful := extensibleC_lawful


/-! ## stack items (count / size / nesting limits) -/

/-- C17 (stack item) roundtrip: every well-formed item with at most MaxDeserialized items decodes from its
serialisation (followed by anything) to itself. `wfB`: byte strings ≤ MaxSize, integers canonical and ≤ 32 bytes,
map keys primitive, ≤ MaxKeySize and pairwise different, no interop/pointer/nil. -/
theorem item_roundtrip (v : Item) (r : Bytes) (hw : Item.wfB false v = true)
    (hc : Item.count v ≤ WireLimits.stackMaxDeserialized) :
    Item.decode false (Item.enc v ++ r) = some (v, r) := by
  have h := Item.rt_all (Item.count v) v (Nat.le_refl _) hw (WireLimits.stackMaxDeserialized + 1)
    WireLimits.stackMaxDeserialized r hc (by omega) (by decide)
  simp only [Item.decode, h, Option.map_some]

/-- C17 (stack item, protected form used for execution results) roundtrip: the same with interop, pointer and nil
items allowed (`wfB true`). -/
theorem item_roundtrip_protected (v : Item) (r : Bytes) (hw : Item.wfB true v = true)
    (hc : Item.count v ≤ WireLimits.stackMaxDeserialized) :
    Item.decode true (Item.enc v ++ r) = some (v, r) := by
  have h := Item.rt_all (Item.count v) v (Nat.le_refl _) hw (WireLimits.stackMaxDeserialized + 1)
    WireLimits.stackMaxDeserialized r hc (by omega) (by decide)
  simp only [Item.decode, h, Option.map_some]

/-- C17 (stack item, protected form) whatever the protected decoder accepts is well-formed and its tree encoding
decodes to it (the real `EncodeBinaryProtected` writes a single InvalidT byte instead when the total exceeds
MaxSize: known finding item-reencode-fails). -/
theorem item_reencode_stable_protected (b : Bytes) (v : Item) (r : Bytes) (hd : Item.decode true b = some (v, r)) :
    Item.wfB true v = true ∧ Item.decode true (Item.enc v) = some (v, []) := by
  simp only [Item.decode, Option.map_eq_some_iff] at hd
  obtain ⟨⟨v', r', l'⟩, hdec, he⟩ := hd
  simp at he
  obtain ⟨e1, e2⟩ := he
  subst e1 e2
  have hw := Item.decItem_wf _ _ _ _ _ _ hdec
  have hg := Item.decItem_good true _ _ _ _ _ _ hdec
  have := item_roundtrip_protected v' [] hw (by omega)
  simp only [List.append_nil] at this
  exact ⟨hw, this⟩

/-- C17 (stack item) what `Serialize` produces is within both limits and is read back by `Deserialize`
(the limits of the two directions agree: MaxSerialized ≤ MaxDeserialized, regenerated). -/
theorem item_serialize_roundtrip (v : Item) (b r : Bytes) (hw : Item.wfB false v = true)
    (hs : Item.serialize false v = some b) :
    b.length ≤ WireLimits.stackMaxSize ∧ Item.count v ≤ WireLimits.stackMaxSerialized
      ∧ Item.decode false (b ++ r) = some (v, r) := by
  simp only [Item.serialize] at hs
  split at hs
  · simp at hs
  · split at hs
    · simp at hs
    · split at hs
      · simp at hs
      · rename_i h1 _ h3
        simp at hs
        subst hs
        have hle : WireLimits.stackMaxSerialized ≤ WireLimits.stackMaxDeserialized := by decide
        exact ⟨by omega, by omega, item_roundtrip v r hw (by omega)⟩

/-- C17 (stack item) reencode_stable: whatever the unprotected decoder accepts is well-formed; if the serialiser
accepts it (total size ≤ MaxSize — the decoder itself does not bound the total, see the known finding
`item-reencode-fails`), the re-encoding decodes to the same item with nothing left. -/
theorem item_reencode_stable (b : Bytes) (v : Item) (r e : Bytes) (hd : Item.decode false b = some (v, r))
    (hs : Item.serialize false v = some e) : Item.wfB false v = true ∧ Item.decode false e = some (v, []) := by
  simp only [Item.decode, Option.map_eq_some_iff] at hd
  obtain ⟨⟨v', r', l'⟩, hdec, he⟩ := hd
  simp at he
  obtain ⟨e1, e2⟩ := he
  subst e1 e2
  have hw := Item.decItem_wf _ _ _ _ _ _ hdec
  have := (item_serialize_roundtrip v' e [] hw hs).2.2
  simp only [List.append_nil] at this
  exact ⟨hw, this⟩

/-- C17 (stack item) decoders are bounded: for ANY input (protected form or not) an accepted item has at most
MaxDeserialized items in all (every array/map size was compared with what was left of the counter before the
elements were read), and decoding consumed input. -/
theorem item_dec_bounded (prot : Bool) (b : Bytes) (v : Item) (r : Bytes) (hd : Item.decode prot b = some (v, r)) :
    Item.count v ≤ WireLimits.stackMaxDeserialized ∧ r.length < b.length := by
  simp only [Item.decode, Option.map_eq_some_iff] at hd
  obtain ⟨⟨v', r', l'⟩, hdec, he⟩ := hd
  simp at he
  obtain ⟨e1, e2⟩ := he
  subst e1 e2
  have := Item.decItem_good prot _ _ _ _ _ _ hdec
  omega

-- non-vacuity: a nested item (array of a map and an integer) round-trips; 2049 nulls do not fit
example : Item.decode true (Item.enc (.array [.interop, .pointer 7, .invalid]) ++ [1]) = some (.array [.interop, .pointer 7, .invalid], [1]) :=
  item_roundtrip_protected _ _ (by decide) (by decide)
example : Item.decode false (Item.enc (.array [.map [(.int [5], .bool true)], .int [0x80, 0x00]]) ++ [7])
    = some (.array [.map [(.int [5], .bool true)], .int [0x80, 0x00]], [7]) :=
  item_roundtrip _ _ (by decide) (by decide)
set_option maxRecDepth 100000 in
example : Item.serialize false (.array (List.replicate 2048 .null)) = none := by decide

/-! ## MPT nodes -/

/-- C17 (MPT node) roundtrip: the encoding of a node within the caps (`Node.WF`) decodes to the node with its
children replaced by their references (`flatten`; the decoder also accepts children written inline, the encoder
never writes them) — for a node as the trie stores it (`flatten H v = v`) this is the exact round trip.
`H` = double SHA-256, of which only the output length is used. -/
theorem mpt_roundtrip (H : Bytes → Bytes) (h32 : ∀ x, (H x).length = 32) (v : Node) (hw : Node.WF v) (r : Bytes) :
    Node.decode (Node.enc H v ++ r) = some (Node.flatten H v, r) := Node.decode_enc H h32 v hw r

/-- C17 (MPT node) reencode_stable with the same hash: an accepted input gives a node within the caps; its
re-encoding decodes (to the flat form of the node), and bytes and hash of the flat form are those of the node. -/
theorem mpt_reencode_stable (H : Bytes → Bytes) (h32 : ∀ x, (H x).length = 32) (b : Bytes) (v : Node) (r : Bytes)
    (hd : Node.decode b = some (v, r)) :
    Node.WF v ∧ Node.decode (Node.enc H v) = some (Node.flatten H v, [])
      ∧ Node.enc H (Node.flatten H v) = Node.enc H v ∧ Node.hashOf H (Node.flatten H v) = Node.hashOf H v := by
  have hs := Node.decNode_spec _ _ _ _ _ hd
  have := Node.decode_enc H h32 v hs.2.1 []
  simp only [List.append_nil] at this
  exact ⟨hs.2.1, this, Node.enc_flatten H v, Node.hashOf_flatten H v⟩

/-- C17 (MPT node) decoding consumes input strictly (nesting is bounded by maxPathLength, every node costs at
least its type byte). -/
theorem mpt_dec_consumes (b : Bytes) (v : Node) (r : Bytes) (hd : Node.decode b = some (v, r)) :
    r.length < b.length := (Node.decNode_spec _ _ _ _ _ hd).1

-- non-vacuity: an extension node over a hash child round-trips exactly; nesting 137 deep is rejected
example : Node.decode (Node.enc (fun _ => List.replicate 32 0) (.ext [1, 2] (.hash (List.replicate 32 7))) ++ [9])
    = some (.ext [1, 2] (.hash (List.replicate 32 7)), [9]) := by
  have := mpt_roundtrip (fun _ => List.replicate 32 0) (by simp) (.ext [1, 2] (.hash (List.replicate 32 7)))
    ⟨by decide, by simp [Node.childOK]⟩ [9]
  simpa [Node.flatten, Node.asRef] using this

/-! ## NEF file -/

/-- C17 (NEF): all laws, for any checksum function `H` (roundtrip, size, re-encoding stability, allocation bound:
the token array is capped at nefMaxTokens, regenerated from the source). -/
theorem nef_lawful (H : Bytes → Bytes) : (nefC H).Lawful := nefC_lawful H

/-- C17 (NEF) an accepted file carries the checksum of the canonical encoding of its fields. -/
theorem nef_checksum (H : Bytes → Bytes) (b : Bytes) (n : Nef) (r : Bytes) (hd : (nefC H).dec b = some (n, r)) :
    n.checksum = checksumOf H (nefBodyC.enc n.body) := by
  have hw := (nefC_lawful H).dec_wf b n r hd
  have := hw.1.2
  simpa using this

/-! ## execution results: notification event, contract invocation, AppExecResult -/

/-- C17 (stack item as a field): all laws of one item with its own 2048-item counter, protected or not. -/
theorem item_codec_lawful (prot : Bool) : (itemC prot).Lawful ∧ (itemC prot).Strict :=
  ⟨itemC_lawful prot, itemC_strict prot⟩

/-- C17 (notification event): all laws; a Struct state on the wire is an Array in memory and re-encodes as one. -/
theorem notification_lawful : notificationC.Lawful ∧ notificationC.Strict :=
  ⟨notificationC_lawful, notificationC_strict⟩

/-- C17 (contract invocation): all laws. -/
theorem invocation_lawful : invocationC.Lawful ∧ invocationC.Strict := ⟨invocationC_lawful, invocationC_strict⟩

/-- C17 (AppExecResult): round trip, size, re-encoding stability (w.r.t. the tree encoding of the stack items) and
the generic allocation bound `alloc b ≤ allocK·|b| + allocC`. -/
theorem aer_lawful : aerC.Lawful := aerC_lawful

/-
alloc_bounded for AppExecResult with a SMALL constant (as for every other type: a cap-sized buffer) is FALSE on the
unchanged tree: Events and Invocations are read with ReadArray's default cap of io.MaxArraySize elements (known
finding aer-uncapped-array; 47 bytes make the real decoder allocate ~770 MB). The generic bound holds (aer_lawful),
but its constant is that of 16M slice elements:
-/
/-- C17 (AppExecResult) witness of the uncapped arrays: the constant of the allocation bound is at least
io.MaxArraySize × sizeof(NotificationEvent) (≥ 768 MiB). -/
theorem aer_alloc_constant_witness :
    aerC.allocC ≥ WireLimits.maxArraySize * WireLimits.slotNotificationEvent
      ∧ WireLimits.maxArraySize * WireLimits.slotNotificationEvent ≥ 768 * 2 ^ 20 := by
  refine ⟨?_, by decide⟩
  simp only [aerC, aerHeadC, map_allocC, bind_allocC, seq_allocC, array_allocC]
  simp only [Nat.max_def]
  split <;> split <;> split <;> split <;> split <;> split <;> split <;> omega

/-! ## dBFT messages and the consensus payload (`sr` = StateRootInHeader) -/

/-- C17 (ChangeView): all laws; the rejected hashes (reasons 3, 4) are capped by MaxTransactionsPerBlock. -/
theorem changeview_lawful : changeViewC.Lawful := changeViewC_lawful

/-- C17 (PrepareRequest, with or without the state root): all laws. -/
theorem preparerequest_lawful (sr : Bool) : (prepareRequestC sr).Lawful := prepareRequestC_lawful sr

/-- C17 (RecoveryMessage): all laws; the three compact arrays are capped at 255, the preparation is the embedded
PrepareRequest message (type 0x20), its hash, or absent. -/
theorem recovery_lawful (sr : Bool) : (recoveryC sr).Lawful := recoveryC_lawful sr

/-- C17 (dBFT message of any type): all laws and strict consumption. -/
theorem consensus_message_lawful (sr : Bool) : (consMsgC sr).Lawful ∧ (consMsgC sr).Strict :=
  ⟨consMsgC_lawful sr, consMsgC_strict sr⟩

/-- C17 (dBFT message) allocation constants from the regenerated caps: per input byte at most one compact-payload
slot, constant at most MaxTransactionsPerBlock hashes (2 MiB). -/
theorem consensus_alloc_constants (sr : Bool) :
    (consMsgC sr).allocK ≤ 128 ∧ (consMsgC sr).allocC ≤ 4 * 2 ^ 20 := by
  simp only [consMsgC, map, Codec.bind, msgHeaderC, seq_allocK, seq_allocC, byte, uintLE, consK, consCap]
  constructor <;> decide

/-- C17 (consensus payload): an Extensible whose Data decodes as a dBFT message: all laws. -/
theorem consensus_payload_lawful (sr : Bool) : (consPayloadC sr).Lawful := consPayloadC_lawful sr

-- non-vacuity: a Commit message round-trips; a recovery message whose embedded message is not a PrepareRequest is rejected
example : (consMsgC false).dec ((consMsgC false).enc ⟨⟨0x30, 5, 1, 0⟩, .commit (List.replicate 64 7)⟩ ++ [9])
    = some (⟨⟨0x30, 5, 1, 0⟩, .commit (List.replicate 64 7)⟩, [9]) := by rfl
example : (consMsgC false).dec ([0x41, 5, 0, 0, 0, 1, 0, 0, 1, 0x21, 5, 0, 0, 0, 1, 0] ++ List.replicate 40 0) = none := by rfl

/-! ## P2P payloads, notary request, message framing -/

/-- C17 (P2P payloads): all laws for Ping, GetBlocks, GetBlockByIndex, Inventory, MPTInventory, MPTData, Headers,
Capability list, Version, AddressList and MerkleBlock (caps from the regenerated table; MerkleBlock as fixed by
6ed1937: the tx count is compared as an unsigned number and then caps hashes and flags). -/
theorem p2p_payloads_lawful (sr : Bool) :
    pingC.Lawful ∧ getBlocksC.Lawful ∧ getBlockByIndexC.Lawful ∧ inventoryC.Lawful ∧ mptInventoryC.Lawful
      ∧ mptDataC.Lawful ∧ (headersC sr).Lawful ∧ capabilitiesC.Lawful ∧ versionC.Lawful ∧ addressListC.Lawful
      ∧ merkleBlockC.Lawful :=
  ⟨pingC_lawful, getBlocksC_lawful, getBlockByIndexC_lawful, inventoryC_lawful, mptInventoryC_lawful,
    mptDataC_lawful, headersC_lawful sr, capabilitiesC_lawful, versionC_lawful, addressListC_lawful, merkleBlockC_lawful⟩

/-- C17 (MerkleBlock) for EVERY input the hash slice allocated is at most MaxTransactionsPerBlock elements
(the sign bug fixed by 6ed1937 made this unbounded). -/
theorem merkleblock_alloc_bounded (b : Bytes) :
    merkleBlockC.alloc b ≤ merkleBlockC.allocK * b.length + merkleBlockC.allocC
      ∧ merkleBlockC.allocC ≤ 4 * 2 ^ 20 := by
  refine ⟨merkleBlockC_lawful.alloc_le b, ?_⟩
  simp only [merkleBlockC, map, Codec.bind, seq_allocC, headerC, headerHashableC, refine, varUint, witnessC, uintLE, fixed,
    byte, varBytes, merkleCap]
  decide

/-- C17 (P2P notary request): all laws; `H` hashes the signed part of the main transaction (the Conflicts attribute
of the fallback must carry it). -/
theorem notaryrequest_lawful (H : Bytes → Bytes) (cv : Curve) (hs : cv.Sound) :
    (notaryRequestC H cv).Lawful ∧ (notaryRequestC H cv).Strict :=
  ⟨notaryRequestC_lawful H cv hs, notaryRequestC_strict H cv hs⟩

/-- C17 (message frame): flags, command, payload bytes capped by payload.MaxSize (empty only for the four
payload-less commands): all laws, strict consumption. -/
theorem frame_lawful : frameC.Lawful ∧ frameC.Strict := ⟨frameC_lawful, frameC_strict⟩

/-- C17 (P2P message) a fresh message of any command round-trips through frame, compression and the payload decoder
the command selects — given an inverse compression pair (abstract; the real LZ4 pair is tie/oracle-only and violates
the hypothesis on amd64, known finding message-lz4-roundtrip). -/
theorem p2p_message_roundtrip (compress : Bytes → Bytes) (decompress : Bytes → Option Bytes) (compressible : UInt8 → Bool)
    (hinv : ∀ x, decompress (compress x) = some x) (H : Bytes → Bytes) (cv : Curve) (hs : cv.Sound) (sr : Bool)
    (cmd : UInt8) (p : P2PPayload) (r : Bytes) (hc : cmdOk cmd p) (hw : payloadWf H cv sr p)
    (hnull : payloadEnc H cv sr p = [] → p = .null)
    (hsz : (payloadEnc H cv sr p).length ≤ WireLimits.payloadMaxSize)
    (hcz : (compress (payloadEnc H cv sr p)).length ≤ WireLimits.payloadMaxSize ∧ compress (payloadEnc H cv sr p) ≠ []) :
    messageDec decompress H cv sr (messageEnc compress compressible H cv sr cmd p ++ r) = some (cmd, p, r) :=
  message_roundtrip compress decompress compressible hinv H cv hs sr cmd p r hc hw hnull hsz hcz

-- non-vacuity: a Ping message (command 0x18) through the identity "compression"
example : messageDec some id anyCurve false (messageEnc id (fun _ => true) id anyCurve false 0x18 (.ping ⟨1, 2, 3⟩) ++ [9])
    = some (0x18, .ping ⟨1, 2, 3⟩, [9]) := by rfl

end NeoModel.Wire
